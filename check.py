#!/usr/bin/env python3
"""Runner for the /verif model-checking harnesses.

  check.py <ID> quick|thorough     run one property check against /repo's working tree
  check.py replay <replay.json>    re-run exactly one recorded violating case
  check.py setup                   pre-build every harness package (MANIFEST.setup_cmd)
  check.py overlay                 only regenerate build/overlay.json

Exit 0: property held on everything explored (KNOWN-FINDING lines possible)
Exit 1: at least one violation not listed in known_findings.json (VIOLATION lines)
Exit 2: the tree under test does not build with the harness overlay / tool error
"""
import hashlib
import json
import os
import re
import shutil
import subprocess
import sys
import time

VERIF = os.path.dirname(os.path.abspath(__file__))
REPO = os.environ.get("VERIF_REPO", "/repo")
BUILD = os.path.join(VERIF, "build") if REPO == "/repo" else os.path.join(VERIF, "build", "alt-" + hashlib.sha1(REPO.encode()).hexdigest()[:8])
SHIMROOT = "internal/verifshim"
MOD = "github.com/sourcegraph/zoekt"

# files whose imports are re-pointed at explorer-owned shims: (file, {import path: (alias, shim pkg)})
REWRITES = {
    "search/sched.go": {"golang.org/x/sync/semaphore": ("semaphore", "vsema"), "time": ("time", "vtime"), "?sync": ("sync", "vsync"), "?sync/atomic": ("atomic", "vatomic")},
    "cmd/zoekt-sourcegraph-indexserver/index_mutex.go": {"?sync": ("sync", "vsync"), "?sync/atomic": ("atomic", "vatomic")},
}
try:
    with open(os.path.join(VERIF, "rewrites.json")) as f:
        for k, v in json.load(f).items():
            REWRITES.setdefault(k, {}).update({ik: (iv if ik.startswith("@") else tuple(iv)) for ik, iv in v.items()})
except FileNotFoundError:
    pass

VIRTUAL_PKGS = {  # dir under /verif -> package dir under /repo/internal/verifshim
    "engine/mc": "mc",
    "shim/vsync": "vsync",
    "shim/vsema": "vsema",
    "shim/vtime": "vtime",
    "shim/vos": "vos",
    "shim/vatomic": "vatomic",
    "ref": "ref",
    "gen": "gen",
}


def goenv():
    env = dict(os.environ)
    env["GOFLAGS"] = "-mod=mod"
    env["GOPROXY"] = "off"
    env.pop("GOTOOLCHAIN", None)
    env.pop("GOSUMDB", None)
    env.setdefault("GOCACHE", os.path.expanduser("~/.cache/go-build"))
    return env


def checks():
    with open(os.path.join(VERIF, "checks.json")) as f:
        return json.load(f)


def rewrite_imports(src, mapping, relpath):
    out = src
    # "@insert_before": [[anchor regex (one whole line), line to insert], ...] adds build-time hook
    # calls (the hook function lives in an overlay-only file of the package)
    for anchor, line in mapping.get("@insert_before", []):
        pat = re.compile(anchor, re.M)
        if len(pat.findall(out)) != 1:
            raise SystemExit2("rewrite: anchor %r does not occur exactly once in %s" % (anchor, relpath))
        out = pat.sub(lambda m: line + "\n" + m.group(0), out, count=1)
    for imp, (alias, shim) in mapping.items():
        if imp.startswith("@"):
            continue
        optional = imp.startswith("?")  # "?path": rewrite the import only if the file has it
        imp = imp.lstrip("?")
        pat = re.compile(r'^(\s*)(?:[A-Za-z_][A-Za-z0-9_]*\s+)?"' + re.escape(imp) + r'"\s*$', re.M)
        new, n = pat.subn(lambda m: '%s%s "%s/%s/%s"' % (m.group(1), alias, MOD, SHIMROOT, shim), out, count=1)
        if n != 1:
            # single-line import form
            pat2 = re.compile(r'^import\s+"' + re.escape(imp) + r'"\s*$', re.M)
            new, n = pat2.subn('import %s "%s/%s/%s"' % (alias, MOD, SHIMROOT, shim), out, count=1)
        if n != 1:
            if optional:
                continue
            raise SystemExit2("rewrite: import %r not found in %s" % (imp, relpath))
        out = new
    return out


class SystemExit2(Exception):
    pass


def make_overlay():
    os.makedirs(BUILD, exist_ok=True)
    replace = {}
    for d, pkg in VIRTUAL_PKGS.items():
        src = os.path.join(VERIF, d)
        if not os.path.isdir(src):
            continue
        for fn in sorted(os.listdir(src)):
            if fn.endswith(".go"):
                replace[os.path.join(REPO, SHIMROOT, pkg, fn)] = os.path.join(src, fn)
    hroot = os.path.join(VERIF, "harness")
    for dirpath, _, files in os.walk(hroot):
        rel = os.path.relpath(dirpath, hroot)
        pkgdir = "" if rel in (".", "_root") else rel
        for fn in sorted(files):
            if fn.endswith(".go"):
                replace[os.path.join(REPO, pkgdir, "zz_verif_" + fn)] = os.path.join(dirpath, fn)
    rwdir = os.path.join(BUILD, "rewritten")
    os.makedirs(rwdir, exist_ok=True)
    for rel, mapping in REWRITES.items():
        srcp = os.path.join(REPO, rel)
        if not os.path.exists(srcp):
            raise SystemExit2("rewrite: %s does not exist" % srcp)
        with open(srcp) as f:
            src = f.read()
        out = rewrite_imports(src, mapping, rel)
        dst = os.path.join(rwdir, rel.replace("/", "__"))
        old = None
        if os.path.exists(dst):
            with open(dst) as f:
                old = f.read()
        if old != out:
            with open(dst, "w") as f:
                f.write(out)
        replace[srcp] = dst
    ov = os.path.join(BUILD, "overlay.json")
    data = json.dumps({"Replace": replace}, indent=1, sort_keys=True)
    old = None
    if os.path.exists(ov):
        with open(ov) as f:
            old = f.read()
    if old != data:
        with open(ov, "w") as f:
            f.write(data)
    return ov


def known_findings():
    p = os.path.join(VERIF, "known_findings.json")
    if not os.path.exists(p):
        return []
    with open(p) as f:
        return json.load(f).get("findings", [])


WB_FALLBACK = []  # (pkg, test) runs that had to drop the white-box fast paths


def go_test(ov, pkg, test, env, timeout_s, extra_args=()):
    # verif_wb enables optional white-box fast paths of the harnesses (files that call unexported
    # helpers only for speed). If the tree was refactored so that they no longer compile, the build is
    # retried without them: every such file has a !verif_wb twin that uses the ordinary entry points.
    for tags in ("verif,verif_wb", "verif"):
        cmd = ["go", "test", "-tags", tags, "-overlay", ov, "-vet=off", "-count=1",
               "-timeout", "%ds" % timeout_s, "-run", "^%s$" % test, *extra_args, pkg]
        p = subprocess.run(cmd, cwd=REPO, env=env, stdout=subprocess.PIPE, stderr=subprocess.STDOUT, text=True)
        if tags == "verif" or "[build failed]" not in p.stdout:
            break
        WB_FALLBACK.append((pkg, test))
        sys.stderr.write("note: %s does not build with the white-box fast paths (verif_wb); retrying without them\n" % pkg)
    return p


def crash_in_tree(log):
    """If the harness process died of a Go panic / fatal error whose innermost non-runtime frame is code of
    the tree under test (not a harness file, not a shim), return (what, frame); else None."""
    m = re.search(r"^(panic: .*|fatal error: .*)$", log, re.M)
    if not m:
        return None
    what = m.group(1)[:200]
    rest = log[m.end():]
    g = re.search(r"^goroutine \d+ [^\n]*\[running\]:\n", rest, re.M)
    if not g:
        return None
    frames = re.findall(r"^\t(\S+\.go):(\d+)", rest[g.end():].split("\n\n", 1)[0], re.M)
    for path, line in frames:
        if "/go/pkg/mod/" in path or "/src/runtime/" in path or "/src/testing/" in path or path.startswith("/usr/") or "/toolchain@" in path:
            continue
        base = os.path.basename(path)
        if base.startswith("zz_verif_") or "/internal/verifshim/" in path:
            return None  # innermost tree frame is harness or shim code: a tool problem
        if path.startswith(REPO + "/"):
            return what, "%s:%s" % (os.path.relpath(path, REPO), line)
        return None
    return None


def run_check(pid, tier, replay_case=None, quiet=False):
    cfg = checks()[pid]
    t0 = time.time()
    try:
        ov = make_overlay()
    except SystemExit2 as e:
        print("BUILD-BROKEN:", e)
        return 2
    env = goenv()
    env["VERIF_TIER"] = tier
    env.setdefault("VERIF_SEED", "0")
    outdir = os.path.join(BUILD, "out")
    os.makedirs(outdir, exist_ok=True)
    out = os.path.join(outdir, "%s.%s.%d.json" % (pid, tier, os.getpid()))
    if os.path.exists(out):
        os.remove(out)
    env["VERIF_OUT"] = out
    env["VERIF_DIR"] = VERIF
    if replay_case is not None:
        env["VERIF_REPLAY_CASE"] = replay_case
    for k, v in cfg.get("env", {}).items():
        env.setdefault(k, str(v))
    if tier == "thorough":
        for k, v in cfg.get("env_thorough", {}).items():
            env[k] = str(v)
    budget = float(env.get("VERIF_BUDGET_S", cfg.get("budget_" + tier, 900 if tier == "thorough" else 100)))
    env["VERIF_BUDGET_S"] = str(budget)
    test = cfg.get("test", "TestVerif" + pid)
    # the go test deadline is only a backstop far beyond the internal budget
    p = go_test(ov, cfg["pkg"], test, env, int(budget * 4 + 1800))
    log = p.stdout
    logp = os.path.join(outdir, "%s.%s.log" % (pid, tier))
    with open(logp, "w") as f:
        f.write(log)
    if not os.path.exists(out):
        if "[build failed]" in log or "[setup failed]" in log or re.search(r"^# ", log, re.M):
            print(log[-4000:])
            print("BUILD-BROKEN: %s does not build with the verif overlay (see %s)" % (cfg["pkg"], logp))
            return 2
        # the harness died without writing a report. If the process died of a panic whose innermost frame
        # outside the Go runtime lies in the tree under test, the code under test crashed on an enumerated
        # case (every property implies "does not crash"): that is reported as a violation with the log as
        # replay. Anything else (harness bug, os.Exit, timeout, kill) stays a tool error.
        print(log[-6000:])
        cr = crash_in_tree(log)
        if cr is not None and replay_case is None:
            rdir = os.path.join(VERIF, "replays", pid) if REPO == "/repo" else os.path.join(BUILD, "replays-scratch", pid)
            os.makedirs(rdir, exist_ok=True)
            key = "the harness process died inside the tree under test: %s at %s" % cr
            rp = os.path.join(rdir, hashlib.sha1(key.encode()).hexdigest()[:12] + ".json")
            with open(rp, "w") as f:
                json.dump({"property": pid, "tier": tier, "key": key, "detail": log[-8000:], "replay": {"case": ""}}, f, indent=1)
            print("  detail: " + key)
            print("VIOLATION property=%s replay=%s" % (pid, rp))
            return 1
        print("TOOL-ERROR: harness for %s produced no report (see %s)" % (pid, logp))
        return 2
    with open(out) as f:
        rep = json.load(f)
    os.remove(out)
    # additional parts of the same property living in other packages: their reports are merged
    for part in cfg.get("parts", []):
        env2 = dict(env)
        out2 = out + "." + part["test"]
        env2["VERIF_OUT"] = out2
        p2 = go_test(ov, part["pkg"], part["test"], env2, int(budget * 4 + 1800))
        with open(os.path.join(outdir, "%s.%s.%s.log" % (pid, tier, part["test"])), "w") as f:
            f.write(p2.stdout)
        if not os.path.exists(out2):
            print(p2.stdout[-4000:])
            cr = crash_in_tree(p2.stdout)
            if cr is not None and replay_case is None:
                rdir = os.path.join(VERIF, "replays", pid) if REPO == "/repo" else os.path.join(BUILD, "replays-scratch", pid)
                os.makedirs(rdir, exist_ok=True)
                key = "the harness process (%s) died inside the tree under test: %s at %s" % ((part["test"],) + cr)
                rp = os.path.join(rdir, hashlib.sha1(key.encode()).hexdigest()[:12] + ".json")
                with open(rp, "w") as f:
                    json.dump({"property": pid, "tier": tier, "key": key, "detail": p2.stdout[-8000:], "replay": {"case": ""}}, f, indent=1)
                print("  detail: " + key)
                print("VIOLATION property=%s replay=%s" % (pid, rp))
                return 1
            bb = "[build failed]" in p2.stdout or "[setup failed]" in p2.stdout
            print(("BUILD-BROKEN" if bb else "TOOL-ERROR") + ": part %s of %s produced no report" % (part["test"], pid))
            return 2
        with open(out2) as f:
            rep2 = json.load(f)
        os.remove(out2)
        c1, c2 = rep["coverage"], rep2["coverage"]
        for k, v in c2.items():
            if isinstance(v, bool):
                c1[k] = c1.get(k, True) and v
            elif isinstance(v, (int, float)) and isinstance(c1.get(k, 0), (int, float)):
                c1[k] = c1.get(k, 0) + v
            elif isinstance(v, list):
                c1[k] = (c1.get(k) or []) + v
            elif k == "rule":
                c1[k] = c1.get(k, "") + " || " + part["test"] + ": " + v
            else:
                c1.setdefault(k, v)
        rep["violations_list"] = (rep.get("violations_list") or []) + (rep2.get("violations_list") or [])
        rep["assumptions"] = (rep.get("assumptions") or []) + (rep2.get("assumptions") or [])
    known = [k for k in known_findings() if k.get("property") == pid and k.get("status", "known") == "known"]
    unlisted = []
    listed = {}
    matched = {}
    rdir = os.path.join(VERIF, "replays", pid) if REPO == "/repo" else os.path.join(BUILD, "replays-scratch", pid)
    for v in rep.get("violations_list") or []:
        hit = None
        for k in known:
            if k["key"] == v["key"] or v["key"] in k.get("keys", ()) or (k.get("key_regex") and re.fullmatch(k["key_regex"], v["key"])):
                hit = k
                break
        if hit is not None:
            listed.setdefault(hit["key"], hit)
            matched.setdefault(hit["key"], []).append(v["key"])
            continue
        os.makedirs(rdir, exist_ok=True)
        h = hashlib.sha1(v["key"].encode()).hexdigest()[:12]
        rp = os.path.join(rdir, h + ".json")
        with open(rp, "w") as f:
            json.dump({"property": pid, "tier": tier, "key": v["key"], "detail": v["detail"], "replay": v["replay"]}, f, indent=1)
        unlisted.append((v, rp))
    cov = rep["coverage"]
    # auxiliary free-running pass under the race detector (thorough tier, or VERIF_RACE=1)
    if cfg.get("race_test") and replay_case is None and (tier == "thorough" or cfg.get("race_quick") or os.environ.get("VERIF_RACE") == "1"):
        renv = dict(env)
        renv.pop("VERIF_OUT", None)
        pr = go_test(ov, cfg["pkg"], cfg["race_test"], renv, 1800, extra_args=("-race",))
        races = pr.stdout.count("WARNING: DATA RACE")
        with open(os.path.join(outdir, "%s.race.log" % pid), "w") as f:
            f.write(pr.stdout)
        cov["race_pass"] = {"test": cfg["race_test"], "ran": True, "data_races": races,
                            "ok": pr.returncode == 0, "note": "free-running -race run of the same bodies; auxiliary, not exhaustive"}
        if races or pr.returncode != 0:
            m = re.search(r"WARNING: DATA RACE\n(.*?\n.*?\n.*?\n)", pr.stdout, re.S)
            first = (m.group(1) if m else pr.stdout[-600:]).strip()
            frames = re.findall(r"^  ([\w./()*-]+)\(\)", pr.stdout, re.M)[:2]
            key = "data race under -race: " + " <- ".join(frames) if races else "race pass failed: " + first[:120]
            rp = os.path.join(VERIF, "replays", pid) if REPO == "/repo" else os.path.join(BUILD, "replays-scratch", pid)
            os.makedirs(rp, exist_ok=True)
            rpf = os.path.join(rp, "race.json")
            with open(rpf, "w") as f:
                json.dump({"property": pid, "tier": tier, "key": key, "detail": pr.stdout[-6000:], "replay": {"case": ""}}, f, indent=1)
            if not any(k["key"] == key for k in known):
                unlisted.append(({"key": key, "detail": pr.stdout[-3000:]}, rpf))
    level = cfg["category"]
    ev = {
        "property_id": pid,
        "tier": tier,
        "seed": int(rep.get("seed", 0)),
        "level": level,
        "coverage": cov,
        "assumptions": rep.get("assumptions") or [],
        "wall_s": round(time.time() - t0, 3),
        "violations": len(unlisted),
        "known_findings_seen": sorted(listed.keys()),
        "known_finding_matches": {k: sorted(v) for k, v in matched.items()},
    }
    if WB_FALLBACK:
        cov.setdefault("notes", []).append("white-box fast paths (build tag verif_wb) did not compile against this tree; ran through the ordinary entry points: %s" % sorted(set(WB_FALLBACK)))
    if replay_case is None and REPO == "/repo":
        os.makedirs(os.path.join(VERIF, "evidence"), exist_ok=True)
        with open(os.path.join(VERIF, "evidence", pid + ".json"), "w") as f:
            json.dump(ev, f, indent=1, sort_keys=True)
            f.write("\n")
    if not quiet:
        c = {k: cov.get(k) for k in ("evaluations", "distinct_nontrivial", "states", "transitions", "exhaustive") if k in cov}
        print("%s %s: %s wall=%.1fs" % (pid, tier, json.dumps(c), time.time() - t0))
        for n in cov.get("notes", [])[:10]:
            print("  note:", n)
    for k in listed.values():
        print("KNOWN-FINDING: property=%s %s" % (pid, k.get("what", k["key"])))
    tool = [v for v, _ in unlisted if "TOOL:" in v["key"]]
    for i, (v, rp) in enumerate(unlisted):
        if i < 3:
            print("  detail:", v["detail"][:3000].replace("\n", "\n    "))
        if v in tool:
            print("TOOL-ERROR property=%s %s" % (pid, v["key"][:300]))
        else:
            print("VIOLATION property=%s replay=%s" % (pid, rp))
    if tool:
        return 2
    return 1 if unlisted else 0


def setup():
    try:
        ov = make_overlay()
    except SystemExit2 as e:
        print("BUILD-BROKEN:", e)
        return 2
    env = goenv()
    pkgs = sorted({c["pkg"] for c in checks().values()} | {p["pkg"] for c in checks().values() for p in c.get("parts", [])})
    cmd = ["go", "test", "-tags", "verif,verif_wb", "-overlay", ov, "-vet=off", "-count=1", "-run", "^$", *pkgs]
    p = subprocess.run(cmd, cwd=REPO, env=env)
    return 0 if p.returncode == 0 else 2


def main(argv):
    if len(argv) >= 2 and argv[1] == "setup":
        return setup()
    if len(argv) >= 2 and argv[1] == "overlay":
        print(make_overlay())
        return 0
    if len(argv) == 3 and argv[1] == "replay":
        with open(argv[2]) as f:
            r = json.load(f)
        rc = None
        if isinstance(r.get("replay"), dict):
            rc = r["replay"].get("case")
            for k, v in (r["replay"].get("env") or {}).items():  # e.g. VERIF_REPLAY_PFOR of a watchdog abort
                os.environ[k] = str(v)
        if rc is None:
            rc = r["key"]
        return run_check(r["property"], r.get("tier", "quick"), replay_case=rc)
    if len(argv) == 3 and argv[2] in ("quick", "thorough"):
        return run_check(argv[1], argv[2])
    print(__doc__)
    return 2


if __name__ == "__main__":
    sys.exit(main(sys.argv))
