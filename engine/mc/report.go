package mc

import (
	"encoding/json"
	"fmt"
	"hash/fnv"
	"os"
	"runtime"
	"sort"
	"strconv"
	"strings"
	"sync"
	"sync/atomic"
	"time"
)

// Violation is one failing case, identified by a stable key.
type Violation struct {
	Key    string `json:"key"`    // stable identity used by known_findings.json
	Detail string `json:"detail"` // human readable
	Replay any    `json:"replay"` // whatever the harness needs to re-run exactly this case
}

// Report collects measured coverage and violations of one check run and
// writes them where check.py expects them.
type Report struct {
	ID    string
	Tier  string
	Seed  int64
	start time.Time
	limit time.Time

	mu         sync.Mutex
	evals      atomic.Int64
	nontrivial map[uint64]struct{}
	samples    []any
	extra      map[string]any
	viol       []Violation
	violKeys   map[string]bool
	assume     []string
	exhaustive bool
	notes      []string
	replayCase string
	done       chan struct{}
	finished   bool

	ownMemLimit atomic.Int64 // MiB, set by SetMemLimitMB
}

// SetMemLimitMB lets a harness whose own memory footprint is small and known put a tight limit on
// the live heap of its process: exceeding it (after a forced collection) aborts the exploration with
// a violation that names the ParallelFor indices in flight.
func (r *Report) SetMemLimitMB(mb int) { r.ownMemLimit.Store(int64(mb)) }

// NewReport reads VERIF_TIER, VERIF_SEED, VERIF_BUDGET_S, VERIF_REPLAY_CASE.
func NewReport(id string) *Report {
	r := &Report{ID: id, Tier: os.Getenv("VERIF_TIER"), start: time.Now(), nontrivial: map[uint64]struct{}{},
		extra: map[string]any{}, violKeys: map[string]bool{}, exhaustive: true}
	if r.Tier == "" {
		r.Tier = "quick"
	}
	r.Seed, _ = strconv.ParseInt(os.Getenv("VERIF_SEED"), 10, 64)
	budget := 100.0
	if r.Tier == "thorough" {
		budget = 900
	}
	if b, err := strconv.ParseFloat(os.Getenv("VERIF_BUDGET_S"), 64); err == nil && b > 0 {
		budget = b
	}
	r.limit = r.start.Add(time.Duration(budget * float64(time.Second)))
	r.replayCase = os.Getenv("VERIF_REPLAY_CASE")
	r.done = make(chan struct{})
	if os.Getenv("VERIF_NO_WATCHDOG") == "" {
		go r.watchdog()
	}
	return r
}

// Thorough reports the tier.
func (r *Report) Thorough() bool { return r.Tier == "thorough" }

// Expired reports whether the exploration budget is used up. A harness that
// stops because of it must call Incomplete.
func (r *Report) Expired() bool { return time.Now().After(r.limit) }

// Incomplete marks the run as not exhaustive and says what was cut.
func (r *Report) Incomplete(format string, a ...any) {
	r.mu.Lock()
	defer r.mu.Unlock()
	r.exhaustive = false
	if len(r.notes) < 20 {
		r.notes = append(r.notes, fmt.Sprintf(format, a...))
	}
}

// Note adds a free-text remark to the evidence.
func (r *Report) Note(format string, a ...any) {
	r.mu.Lock()
	defer r.mu.Unlock()
	if len(r.notes) < 40 {
		r.notes = append(r.notes, fmt.Sprintf(format, a...))
	}
}

// Want is used for replays: with VERIF_REPLAY_CASE set, only that case runs.
func (r *Report) Want(caseID string) bool { return r.replayCase == "" || r.replayCase == caseID }

// Replaying reports whether a single case is being replayed.
func (r *Report) Replaying() bool { return r.replayCase != "" }

// Eval counts n executed cases.
func (r *Report) Eval(n int) { r.evals.Add(int64(n)) }

// Evals returns the count so far.
func (r *Report) Evals() int64 { return r.evals.Load() }

// Nontrivial records a distinct non-trivial case by key.
func (r *Report) Nontrivial(key string) {
	h := fnv.New64a()
	h.Write([]byte(key))
	k := h.Sum64()
	r.mu.Lock()
	r.nontrivial[k] = struct{}{}
	r.mu.Unlock()
}

// Sample keeps the first few cases written out.
func (r *Report) Sample(v any) {
	r.mu.Lock()
	if len(r.samples) < 6 {
		r.samples = append(r.samples, v)
	}
	r.mu.Unlock()
}

// Set stores an extra coverage key (states, transitions, bound, ...).
func (r *Report) Set(k string, v any) {
	r.mu.Lock()
	r.extra[k] = v
	r.mu.Unlock()
}

// Add adds to an integer coverage key.
func (r *Report) Add(k string, n int) {
	r.mu.Lock()
	cur, _ := r.extra[k].(int)
	r.extra[k] = cur + n
	r.mu.Unlock()
}

// Assume records an assumption / trusted component.
func (r *Report) Assume(s string) {
	r.mu.Lock()
	r.assume = append(r.assume, s)
	r.mu.Unlock()
}

// Violation records a failing case (deduplicated by key, first 50 kept).
func (r *Report) Violation(key, detail string, replay any) {
	r.mu.Lock()
	defer r.mu.Unlock()
	if r.violKeys[key] {
		return
	}
	r.violKeys[key] = true
	if len(detail) > 6000 {
		detail = detail[:6000] + "…"
	}
	if len(r.viol) < 400 {
		r.viol = append(r.viol, Violation{Key: key, Detail: detail, Replay: replay})
	}
}

// NumViolations returns the number of distinct violation keys.
func (r *Report) NumViolations() int {
	r.mu.Lock()
	defer r.mu.Unlock()
	return len(r.violKeys)
}

// Finish writes the JSON report to $VERIF_OUT (or stdout).
func (r *Report) Finish(rule string) { r.finish(rule) }

func (r *Report) finish(rule string) {
	r.mu.Lock()
	defer r.mu.Unlock()
	if r.finished {
		return
	}
	r.finished = true
	close(r.done)
	cov := map[string]any{}
	for k, v := range r.extra {
		cov[k] = v
	}
	cov["evaluations"] = r.evals.Load()
	cov["distinct_nontrivial"] = len(r.nontrivial)
	cov["rule"] = rule
	cov["samples"] = r.samples
	cov["exhaustive"] = r.exhaustive
	if len(r.notes) > 0 {
		cov["notes"] = r.notes
	}
	sort.Slice(r.viol, func(i, j int) bool { return r.viol[i].Key < r.viol[j].Key })
	out := map[string]any{
		"property_id":     r.ID,
		"tier":            r.Tier,
		"seed":            r.Seed,
		"coverage":        cov,
		"assumptions":     r.assume,
		"wall_s":          time.Since(r.start).Seconds(),
		"violations_list": r.viol,
		"violations":      len(r.violKeys),
	}
	b, err := json.MarshalIndent(out, "", " ")
	if err != nil {
		panic(err)
	}
	if p := os.Getenv("VERIF_OUT"); p != "" {
		if err := os.WriteFile(p, b, 0o644); err != nil {
			panic(err)
		}
	} else {
		os.Stdout.Write(b)
	}
}

// ParallelFor runs f(i) for i in [0,n) on VERIF_PROCS (default NumCPU) goroutines.
//
// Every call is numbered (k-th call of the process) and the index each worker is executing is
// visible to the resource watchdog, so that an exploration that exhausts memory or stops making
// progress can name the case in flight. VERIF_REPLAY_PFOR="k:i" restricts the k-th call to index i.
func ParallelFor(n int, f func(i int)) {
	k := int(pforCalls.Add(1))
	only := -1
	if v := os.Getenv("VERIF_REPLAY_PFOR"); v != "" {
		var rk, ri int
		if _, err := fmt.Sscanf(v, "%d:%d", &rk, &ri); err == nil && rk == k {
			only = ri
		}
	}
	p := runtime.NumCPU()
	if v, err := strconv.Atoi(os.Getenv("VERIF_PROCS")); err == nil && v > 0 {
		p = v
	}
	if p > n {
		p = n
	}
	if p < 1 {
		p = 1
	}
	slots := make([]*pforSlot, p)
	for w := range slots {
		slots[w] = &pforSlot{call: k}
		slots[w].idx.Store(-1)
	}
	pforMu.Lock()
	pforLive[k] = slots
	pforMu.Unlock()
	defer func() {
		pforMu.Lock()
		delete(pforLive, k)
		pforMu.Unlock()
	}()
	run := func(w, i int) {
		if only >= 0 && i != only {
			return
		}
		sl := slots[w]
		sl.since.Store(time.Now().UnixNano())
		sl.idx.Store(int64(i))
		f(i)
		sl.idx.Store(-1)
		progress.Add(1)
	}
	if p <= 1 {
		for i := 0; i < n; i++ {
			run(0, i)
		}
		return
	}
	var next atomic.Int64
	var wg sync.WaitGroup
	for w := 0; w < p; w++ {
		wg.Add(1)
		go func(w int) {
			defer wg.Done()
			for {
				i := int(next.Add(1) - 1)
				if i >= n {
					return
				}
				run(w, i)
			}
		}(w)
	}
	wg.Wait()
}

type pforSlot struct {
	call  int
	idx   atomic.Int64 // -1: idle
	since atomic.Int64
}

var (
	pforCalls atomic.Int64
	pforMu    sync.Mutex
	pforLive  = map[int][]*pforSlot{}
	progress  atomic.Int64 // finished cases, scheduler executions, Eval calls
)

// Progress tells the watchdog that the exploration is alive (called by the explorers).
func Progress() { progress.Add(1) }

// watchdog turns "the exploration exhausts memory" and "the exploration stopped making progress"
// into a reported violation that names the cases in flight, instead of a killed process without
// a report. Limits are far away from anything the harnesses need on the unchanged tree:
// VERIF_MEM_LIMIT_MB (default 40960, three consecutive samples) of live Go heap (measured after a forced collection), VERIF_STALL_S (default 2400) without a
// finished case, scheduler execution or Eval while a ParallelFor index is in flight.
func (r *Report) watchdog() {
	memLimit := uint64(40960) << 20
	if v, err := strconv.ParseUint(os.Getenv("VERIF_MEM_LIMIT_MB"), 10, 64); err == nil && v > 0 {
		memLimit = v << 20
	}
	stall := 2400 * time.Second
	if v, err := strconv.ParseFloat(os.Getenv("VERIF_STALL_S"), 64); err == nil && v > 0 {
		stall = time.Duration(v * float64(time.Second))
	}
	last, lastChange := progress.Load(), time.Now()
	overLimit := 0
	need := 3
	var ms runtime.MemStats
	for {
		select {
		case <-r.done:
			return
		case <-time.After(time.Second):
		}
		if p := progress.Load() + r.evals.Load(); p != last {
			last, lastChange = p, time.Now()
		}
		if own := r.ownMemLimit.Load(); own > 0 {
			// the harness knows its own footprint: its limit is believed at the first reading
			memLimit, need = uint64(own)<<20, 1
		}
		runtime.ReadMemStats(&ms)
		if ms.HeapInuse > memLimit {
			// harnesses may run with the collector throttled or off and allocate fast from all CPUs:
			// collect first, and believe the reading only when it stays above the limit three times
			runtime.GC()
			runtime.ReadMemStats(&ms)
		}
		if ms.HeapInuse > memLimit {
			overLimit++
		} else {
			overLimit = 0
		}
		why := ""
		switch {
		case ms.HeapInuse > memLimit && overLimit >= need:
			why = fmt.Sprintf("the Go heap grew to %d MiB (limit %d MiB)", ms.HeapInuse>>20, memLimit>>20)
		case time.Since(lastChange) > stall:
			why = fmt.Sprintf("no case finished for %s", time.Since(lastChange).Round(time.Second))
		default:
			continue
		}
		type inflight struct {
			call, idx int
			age       time.Duration
		}
		var fl []inflight
		pforMu.Lock()
		for _, slots := range pforLive {
			for _, sl := range slots {
				if i := sl.idx.Load(); i >= 0 {
					fl = append(fl, inflight{sl.call, int(i), time.Since(time.Unix(0, sl.since.Load()))})
				}
			}
		}
		pforMu.Unlock()
		if len(fl) == 0 && ms.HeapInuse <= memLimit {
			lastChange = time.Now() // a phase outside ParallelFor: nothing to attribute a stall to
			continue
		}
		sort.Slice(fl, func(i, j int) bool { return fl[i].age > fl[j].age })
		desc := ""
		var replay any
		key := "exploration aborted: " + why
		if len(fl) > 0 {
			key = fmt.Sprintf("exploration aborted (%s) with case ParallelFor#%d index %d in flight", map[bool]string{true: "memory", false: "no progress"}[ms.HeapInuse > memLimit], fl[0].call, fl[0].idx)
			replay = map[string]any{"case": "", "env": map[string]string{"VERIF_REPLAY_PFOR": fmt.Sprintf("%d:%d", fl[0].call, fl[0].idx)}}
			for _, x := range fl {
				desc += fmt.Sprintf("  ParallelFor call #%d index %d, running for %s\n", x.call, x.idx, x.age.Round(time.Millisecond))
			}
		}
		all := make([]byte, 4<<20)
		all = all[:runtime.Stack(all, true)]
		// the running goroutines inside zoekt code first (that is where a non-terminating case is)
		var buf []byte
		for pass := 0; pass < 2 && len(buf) < 6000; pass++ {
			for _, g := range strings.Split(string(all), "\n\n") {
				running := strings.Contains(g[:min(len(g), 60)], "[running]") || strings.Contains(g[:min(len(g), 60)], "[runnable]")
				if strings.Contains(g, "(*Report).watchdog") || !strings.Contains(g, "sourcegraph/zoekt") || running != (pass == 0) {
					continue
				}
				if len(g) > 1500 {
					g = g[:1500] + "\n\t..."
				}
				buf = append(buf, g...)
				buf = append(buf, "\n\n"...)
				if len(buf) >= 6000 {
					break
				}
			}
		}
		r.Violation(key, fmt.Sprintf("%s after %s and %d evaluations; the search/indexing code under test does not terminate or needs unbounded memory for a case of the enumerated space.\ncases in flight (longest first; re-run one alone with VERIF_REPLAY_PFOR=<call>:<index>):\n%s\ngoroutines:\n%s", why, time.Since(r.start).Round(time.Second), r.evals.Load(), desc, buf), replay)
		r.Incomplete("aborted by the resource watchdog: %s", why)
		r.finish("aborted by the resource watchdog (" + why + "); the cases finished before that are counted above")
		os.Exit(3)
	}
}

// SchedReport folds an exploration result into the report.
func (r *Report) SchedReport(name string, res *SchedResult) {
	r.Eval(res.Execs)
	r.Add("executions", res.Execs)
	r.Add("complete_executions", res.Complete)
	r.Add("pruned_executions", res.Pruned)
	r.Add("transitions", res.Transitions)
	r.Add("states", res.States)
	r.Add("traces_validated_against_impl", res.Execs)
	if !res.Exhaustive {
		r.Incomplete("%s: exploration capped after %d executions", name, res.Execs)
	}
	for _, f := range res.Failures {
		key := fmt.Sprintf("%s %v", name, f.Why)
		r.Violation(key, fmt.Sprintf("%s: %v\nschedule=%v\ntrace:\n%v", name, f.Why, f.Choices, f.Trace), f)
	}
}
