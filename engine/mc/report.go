package mc

import (
	"encoding/json"
	"fmt"
	"hash/fnv"
	"os"
	"runtime"
	"sort"
	"strconv"
	"sync"
	"sync/atomic"
	"time"
)

// Violation is one failing case, identified by a stable key.
type Violation struct {
	Key    string `json:"key"`    // stable identity used by known_findings.json
	Detail string `json:"detail"` // human readable
	Replay any    `json:"replay"` // whatever the harness needs to re-run exactly this case
}

// Report collects measured coverage and violations of one check run and
// writes them where check.py expects them.
type Report struct {
	ID    string
	Tier  string
	Seed  int64
	start time.Time
	limit time.Time

	mu         sync.Mutex
	evals      atomic.Int64
	nontrivial map[uint64]struct{}
	samples    []any
	extra      map[string]any
	viol       []Violation
	violKeys   map[string]bool
	assume     []string
	exhaustive bool
	notes      []string
	replayCase string
}

// NewReport reads VERIF_TIER, VERIF_SEED, VERIF_BUDGET_S, VERIF_REPLAY_CASE.
func NewReport(id string) *Report {
	r := &Report{ID: id, Tier: os.Getenv("VERIF_TIER"), start: time.Now(), nontrivial: map[uint64]struct{}{},
		extra: map[string]any{}, violKeys: map[string]bool{}, exhaustive: true}
	if r.Tier == "" {
		r.Tier = "quick"
	}
	r.Seed, _ = strconv.ParseInt(os.Getenv("VERIF_SEED"), 10, 64)
	budget := 100.0
	if r.Tier == "thorough" {
		budget = 900
	}
	if b, err := strconv.ParseFloat(os.Getenv("VERIF_BUDGET_S"), 64); err == nil && b > 0 {
		budget = b
	}
	r.limit = r.start.Add(time.Duration(budget * float64(time.Second)))
	r.replayCase = os.Getenv("VERIF_REPLAY_CASE")
	return r
}

// Thorough reports the tier.
func (r *Report) Thorough() bool { return r.Tier == "thorough" }

// Expired reports whether the exploration budget is used up. A harness that
// stops because of it must call Incomplete.
func (r *Report) Expired() bool { return time.Now().After(r.limit) }

// Incomplete marks the run as not exhaustive and says what was cut.
func (r *Report) Incomplete(format string, a ...any) {
	r.mu.Lock()
	defer r.mu.Unlock()
	r.exhaustive = false
	if len(r.notes) < 20 {
		r.notes = append(r.notes, fmt.Sprintf(format, a...))
	}
}

// Note adds a free-text remark to the evidence.
func (r *Report) Note(format string, a ...any) {
	r.mu.Lock()
	defer r.mu.Unlock()
	if len(r.notes) < 40 {
		r.notes = append(r.notes, fmt.Sprintf(format, a...))
	}
}

// Want is used for replays: with VERIF_REPLAY_CASE set, only that case runs.
func (r *Report) Want(caseID string) bool { return r.replayCase == "" || r.replayCase == caseID }

// Replaying reports whether a single case is being replayed.
func (r *Report) Replaying() bool { return r.replayCase != "" }

// Eval counts n executed cases.
func (r *Report) Eval(n int) { r.evals.Add(int64(n)) }

// Evals returns the count so far.
func (r *Report) Evals() int64 { return r.evals.Load() }

// Nontrivial records a distinct non-trivial case by key.
func (r *Report) Nontrivial(key string) {
	h := fnv.New64a()
	h.Write([]byte(key))
	k := h.Sum64()
	r.mu.Lock()
	r.nontrivial[k] = struct{}{}
	r.mu.Unlock()
}

// Sample keeps the first few cases written out.
func (r *Report) Sample(v any) {
	r.mu.Lock()
	if len(r.samples) < 6 {
		r.samples = append(r.samples, v)
	}
	r.mu.Unlock()
}

// Set stores an extra coverage key (states, transitions, bound, ...).
func (r *Report) Set(k string, v any) {
	r.mu.Lock()
	r.extra[k] = v
	r.mu.Unlock()
}

// Add adds to an integer coverage key.
func (r *Report) Add(k string, n int) {
	r.mu.Lock()
	cur, _ := r.extra[k].(int)
	r.extra[k] = cur + n
	r.mu.Unlock()
}

// Assume records an assumption / trusted component.
func (r *Report) Assume(s string) {
	r.mu.Lock()
	r.assume = append(r.assume, s)
	r.mu.Unlock()
}

// Violation records a failing case (deduplicated by key, first 50 kept).
func (r *Report) Violation(key, detail string, replay any) {
	r.mu.Lock()
	defer r.mu.Unlock()
	if r.violKeys[key] {
		return
	}
	r.violKeys[key] = true
	if len(detail) > 6000 {
		detail = detail[:6000] + "…"
	}
	if len(r.viol) < 400 {
		r.viol = append(r.viol, Violation{Key: key, Detail: detail, Replay: replay})
	}
}

// NumViolations returns the number of distinct violation keys.
func (r *Report) NumViolations() int {
	r.mu.Lock()
	defer r.mu.Unlock()
	return len(r.violKeys)
}

// Finish writes the JSON report to $VERIF_OUT (or stdout).
func (r *Report) Finish(rule string) {
	r.mu.Lock()
	defer r.mu.Unlock()
	cov := map[string]any{}
	for k, v := range r.extra {
		cov[k] = v
	}
	cov["evaluations"] = r.evals.Load()
	cov["distinct_nontrivial"] = len(r.nontrivial)
	cov["rule"] = rule
	cov["samples"] = r.samples
	cov["exhaustive"] = r.exhaustive
	if len(r.notes) > 0 {
		cov["notes"] = r.notes
	}
	sort.Slice(r.viol, func(i, j int) bool { return r.viol[i].Key < r.viol[j].Key })
	out := map[string]any{
		"property_id":     r.ID,
		"tier":            r.Tier,
		"seed":            r.Seed,
		"coverage":        cov,
		"assumptions":     r.assume,
		"wall_s":          time.Since(r.start).Seconds(),
		"violations_list": r.viol,
		"violations":      len(r.violKeys),
	}
	b, err := json.MarshalIndent(out, "", " ")
	if err != nil {
		panic(err)
	}
	if p := os.Getenv("VERIF_OUT"); p != "" {
		if err := os.WriteFile(p, b, 0o644); err != nil {
			panic(err)
		}
	} else {
		os.Stdout.Write(b)
	}
}

// ParallelFor runs f(i) for i in [0,n) on VERIF_PROCS (default NumCPU) goroutines.
func ParallelFor(n int, f func(i int)) {
	p := runtime.NumCPU()
	if v, err := strconv.Atoi(os.Getenv("VERIF_PROCS")); err == nil && v > 0 {
		p = v
	}
	if p > n {
		p = n
	}
	if p <= 1 {
		for i := 0; i < n; i++ {
			f(i)
		}
		return
	}
	var next atomic.Int64
	var wg sync.WaitGroup
	for w := 0; w < p; w++ {
		wg.Add(1)
		go func() {
			defer wg.Done()
			for {
				i := int(next.Add(1) - 1)
				if i >= n {
					return
				}
				f(i)
			}
		}()
	}
	wg.Wait()
}

// SchedReport folds an exploration result into the report.
func (r *Report) SchedReport(name string, res *SchedResult) {
	r.Eval(res.Execs)
	r.Add("executions", res.Execs)
	r.Add("complete_executions", res.Complete)
	r.Add("pruned_executions", res.Pruned)
	r.Add("transitions", res.Transitions)
	r.Add("states", res.States)
	r.Add("traces_validated_against_impl", res.Execs)
	if !res.Exhaustive {
		r.Incomplete("%s: exploration capped after %d executions", name, res.Execs)
	}
	for _, f := range res.Failures {
		key := fmt.Sprintf("%s %v", name, f.Why)
		r.Violation(key, fmt.Sprintf("%s: %v\nschedule=%v\ntrace:\n%v", name, f.Why, f.Choices, f.Trace), f)
	}
}
