// Package mc is the explorer used by every /verif harness: a controlled
// cooperative scheduler with deviation-bounded stateless DFS (Sched), an
// explicit-state breadth-first search over real objects (BFS), exhaustive
// product enumeration helpers (Enum) and the evidence/violation report.
//
// It is supplied to the zoekt module as an overlay-only virtual package
// (github.com/sourcegraph/zoekt/internal/verifshim/mc); it imports nothing
// from zoekt.
package mc

import (
	"fmt"
	"runtime/debug"
	"sort"
	"strings"
	"sync/atomic"
)

// ---------------------------------------------------------------------------
// Controlled scheduler
// ---------------------------------------------------------------------------

// cur is the scheduler owning the current execution (nil = shims pass through
// to the real primitives).
var cur atomic.Pointer[Exec]

// Cur returns the active execution or nil.
func Cur() *Exec { return cur.Load() }

type abortExec struct{}

// Thread is one controlled goroutine.
type Thread struct {
	ID      int
	Name    string
	resume  chan bool // true = abort
	pending *op
	done    bool
	steps   int
	env     bool   // environment event: never counts as deadlocked while unstarted
	Outcome string // "" or "panic: ..."
}

type op struct {
	kind, obj string
	enabled   func() bool
}

// Point is one recorded decision of an execution.
type Point struct {
	Data           bool     // data choice by the running thread (cost 0) rather than a scheduling choice
	N              int      // number of alternatives
	Chosen         int      // index taken
	RunningEnabled bool     // sched point: alternative 0 continues the running thread
	Labels         []string // human readable alternatives
}

// Exec is one execution under the controlled scheduler.
type Exec struct {
	threads []*Thread
	running *Thread
	parked  chan *Thread
	prefix  []int
	Points  []Point
	Trace   []string
	horizon int
	aborted bool
	// Result flags
	Deadlock    bool
	HorizonHit  bool
	Pruned      bool
	Diverged    string
	stateKey    func() string
	seen        map[string]struct{}
	pruneFrom   int
	violations  []string
	shimState   []func() string
	nextObj     int
	UserData    any
	local       map[any]any
	Stacks      []string
	replayLabel []string
}

// Fail records an invariant violation observed during this execution.
func (e *Exec) Fail(format string, a ...any) {
	e.violations = append(e.violations, fmt.Sprintf(format, a...))
}

// Violations returns what Fail recorded.
func (e *Exec) Violations() []string { return e.violations }

// Logf appends to the op trace.
func (e *Exec) Logf(format string, a ...any) {
	e.Trace = append(e.Trace, fmt.Sprintf(format, a...))
}

// NewObjID hands out deterministic ids for shim objects created during the execution.
func (e *Exec) NewObjID(kind string) string {
	e.nextObj++
	return fmt.Sprintf("%s#%d", kind, e.nextObj)
}

// Local is per-execution storage for shims (nil until first Put).
func (e *Exec) Local(k any) any { return e.local[k] }

// PutLocal stores a per-execution value for a shim.
func (e *Exec) PutLocal(k, v any) {
	if e.local == nil {
		e.local = map[any]any{}
	}
	e.local[k] = v
}

// RegisterState lets a shim object contribute to the global state key.
func (e *Exec) RegisterState(f func() string) { e.shimState = append(e.shimState, f) }

// Aborted reports whether the execution is being torn down (shims must not block or panic then).
func (e *Exec) Aborted() bool { return e.aborted }

// Self returns the running thread (valid only when called from a controlled thread).
func (e *Exec) Self() *Thread { return e.running }

// Go starts a controlled thread. It may be called from the setup function or
// from a running thread. The thread does not run until scheduled.
func (e *Exec) Go(name string, f func()) *Thread { return e.GoWhen(name, nil, f) }

// GoWhen is Go with an enabledness predicate for the thread's first step
// (used for environment events such as timer expiry). A thread whose first
// step never becomes enabled does not count as deadlocked.
func (e *Exec) GoWhen(name string, enabled func() bool, f func()) *Thread {
	t := &Thread{ID: len(e.threads), Name: name, resume: make(chan bool), env: enabled != nil}
	t.pending = &op{kind: "start", obj: name, enabled: enabled}
	e.threads = append(e.threads, t)
	go func() {
		abort := <-t.resume
		defer func() {
			if r := recover(); r != nil {
				if _, ok := r.(abortExec); !ok {
					t.Outcome = fmt.Sprintf("panic: %v", r)
					e.Logf("T%d %s PANIC %v", t.ID, t.Name, r)
					if len(e.Stacks) < 2 {
						e.Stacks = append(e.Stacks, trimStack(debug.Stack()))
					}
				}
			}
			t.done = true
			t.pending = nil
			e.parked <- t
		}()
		if abort {
			panic(abortExec{})
		}
		f()
	}()
	return t
}

func trimStack(b []byte) string {
	s := string(b)
	if len(s) > 1500 {
		s = s[:1500]
	}
	return s
}

// Point is a scheduling point: the calling thread announces its next
// operation and parks; it returns once the explorer has chosen it while
// enabled() holds. The caller then performs the operation atomically (no other
// controlled thread runs until its next Point).
func (e *Exec) Point(kind, obj string, enabled func() bool) {
	t := e.running
	if t == nil {
		return // setup code
	}
	if e.aborted {
		return
	}
	t.pending = &op{kind: kind, obj: obj, enabled: enabled}
	t.steps++
	e.parked <- t
	if abort := <-t.resume; abort {
		panic(abortExec{})
	}
}

// Choose is a data choice (environment answer) made by the running thread.
func (e *Exec) Choose(n int, label string) int {
	if n <= 1 {
		return 0
	}
	c := e.nextChoice(n)
	labels := make([]string, n)
	for i := range labels {
		labels[i] = fmt.Sprintf("%s=%d", label, i)
	}
	e.Points = append(e.Points, Point{Data: true, N: n, Chosen: c, Labels: labels})
	e.Logf("choose %s=%d", label, c)
	return c
}

func (e *Exec) nextChoice(n int) int {
	i := len(e.Points)
	c := 0
	if i < len(e.prefix) {
		c = e.prefix[i]
		if c >= n {
			e.Diverged = fmt.Sprintf("replay divergence at point %d: choice %d of %d alternatives", i, c, n)
			c = 0
		}
	}
	return c
}

func (t *Thread) isEnabled() bool {
	if t.done || t.pending == nil {
		return false
	}
	return t.pending.enabled == nil || t.pending.enabled()
}

// run drives the execution until all threads are done, a deadlock, the
// horizon or a pruned state.
func (e *Exec) run() {
	var last *Thread
	for {
		// canonical enabled order: last running thread first if still enabled, then ascending ids
		var en []*Thread
		runningEnabled := false
		if last != nil && last.isEnabled() {
			en = append(en, last)
			runningEnabled = true
		}
		alive := 0
		for _, t := range e.threads {
			if !t.done && !(t.env && t.steps == 0) {
				alive++
			}
			if t != last && t.isEnabled() {
				en = append(en, t)
			}
		}
		if len(en) == 0 {
			if alive == 0 {
				e.abortAll() // reap unstarted environment threads
			}
			if alive > 0 {
				e.Deadlock = true
				var w []string
				for _, t := range e.threads {
					if !t.done && !(t.env && t.steps == 0) {
						w = append(w, fmt.Sprintf("T%d(%s) blocked at %s %s", t.ID, t.Name, t.pending.kind, t.pending.obj))
					}
				}
				e.Logf("DEADLOCK: %s", strings.Join(w, "; "))
				e.abortAll()
			}
			return
		}
		if e.horizon > 0 && len(e.Points) >= e.horizon {
			e.HorizonHit = true
			e.abortAll()
			return
		}
		if e.seen != nil && e.stateKey != nil && len(e.Points) >= e.pruneFrom {
			k := e.globalKey(last)
			if _, ok := e.seen[k]; ok {
				e.Pruned = true
				e.abortAll()
				return
			}
			e.seen[k] = struct{}{}
		}
		c := e.nextChoice(len(en))
		labels := make([]string, len(en))
		for i, t := range en {
			labels[i] = fmt.Sprintf("T%d:%s %s", t.ID, t.pending.kind, t.pending.obj)
		}
		e.Points = append(e.Points, Point{N: len(en), Chosen: c, RunningEnabled: runningEnabled, Labels: labels})
		t := en[c]
		e.Logf("T%d %s %s %s", t.ID, t.Name, t.pending.kind, t.pending.obj)
		e.running = t
		t.resume <- false
		<-e.parked
		e.running = nil
		last = t
	}
}

func (e *Exec) globalKey(last *Thread) string {
	var sb strings.Builder
	for _, t := range e.threads {
		if t.done {
			fmt.Fprintf(&sb, "T%d:done:%s|", t.ID, t.Outcome)
		} else {
			fmt.Fprintf(&sb, "T%d:%d:%s:%s|", t.ID, t.steps, t.pending.kind, t.pending.obj)
		}
	}
	for _, f := range e.shimState {
		sb.WriteString(f())
		sb.WriteByte('|')
	}
	sb.WriteString(e.stateKey())
	return sb.String()
}

func (e *Exec) abortAll() {
	e.aborted = true
	for _, t := range e.threads {
		for !t.done {
			e.running = t
			t.resume <- true
			<-e.parked
		}
	}
	e.running = nil
}

// Choices returns the choice sequence of this execution (a replayable schedule).
func (e *Exec) Choices() []int {
	c := make([]int, len(e.Points))
	for i, p := range e.Points {
		c[i] = p.Chosen
	}
	return c
}

// SchedConfig describes one exploration.
type SchedConfig struct {
	Name    string
	Bound   int // max preemptions; <0 = unbounded
	Horizon int // max points per execution (0 = 10000)
	// Setup creates fresh real objects and spawns threads with e.Go.
	Setup func(e *Exec)
	// Check is the end-of-execution oracle (only called for complete executions).
	Check func(e *Exec)
	// StateKey, when set together with Bound<0, enables visited-state pruning.
	StateKey func(e *Exec) string
	// MaxExecs caps the exploration (0 = none); hitting it clears Exhaustive.
	MaxExecs int
	// Stop, if set, is polled between executions (deadline).
	Stop func() bool
	// OnExec is called after every execution (complete or not).
	OnExec func(e *Exec)
}

// SchedResult summarises an exploration.
type SchedResult struct {
	Execs, Complete, Pruned, Deadlocks, HorizonHits int
	States                                          int
	Transitions                                     int
	MaxPoints                                       int
	Exhaustive                                      bool
	BoundCompleted                                  int
	Outcomes                                        map[string]int
	Failures                                        []SchedFailure
}

// SchedFailure is a violating execution.
type SchedFailure struct {
	Case    string   `json:"case"`
	Name    string   `json:"name"`
	Choices []int    `json:"choices"`
	Why     []string `json:"why"`
	Trace   []string `json:"trace"`
	Stacks  []string `json:"stacks,omitempty"`
}

// RunOnce executes one schedule (prefix then default choices).
func RunOnce(cfg *SchedConfig, prefix []int, seen map[string]struct{}) *Exec {
	e := &Exec{parked: make(chan *Thread), prefix: prefix, horizon: cfg.Horizon}
	if e.horizon == 0 {
		e.horizon = 10000
	}
	if cfg.StateKey != nil && seen != nil {
		e.seen = seen
		e.stateKey = func() string { return cfg.StateKey(e) }
		e.pruneFrom = len(prefix)
	}
	if !cur.CompareAndSwap(nil, e) {
		panic("mc: nested/concurrent controlled executions in one process")
	}
	defer cur.Store(nil)
	cfg.Setup(e)
	e.run()
	if !e.Deadlock && !e.HorizonHit && !e.Pruned && e.Diverged == "" && cfg.Check != nil {
		cfg.Check(e)
	}
	return e
}

// Explore runs the deviation-bounded DFS.
func Explore(cfg *SchedConfig) *SchedResult {
	res := &SchedResult{Outcomes: map[string]int{}, Exhaustive: true, BoundCompleted: cfg.Bound}
	var seen map[string]struct{}
	if cfg.Bound < 0 && cfg.StateKey != nil {
		seen = map[string]struct{}{}
	}
	stopped := false
	var rec func(prefix []int, used int)
	rec = func(prefix []int, used int) {
		if stopped {
			return
		}
		if (cfg.MaxExecs > 0 && res.Execs >= cfg.MaxExecs) || (cfg.Stop != nil && cfg.Stop()) {
			stopped = true
			res.Exhaustive = false
			return
		}
		e := RunOnce(cfg, prefix, seen)
		res.Execs++
		Progress()
		res.Transitions += len(e.Points) - len(prefix)
		if len(e.Points) > res.MaxPoints {
			res.MaxPoints = len(e.Points)
		}
		if cfg.OnExec != nil {
			cfg.OnExec(e)
		}
		why := append([]string{}, e.violations...)
		switch {
		case e.Diverged != "":
			why = append(why, "TOOL: "+e.Diverged)
		case e.Deadlock:
			res.Deadlocks++
			why = append(why, "deadlock")
		case e.HorizonHit:
			res.HorizonHits++
			why = append(why, "horizon exceeded (livelock?)")
		case e.Pruned:
			res.Pruned++
		default:
			res.Complete++
		}
		for _, t := range e.threads {
			if t.Outcome != "" {
				why = append(why, fmt.Sprintf("T%d(%s) %s", t.ID, t.Name, t.Outcome))
			}
		}
		if len(why) > 0 {
			if len(res.Failures) < 20 {
				// a failure is only believed if the same schedule fails the same way again
				e2 := RunOnce(cfg, e.Choices(), nil)
				if e.Pruned || strings.Join(e2.Trace, "\n") != strings.Join(e.Trace, "\n") || strings.Join(e2.violations, "\n") != strings.Join(e.violations, "\n") {
					if !e.Pruned {
						why = append([]string{"TOOL: schedule did not replay identically (nondeterminism not owned by the explorer)"}, why...)
					}
				}
				res.Failures = append(res.Failures, SchedFailure{Case: cfg.Name, Name: cfg.Name, Choices: e.Choices(), Why: why, Trace: e.Trace, Stacks: e.Stacks})
			}
		}
		// alternatives at points beyond the prefix
		used0 := used
		// recompute cost used within prefix is passed in; walk new points
		cost := used0
		type alt struct {
			prefix []int
			used   int
		}
		var alts []alt
		for i := len(prefix); i < len(e.Points); i++ {
			p := e.Points[i]
			for a := 0; a < p.N; a++ {
				if a == p.Chosen {
					continue
				}
				c := cost
				if !p.Data && p.RunningEnabled && a != 0 {
					c++
				}
				if cfg.Bound >= 0 && c > cfg.Bound {
					continue
				}
				np := make([]int, i+1)
				copy(np, e.Choices()[:i])
				np[i] = a
				alts = append(alts, alt{np, c})
			}
			// cost of the choice actually taken at i
			if !p.Data && p.RunningEnabled && p.Chosen != 0 {
				cost++
			}
		}
		for _, a := range alts {
			rec(a.prefix, a.used)
		}
	}
	rec(nil, 0)
	if seen != nil {
		res.States = len(seen)
	}
	return res
}

// Outcome helper: canonical string of a set of strings.
func CanonSet(m map[string]bool) string {
	var k []string
	for s, v := range m {
		if v {
			k = append(k, s)
		}
	}
	sort.Strings(k)
	return strings.Join(k, ",")
}
