// Package gen holds the shared alphabets of the /verif harnesses: corpora
// (described as ref.Repo values and turned into real shards through the
// exported zoekt builders), query atoms and regular-expression grammars.
package gen

import (
	"bytes"
	"fmt"
	"os"
	"path/filepath"
	"sort"
	"strings"

	"github.com/sourcegraph/zoekt"
	"github.com/sourcegraph/zoekt/index"
	"github.com/sourcegraph/zoekt/internal/verifshim/ref"
)

// Scratch returns a fresh scratch directory (tmpfs when available) and its cleanup.
func Scratch(prefix string) (string, func()) {
	base := os.Getenv("VERIF_SCRATCH")
	if base == "" {
		if st, err := os.Stat("/dev/shm"); err == nil && st.IsDir() {
			base = "/dev/shm"
		} else {
			base = os.TempDir()
		}
	}
	d, err := os.MkdirTemp(base, "verif-"+prefix+"-")
	if err != nil {
		panic(err)
	}
	return d, func() { os.RemoveAll(d) }
}

// AllStrings enumerates every string over sigma of length 0..maxLen (shortest first, lexicographic).
func AllStrings(sigma []string, maxLen int) []string {
	out := []string{""}
	prev := []string{""}
	for l := 1; l <= maxLen; l++ {
		var cur []string
		for _, p := range prev {
			for _, s := range sigma {
				cur = append(cur, p+s)
			}
		}
		out = append(out, cur...)
		prev = cur
	}
	return out
}

// NameOf encodes i as a unique file name over a small alphabet that collides with query atoms.
func NameOf(i int) string {
	sigma := []string{"a", "b", "A", "é", "/", "."}
	s := ""
	n := i
	for {
		s = sigma[n%len(sigma)] + s
		n /= len(sigma)
		if n == 0 {
			break
		}
	}
	return "n" + s
}

// ZoektRepo converts the description of a repository.
func ZoektRepo(r *ref.Repo) *zoekt.Repository {
	zr := &zoekt.Repository{
		Name:                 r.Name,
		ID:                   r.ID,
		TenantID:             r.TenantID,
		RawConfig:            r.RawConfig,
		Metadata:             r.Metadata,
		Tombstone:            r.Tombstone,
		URL:                  "https://example.com/" + r.Name,
		FileURLTemplate:      "https://example.com/" + r.Name + "/blob/{{.Version}}/{{.Path}}",
		LineFragmentTemplate: "#L{{.LineNumber}}",
		CommitURLTemplate:    "https://example.com/" + r.Name + "/commit/{{.Version}}",
	}
	for i, b := range r.Branches {
		v := fmt.Sprintf("v-%s-%s", r.Name, b)
		if i < len(r.Versions) {
			v = r.Versions[i]
		}
		zr.Branches = append(zr.Branches, zoekt.RepositoryBranch{Name: b, Version: v})
	}
	if len(r.FileTombstones) > 0 {
		zr.FileTombstones = map[string]struct{}{}
		for k, v := range r.FileTombstones {
			if v {
				zr.FileTombstones[k] = struct{}{}
			}
		}
	}
	return zr
}

// Document converts one document.
func Document(d *ref.Doc) index.Document {
	doc := index.Document{Name: d.Name, Content: d.Content, Branches: d.Branches, Language: d.Language}
	for _, s := range d.Symbols {
		doc.Symbols = append(doc.Symbols, index.DocumentSection{Start: uint32(s[0]), End: uint32(s[1])})
		doc.SymbolsMetaData = append(doc.SymbolsMetaData, &zoekt.Symbol{Sym: string(d.Content[s[0]:s[1]]), Kind: "function"})
	}
	if d.Skipped {
		doc.SkipReason = index.SkipReasonTooLarge
	}
	return doc
}

// BuildSimple writes a simple shard for r with the ShardBuilder and returns its bytes.
func BuildSimple(r *ref.Repo) ([]byte, error) {
	b, err := index.NewShardBuilder(ZoektRepo(r))
	if err != nil {
		return nil, err
	}
	for _, d := range r.Docs {
		if err := b.Add(Document(d)); err != nil {
			return nil, fmt.Errorf("add %q: %w", d.Name, err)
		}
	}
	var buf bytes.Buffer
	if err := b.Write(&buf); err != nil {
		return nil, err
	}
	return buf.Bytes(), nil
}

// WriteSimple builds r into dir/<name>_v16.00000.zoekt and returns the path.
func WriteSimple(dir string, r *ref.Repo) (string, error) {
	data, err := BuildSimple(r)
	if err != nil {
		return "", err
	}
	p := filepath.Join(dir, fmt.Sprintf("%s_v%d.%05d.zoekt", strings.ReplaceAll(r.Name, "/", "%2F"), index.IndexFormatVersion, 0))
	return p, os.WriteFile(p, data, 0o644)
}

// WriteCompound builds every repository as a simple shard in a scratch dir, merges them with
// index.Merge into dir and returns the compound shard path.
func WriteCompound(dir string, rs ...*ref.Repo) (string, error) {
	tmp, clean := Scratch("merge")
	defer clean()
	var files []index.IndexFile
	for i, r := range rs {
		// one directory per input: two repositories may share a name (different tenants)
		sub := filepath.Join(tmp, fmt.Sprint(i))
		if err := os.MkdirAll(sub, 0o755); err != nil {
			return "", err
		}
		p, err := WriteSimple(sub, r)
		if err != nil {
			return "", err
		}
		f, err := os.Open(p)
		if err != nil {
			return "", err
		}
		inf, err := index.NewIndexFile(f)
		if err != nil {
			return "", err
		}
		defer inf.Close()
		files = append(files, inf)
	}
	tmpName, dstName, err := index.Merge(dir, files...)
	if err != nil {
		return "", err
	}
	return dstName, os.Rename(tmpName, dstName)
}

// Open loads a shard file with the real loader.
func Open(path string) (zoekt.Searcher, error) {
	f, err := os.Open(path)
	if err != nil {
		return nil, err
	}
	inf, err := index.NewIndexFile(f)
	if err != nil {
		f.Close()
		return nil, err
	}
	s, err := index.NewSearcher(inf)
	if err != nil {
		inf.Close()
		return nil, err
	}
	return s, nil
}

// MemFile is an in-memory index.IndexFile.
type MemFile struct {
	Data []byte
	Nm   string
}

func (f *MemFile) Read(off, sz uint32) ([]byte, error) {
	if uint64(off)+uint64(sz) > uint64(len(f.Data)) {
		return nil, fmt.Errorf("out of bounds: %d+%d > %d", off, sz, len(f.Data))
	}
	return f.Data[off : off+sz], nil
}
func (f *MemFile) Size() (uint32, error) { return uint32(len(f.Data)), nil }
func (f *MemFile) Close()                {}
func (f *MemFile) Name() string          { return f.Nm }

// DocsCorpus is the "all strings" repository: every string over sigma up to maxLen is the
// content of one document; names come from NameOf. order: 0 lexicographic, 1 reversed.
func DocsCorpus(name string, id uint32, sigma []string, maxLen int, order int) *ref.Repo {
	r := &ref.Repo{Name: name, ID: id, Branches: []string{"HEAD"}}
	all := AllStrings(sigma, maxLen)
	if order == 1 {
		for i, j := 0, len(all)-1; i < j; i, j = i+1, j-1 {
			all[i], all[j] = all[j], all[i]
		}
	}
	for i, s := range all {
		r.Docs = append(r.Docs, &ref.Doc{Name: NameOf(i), Content: []byte(s), Branches: []string{"HEAD"}, Language: "Text"})
	}
	return r
}

// CompoundCorpus is the three-repository family used for filter atoms: branch layouts
// [HEAD,dev] / [main] / [dev,HEAD], languages, RawConfig, Metadata, a file tombstone.
func CompoundCorpus() []*ref.Repo {
	contents := []string{"abc abd", "abd\nABC", "xyz", "éab Éab", "", "ab", "bca cab\nabcabc", "a\nb\nc\n"}
	langs := []string{"Go", "Python", "Go", "Text"}
	mk := func(name string, id uint32, branches []string, rc, md map[string]string) *ref.Repo {
		r := &ref.Repo{Name: name, ID: id, Branches: branches, RawConfig: rc, Metadata: md}
		for i, c := range contents {
			var br []string
			switch {
			case len(branches) == 1:
				br = branches
			case i%3 == 0:
				br = branches
			case i%3 == 1:
				br = branches[:1]
			default:
				br = branches[1:]
			}
			r.Docs = append(r.Docs, &ref.Doc{Name: fmt.Sprintf("%s/f%d.%s", "d"+string(rune('a'+i%2)), i, []string{"go", "py"}[i%2]), Content: []byte(c), Branches: br, Language: langs[i%len(langs)]})
		}
		return r
	}
	r1 := mk("alpha/one", 1, []string{"HEAD", "dev"}, map[string]string{"public": "1", "fork": "0"}, map[string]string{"team": "red", "tier": "1"})
	r2 := mk("beta/two", 2, []string{"main"}, map[string]string{"public": "0", "fork": "1", "archived": "1"}, map[string]string{"team": "blue"})
	r3 := mk("alpha/three", 3, []string{"dev", "HEAD"}, nil, nil)
	r3.FileTombstones = map[string]bool{"db/f1.py": true}
	return []*ref.Repo{r1, r2, r3}
}

// SymbolCorpus has documents with symbol sections, including adjacent ones, one at file end
// and one on multi-byte boundaries.
func SymbolCorpus() *ref.Repo {
	r := &ref.Repo{Name: "sym/repo", ID: 7, Branches: []string{"HEAD"}}
	add := func(name, content string, syms ...[2]int) {
		r.Docs = append(r.Docs, &ref.Doc{Name: name, Content: []byte(content), Branches: []string{"HEAD"}, Language: "Go", Symbols: syms})
	}
	add("s0.go", "func abc() abd\nvar abcabc = abc", [2]int{5, 8}, [2]int{19, 25})
	add("s1.go", "abcabd", [2]int{0, 3}, [2]int{3, 6})
	add("s2.go", "x éabc y abc", [2]int{2, 7}, [2]int{10, 13})
	add("s3.go", "no symbols here abc")
	add("s4.go", "ABC abc Abc", [2]int{0, 3}, [2]int{8, 11})
	add("s5.go", "a\nabc\nb", [2]int{2, 5})
	// non-ASCII symbol names: a pattern with multi-byte runes that ends exactly at / shortly before the
	// end of a symbol (byte length and rune length of the pattern differ)
	addNamed := func(name, content string, names ...string) {
		var syms [][2]int
		from := 0
		for _, n := range names {
			i := strings.Index(content[from:], n)
			if i < 0 {
				panic("gen: symbol " + n + " not in " + content)
			}
			syms = append(syms, [2]int{from + i, from + i + len(n)})
			from += i + len(n)
		}
		add(name, content, syms...)
	}
	addNamed("s6.go", "var größe = 1", "größe")
	addNamed("s7.go", "var maxgröße = 2 // größe", "maxgröße")
	addNamed("s8.go", "var größenordnung, abcé, éé int", "größenordnung", "abcé", "éé")
	addNamed("s9.go", "größe outside, then sym xgrößex", "xgrößex")
	return r
}

// SortedNames is a helper for canonical comparison.
func SortedNames(m map[string]bool) []string {
	var out []string
	for k, v := range m {
		if v {
			out = append(out, k)
		}
	}
	sort.Strings(out)
	return out
}

// CanonFile serialises everything a caller can observe of one file match except scores and
// statistics (used by differential oracles).
func CanonFile(f *zoekt.FileMatch) string {
	var sb strings.Builder
	fmt.Fprintf(&sb, "%s|%s|%v|%s|%x|%s|", f.Repository, f.FileName, f.Branches, f.Language, f.Checksum, f.Version)
	type lm struct {
		n   int
		txt string
	}
	var ls []string
	for _, m := range f.LineMatches {
		s := fmt.Sprintf("L%d[%d,%d)%v:", m.LineNumber, m.LineStart, m.LineEnd, m.FileName)
		for _, fr := range m.LineFragments {
			s += fmt.Sprintf("%d+%d,", fr.Offset, fr.MatchLength)
		}
		ls = append(ls, s)
	}
	for _, m := range f.ChunkMatches {
		s := fmt.Sprintf("C%d:%q:", m.ContentStart.ByteOffset, m.Content)
		for _, rg := range m.Ranges {
			s += fmt.Sprintf("%d-%d,", rg.Start.ByteOffset, rg.End.ByteOffset)
		}
		ls = append(ls, s)
	}
	sort.Strings(ls) // matches of a file are ordered by score; compare as a set
	sb.WriteString(strings.Join(ls, ";"))
	if f.Content != nil {
		fmt.Fprintf(&sb, "|content=%q", f.Content)
	}
	return sb.String()
}

// CanonFiles is the sorted list of CanonFile over a result.
func CanonFiles(res *zoekt.SearchResult) []string {
	var out []string
	for i := range res.Files {
		out = append(out, CanonFile(&res.Files[i]))
	}
	sort.Strings(out)
	return out
}
