package gen

import (
	"fmt"
	"regexp/syntax"

	"github.com/RoaringBitmap/roaring/v2"
	"github.com/grafana/regexp"

	"github.com/sourcegraph/zoekt/query"
)

// ReFlags are the flags zoekt's query parser uses (query/parse.go regexpFlags).
const ReFlags = syntax.ClassNL | syntax.PerlX | syntax.UnicodeGroups

// Regexp builds a regexp atom from pattern text exactly as the query layer would hold it
// (parsed tree, no optimisation).
func Regexp(pattern string, caseSensitive, fileName, content bool) (*query.Regexp, error) {
	re, err := syntax.Parse(pattern, ReFlags)
	if err != nil {
		return nil, err
	}
	return &query.Regexp{Regexp: re, CaseSensitive: caseSensitive, FileName: fileName, Content: content}, nil
}

// FieldModes are the (fileName, content) flag pairs: file only, content only, both.
var FieldModes = [][2]bool{{true, false}, {false, true}, {false, false}}

// SubstringAtoms returns pattern × case × field.
func SubstringAtoms(patterns []string, fields [][2]bool) []query.Q {
	var out []query.Q
	for _, p := range patterns {
		for _, cs := range []bool{true, false} {
			for _, f := range fields {
				out = append(out, &query.Substring{Pattern: p, CaseSensitive: cs, FileName: f[0], Content: f[1]})
			}
		}
	}
	return out
}

// RegexpAtoms returns pattern × case × field (invalid patterns are skipped).
func RegexpAtoms(patterns []string, fields [][2]bool) []query.Q {
	var out []query.Q
	for _, p := range patterns {
		for _, cs := range []bool{true, false} {
			for _, f := range fields {
				if r, err := Regexp(p, cs, f[0], f[1]); err == nil {
					out = append(out, r)
				}
			}
		}
	}
	return out
}

// RegexpPatterns is G-re(d): expression texts composed to the given depth from a base set
// that targets every shortcut of the regexp-to-matchtree translation (literals of length
// >= 3, alternations of literals, repeats with Min>1, word boundaries, anchors, classes,
// case-insensitive groups, dot-star).
func RegexpPatterns(depth int) []string {
	base := []string{
		"ab", "abc", "bcd", "a", "abd", "é", "-", "b",
		".", ".*", `\b`, "^", "$", "[ab]", "[^a]", `[a\]-]`, `\x01`, `(?s:.)`, `\n`, `\pL`,
	}
	seen := map[string]bool{}
	var out []string
	add := func(s string) {
		if !seen[s] {
			if _, err := syntax.Parse(s, ReFlags); err == nil {
				seen[s] = true
				out = append(out, s)
			}
		}
	}
	for _, b := range base {
		add(b)
	}
	level := append([]string{}, out...)
	for d := 1; d <= depth; d++ {
		var next []string
		unary := func(x string) []string {
			g := "(?:" + x + ")"
			return []string{g + "+", g + "?", g + "*", g + "{2}", g + "{1,2}", g + "{2,}", g + "*?", "(" + x + ")", "(?P<n>" + x + ")", "(?i:" + x + ")"}
		}
		for _, x := range level {
			for _, u := range unary(x) {
				next = append(next, u)
			}
		}
		// binary compositions only against the base set to keep the family polynomial
		for _, x := range level {
			for _, y := range base {
				next = append(next, "(?:"+x+")(?:"+y+")", "(?:"+y+")(?:"+x+")", "(?:"+x+")|(?:"+y+")")
			}
		}
		level = nil
		for _, s := range next {
			if !seen[s] {
				add(s)
				if seen[s] {
					level = append(level, s)
				}
			}
		}
	}
	// hand-picked expressions for specific translations
	for _, s := range []string{
		`\babc\b`, `\bab\b`, `\ba\b`, `\b-a\b`, `\bab-\b`, `\b\.a\b`, `\bé\b`, `\bab c\b`,
		"abc.*abd", "abc.*bca", "abc(?s:.*)abd", "abc|abd", "abc|ab", "(abc|bcd)a", "(abc)(abd)", "abc\nabd", "ab+c", "(abc){2}", "(abc){2,}", "a.c", "^abc", "abc$", "^$", `\Aabc`, `abc\z`,
		"(?i)abc", "(?i:ab)c", "ABC", "[aA]bc", "a|", "()", "(a|ab)(c|bcd)", "ca*b", "abc+", "(?:abc)+", "[a-c]{3}", `\s`, `\S+`, `\w+`, `\W`, `\d`, "é+", "[é]", "[^é]", "É",
	} {
		add(s)
	}
	return out
}

// mustRe compiles with the engine zoekt's query nodes carry.
func mustRe(s string) *regexp.Regexp { return regexp.MustCompile(s) }

// FilterAtoms are the non-text atoms, chosen to collide with CompoundCorpus.
func FilterAtoms() []query.Q {
	var out []query.Q
	for _, b := range []string{"HEAD", "dev", "main", "ea", "", "nope"} {
		out = append(out, &query.Branch{Pattern: b, Exact: false}, &query.Branch{Pattern: b, Exact: true})
	}
	for _, re := range []string{"alpha", "^beta", "one$", "three|two", "nomatch", ""} {
		out = append(out, &query.Repo{Regexp: mustRe(re)}, &query.RepoRegexp{Regexp: mustRe(re)})
	}
	out = append(out,
		query.NewRepoSet("alpha/one"), query.NewRepoSet("alpha/one", "beta/two"), query.NewRepoSet("zzz"), query.NewRepoSet(),
		query.NewRepoIDs(1), query.NewRepoIDs(2, 3), query.NewRepoIDs(99), query.NewRepoIDs(),
		query.NewSingleBranchesRepos("HEAD", 1, 3), query.NewSingleBranchesRepos("dev", 1, 2, 3), query.NewSingleBranchesRepos("main", 2), query.NewSingleBranchesRepos("HEAD", 2),
		&query.BranchesRepos{List: []query.BranchRepos{{Branch: "HEAD", Repos: roaring.BitmapOf(1)}, {Branch: "dev", Repos: roaring.BitmapOf(3)}}},
		&query.BranchesRepos{List: []query.BranchRepos{{Branch: "main", Repos: roaring.BitmapOf(1)}}},
		&query.BranchesRepos{},
		&query.Language{Language: "Go"}, &query.Language{Language: "Python"}, &query.Language{Language: "Text"}, &query.Language{Language: "Rust"},
		query.RcOnlyPublic, query.RcOnlyPrivate, query.RcOnlyForks, query.RcNoForks, query.RcOnlyArchived, query.RcNoArchived, query.RcOnlyPublic|query.RcNoForks, query.RcOnlyPrivate|query.RcOnlyArchived,
		&query.Meta{Field: "team", Value: mustRe("red")}, &query.Meta{Field: "team", Value: mustRe("^(red|blue)$")}, &query.Meta{Field: "tier", Value: mustRe(".")}, &query.Meta{Field: "absent", Value: mustRe("")}, &query.Meta{Field: "team", Value: mustRe("green")},
		query.NewFileNameSet("da/f0.go"), query.NewFileNameSet("db/f1.py", "da/f2.go"), query.NewFileNameSet("nope"), query.NewFileNameSet(),
		&query.Const{Value: true}, &query.Const{Value: false},
	)
	return out
}

// SymbolAtoms wraps text atoms in sym:.
func SymbolAtoms() []query.Q {
	var out []query.Q
	for _, p := range []string{"abc", "ab", "abd", "bca", "éab", "ABC", "c", "abcabc", "cab", "größe", "öße", "ße", "abcé", "cé", "é", "éé", "GRÖSSE", "größen"} {
		for _, cs := range []bool{true, false} {
			out = append(out, &query.Symbol{Expr: &query.Substring{Pattern: p, CaseSensitive: cs, Content: true}})
		}
	}
	for _, p := range []string{"ab.", "^abc$", ".*", "a.*c", "abc|abd", "^ab", "c$", `\babc\b`, "(abc)+"} {
		for _, cs := range []bool{true, false} {
			if r, err := Regexp(p, cs, false, true); err == nil {
				out = append(out, &query.Symbol{Expr: r})
			}
		}
	}
	return out
}

// Combine builds And/Or/Not/Type(filename)/Boost combinations of the atoms up to depth (1 = one combinator level).
func Combine(atoms []query.Q, depth int) []query.Q {
	level := atoms
	var out []query.Q
	for d := 0; d < depth; d++ {
		var next []query.Q
		for _, a := range level {
			next = append(next, &query.Not{Child: a}, &query.Type{Type: query.TypeFileName, Child: a}, &query.Boost{Boost: 2, Child: a})
		}
		for _, a := range level {
			for _, b := range atoms {
				next = append(next, &query.And{Children: []query.Q{a, b}}, &query.Or{Children: []query.Q{a, b}})
			}
		}
		out = append(out, next...)
		level = next
	}
	return out
}

// Key is a stable textual identity of a query (String() is ambiguous for flags on Substring).
func Key(q query.Q) string {
	switch s := q.(type) {
	case *query.Substring:
		return fmt.Sprintf("substr(%q cs=%v f=%v c=%v)", s.Pattern, s.CaseSensitive, s.FileName, s.Content)
	case *query.Regexp:
		return fmt.Sprintf("regexp(%q cs=%v f=%v c=%v)", s.Regexp.String(), s.CaseSensitive, s.FileName, s.Content)
	case *query.Symbol:
		return "sym(" + Key(s.Expr) + ")"
	case *query.And:
		k := "and("
		for _, c := range s.Children {
			k += Key(c) + " "
		}
		return k + ")"
	case *query.Or:
		k := "or("
		for _, c := range s.Children {
			k += Key(c) + " "
		}
		return k + ")"
	case *query.Not:
		return "not(" + Key(s.Child) + ")"
	case *query.Type:
		return fmt.Sprintf("type%d(%s)", s.Type, Key(s.Child))
	case *query.Boost:
		return fmt.Sprintf("boost%v(%s)", s.Boost, Key(s.Child))
	case *query.Branch:
		return fmt.Sprintf("branch(%q exact=%v)", s.Pattern, s.Exact)
	}
	return q.String()
}
