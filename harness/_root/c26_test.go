//go:build verif

package zoekt_test

// C26 — binary codecs (ReposMap, query.BranchesRepos, query.FileNameSet).
//
// Part A (in-process): every value of the three encoded types built from boundary
// ids/strings/bitmaps with 0–3 entries (plus count-boundary sizes 127/128) is
// encoded with MarshalBinary and decoded with UnmarshalBinary; the result must equal
// the original (nil and empty collections are not distinguished). For ReposMap the
// documented version-1 wire format (no IndexTimeUnix) is decoded too.
//
// Part B (guarded child processes, `ulimit -v`, CPU deadline): the three decoders are
// run on
//   * every byte string of length <= 2 (thorough: <= 3) over all 256 byte values,
//   * every sequence of <= 4 (thorough: <= 6) tokens of c26Tokens (version bytes,
//     boundary varints, malformed varints, raw bytes, valid and corrupt roaring blobs),
//   * every truncation of valid encodings and every replacement of one of their bytes by
//     one of 10 tokens ({00,01,7f,80,ff}, 128, 2^56, 2^63, 2^64-1, 11-byte varint; thorough also 2^31, 2^63-1).
// Oracle per (decoder, input): the call returns (value or error); it does not panic,
// does not kill the process (out of memory), does not exceed the CPU deadline and does
// not allocate more than c26AllocBase + c26AllocPerByte*len(input) bytes. When it returns
// a value without error, encode(value) (if it succeeds) must decode to an equal value.
//
// The token space is explored breadth-first by length; extensions of an input on which
// a decoder already failed are not run for that decoder (they are counted as pruned).

import (
	"bufio"
	"bytes"
	"encoding/binary"
	"encoding/hex"
	"encoding/json"
	"fmt"
	"hash/fnv"
	"math"
	"os"
	"os/exec"
	"path/filepath"
	"regexp"
	"runtime"
	"runtime/metrics"
	"sort"
	"strconv"
	"strings"
	"sync"
	"sync/atomic"
	"syscall"
	"testing"
	"time"
	"unsafe"

	"github.com/RoaringBitmap/roaring/v2"

	"github.com/sourcegraph/zoekt"
	"github.com/sourcegraph/zoekt/internal/verifshim/mc"
	"github.com/sourcegraph/zoekt/query"
)

const (
	c26DecRM = 0
	c26DecBR = 1
	c26DecFS = 2
	c26NDec  = 3

	// allocation bound for one decode call: generous constant plus 1 KiB per input byte.
	// Measured on the enumerated inputs: element counts up to 65535 (3-byte varints) allocate
	// at most 13 MiB, the next reachable counts (97*2^14 and more) at least 54 MiB; the bound
	// sits in that gap so that the verdict does not depend on allocator details.
	c26AllocBase    = 24 << 20
	c26AllocPerByte = 1 << 10

	c26ChildEnv = "VERIF_C26_JOB"
)

var c26DecNames = [c26NDec]string{"ReposMap.UnmarshalBinary", "BranchesRepos.UnmarshalBinary", "FileNameSet.UnmarshalBinary"}

// ---------------------------------------------------------------------------------
// Values, canonical forms, equality
// ---------------------------------------------------------------------------------

func c26CanonRM(m zoekt.ReposMap) string {
	ids := make([]uint32, 0, len(m))
	for id := range m {
		ids = append(ids, id)
	}
	sort.Slice(ids, func(i, j int) bool { return ids[i] < ids[j] })
	var sb strings.Builder
	sb.WriteString("RM{")
	for _, id := range ids {
		e := m[id]
		fmt.Fprintf(&sb, "%d:%v,%d,[", id, e.HasSymbols, e.IndexTimeUnix)
		for _, b := range e.Branches {
			fmt.Fprintf(&sb, "%q=%q;", b.Name, b.Version)
		}
		sb.WriteString("] ")
	}
	sb.WriteString("}")
	return sb.String()
}

func c26CanonFS(s map[string]struct{}) string {
	ks := make([]string, 0, len(s))
	for k := range s {
		ks = append(ks, k)
	}
	sort.Strings(ks)
	var sb strings.Builder
	sb.WriteString("FS{")
	for _, k := range ks {
		if len(k) > 40 {
			h := fnv.New64a()
			h.Write([]byte(k))
			fmt.Fprintf(&sb, "<%d bytes %x>,", len(k), h.Sum64())
		} else {
			fmt.Fprintf(&sb, "%q,", k)
		}
	}
	sb.WriteString("}")
	return sb.String()
}

// c26CanonBR renders a BranchesRepos list. Bitmaps are rendered through their own
// serialisation; a bitmap that the library cannot inspect (decoded from corrupt bytes)
// is rendered as "?" – inspecting garbage is harness activity, not the property.
func c26CanonBR(l []query.BranchRepos) (s string, inspectable bool) {
	inspectable = true
	var sb strings.Builder
	sb.WriteString("BR[")
	for _, br := range l {
		name := br.Branch
		if len(name) > 40 {
			name = fmt.Sprintf("<%d bytes>", len(name))
		}
		fmt.Fprintf(&sb, "%q:", name)
		func() {
			defer func() {
				if e := recover(); e != nil {
					inspectable = false
					sb.WriteString("?")
				}
			}()
			if br.Repos == nil {
				sb.WriteString("nil")
				return
			}
			b, err := br.Repos.ToBytes()
			if err != nil {
				inspectable = false
				sb.WriteString("?")
				return
			}
			h := fnv.New64a()
			h.Write(b)
			fmt.Fprintf(&sb, "card=%d,%x", br.Repos.GetCardinality(), h.Sum64())
		}()
		sb.WriteString(" ")
	}
	sb.WriteString("]")
	return sb.String(), inspectable
}

func c26EqualRM(a, b zoekt.ReposMap) bool {
	if len(a) != len(b) {
		return false
	}
	for id, ea := range a {
		eb, ok := b[id]
		if !ok || ea.HasSymbols != eb.HasSymbols || ea.IndexTimeUnix != eb.IndexTimeUnix || len(ea.Branches) != len(eb.Branches) {
			return false
		}
		for i := range ea.Branches {
			if ea.Branches[i] != eb.Branches[i] {
				return false
			}
		}
	}
	return true
}

func c26EqualFS(a, b map[string]struct{}) bool {
	if len(a) != len(b) {
		return false
	}
	for k := range a {
		if _, ok := b[k]; !ok {
			return false
		}
	}
	return true
}

func c26EqualBR(a, b []query.BranchRepos) bool {
	if len(a) != len(b) {
		return false
	}
	for i := range a {
		if a[i].Branch != b[i].Branch {
			return false
		}
		if (a[i].Repos == nil) != (b[i].Repos == nil) {
			return false
		}
		if a[i].Repos != nil && !a[i].Repos.Equals(b[i].Repos) {
			return false
		}
	}
	return true
}

// c26EncodeRM writes the documented wire format of ReposMap (version 1: without
// IndexTimeUnix, version 2: with it), in ascending id order.
func c26EncodeRM(m zoekt.ReposMap, version byte) []byte {
	var b bytes.Buffer
	uv := func(x uint64) {
		var e [binary.MaxVarintLen64]byte
		b.Write(e[:binary.PutUvarint(e[:], x)])
	}
	str := func(s string) { uv(uint64(len(s))); b.WriteString(s) }
	ids := make([]uint32, 0, len(m))
	all := 0
	for id, e := range m {
		ids = append(ids, id)
		all += len(e.Branches)
	}
	sort.Slice(ids, func(i, j int) bool { return ids[i] < ids[j] })
	b.WriteByte(version)
	uv(uint64(len(m)))
	uv(uint64(all))
	for _, id := range ids {
		e := m[id]
		uv(uint64(id))
		if e.HasSymbols {
			b.WriteByte(1)
		} else {
			b.WriteByte(0)
		}
		if version >= 2 {
			uv(uint64(e.IndexTimeUnix))
		}
		uv(uint64(len(e.Branches)))
		for _, br := range e.Branches {
			str(br.Name)
			str(br.Version)
		}
	}
	return b.Bytes()
}

func c26EncodeRMv1(m zoekt.ReposMap) []byte { return c26EncodeRM(m, 1) }

// c26EncodeFS writes the documented wire format of a file name set in the given order.
func c26EncodeFS(names []string) []byte {
	var b bytes.Buffer
	uv := func(x uint64) {
		var e [binary.MaxVarintLen64]byte
		b.Write(e[:binary.PutUvarint(e[:], x)])
	}
	b.WriteByte(1)
	uv(uint64(len(names)))
	for _, n := range names {
		uv(uint64(len(n)))
		b.WriteString(n)
	}
	return b.Bytes()
}

func c26Long(n int, c byte) string { return strings.Repeat(string([]byte{c}), n) }

func c26Bitmaps(thorough bool) []*roaring.Bitmap {
	run := roaring.New()
	run.AddRange(0, 10000)
	run.RunOptimize()
	dense := roaring.New()
	for i := uint32(0); i < 12000; i += 2 {
		dense.Add(i)
	}
	multi := roaring.BitmapOf(1, 65536, 1<<31, 1<<32-1)
	out := []*roaring.Bitmap{
		roaring.New(),
		roaring.BitmapOf(0),
		roaring.BitmapOf(1, 2, 3),
		roaring.BitmapOf(1<<32 - 1),
		run,
		dense,
		multi,
	}
	return out
}

// ---------------------------------------------------------------------------------
// Part A: round trips
// ---------------------------------------------------------------------------------

func c26RoundTrips(r *mc.Report) {
	// failures are grouped by (type, kind of failure); the smallest case of each group is reported
	type rtGroup struct {
		caseID, detail string
		count          int
	}
	var gmu sync.Mutex
	rtGroups := map[string]*rtGroup{}
	viol := func(caseID, typ, what, detail string) {
		gmu.Lock()
		defer gmu.Unlock()
		k := typ + " " + what
		g := rtGroups[k]
		if g == nil {
			g = &rtGroup{caseID: caseID, detail: detail}
			rtGroups[k] = g
		} else if len(caseID) < len(g.caseID) || (len(caseID) == len(g.caseID) && caseID < g.caseID) {
			g.caseID, g.detail = caseID, detail
		}
		g.count++
	}
	defer func() {
		for k, g := range rtGroups {
			r.Violation(fmt.Sprintf("roundtrip %s: %s", k, g.caseID), fmt.Sprintf("%s\n(%d enumerated values fail this way; this is the smallest case)", g.detail, g.count), map[string]any{"case": g.caseID})
		}
	}()
	guard := func(caseID, typ string, f func()) {
		defer func() {
			if e := recover(); e != nil {
				viol(caseID, typ, "panic", fmt.Sprintf("%s: panic during encode/decode of a valid value: %v\n%s", caseID, e, c26Stack()))
			}
		}()
		f()
	}

	// ---- ReposMap
	ids := []uint32{0, 1, 127, 128, math.MaxUint32}
	times := []int64{0, 1700000000, -1, math.MaxInt64}
	brLists := [][]zoekt.RepositoryBranch{
		nil,
		{{Name: "", Version: ""}},
		{{Name: "HEAD", Version: "0123456789abcdef0123456789abcdef01234567"}},
		{{Name: "a", Version: "b"}, {Name: c26Long(128, 'n'), Version: "\xff\x00"}},
	}
	type ent = zoekt.MinimalRepoListEntry
	var variants []ent
	for _, hs := range []bool{false, true} {
		for _, tm := range times {
			for _, bl := range brLists {
				variants = append(variants, ent{HasSymbols: hs, IndexTimeUnix: tm, Branches: bl})
			}
		}
	}
	checkRM := func(caseID string, m zoekt.ReposMap) {
		if !r.Want(caseID) {
			return
		}
		guard(caseID, "ReposMap", func() {
			r.Eval(1)
			enc, err := m.MarshalBinary()
			if err != nil {
				viol(caseID, "ReposMap", "encode error", fmt.Sprintf("%s: MarshalBinary(%s) = %v", caseID, c26CanonRM(m), err))
				return
			}
			var got zoekt.ReposMap
			if err := got.UnmarshalBinary(enc); err != nil {
				viol(caseID, "ReposMap", "decode error", fmt.Sprintf("%s: UnmarshalBinary(MarshalBinary(%s)) = %v\nencoded=%x", caseID, c26CanonRM(m), err, enc))
				return
			}
			if !c26EqualRM(m, got) {
				viol(caseID, "ReposMap", "value changed", fmt.Sprintf("%s\nwant %s\ngot  %s\nencoded=%x", caseID, c26CanonRM(m), c26CanonRM(got), enc))
			}
			if len(m) > 0 {
				r.Nontrivial("A:" + c26CanonRM(m))
				// documented version 1 format
				r.Eval(1)
				v1 := c26EncodeRMv1(m)
				var got1 zoekt.ReposMap
				if err := got1.UnmarshalBinary(v1); err != nil {
					viol(caseID, "ReposMap", "v1 decode error", fmt.Sprintf("%s: decoding version-1 bytes %x: %v", caseID, v1, err))
					return
				}
				want1 := zoekt.ReposMap{}
				for id, e := range m {
					e.IndexTimeUnix = 0
					want1[id] = e
				}
				if !c26EqualRM(want1, got1) {
					viol(caseID, "ReposMap", "v1 value changed", fmt.Sprintf("%s (version 1 bytes)\nwant %s\ngot  %s\nencoded=%x", caseID, c26CanonRM(want1), c26CanonRM(got1), v1))
				}
			}
		})
	}
	checkRM("rt:rm:nil", nil)
	checkRM("rt:rm:empty", zoekt.ReposMap{})
	nv := len(variants)
	// 1, 2 and 3 entries: every increasing id combination x every variant tuple
	for a := 0; a < len(ids); a++ {
		for va := 0; va < nv; va++ {
			checkRM(fmt.Sprintf("rt:rm:%d.%d", a, va), zoekt.ReposMap{ids[a]: variants[va]})
		}
	}
	type pair struct{ a, b int }
	var pairs []pair
	for a := 0; a < len(ids); a++ {
		for b := a + 1; b < len(ids); b++ {
			pairs = append(pairs, pair{a, b})
		}
	}
	mc.ParallelFor(len(pairs)*nv, func(i int) {
		p, va := pairs[i/nv], i%nv
		for vb := 0; vb < nv; vb++ {
			checkRM(fmt.Sprintf("rt:rm:%d.%d,%d.%d", p.a, va, p.b, vb), zoekt.ReposMap{ids[p.a]: variants[va], ids[p.b]: variants[vb]})
		}
	})
	type triple struct{ a, b, c int }
	var triples []triple
	for a := 0; a < len(ids); a++ {
		for b := a + 1; b < len(ids); b++ {
			for c := b + 1; c < len(ids); c++ {
				triples = append(triples, triple{a, b, c})
			}
		}
	}
	if !r.Thorough() {
		// quick: all 3-entry maps over two id triples (lowest and highest), thorough: all ten
		triples = []triple{triples[0], triples[len(triples)-1]}
	}
	mc.ParallelFor(len(triples)*nv*nv, func(i int) {
		if r.Expired() {
			return
		}
		t, va, vb := triples[i/(nv*nv)], (i/nv)%nv, i%nv
		for vc := 0; vc < nv; vc++ {
			checkRM(fmt.Sprintf("rt:rm:%d.%d,%d.%d,%d.%d", t.a, va, t.b, vb, t.c, vc),
				zoekt.ReposMap{ids[t.a]: variants[va], ids[t.b]: variants[vb], ids[t.c]: variants[vc]})
		}
	})
	for _, n := range []int{127, 128, 129} {
		m := zoekt.ReposMap{}
		for i := 0; i < n; i++ {
			m[uint32(i*1000003)] = variants[i%nv]
		}
		checkRM(fmt.Sprintf("rt:rm:size%d", n), m)
	}

	// ---- FileNameSet
	names := []string{"", "a", "dir/b.go", c26Long(127, 'x'), c26Long(128, 'y'), c26Long(16384, 'z'), "\xff\x00\x80"}
	checkFS := func(caseID string, set map[string]struct{}) {
		if !r.Want(caseID) {
			return
		}
		guard(caseID, "FileNameSet", func() {
			r.Eval(1)
			q := &query.FileNameSet{Set: set}
			enc, err := q.MarshalBinary()
			if err != nil {
				viol(caseID, "FileNameSet", "encode error", fmt.Sprintf("%s: MarshalBinary(%s) = %v", caseID, c26CanonFS(set), err))
				return
			}
			var got query.FileNameSet
			if err := got.UnmarshalBinary(enc); err != nil {
				viol(caseID, "FileNameSet", "decode error", fmt.Sprintf("%s: UnmarshalBinary(MarshalBinary(%s)) = %v", caseID, c26CanonFS(set), err))
				return
			}
			if !c26EqualFS(set, got.Set) {
				viol(caseID, "FileNameSet", "value changed", fmt.Sprintf("%s\nwant %s\ngot  %s", caseID, c26CanonFS(set), c26CanonFS(got.Set)))
			}
			if len(set) > 0 {
				r.Nontrivial("A:" + c26CanonFS(set))
			}
		})
	}
	checkFS("rt:fs:nil", nil)
	for mask := 0; mask < 1<<len(names); mask++ {
		n := 0
		set := map[string]struct{}{}
		for i, s := range names {
			if mask&(1<<i) != 0 {
				set[s] = struct{}{}
				n++
			}
		}
		if n <= 3 {
			checkFS(fmt.Sprintf("rt:fs:%x", mask), set)
		}
	}
	for _, n := range []int{127, 128, 129, 16384} {
		set := map[string]struct{}{}
		for i := 0; i < n; i++ {
			set[fmt.Sprintf("f%d/%s", i, c26Long(i%130, 'p'))] = struct{}{}
		}
		checkFS(fmt.Sprintf("rt:fs:size%d", n), set)
	}

	// ---- BranchesRepos
	bms := c26Bitmaps(r.Thorough())
	bnames := []string{"", "HEAD", c26Long(200, 'b')}
	var brs []query.BranchRepos
	for _, n := range bnames {
		for _, bm := range bms {
			brs = append(brs, query.BranchRepos{Branch: n, Repos: bm})
		}
	}
	checkBR := func(caseID string, l []query.BranchRepos) {
		if !r.Want(caseID) {
			return
		}
		guard(caseID, "BranchesRepos", func() {
			r.Eval(1)
			q := query.BranchesRepos{List: l}
			canon, _ := c26CanonBR(l)
			enc, err := q.MarshalBinary()
			if err != nil {
				viol(caseID, "BranchesRepos", "encode error", fmt.Sprintf("%s: MarshalBinary(%s) = %v", caseID, canon, err))
				return
			}
			var got query.BranchesRepos
			if err := got.UnmarshalBinary(enc); err != nil {
				viol(caseID, "BranchesRepos", "decode error", fmt.Sprintf("%s: UnmarshalBinary(MarshalBinary(%s)) = %v", caseID, canon, err))
				return
			}
			if !c26EqualBR(l, got.List) {
				gc, _ := c26CanonBR(got.List)
				viol(caseID, "BranchesRepos", "value changed", fmt.Sprintf("%s\nwant %s\ngot  %s", caseID, canon, gc))
			}
			if len(l) > 0 {
				r.Nontrivial("A:" + canon)
			}
		})
	}
	checkBR("rt:br:nil", nil)
	checkBR("rt:br:empty", []query.BranchRepos{})
	nb := len(brs)
	for a := 0; a < nb; a++ {
		checkBR(fmt.Sprintf("rt:br:%d", a), []query.BranchRepos{brs[a]})
	}
	mc.ParallelFor(nb*nb, func(i int) {
		a, b := i/nb, i%nb
		checkBR(fmt.Sprintf("rt:br:%d,%d", a, b), []query.BranchRepos{brs[a], brs[b]})
		if r.Expired() {
			return
		}
		for c := 0; c < nb; c++ {
			checkBR(fmt.Sprintf("rt:br:%d,%d,%d", a, b, c), []query.BranchRepos{brs[a], brs[b], brs[c]})
		}
	})
	for _, n := range []int{127, 128, 129} {
		var l []query.BranchRepos
		for i := 0; i < n; i++ {
			l = append(l, query.BranchRepos{Branch: fmt.Sprintf("b%d", i), Repos: bms[i%len(bms)]})
		}
		checkBR(fmt.Sprintf("rt:br:size%d", n), l)
	}
	if r.Expired() {
		r.Incomplete("round-trip enumeration cut by the budget")
	}
}

// ---------------------------------------------------------------------------------
// Part B: decoding arbitrary bytes
// ---------------------------------------------------------------------------------

func c26Uvarint(x uint64) []byte {
	var e [binary.MaxVarintLen64]byte
	return append([]byte(nil), e[:binary.PutUvarint(e[:], x)]...)
}

func c26LP(b []byte) []byte { return append(c26Uvarint(uint64(len(b))), b...) }

func c26Rep(b byte, n int, tail ...byte) []byte {
	return append(bytes.Repeat([]byte{b}, n), tail...)
}

// c26Tokens is the token alphabet of the structured enumeration. The order is part of
// the case numbering (and therefore of the choice of the reported minimal input).
func c26Tokens(thorough bool) [][]byte {
	valid := roaring.BitmapOf(1, 2, 3)
	vb, _ := valid.ToBytes()
	eb, _ := roaring.New().ToBytes()
	// header of a no-run-container bitmap announcing 2^32-1 containers
	huge := []byte{0x3a, 0x30, 0, 0, 0xff, 0xff, 0xff, 0xff}
	toks := [][]byte{
		{0x00}, {0x01}, {0x02}, {0x03}, // version bytes, small counts, flags
		{0x7f},                     // 127
		{0x80, 0x01},               // 128
		{'a'},                      // raw byte
		{0x80},                     // unterminated varint / continuation
		c26Uvarint(1 << 31),        // 2^31
		c26Uvarint(1 << 56),        // 2^56
		c26Uvarint(1<<63 - 1),      // 2^63-1
		c26Uvarint(1 << 63),        // 2^63  (int: negative)
		c26Uvarint(math.MaxUint64), // 2^64-1 (int: -1)
		c26Rep(0xff, 10, 0x01),     // 11-byte varint (overflow)
		c26LP(eb),                  // length-prefixed valid empty roaring bitmap
		c26LP(vb),                  // length-prefixed valid roaring bitmap {1,2,3}
		c26LP(vb[:len(vb)-3]),      // length-prefixed truncated roaring bitmap
		c26LP(huge),                // length-prefixed roaring header with 2^32-1 containers
	}
	if thorough {
		toks = append(toks,
			[]byte{0xff},      // raw 0xff / continuation with payload
			c26Uvarint(1<<32), // 2^32
		)
	}
	return toks
}

// c26TokenDecoders says for which decoders a token is part of the alphabet: the roaring
// blob tokens belong to the BranchesRepos format only (for the other two formats they are
// just multi-byte strings that multiply the contexts of every count field).
func c26TokenDecoders(thorough bool) []uint8 {
	toks := c26Tokens(thorough)
	m := make([]uint8, len(toks))
	for i := range m {
		m[i] = 1<<c26NDec - 1
	}
	for i := 14; i <= 17; i++ {
		m[i] = 1 << c26DecBR
	}
	return m
}

func c26ByteTokens() [][]byte {
	out := make([][]byte, 256)
	for i := range out {
		out[i] = []byte{byte(i)}
	}
	return out
}

// c26MutInputs: every truncation and every single-byte substitution of valid encodings.
func c26NewMutSpace(thorough bool) *c26MutSpace {
	var bases [][]byte
	add := func(b []byte, err error) {
		if err != nil {
			panic(err)
		}
		bases = append(bases, b)
	}
	// ReposMap and FileNameSet are written with the harness's own encoders of the documented
	// formats (sorted, because the real encoders follow map order and the case numbering must
	// be the same in every process).
	rm := zoekt.ReposMap{1: {HasSymbols: true, IndexTimeUnix: 1700000000, Branches: []zoekt.RepositoryBranch{{Name: "HEAD", Version: "abc"}}}}
	if thorough {
		rm[1] = zoekt.MinimalRepoListEntry{HasSymbols: true, IndexTimeUnix: 1700000000, Branches: []zoekt.RepositoryBranch{{Name: "HEAD", Version: "abc"}, {Name: "dev", Version: "def"}}}
		rm[300] = zoekt.MinimalRepoListEntry{Branches: []zoekt.RepositoryBranch{{Name: "main", Version: ""}}}
	}
	bases = append(bases, c26EncodeRM(rm, 2), c26EncodeRM(rm, 1))
	fsNames := []string{"a", "dir/b.go"}
	if thorough {
		fsNames = append(fsNames, c26Long(130, 'q'))
	}
	bases = append(bases, c26EncodeFS(fsNames))
	bms := c26Bitmaps(thorough)
	add(query.BranchesRepos{List: []query.BranchRepos{{Branch: "HEAD", Repos: bms[2]}}}.MarshalBinary())
	add(query.BranchesRepos{List: []query.BranchRepos{{Branch: "r", Repos: bms[4]}, {Branch: "x", Repos: bms[6]}}}.MarshalBinary())
	if thorough {
		add(query.BranchesRepos{List: []query.BranchRepos{{Branch: "d", Repos: bms[5]}, {Branch: "e", Repos: bms[1]}}}.MarshalBinary())
	}
	subs := [][]byte{{0x00}, {0x01}, {0x7f}, {0x80}, {0xff}, {0x80, 0x01},
		c26Uvarint(1 << 56), c26Uvarint(1 << 63), c26Uvarint(math.MaxUint64), c26Rep(0xff, 10, 0x01)}
	if thorough {
		subs = append(subs, c26Uvarint(1<<31), c26Uvarint(1<<63-1))
	}
	sp := &c26MutSpace{bases: bases, subs: subs}
	for _, b := range bases {
		// per base: len(b) truncations, then len(b)*len(subs) replacements
		sp.starts = append(sp.starts, sp.n)
		sp.n += int64(len(b)) * int64(1+len(subs))
	}
	return sp
}

// c26MutSpace enumerates the mutated inputs lazily (the thorough bases contain 8 KiB bitmaps).
type c26MutSpace struct {
	bases  [][]byte
	subs   [][]byte
	starts []int64
	n      int64
}

var (
	c26MutMu    sync.Mutex
	c26MutCache = map[bool]*c26MutSpace{}
)

func c26MutInputs(thorough bool) *c26MutSpace {
	c26MutMu.Lock()
	defer c26MutMu.Unlock()
	if c26MutCache[thorough] == nil {
		c26MutCache[thorough] = c26NewMutSpace(thorough)
	}
	return c26MutCache[thorough]
}

func (sp *c26MutSpace) Len() int64 { return sp.n }

// At returns input i; ok is false for a replacement that would not change the base.
func (sp *c26MutSpace) At(i int64) (in []byte, ok bool) {
	k := len(sp.starts) - 1
	for k > 0 && sp.starts[k] > i {
		k--
	}
	b := sp.bases[k]
	i -= sp.starts[k]
	if i < int64(len(b)) {
		return append([]byte(nil), b[:i]...), true
	}
	i -= int64(len(b))
	pos, s := int(i/int64(len(sp.subs))), sp.subs[i%int64(len(sp.subs))]
	if len(s) == 1 && b[pos] == s[0] {
		return nil, false
	}
	m := append([]byte(nil), b[:pos]...)
	m = append(m, s...)
	m = append(m, b[pos+1:]...)
	return m, true
}

var c26Digits = regexp.MustCompile(`-?[0-9]+`)

func c26Stack() string {
	buf := make([]byte, 16<<10)
	return string(buf[:runtime.Stack(buf, false)])
}

// c26Site returns the innermost zoekt function (not a harness file) on the panicking stack.
func c26Site() string {
	pcs := make([]uintptr, 64)
	n := runtime.Callers(3, pcs)
	fr := runtime.CallersFrames(pcs[:n])
	for {
		f, more := fr.Next()
		if strings.Contains(f.Function, "github.com/sourcegraph/zoekt") && !strings.Contains(f.File, "zz_verif_") &&
			!strings.Contains(f.File, "/verif") && !strings.Contains(f.Function, "c26") {
			fn := f.Function
			fn = strings.TrimPrefix(fn, "github.com/sourcegraph/zoekt/")
			fn = strings.TrimPrefix(fn, "github.com/sourcegraph/")
			return fn
		}
		if !more {
			return "?"
		}
	}
}

type c26Result struct {
	Class  string // value | error | panic | alloc | reencode
	Sig    string // violation signature for panic/alloc/reencode
	Detail string
	N      int    // elements of the decoded value
	Canon  string // canonical decoded value (value outcomes with N>0)
}

var c26AllocSample = []metrics.Sample{{Name: "/gc/heap/allocs:bytes"}}

func c26AllocBytes() uint64 {
	metrics.Read(c26AllocSample)
	return c26AllocSample[0].Value.Uint64()
}

// c26Decode runs one decoder on one input inside the current process.
func c26Decode(dec int, in []byte) (res c26Result) {
	a0 := c26AllocBytes()
	defer func() {
		if e := recover(); e != nil {
			msg := fmt.Sprint(e)
			res = c26Result{Class: "panic", Sig: "panic: " + c26Digits.ReplaceAllString(msg, "N") + " @" + c26Site(),
				Detail: fmt.Sprintf("panic: %v\n%s", e, c26Stack())}
			return
		}
		if res.Class == "value" || res.Class == "error" {
			if d := c26AllocBytes() - a0; d > uint64(c26AllocBase+c26AllocPerByte*len(in)) && d < 1<<62 {
				res = c26Result{Class: "alloc", Sig: "unbounded",
					Detail: fmt.Sprintf("decoding %d input bytes allocated %d bytes (bound %d + %d per input byte)", len(in), d, c26AllocBase, c26AllocPerByte)}
			}
		}
	}()
	switch dec {
	case c26DecRM:
		var m zoekt.ReposMap
		if err := m.UnmarshalBinary(in); err != nil {
			return c26Result{Class: "error"}
		}
		res = c26Result{Class: "value", N: len(m)}
		if len(m) > 0 {
			res.Canon = c26CanonRM(m)
			if enc, err := m.MarshalBinary(); err == nil {
				var m2 zoekt.ReposMap
				if err := m2.UnmarshalBinary(enc); err != nil || !c26EqualRM(m, m2) {
					return c26Result{Class: "reencode", Sig: "decoded value does not survive encode+decode",
						Detail: fmt.Sprintf("decoded %s; re-encoded %x; decoded again %s err=%v", res.Canon, enc, c26CanonRM(m2), err)}
				}
			}
		}
	case c26DecFS:
		var q query.FileNameSet
		if err := q.UnmarshalBinary(in); err != nil {
			return c26Result{Class: "error"}
		}
		res = c26Result{Class: "value", N: len(q.Set)}
		if len(q.Set) > 0 {
			res.Canon = c26CanonFS(q.Set)
			if enc, err := q.MarshalBinary(); err == nil {
				var q2 query.FileNameSet
				if err := q2.UnmarshalBinary(enc); err != nil || !c26EqualFS(q.Set, q2.Set) {
					return c26Result{Class: "reencode", Sig: "decoded value does not survive encode+decode",
						Detail: fmt.Sprintf("decoded %s; re-encoded %x; decoded again %s err=%v", res.Canon, enc, c26CanonFS(q2.Set), err)}
				}
			}
		}
	case c26DecBR:
		var q query.BranchesRepos
		if err := q.UnmarshalBinary(in); err != nil {
			return c26Result{Class: "error"}
		}
		res = c26Result{Class: "value", N: len(q.List)}
		if len(q.List) > 0 {
			canon, ok := c26CanonBR(q.List)
			res.Canon = canon
			if ok {
				// only values whose bitmaps the roaring library can serialise are re-encoded
				var enc []byte
				var err error
				func() {
					defer func() {
						if e := recover(); e != nil {
							err = fmt.Errorf("encode panicked: %v", e)
						}
					}()
					enc, err = q.MarshalBinary()
				}()
				if err == nil {
					var q2 query.BranchesRepos
					if err := q2.UnmarshalBinary(enc); err != nil || !c26EqualBR(q.List, q2.List) {
						c2, _ := c26CanonBR(q2.List)
						return c26Result{Class: "reencode", Sig: "decoded value does not survive encode+decode",
							Detail: fmt.Sprintf("decoded %s; re-encoded %x; decoded again %s err=%v", canon, enc, c2, err)}
					}
				}
			}
		}
	}
	return res
}

// ---- jobs ------------------------------------------------------------------------

type c26Job struct {
	Family   string            `json:"family"` // bytes | tokens | mut | raw
	Thorough bool              `json:"thorough"`
	Level    int               `json:"level"`
	Start    int64             `json:"start"`
	End      int64             `json:"end"`
	Failing  [c26NDec][]string `json:"failing"` // hex of token-index sequences per decoder
	Skip     []int64           `json:"skip"`    // markers (case*4+dec) not to execute
	Raw      string            `json:"raw"`     // family raw: hex input
	RawDec   int               `json:"raw_dec"`
	Out      string            `json:"out"`
}

type c26Cand struct {
	Dec    int    `json:"dec"`
	Family string `json:"family"`
	Level  int    `json:"level"`
	Index  int64  `json:"index"`
	Seq    string `json:"seq"` // hex of token indices (bytes/tokens families)
	Input  string `json:"input"`
	Class  string `json:"class"`
	Sig    string `json:"sig"`
	Detail string `json:"detail"`
}

type c26ChunkOut struct {
	Evals     int64            `json:"evals"`
	Pruned    int64            `json:"pruned"`
	Classes   map[string]int64 `json:"classes"`
	Cands     []c26Cand        `json:"cands"`
	Nontriv   []uint64         `json:"nontriv"`
	Samples   []string         `json:"samples"`
	Completed bool             `json:"completed"`
}

func c26FamilyOrder(f string) int {
	switch f {
	case "bytes":
		return 0
	case "tokens":
		return 1
	case "mut":
		return 2
	}
	return 3
}

func c26Pow(b, e int) int64 {
	r := int64(1)
	for i := 0; i < e; i++ {
		r *= int64(b)
	}
	return r
}

// TestVerifC26Child is the guarded worker: it reads jobs (one JSON document per line)
// from stdin, executes them and answers "C26DONE <out file>" per job on stdout.
func TestVerifC26Child(t *testing.T) {
	pp := os.Getenv(c26ChildEnv)
	if pp == "" {
		t.Skip("child only")
	}
	f, err := os.OpenFile(pp, os.O_RDWR, 0)
	if err != nil {
		t.Fatal(err)
	}
	mem, err := syscall.Mmap(int(f.Fd()), 0, 8, syscall.PROT_READ|syscall.PROT_WRITE, syscall.MAP_SHARED)
	if err != nil {
		t.Fatal(err)
	}
	marker := (*uint64)(unsafe.Pointer(&mem[0]))
	in := bufio.NewReaderSize(os.Stdin, 1<<20)
	fmt.Println("C26READY")
	for {
		line, err := in.ReadBytes('\n')
		if len(bytes.TrimSpace(line)) > 0 {
			var job c26Job
			if err := json.Unmarshal(line, &job); err != nil {
				t.Fatalf("bad job: %v", err)
			}
			c26RunJob(t, &job, marker)
			fmt.Printf("C26DONE %s\n", job.Out)
		}
		if err != nil {
			return
		}
	}
}

func c26RunJob(t *testing.T, job *c26Job, marker *uint64) {
	out := c26ChunkOut{Classes: map[string]int64{}}
	skip := map[int64]bool{}
	for _, s := range job.Skip {
		skip[s] = true
	}
	nontriv := map[uint64]struct{}{}
	record := func(dec int, idx int64, seq, in []byte, res c26Result) {
		out.Evals++
		out.Classes[res.Class]++
		switch res.Class {
		case "value":
			if res.N > 0 {
				h := fnv.New64a()
				h.Write([]byte{byte(dec)})
				h.Write([]byte(res.Canon))
				nontriv[h.Sum64()] = struct{}{}
				if len(out.Samples) < 3 && len(in) > 3 {
					c := res.Canon
					if len(c) > 200 {
						c = c[:200] + "…"
					}
					out.Samples = append(out.Samples, fmt.Sprintf("%s(%x) = %s", c26DecNames[dec], in, c))
				}
			}
		case "error":
		default:
			out.Cands = append(out.Cands, c26Cand{Dec: dec, Family: job.Family, Level: job.Level, Index: idx, Seq: hex.EncodeToString(seq),
				Input: hex.EncodeToString(in), Class: res.Class, Sig: res.Sig, Detail: res.Detail})
		}
	}
	run := func(dec int, idx int64, seq, in []byte) {
		m := idx*4 + int64(dec)
		if skip[m] {
			return
		}
		atomic.StoreUint64(marker, uint64(m)+1)
		record(dec, idx, seq, in, c26Decode(dec, in))
	}

	switch job.Family {
	case "raw":
		in, _ := hex.DecodeString(job.Raw)
		run(job.RawDec, 0, nil, in)
	case "mut":
		inputs := c26MutInputs(job.Thorough)
		for idx := job.Start; idx < job.End && idx < inputs.Len(); idx++ {
			in, ok := inputs.At(idx)
			if !ok {
				continue
			}
			for dec := 0; dec < c26NDec; dec++ {
				run(dec, idx, nil, in)
			}
		}
	case "bytes", "tokens":
		toks := c26Tokens(job.Thorough)
		masks := c26TokenDecoders(job.Thorough)
		if job.Family == "bytes" {
			toks = c26ByteTokens()
			masks = make([]uint8, 256)
			for i := range masks {
				masks[i] = 1<<c26NDec - 1
			}
		}
		var failing [c26NDec]map[string]bool
		for d := 0; d < c26NDec; d++ {
			failing[d] = map[string]bool{}
			for _, h := range job.Failing[d] {
				b, _ := hex.DecodeString(h)
				failing[d][string(b)] = true
			}
		}
		L := job.Level
		T := int64(len(toks))
		seq := make([]byte, L)
		buf := make([]byte, 0, 256)
		for idx := job.Start; idx < job.End; idx++ {
			x := idx
			for p := L - 1; p >= 0; p-- {
				seq[p] = byte(x % T)
				x /= T
			}
			buf = buf[:0]
			allowed := uint8(1<<c26NDec - 1)
			for _, d := range seq {
				buf = append(buf, toks[d]...)
				allowed &= masks[d]
			}
			for dec := 0; dec < c26NDec; dec++ {
				if allowed&(1<<dec) == 0 {
					continue
				}
				dead := false
				if len(failing[dec]) > 0 {
					for k := 0; k < L; k++ {
						if failing[dec][string(seq[:k])] {
							dead = true
							break
						}
					}
				}
				if dead {
					out.Pruned++
					continue
				}
				run(dec, idx, seq, buf)
			}
		}
	default:
		t.Fatalf("unknown family %q", job.Family)
	}
	atomic.StoreUint64(marker, 0)
	for h := range nontriv {
		out.Nontriv = append(out.Nontriv, h)
	}
	sort.Slice(out.Nontriv, func(i, j int) bool { return out.Nontriv[i] < out.Nontriv[j] })
	out.Completed = true
	f, err := os.Create(job.Out)
	if err != nil {
		t.Fatal(err)
	}
	w := bufio.NewWriter(f)
	if err := json.NewEncoder(w).Encode(&out); err != nil {
		t.Fatal(err)
	}
	w.Flush()
	f.Close()
}

// ---- parent ------------------------------------------------------------------------

type c26Guard struct {
	expired  func() bool
	dir      string
	memKB    int64
	cpuLimit float64 // CPU seconds on one case
	wallStop time.Duration
	seq      atomic.Int64
	spawned  atomic.Int64
	deaths   atomic.Int64

	mu   sync.Mutex
	idle []*c26Worker
}

type c26Worker struct {
	cmd   *exec.Cmd
	stdin interface {
		Write([]byte) (int, error)
		Close() error
	}
	lines    chan string
	dead     chan error
	stderr   *bytes.Buffer
	progress *os.File
	base     string
}

func c26ProcCPU(pid int) (float64, bool) {
	b, err := os.ReadFile(fmt.Sprintf("/proc/%d/stat", pid))
	if err != nil {
		return 0, false
	}
	s := string(b)
	i := strings.LastIndexByte(s, ')')
	if i < 0 {
		return 0, false
	}
	f := strings.Fields(s[i+1:])
	if len(f) < 13 {
		return 0, false
	}
	ut, _ := strconv.ParseFloat(f[11], 64)
	st, _ := strconv.ParseFloat(f[12], 64)
	return (ut + st) / 100, true
}

var c26LogMu sync.Mutex

// c26Log appends a progress line to $VERIF_C26_LOG (debugging aid, no effect on results).
func c26Log(format string, a ...any) {
	p := os.Getenv("VERIF_C26_LOG")
	if p == "" {
		return
	}
	c26LogMu.Lock()
	defer c26LogMu.Unlock()
	f, err := os.OpenFile(p, os.O_APPEND|os.O_CREATE|os.O_WRONLY, 0o644)
	if err != nil {
		return
	}
	fmt.Fprintf(f, "%s "+format+"\n", append([]any{time.Now().Format("15:04:05.000")}, a...)...)
	f.Close()
}

// c26Death describes how a child died.
type c26Death struct {
	Marker int64 // case*4+dec in flight
	Kind   string
	Stderr string
}

func (g *c26Guard) spawn() (*c26Worker, error) {
	id := g.seq.Add(1)
	w := &c26Worker{base: filepath.Join(g.dir, fmt.Sprintf("w%d", id)), lines: make(chan string, 16), dead: make(chan error, 1), stderr: &bytes.Buffer{}}
	pp := w.base + ".progress"
	if err := os.WriteFile(pp, make([]byte, 8), 0o600); err != nil {
		return nil, err
	}
	pf, err := os.Open(pp)
	if err != nil {
		return nil, err
	}
	w.progress = pf
	script := fmt.Sprintf("ulimit -v %d; exec \"$0\" \"$@\"", g.memKB)
	cmd := exec.Command("sh", "-c", script, os.Args[0], "-test.run=^TestVerifC26Child$", "-test.count=1", "-test.timeout=0")
	cmd.Env = append(os.Environ(), c26ChildEnv+"="+pp, "GOMAXPROCS=2", "VERIF_OUT=", "GOTRACEBACK=single")
	cmd.Stderr = w.stderr
	stdin, err := cmd.StdinPipe()
	if err != nil {
		return nil, err
	}
	stdout, err := cmd.StdoutPipe()
	if err != nil {
		return nil, err
	}
	if err := cmd.Start(); err != nil {
		return nil, err
	}
	w.cmd, w.stdin = cmd, stdin
	g.spawned.Add(1)
	go func() {
		sc := bufio.NewScanner(stdout)
		sc.Buffer(make([]byte, 1<<16), 1<<20)
		for sc.Scan() {
			if l := sc.Text(); strings.HasPrefix(l, "C26") {
				w.lines <- l
			}
		}
		w.dead <- cmd.Wait()
	}()
	return w, nil
}

func (w *c26Worker) marker() uint64 {
	var b [8]byte
	if _, err := w.progress.ReadAt(b[:], 0); err != nil {
		return 0
	}
	return binary.LittleEndian.Uint64(b[:])
}

func (w *c26Worker) discard() {
	w.stdin.Close()
	w.cmd.Process.Kill()
	w.progress.Close()
	os.Remove(w.base + ".progress")
}

func (g *c26Guard) get() (*c26Worker, error) {
	g.mu.Lock()
	if n := len(g.idle); n > 0 {
		w := g.idle[n-1]
		g.idle = g.idle[:n-1]
		g.mu.Unlock()
		return w, nil
	}
	g.mu.Unlock()
	return g.spawn()
}

func (g *c26Guard) put(w *c26Worker) {
	g.mu.Lock()
	g.idle = append(g.idle, w)
	g.mu.Unlock()
}

func (g *c26Guard) closeAll() {
	g.mu.Lock()
	ws := g.idle
	g.idle = nil
	g.mu.Unlock()
	for _, w := range ws {
		w.stdin.Close()
		select {
		case <-w.dead:
		case <-time.After(10 * time.Second):
			w.cmd.Process.Kill()
		}
		w.progress.Close()
		os.Remove(w.base + ".progress")
	}
}

// runOnce hands job to a worker. It returns the chunk output, or the death of the worker.
func (g *c26Guard) runOnce(job *c26Job) (*c26ChunkOut, *c26Death, error) {
	w, err := g.get()
	if err != nil {
		return nil, nil, err
	}
	id := g.seq.Add(1)
	job.Out = filepath.Join(g.dir, fmt.Sprintf("j%d.out", id))
	defer os.Remove(job.Out)
	jb, _ := json.Marshal(job)
	jb = append(jb, '\n')
	go w.stdin.Write(jb)
	last := w.marker()
	lastCPU, _ := c26ProcCPU(w.cmd.Process.Pid)
	lastWall := time.Now()
	kind := ""
	tick := time.NewTicker(100 * time.Millisecond)
	defer tick.Stop()
	var werr error
loop:
	for {
		select {
		case l := <-w.lines:
			if l == "C26READY" {
				continue
			}
			if l != "C26DONE "+job.Out {
				w.discard()
				return nil, nil, fmt.Errorf("unexpected worker line %q", l)
			}
			ob, err := os.ReadFile(job.Out)
			if err != nil {
				w.discard()
				return nil, nil, fmt.Errorf("worker reported done without output: %v", err)
			}
			var out c26ChunkOut
			if err := json.Unmarshal(ob, &out); err != nil || !out.Completed {
				w.discard()
				return nil, nil, fmt.Errorf("worker output unreadable: %v", err)
			}
			g.put(w)
			return &out, nil, nil
		case werr = <-w.dead:
			break loop
		case <-tick.C:
			m := w.marker()
			cpu, ok := c26ProcCPU(w.cmd.Process.Pid)
			if m != last || !ok {
				last = m
				if ok {
					lastCPU = cpu
				}
				lastWall = time.Now()
				continue
			}
			if kind != "" {
				continue
			}
			if m == 0 {
				// starting up / parsing the job / writing results: only the wall backstop applies
				if time.Since(lastWall) > g.wallStop {
					kind = "stall outside a case"
					w.cmd.Process.Kill()
				}
				continue
			}
			if cpu-lastCPU > g.cpuLimit {
				kind = fmt.Sprintf("did not return within %.0f CPU-seconds", g.cpuLimit)
				w.cmd.Process.Kill()
			} else if time.Since(lastWall) > g.wallStop {
				kind = fmt.Sprintf("did not return within %v wall time", g.wallStop)
				w.cmd.Process.Kill()
			}
		}
	}
	m := w.marker()
	se := w.stderr.String()
	w.progress.Close()
	os.Remove(w.base + ".progress")
	if kind == "" {
		switch {
		case strings.Contains(se, "out of memory") || strings.Contains(se, "cannot allocate memory"):
			kind = fmt.Sprintf("process died: out of memory under ulimit -v %d KiB", g.memKB)
		case strings.Contains(se, "fatal error:"):
			kind = "process died: " + c26FirstLine(se, "fatal error:")
		default:
			kind = fmt.Sprintf("process died: %v", werr)
		}
	}
	if m == 0 {
		return nil, nil, fmt.Errorf("worker died outside a case (%s): %s", kind, c26Tail(se, 3000))
	}
	g.deaths.Add(1)
	c26Log("death %s L%d [%d,%d) marker=%d kind=%s skip=%d", job.Family, job.Level, job.Start, job.End, int64(m)-1, kind, len(job.Skip))
	return nil, &c26Death{Marker: int64(m) - 1, Kind: kind, Stderr: c26Head(se, 1500)}, nil
}

func c26Tail(s string, n int) string {
	if len(s) > n {
		return "…" + s[len(s)-n:]
	}
	return s
}

func c26Head(s string, n int) string {
	if len(s) > n {
		return s[:n] + "…"
	}
	return s
}

func c26FirstLine(s, prefix string) string {
	i := strings.Index(s, prefix)
	if i < 0 {
		return ""
	}
	s = s[i:]
	if j := strings.IndexByte(s, '\n'); j >= 0 {
		s = s[:j]
	}
	return s
}

// c26InputOf rebuilds the input bytes of case idx.
func c26InputOf(family string, thorough bool, level int, idx int64) (seq, in []byte) {
	switch family {
	case "mut":
		in, _ := c26MutInputs(thorough).At(idx)
		return nil, in
	case "bytes", "tokens":
		toks := c26Tokens(thorough)
		if family == "bytes" {
			toks = c26ByteTokens()
		}
		T := int64(len(toks))
		seq = make([]byte, level)
		x := idx
		for p := level - 1; p >= 0; p-- {
			seq[p] = byte(x % T)
			x /= T
		}
		for _, d := range seq {
			in = append(in, toks[d]...)
		}
		return seq, in
	}
	return nil, nil
}

// runChunk runs job to completion, restarting after every death with the dying case
// added to the skip list. Deaths are returned as candidates.
func (g *c26Guard) runChunk(job c26Job) (*c26ChunkOut, []c26Cand, error) {
	var deaths []c26Cand
	for attempt := 0; ; attempt++ {
		if attempt > 0 && job.Family != "raw" && g.expired != nil && g.expired() {
			return nil, nil, errC26Cut
		}
		out, death, err := g.runOnce(&job)
		if err != nil {
			return nil, nil, err
		}
		if death == nil {
			return out, deaths, nil
		}
		idx, dec := death.Marker/4, int(death.Marker%4)
		var seq, in []byte
		if job.Family == "raw" {
			in, _ = hex.DecodeString(job.Raw)
		} else {
			seq, in = c26InputOf(job.Family, job.Thorough, job.Level, idx)
		}
		deaths = append(deaths, c26Cand{Dec: dec, Family: job.Family, Level: job.Level, Index: idx, Seq: hex.EncodeToString(seq),
			Input: hex.EncodeToString(in), Class: "death", Sig: "unbounded", Detail: death.Kind + "\n" + death.Stderr})
		if job.Family == "raw" {
			return &c26ChunkOut{Classes: map[string]int64{}}, deaths, nil
		}
		job.Skip = append(job.Skip, death.Marker)
		if attempt > 5000 {
			return nil, nil, fmt.Errorf("more than 5000 deaths in one chunk")
		}
	}
}

var errC26Cut = fmt.Errorf("budget used up inside a chunk")

type c26Agg struct {
	mu      sync.Mutex
	cands   []c26Cand
	classes map[string]int64
	evals   int64
	pruned  int64
}

func c26CaseID(dec int, inputHex string) string { return fmt.Sprintf("dec:%d:%s", dec, inputHex) }

func TestVerifC26(t *testing.T) {
	r := mc.NewReport("C26")
	dir, err := os.MkdirTemp(c26ScratchBase(), "verif-c26-")
	if err != nil {
		t.Fatal(err)
	}
	defer os.RemoveAll(dir)
	g := &c26Guard{dir: dir, memKB: 4 << 20, cpuLimit: 1, wallStop: 5 * time.Minute}
	if v, err := strconv.ParseFloat(os.Getenv("VERIF_C26_CPU_S"), 64); err == nil && v > 0 {
		g.cpuLimit = v
	}
	defer g.closeAll()
	start := time.Now()
	expired := func() bool {
		// quick tier: keep the whole run inside ~90 s even when the machine is busy
		return r.Expired() || (!r.Thorough() && time.Since(start) > 65*time.Second)
	}
	g.expired = expired
	agg := &c26Agg{classes: map[string]int64{}}
	toolErr := func(err error) {
		r.Violation("TOOL: C26 guarded child failed: "+c26Head(err.Error(), 200), err.Error(), nil)
	}

	if rc := os.Getenv("VERIF_REPLAY_CASE"); strings.HasPrefix(rc, "dec:") {
		// replay of one (decoder, input)
		parts := strings.SplitN(rc, ":", 3)
		dec, _ := strconv.Atoi(parts[1])
		c26Confirm(r, g, []c26Cand{{Dec: dec, Family: "raw", Input: parts[2], Sig: "replay", Class: "replay"}}, 1, toolErr)
		r.Finish("replay of one (decoder, input) case")
		return
	}

	// ---- Part A
	t0 := time.Now()
	c26RoundTrips(r)
	r.Note("round trips: %d cases in %.1fs", r.Evals(), time.Since(t0).Seconds())
	if r.Replaying() {
		r.Finish("replay of one round-trip case")
		return
	}

	// ---- Part B
	merge := func(out *c26ChunkOut, deaths []c26Cand) {
		agg.mu.Lock()
		defer agg.mu.Unlock()
		agg.evals += out.Evals + int64(len(deaths))
		agg.pruned += out.Pruned
		for k, v := range out.Classes {
			agg.classes[k] += v
		}
		agg.classes["death"] += int64(len(deaths))
		for _, d := range deaths {
			kind := "oom"
			if strings.Contains(d.Detail, "did not return") {
				kind = "deadline"
			} else if !strings.Contains(d.Detail, "out of memory") {
				kind = "other"
			}
			agg.classes[fmt.Sprintf("death/%s/len%d/%s", d.Family, d.Level, kind)]++
		}
		agg.cands = append(agg.cands, out.Cands...)
		agg.cands = append(agg.cands, deaths...)
		for _, h := range out.Nontriv {
			r.Nontrivial("B:" + strconv.FormatUint(h, 16))
		}
		for _, s := range out.Samples {
			r.Sample(s)
		}
	}
	type chunk struct{ start, end int64 }
	runLevel := func(family string, level int, n int64, failing [c26NDec][]string) (newFail [c26NDec][]string, complete bool) {
		size := n / 2000
		if size < 1 {
			size = 1
		}
		if size > 400000 {
			size = 400000
		}
		var chunks []chunk
		for s := int64(0); s < n; s += size {
			e := s + size
			if e > n {
				e = n
			}
			chunks = append(chunks, chunk{s, e})
		}
		var cut atomic.Int64
		var fmu sync.Mutex
		mc.ParallelFor(len(chunks), func(i int) {
			if expired() {
				cut.Add(1)
				return
			}
			out, deaths, err := g.runChunk(c26Job{Family: family, Thorough: r.Thorough(), Level: level, Start: chunks[i].start, End: chunks[i].end, Failing: failing})
			if err == errC26Cut {
				cut.Add(1)
				return
			}
			if err != nil {
				toolErr(err)
				cut.Add(1)
				return
			}
			merge(out, deaths)
			c26Log("chunk %s L%d [%d,%d) done evals=%d deaths=%d", family, level, chunks[i].start, chunks[i].end, out.Evals, len(deaths))
			fmu.Lock()
			for _, c := range append(append([]c26Cand(nil), out.Cands...), deaths...) {
				if c.Seq != "" || level == 0 {
					newFail[c.Dec] = append(newFail[c.Dec], c.Seq)
				}
			}
			fmu.Unlock()
		})
		if c := cut.Load(); c > 0 {
			r.Incomplete("%s family, length %d: %d of %d chunks not run (budget)", family, level, c, len(chunks))
			return newFail, false
		}
		return newFail, true
	}
	runFamily := func(family string, ntok int, maxLevel int) {
		var failing [c26NDec][]string
		done := -1
		for level := 0; level <= maxLevel; level++ {
			if expired() {
				r.Incomplete("%s family: lengths %d..%d not run (budget)", family, level, maxLevel)
				break
			}
			tl := time.Now()
			c26Log("start %s length %d", family, level)
			nf, ok := runLevel(family, level, c26Pow(ntok, level), failing)
			r.Note("%s length %d: %d inputs, %.1fs, %d child processes so far, %d deaths so far", family, level, c26Pow(ntok, level), time.Since(tl).Seconds(), g.spawned.Load(), g.deaths.Load())
			for d := 0; d < c26NDec; d++ {
				failing[d] = append(failing[d], nf[d]...)
				sort.Strings(failing[d])
			}
			if !ok {
				break
			}
			done = level
		}
		r.Set("completed_length_"+family, done)
	}
	bytesMax, tokMax := 2, 4
	if r.Thorough() {
		bytesMax, tokMax = 3, 6
	}
	if v, err := strconv.Atoi(os.Getenv("VERIF_C26_TOKMAX")); err == nil {
		tokMax = v
	}
	runFamily("bytes", 256, bytesMax)
	if !expired() {
		n := c26MutInputs(r.Thorough()).Len()
		tl := time.Now()
		runLevel("mut", 0, n, [c26NDec][]string{})
		r.Set("mutated_inputs", n)
		r.Note("mutations: %d inputs, %.1fs, %d deaths so far", n, time.Since(tl).Seconds(), g.deaths.Load())
	} else {
		r.Incomplete("mutation family not run (budget)")
	}
	runFamily("tokens", len(c26Tokens(r.Thorough())), tokMax)

	// ---- group candidates by (decoder, signature), confirm the first of each group alone
	// the reported input of a signature is the shortest failing input (ties: smallest bytes,
	// then enumeration order), so that it does not depend on the order of exploration
	sort.SliceStable(agg.cands, func(i, j int) bool {
		a, b := agg.cands[i], agg.cands[j]
		if len(a.Input) != len(b.Input) {
			return len(a.Input) < len(b.Input)
		}
		if a.Input != b.Input {
			return a.Input < b.Input
		}
		if fa, fb := c26FamilyOrder(a.Family), c26FamilyOrder(b.Family); fa != fb {
			return fa < fb
		}
		if a.Level != b.Level {
			return a.Level < b.Level
		}
		if a.Index != b.Index {
			return a.Index < b.Index
		}
		return a.Dec < b.Dec
	})
	groups := map[string][]c26Cand{}
	var order []string
	for _, c := range agg.cands {
		k := fmt.Sprintf("%d|%s", c.Dec, c.Sig)
		if _, ok := groups[k]; !ok {
			order = append(order, k)
		}
		groups[k] = append(groups[k], c)
	}
	var wg sync.WaitGroup
	for _, k := range order {
		wg.Add(1)
		go func(cs []c26Cand) {
			defer wg.Done()
			c26Confirm(r, g, cs, len(cs), toolErr)
		}(groups[k])
	}
	wg.Wait()

	r.Eval(int(agg.evals))
	r.Set("decode_calls", agg.evals)
	r.Set("pruned_extensions_of_failing_inputs", agg.pruned)
	r.Set("outcomes", agg.classes)
	r.Set("child_processes", g.spawned.Load())
	r.Set("child_deaths", g.deaths.Load())
	r.Set("failing_decoder_inputs", len(agg.cands))
	r.Assume("a decode call that needs more than 1 CPU-second, more than ~2 GiB (ulimit -v 4 GiB) or more than 24 MiB + 1 KiB/input byte of allocation for an input of < 100 bytes is treated as not returning / allocating unboundedly")
	r.Assume("extensions of an input on which a decoder already failed are not executed for that decoder")
	r.Assume("bitmaps decoded from corrupt bytes that the roaring library itself cannot serialise are not re-encoded")
	r.Finish("case = (value) for round trips: all ReposMap/BranchesRepos/FileNameSet values with 0-3 entries over boundary ids, strings, times and bitmaps (+ sizes 127..129, 16384); " +
		"case = (decoder, input) for decoding: every byte string up to length 2 (thorough 3), every sequence of up to 4 (thorough 6) tokens of the 18-token alphabet (thorough: 20 tokens), every truncation of 5-6 valid encodings and every replacement of one byte of them by one of 10 (thorough 12) byte/varint tokens; " +
		"non-trivial = round trip of a non-empty value, or a decode that returned a non-empty value without error (counted by distinct decoded value per decoder)")
}

func c26ScratchBase() string {
	if b := os.Getenv("VERIF_SCRATCH"); b != "" {
		return b
	}
	if st, err := os.Stat("/dev/shm"); err == nil && st.IsDir() {
		return "/dev/shm"
	}
	return os.TempDir()
}

// c26Confirm re-runs candidates of one (decoder, signature) group alone, in order, until
// one reproduces twice, and reports it.
func c26Confirm(r *mc.Report, g *c26Guard, cs []c26Cand, total int, toolErr func(error)) {
	tries := 0
	for _, c := range cs {
		if tries >= 5 {
			break
		}
		tries++
		var seen []c26Cand
		for rep := 0; rep < 2; rep++ {
			out, deaths, err := g.runChunk(c26Job{Family: "raw", Raw: c.Input, RawDec: c.Dec, Thorough: r.Thorough()})
			if err != nil {
				toolErr(err)
				return
			}
			if c.Class == "replay" {
				r.Eval(1)
			}
			got := append(append([]c26Cand(nil), out.Cands...), deaths...)
			if len(got) == 0 {
				break
			}
			seen = append(seen, got[0])
		}
		if len(seen) == 2 && seen[0].Sig == seen[1].Sig && (c.Class == "replay" || seen[0].Sig == c.Sig) {
			in, _ := hex.DecodeString(c.Input)
			key := fmt.Sprintf("%s %s input=%s", c26DecNames[c.Dec], seen[0].Sig, c.Input)
			others := ""
			for i, o := range cs {
				if i > 0 && i <= 8 {
					others += " " + o.Input
				}
			}
			detail := fmt.Sprintf("%s on the %d-byte input %s: %s\n%s\n(reproduced twice in a fresh process; %d enumerated inputs fail with this signature; next:%s)",
				c26DecNames[c.Dec], len(in), c.Input, seen[0].Sig, seen[0].Detail, total, others)
			r.Violation(key, detail, map[string]any{"case": c26CaseID(c.Dec, c.Input)})
			return
		}
		if c.Class == "replay" {
			return
		}
		r.Note("candidate %s %s input=%s did not reproduce alone", c26DecNames[c.Dec], c.Sig, c.Input)
	}
	if len(cs) > 0 && cs[0].Class != "replay" {
		toolErr(fmt.Errorf("no candidate of group %s / %s reproduced when run alone (%d candidates)", c26DecNames[cs[0].Dec], cs[0].Sig, len(cs)))
	}
}
