//go:build verif

package main

import (
	"archive/tar"
	"archive/zip"
	"bytes"
	"compress/gzip"
	"context"
	"encoding/json"
	"fmt"
	"io"
	"log"
	"os"
	"os/exec"
	"path/filepath"
	"runtime"
	"runtime/debug"
	"sort"
	"strconv"
	"strings"
	"sync"
	"testing"
	"time"

	"github.com/sourcegraph/zoekt"
	"github.com/sourcegraph/zoekt/index"
	"github.com/sourcegraph/zoekt/internal/archive"
	"github.com/sourcegraph/zoekt/internal/verifshim/mc"
	"github.com/sourcegraph/zoekt/query"
	"github.com/sourcegraph/zoekt/search"
)

// C15: directory and archive indexers capture exactly the source files.
//
// (dir)     every presence subset of ten directory entries x three ignore-file contents
//           (x three content modes in the thorough tier) is materialised on tmpfs and indexed
//           through indexArg, the function the zoekt-index command calls per argument, with
//           the command's default -ignore_dirs.
// (archive) every member list of length <= 3 over seven member kinds x {tar, tar.gz, zip} x
//           strip-components {0,1,2} is written to a file and indexed through archive.Index.
//
// Oracle: the produced shards are read back (search.NewDirectorySearcher, Const true, Whole)
// and the list of (name, content) must equal the expectation computed from the generator
// description alone. A panic of the indexer is recovered per case and reported.

const c15NotIndexed = "NOT-INDEXED: "

// ---------------------------------------------------------------- shared: read back

type c15Doc struct {
	name    string
	content string
}

// c15ReadBack returns every document stored in the shards of dir, sorted by name. An index
// directory without any shard holds no document.
func c15ReadBack(dir string, wantRepo string, wantBranches []string) (docs []c15Doc, problems []string, err error) {
	shards, _ := filepath.Glob(filepath.Join(dir, "*.zoekt"))
	if len(shards) == 0 {
		return nil, nil, nil
	}
	ss, err := search.NewDirectorySearcher(dir)
	if err != nil {
		return nil, nil, err
	}
	defer ss.Close()
	res, err := ss.Search(context.Background(), &query.Const{Value: true}, &zoekt.SearchOptions{Whole: true})
	if err != nil {
		return nil, nil, err
	}
	for _, f := range res.Files {
		docs = append(docs, c15Doc{name: f.FileName, content: string(f.Content)})
		if f.Repository != wantRepo {
			problems = append(problems, fmt.Sprintf("document %q is attributed to repository %q, want %q", f.FileName, f.Repository, wantRepo))
		}
		if wantBranches != nil && fmt.Sprint(f.Branches) != fmt.Sprint(wantBranches) {
			problems = append(problems, fmt.Sprintf("document %q has branches %v, want %v", f.FileName, f.Branches, wantBranches))
		}
	}
	sort.Slice(docs, func(i, j int) bool {
		if docs[i].name != docs[j].name {
			return docs[i].name < docs[j].name
		}
		return docs[i].content < docs[j].content
	})
	return docs, problems, nil
}

// c15Expect is one expected document; prefixOnly means the stored content must start with
// want (skip explanations, DESIGN 8.1) instead of being equal to it.
type c15Expect struct {
	name       string
	want       string
	prefixOnly bool
}

func c15Compare(got []c15Doc, want []c15Expect, forbidden []string) []string {
	var diffs []string
	sort.Slice(want, func(i, j int) bool { return want[i].name < want[j].name })
	gi := map[string][]string{}
	for _, d := range got {
		gi[d.name] = append(gi[d.name], d.content)
	}
	seen := map[string]bool{}
	for _, w := range want {
		seen[w.name] = true
		cs := gi[w.name]
		if len(cs) == 0 {
			diffs = append(diffs, fmt.Sprintf("missing document %q", w.name))
			continue
		}
		if len(cs) > 1 {
			diffs = append(diffs, fmt.Sprintf("document %q stored %d times", w.name, len(cs)))
		}
		for _, c := range cs {
			if w.prefixOnly {
				if !strings.HasPrefix(c, w.want) {
					diffs = append(diffs, fmt.Sprintf("document %q: content %q, want a skip explanation starting with %q", w.name, c, w.want))
				}
			} else if c != w.want {
				diffs = append(diffs, fmt.Sprintf("document %q: content %q, want %q", w.name, c, w.want))
			}
		}
	}
	for _, d := range got {
		if !seen[d.name] {
			diffs = append(diffs, fmt.Sprintf("unexpected document %q (content %q)", d.name, d.content))
		}
		for _, f := range forbidden {
			if f != "" && strings.Contains(d.content, f) {
				diffs = append(diffs, fmt.Sprintf("document %q contains the content of a file outside the indexed set (%q)", d.name, f))
			}
		}
	}
	return diffs
}

// ---------------------------------------------------------------- directory part

type c15Elem struct {
	path    string
	symlink bool
	body    string // file content or link target ("@OUTSIDE" = absolute path of the outside file)
}

var c15Elems = []c15Elem{
	{path: "a.txt", body: "alpha content one\n"},
	{path: "sub/b.txt", body: "beta content in sub\n"},
	{path: "empty", body: ""},
	{path: ".git/x", body: "git internals FORBIDDENGIT\n"},
	// a regular FILE named like an ignored directory (as the .git file of a submodule or linked
	// worktree): it is a source file, and it must not make the walk skip its later siblings
	{path: "sub/.hg", body: "gitdir-like pointer file: ../.hg/store\n"},
	{path: "n/.svn/z", body: "svn internals FORBIDDENSVN\n"},
	{path: "link", symlink: true, body: "a.txt"},
	{path: "dlink", symlink: true, body: "sub"},
	{path: "out", symlink: true, body: "@OUTSIDE"},
	{path: ".sourcegraph/ignore"}, // body = ignore variant
}

const c15IgnoreBit = 9

var c15IgnoreVariants = []string{
	"# comment line\n\n  su  \n",              // literal prefix (implicit **), crosses '/'
	"*.txt\n/link\n",                          // * does not cross '/'; leading '/' is trimmed; literal prefix
	".sourcegraph/ignore\nsub/\nout\nempty\n", // the ignore file itself; dir/ form; literal prefixes
	"sub/b#x\na.t#xt\n",                       // '#' inside a pattern is part of the pattern (only a leading '#' starts a comment): nothing matches
}

// ignore variants >= c15IgnoreLinkBase: .sourcegraph/ignore is not a regular file but a symbolic
// link (to a file of patterns outside the root / to nothing). Only a regular file is an ignore
// file: no pattern applies, and the link is stored like every other link (content = its target).
const c15IgnoreLinkBase = 100

var c15IgnoreLinkTargets = []string{"@OUTSIDEIGN", "no-such-patterns-file"}

const c15OutsideIgnore = "*.txt\nsub/\nempty\nlink\n"

func c15OutsideIgnorePath(outside string) string { return outside + ".ignore-patterns" }

const c15OutsideSecret = "OUTSIDESECRET content of a file outside the root\n"

// c15RefIgnore implements the documented rules for exactly the generated pattern forms:
// literal (no glob characters: prefix match), "*.ext" (one path component), and a literal
// containing '.' (exact match).
func c15RefIgnore(ignoreFile string) func(rel string) bool {
	type pat struct {
		kind int // 0 prefix, 1 *.ext, 2 exact
		s    string
	}
	var pats []pat
	for _, line := range strings.Split(ignoreFile, "\n") {
		line = strings.TrimSpace(line)
		if line == "" || strings.HasPrefix(line, "#") {
			continue
		}
		line = strings.TrimPrefix(line, "/")
		switch {
		case !strings.ContainsAny(line, ".][*?"):
			pats = append(pats, pat{0, line})
		case strings.HasPrefix(line, "*.") && !strings.ContainsAny(line[2:], ".][*?/"):
			pats = append(pats, pat{1, line[1:]})
		case !strings.ContainsAny(line, "][*?"):
			pats = append(pats, pat{2, line})
		default:
			panic("c15: pattern form outside the reference: " + line)
		}
	}
	return func(rel string) bool {
		for _, p := range pats {
			switch p.kind {
			case 0:
				if strings.HasPrefix(rel, p.s) {
					return true
				}
			case 1:
				if !strings.Contains(rel, "/") && strings.HasSuffix(rel, p.s) {
					return true
				}
			case 2:
				if rel == p.s {
					return true
				}
			}
		}
		return false
	}
}

// content modes (thorough tier): 0 plain; 1 tiny + binary files; 2 small -file_limit
type c15DirCase struct {
	mask   int
	ignore int // index into c15IgnoreVariants, -1 when the ignore file is absent
	mode   int
}

func (c c15DirCase) id() string { return fmt.Sprintf("dir/m%04x/i%d/c%d", c.mask, c.ignore, c.mode) }

func (c c15DirCase) describe() string {
	var ps []string
	for i, e := range c15Elems {
		if c.mask&(1<<i) != 0 {
			if e.symlink {
				ps = append(ps, e.path+"->"+e.body)
			} else {
				ps = append(ps, e.path)
			}
		}
	}
	s := "entries=[" + strings.Join(ps, " ") + "]"
	if c.ignore >= c15IgnoreLinkBase {
		s += fmt.Sprintf(" ignore=symlink->%s", c15IgnoreLinkTargets[c.ignore-c15IgnoreLinkBase])
	} else if c.ignore >= 0 {
		s += fmt.Sprintf(" ignore=%q", c15IgnoreVariants[c.ignore])
	}
	if c.mode != 0 {
		s += fmt.Sprintf(" mode=%d", c.mode)
	}
	return s
}

func (c c15DirCase) body(i int, outside string) string {
	e := c15Elems[i]
	if i == c15IgnoreBit {
		if c.ignore >= c15IgnoreLinkBase {
			if t := c15IgnoreLinkTargets[c.ignore-c15IgnoreLinkBase]; t != "@OUTSIDEIGN" {
				return t
			}
			return c15OutsideIgnorePath(outside)
		}
		return c15IgnoreVariants[c.ignore]
	}
	if e.body == "@OUTSIDE" {
		return outside
	}
	if c.mode == 1 {
		switch e.path {
		case "a.txt":
			return "ab" // too small
		case "sub/b.txt":
			return "bin\x00ary content\n"
		}
	}
	if c.mode == 2 && e.path == "a.txt" {
		return strings.Repeat("long line of text\n", 4) // 72 bytes > file_limit 40
	}
	return e.body
}

const c15SmallLimit = 40

func (c c15DirCase) sizeMax() int {
	if c.mode == 2 {
		return c15SmallLimit
	}
	return 0
}

func c15Skipped(content string, sizeMax int) bool {
	if sizeMax == 0 {
		sizeMax = 2 << 20
	}
	if len(content) > sizeMax {
		return true
	}
	if len(content) > 0 && len(content) < 3 {
		return true
	}
	return strings.IndexByte(content, 0) >= 0
}

func (c c15DirCase) expect(outside string) []c15Expect {
	ignored := func(string) bool { return false }
	if c.ignore >= 0 && c.ignore < c15IgnoreLinkBase {
		ignored = c15RefIgnore(c15IgnoreVariants[c.ignore])
	}
	vcs := map[string]bool{".git": true, ".hg": true, ".svn": true}
	var out []c15Expect
	for i, e := range c15Elems {
		if c.mask&(1<<i) == 0 {
			continue
		}
		parts := strings.Split(e.path, "/")
		skip := false
		for k := 1; k < len(parts); k++ { // every ancestor directory
			if vcs[parts[k-1]] || ignored(strings.Join(parts[:k], "/")) {
				skip = true
			}
		}
		if skip || ignored(e.path) {
			continue
		}
		body := c.body(i, outside)
		if c15Skipped(body, c.sizeMax()) {
			out = append(out, c15Expect{name: e.path, want: c15NotIndexed, prefixOnly: true})
		} else {
			out = append(out, c15Expect{name: e.path, want: body})
		}
	}
	return out
}

func (c c15DirCase) materialise(root, outside string) error {
	if err := os.MkdirAll(root, 0o755); err != nil {
		return err
	}
	for i, e := range c15Elems {
		if c.mask&(1<<i) == 0 {
			continue
		}
		p := filepath.Join(root, filepath.FromSlash(e.path))
		if err := os.MkdirAll(filepath.Dir(p), 0o755); err != nil {
			return err
		}
		if i == c15IgnoreBit && c.ignore >= c15IgnoreLinkBase {
			if err := os.WriteFile(c15OutsideIgnorePath(outside), []byte(c15OutsideIgnore), 0o644); err != nil {
				return err
			}
		}
		if e.symlink || (i == c15IgnoreBit && c.ignore >= c15IgnoreLinkBase) {
			if err := os.Symlink(c.body(i, outside), p); err != nil {
				return err
			}
			continue
		}
		if err := os.WriteFile(p, []byte(c.body(i, outside)), 0o644); err != nil {
			return err
		}
	}
	return nil
}

func c15DefaultIgnoreDirs() map[string]struct{} {
	// the default of the -ignore_dirs flag, split the way main() does
	m := map[string]struct{}{}
	for _, d := range strings.Split(".git,.hg,.svn", ",") {
		m[strings.TrimSpace(d)] = struct{}{}
	}
	return m
}

func c15RunDir(c c15DirCase, scratch, outside string) (diffs []string, panicked string) {
	caseDir, err := os.MkdirTemp(scratch, "d")
	if err != nil {
		return []string{"TOOL: " + err.Error()}, ""
	}
	defer os.RemoveAll(caseDir)
	src := filepath.Join(caseDir, "srcrepo")
	idx := filepath.Join(caseDir, "idx")
	if err := c.materialise(src, outside); err != nil {
		return []string{"TOOL: " + err.Error()}, ""
	}
	// -shard_limit 1 MB: the posting tables are pre-sized from it (cost only; one shard either way)
	opts := index.Options{IndexDir: idx, DisableCTags: true, SizeMax: c.sizeMax(), ShardMax: 1 << 20}
	opts.SetDefaults() // cmd.OptionsFromFlags does this before main() calls indexArg
	opts.RepositoryDescription.Source = src
	var ierr error
	func() {
		defer func() {
			if p := recover(); p != nil {
				panicked = fmt.Sprintf("%v\n%s", p, debug.Stack())
			}
		}()
		ierr = indexArg(src, opts, c15DefaultIgnoreDirs())
	}()
	if panicked != "" {
		return nil, panicked
	}
	if ierr != nil {
		return []string{"indexArg returned an error: " + ierr.Error()}, ""
	}
	got, problems, err := c15ReadBack(idx, "srcrepo", nil)
	if err != nil {
		return []string{"reading the produced shards failed: " + err.Error()}, ""
	}
	diffs = append(problems, c15Compare(got, c.expect(outside), []string{c15OutsideSecret, "FORBIDDEN"})...)
	return diffs, ""
}

// ---------------------------------------------------------------- archive part

const (
	c15F1    = iota // regular file at depth 1
	c15F2           // depth 2
	c15F3           // depth 3
	c15Dir          // directory entry
	c15Sym          // symbolic link
	c15Hard         // hard link (tar) / named pipe entry (zip has no hard links)
	c15Empty        // empty regular file at depth 2
	c15NumKinds
)

var c15KindNames = []string{"file1", "file2", "file3", "dir", "symlink", "hardlink", "emptyfile"}

type c15ArcCase struct {
	format string // tar, tgz, zip, zero (a zero-byte archive file)
	strip  int
	kinds  []int
}

func (c c15ArcCase) id() string {
	var ks []string
	for _, k := range c.kinds {
		ks = append(ks, c15KindNames[k])
	}
	return fmt.Sprintf("arc/%s/s%d/[%s]", c.format, c.strip, strings.Join(ks, ","))
}

func (c c15ArcCase) members() string {
	var ks []string
	for _, k := range c.kinds {
		ks = append(ks, c15KindNames[k])
	}
	return "[" + strings.Join(ks, ",") + "]"
}

type c15Member struct {
	name    string
	kind    int
	body    string
	regular bool
}

func (c c15ArcCase) list() []c15Member {
	var ms []c15Member
	for i, k := range c.kinds {
		var m c15Member
		m.kind = k
		switch k {
		case c15F1:
			m = c15Member{name: fmt.Sprintf("m%d.txt", i), body: fmt.Sprintf("depth one member %d\n", i), regular: true}
		case c15F2:
			m = c15Member{name: fmt.Sprintf("top/m%d.txt", i), body: fmt.Sprintf("depth two member %d\n", i), regular: true}
		case c15F3:
			m = c15Member{name: fmt.Sprintf("top/mid/m%d.txt", i), body: fmt.Sprintf("depth three member %d\n", i), regular: true}
		case c15Dir:
			m = c15Member{name: fmt.Sprintf("top/d%d/", i)}
		case c15Sym:
			m = c15Member{name: fmt.Sprintf("top/s%d", i), body: "m0.txt LINKTARGET"}
		case c15Hard:
			m = c15Member{name: fmt.Sprintf("top/h%d", i), body: "top/m0.txt"}
		case c15Empty:
			m = c15Member{name: fmt.Sprintf("top/e%d", i), regular: true}
		}
		m.kind = k
		ms = append(ms, m)
	}
	return ms
}

var c15ModTime = time.Date(2024, 9, 26, 0, 0, 0, 0, time.UTC)

func (c c15ArcCase) bytes() ([]byte, error) {
	var buf bytes.Buffer
	ms := c.list()
	switch c.format {
	case "zero":
		return nil, nil
	case "zip":
		zw := zip.NewWriter(&buf)
		for _, m := range ms {
			h := &zip.FileHeader{Name: m.name, Method: zip.Deflate, Modified: c15ModTime}
			switch m.kind {
			case c15Dir:
				h.Method = zip.Store
				h.SetMode(os.ModeDir | 0o755)
			case c15Sym:
				h.SetMode(os.ModeSymlink | 0o777)
			case c15Hard:
				h.SetMode(os.ModeNamedPipe | 0o644)
			default:
				h.SetMode(0o644)
			}
			w, err := zw.CreateHeader(h)
			if err != nil {
				return nil, err
			}
			if m.kind != c15Dir {
				if _, err := w.Write([]byte(m.body)); err != nil {
					return nil, err
				}
			}
		}
		if err := zw.Close(); err != nil {
			return nil, err
		}
		return buf.Bytes(), nil
	}
	var w io.Writer = &buf
	var gw *gzip.Writer
	if c.format == "tgz" {
		gw = gzip.NewWriter(&buf)
		w = gw
	}
	tw := tar.NewWriter(w)
	for _, m := range ms {
		h := &tar.Header{Name: m.name, Mode: 0o644, ModTime: c15ModTime}
		switch m.kind {
		case c15Dir:
			h.Typeflag = tar.TypeDir
			h.Mode = 0o755
		case c15Sym:
			h.Typeflag = tar.TypeSymlink
			h.Linkname = m.body
		case c15Hard:
			h.Typeflag = tar.TypeLink
			h.Linkname = m.body
		default:
			h.Typeflag = tar.TypeReg
			h.Size = int64(len(m.body))
		}
		if err := tw.WriteHeader(h); err != nil {
			return nil, err
		}
		if h.Typeflag == tar.TypeReg {
			if _, err := tw.Write([]byte(m.body)); err != nil {
				return nil, err
			}
		}
	}
	if err := tw.Close(); err != nil {
		return nil, err
	}
	if gw != nil {
		if err := gw.Close(); err != nil {
			return nil, err
		}
	}
	return buf.Bytes(), nil
}

func c15RefStrip(name string, n int) string {
	parts := strings.Split(name, "/")
	if len(parts) <= n {
		return ""
	}
	return strings.Join(parts[n:], "/")
}

func (c c15ArcCase) expect() (docs []c15Expect, regular int) {
	for _, m := range c.list() {
		if !m.regular {
			continue
		}
		regular++
		n := c15RefStrip(m.name, c.strip)
		if n == "" {
			continue
		}
		docs = append(docs, c15Expect{name: n, want: m.body})
	}
	return docs, regular
}

func c15RunArc(c c15ArcCase, scratch string) (diffs []string, panicked string) {
	caseDir, err := os.MkdirTemp(scratch, "a")
	if err != nil {
		return []string{"TOOL: " + err.Error()}, ""
	}
	defer os.RemoveAll(caseDir)
	data, err := c.bytes()
	if err != nil {
		return []string{"TOOL: building the archive: " + err.Error()}, ""
	}
	arc := filepath.Join(caseDir, "archive.bin")
	if err := os.WriteFile(arc, data, 0o644); err != nil {
		return []string{"TOOL: " + err.Error()}, ""
	}
	idx := filepath.Join(caseDir, "idx")
	if err := os.MkdirAll(idx, 0o755); err != nil {
		return []string{"TOOL: " + err.Error()}, ""
	}
	bopts := index.Options{IndexDir: idx, DisableCTags: true, ShardMax: 1 << 20}
	opts := archive.Options{
		Archive: arc,
		Name:    "arcrepo",
		Branch:  "master",
		Commit:  "cccccccccccccccccccccccccccccccccccccccc",
		Strip:   c.strip,
	}
	var ierr error
	func() {
		defer func() {
			if p := recover(); p != nil {
				panicked = fmt.Sprintf("%v\n%s", p, debug.Stack())
			}
		}()
		ierr = archive.Index(opts, bopts)
	}()
	if panicked != "" {
		return nil, panicked
	}
	want, _ := c.expect()
	if ierr != nil {
		if len(want) > 0 {
			return []string{fmt.Sprintf("archive.Index returned an error for an archive with %d indexable members: %v", len(want), ierr)}, ""
		}
		// nothing to index: refusing the archive with an error is not a crash
		return nil, ""
	}
	got, problems, err := c15ReadBack(idx, "arcrepo", []string{"master"})
	if err != nil {
		return []string{"reading the produced shards failed: " + err.Error()}, ""
	}
	return append(problems, c15Compare(got, want, nil)...), ""
}

func c15KindLists(maxLen int) [][]int {
	out := [][]int{{}}
	prev := [][]int{{}}
	for l := 1; l <= maxLen; l++ {
		var cur [][]int
		for _, p := range prev {
			for k := 0; k < c15NumKinds; k++ {
				cur = append(cur, append(append([]int{}, p...), k))
			}
		}
		out = append(out, cur...)
		prev = cur
	}
	return out
}

// ---------------------------------------------------------------- the check

// c15Case is one element of the enumerated space (exactly one of dir / arc is set).
type c15Case struct {
	dir *c15DirCase
	arc *c15ArcCase
}

func (c c15Case) id() string {
	if c.dir != nil {
		return c.dir.id()
	}
	return c.arc.id()
}

// c15Cases enumerates the whole space of a tier in a fixed order; directory and archive
// cases are interleaved so that every worker process gets a similar mix.
func c15Cases(thorough bool) (all []c15Case, nDir, nArc, modes, maxLen int) {
	var dirCases []c15DirCase
	modes = 1
	if thorough {
		modes = 3
	}
	for mode := 0; mode < modes; mode++ {
		for mask := 0; mask < 1<<len(c15Elems); mask++ {
			if mask&(1<<c15IgnoreBit) == 0 {
				dirCases = append(dirCases, c15DirCase{mask: mask, ignore: -1, mode: mode})
				continue
			}
			for v := range c15IgnoreVariants {
				dirCases = append(dirCases, c15DirCase{mask: mask, ignore: v, mode: mode})
			}
			if mode == 0 {
				for v := range c15IgnoreLinkTargets {
					dirCases = append(dirCases, c15DirCase{mask: mask, ignore: c15IgnoreLinkBase + v, mode: mode})
				}
			}
		}
	}
	maxLen = 2
	if thorough {
		maxLen = 3
	}
	var arcCases []c15ArcCase
	for _, ks := range c15KindLists(maxLen) {
		for _, format := range []string{"tar", "tgz", "zip"} {
			for strip := 0; strip <= 2; strip++ {
				arcCases = append(arcCases, c15ArcCase{format: format, strip: strip, kinds: ks})
			}
		}
	}
	arcCases = append(arcCases, c15ArcCase{format: "zero"})
	for i := 0; i < len(dirCases) || i < len(arcCases); i++ {
		if i < len(dirCases) {
			all = append(all, c15Case{dir: &dirCases[i]})
		}
		if i < len(arcCases) {
			all = append(all, c15Case{arc: &arcCases[i]})
		}
	}
	return all, len(dirCases), len(arcCases), modes, maxLen
}

// c15Line is the child -> parent protocol (one JSON object per line of the result file).
type c15Line struct {
	Start  string   `json:"start,omitempty"` // written before a case runs
	Index  int      `json:"index"`
	ID     string   `json:"id,omitempty"` // written after a case ran
	Diffs  []string `json:"diffs,omitempty"`
	Panic  string   `json:"panic,omitempty"`
	Done   bool     `json:"done,omitempty"`
	Cut    bool     `json:"cut,omitempty"`
	Reason string   `json:"reason,omitempty"`
}

// TestVerifC15Child executes one shard of the case list in its own process: every
// index.Builder allocates ~70 MB of posting tables, and first-touch page faults are so
// expensive on the build machines that the only affordable regime is one worker per process
// that collects after every case and so keeps re-using the same pages. A separate process also
// confines crashes that recover() cannot catch (log.Fatal, panics on builder goroutines).
func TestVerifC15Child(t *testing.T) {
	if os.Getenv("C15_CHILD") == "" {
		t.Skip("helper process of TestVerifC15")
	}
	log.SetOutput(io.Discard)
	debug.SetGCPercent(-1)
	debug.SetMemoryLimit(3 << 30)
	shard, _ := strconv.Atoi(os.Getenv("C15_SHARD"))
	nshard, _ := strconv.Atoi(os.Getenv("C15_NSHARD"))
	from, _ := strconv.Atoi(os.Getenv("C15_FROM"))
	only := os.Getenv("C15_ONLY")
	deadlineNs, _ := strconv.ParseInt(os.Getenv("C15_DEADLINE"), 10, 64)
	scratch := os.Getenv("C15_SCRATCH")
	outside := os.Getenv("C15_OUTSIDE")
	out, err := os.OpenFile(os.Getenv("C15_OUT"), os.O_CREATE|os.O_WRONLY|os.O_APPEND, 0o644)
	if err != nil {
		t.Fatal(err)
	}
	defer out.Close()
	emit := func(l c15Line) {
		b, _ := json.Marshal(l)
		out.Write(append(b, '\n'))
	}
	all, _, _, _, _ := c15Cases(os.Getenv("VERIF_TIER") == "thorough")
	for i, c := range all {
		if only != "" {
			if c.id() != only {
				continue
			}
		} else if i%nshard != shard || i < from {
			continue
		}
		if deadlineNs > 0 && time.Now().UnixNano() > deadlineNs {
			emit(c15Line{Done: true, Cut: true, Index: i})
			return
		}
		emit(c15Line{Start: c.id(), Index: i})
		var diffs []string
		var panicked string
		if c.dir != nil {
			diffs, panicked = c15RunDir(*c.dir, scratch, outside)
		} else {
			diffs, panicked = c15RunArc(*c.arc, scratch)
		}
		emit(c15Line{ID: c.id(), Index: i, Diffs: diffs, Panic: panicked})
		runtime.GC()
	}
	emit(c15Line{Done: true, Index: len(all)})
}

type c15Result struct {
	ran    bool
	diffs  []string
	panic_ string
	death  string // the process died while this case was running (confirmed by a rerun)
}

func c15Spawn(env []string, outFile string, timeout time.Duration) (lines []c15Line, output string, err error) {
	os.Remove(outFile)
	ctx, cancel := context.WithTimeout(context.Background(), timeout)
	defer cancel()
	cmd := exec.CommandContext(ctx, os.Args[0], "-test.run=^TestVerifC15Child$", "-test.count=1", "-test.timeout=0")
	cmd.Env = append(os.Environ(), env...)
	cmd.Env = append(cmd.Env, "C15_CHILD=1", "C15_OUT="+outFile, "VERIF_OUT=", "VERIF_REPLAY_CASE=")
	var buf bytes.Buffer
	cmd.Stdout = &buf
	cmd.Stderr = &buf
	err = cmd.Run()
	data, _ := os.ReadFile(outFile)
	for _, ln := range strings.Split(string(data), "\n") {
		if strings.TrimSpace(ln) == "" {
			continue
		}
		var l c15Line
		if json.Unmarshal([]byte(ln), &l) == nil {
			lines = append(lines, l)
		}
	}
	output = buf.String()
	if len(output) > 3000 {
		output = output[len(output)-3000:]
	}
	return lines, output, err
}

func TestVerifC15(t *testing.T) {
	r := mc.NewReport("C15")
	start := time.Now()
	budget := 100.0
	if r.Thorough() {
		budget = 900
	}
	if b, err := strconv.ParseFloat(os.Getenv("VERIF_BUDGET_S"), 64); err == nil && b > 0 {
		budget = b
	}
	deadline := start.Add(time.Duration(budget * float64(time.Second)))

	scratchBase := os.Getenv("VERIF_SCRATCH")
	if scratchBase == "" {
		scratchBase = os.TempDir()
		if st, err := os.Stat("/dev/shm"); err == nil && st.IsDir() {
			scratchBase = "/dev/shm"
		}
	}
	scratch, err := os.MkdirTemp(scratchBase, "verif-c15-")
	if err != nil {
		t.Fatal(err)
	}
	defer os.RemoveAll(scratch)
	outside := filepath.Join(scratch, "outside-secret.txt")
	if err := os.WriteFile(outside, []byte(c15OutsideSecret), 0o644); err != nil {
		t.Fatal(err)
	}

	all, nDir, nArc, modes, maxLen := c15Cases(r.Thorough())
	r.Set("bound", fmt.Sprintf("dir: 2^%d presence subsets x %d ignore-file contents (absent ignore file counted once) x %d content modes = %d trees; archive: member lists of length <= %d over %d kinds x {tar,tgz,zip} x strip {0,1,2} + a zero-byte file = %d archives",
		len(c15Elems), len(c15IgnoreVariants), modes, nDir, maxLen, c15NumKinds, nArc))

	nproc := runtime.NumCPU()
	if v, err := strconv.Atoi(os.Getenv("VERIF_PROCS")); err == nil && v > 0 {
		nproc = v
	}
	if nproc > 16 {
		nproc = 16
	}
	results := make([]c15Result, len(all))
	baseEnv := []string{
		"C15_SCRATCH=" + scratch, "C15_OUTSIDE=" + outside,
		"C15_DEADLINE=" + strconv.FormatInt(deadline.UnixNano(), 10),
		"C15_NSHARD=" + strconv.Itoa(nproc),
	}
	hardTimeout := time.Until(deadline) + 3*time.Minute
	cut := false
	var mu sync.Mutex
	var toolErrs []string

	absorb := func(lines []c15Line) (inFlight int, done bool) {
		inFlight = -1
		mu.Lock()
		defer mu.Unlock()
		for _, l := range lines {
			switch {
			case l.Done:
				done = true
				if l.Cut {
					cut = true
				}
			case l.Start != "":
				inFlight = l.Index
			case l.ID != "":
				if l.Index >= 0 && l.Index < len(all) && all[l.Index].id() == l.ID {
					results[l.Index] = c15Result{ran: true, diffs: l.Diffs, panic_: l.Panic}
				}
				if inFlight == l.Index {
					inFlight = -1
				}
			}
		}
		return inFlight, done
	}

	runShard := func(shard int) {
		from := 0
		for attempt := 0; attempt < 25; attempt++ {
			outFile := filepath.Join(scratch, fmt.Sprintf("shard-%d.jsonl", shard))
			lines, output, err := c15Spawn(append([]string{"C15_SHARD=" + strconv.Itoa(shard), "C15_FROM=" + strconv.Itoa(from)}, baseEnv...), outFile, hardTimeout)
			inFlight, done := absorb(lines)
			if done {
				return
			}
			if inFlight < 0 {
				mu.Lock()
				toolErrs = append(toolErrs, fmt.Sprintf("worker %d ended without finishing and without a case in flight: %v\n%s", shard, err, output))
				mu.Unlock()
				return
			}
			// the process died while running all[inFlight]: run that case alone before believing it
			c := all[inFlight]
			soloFile := filepath.Join(scratch, fmt.Sprintf("solo-%d.jsonl", shard))
			slines, soutput, serr := c15Spawn(append([]string{"C15_ONLY=" + c.id(), "C15_SHARD=0", "C15_DEADLINE=0"}, baseEnv...), soloFile, 5*time.Minute)
			sIn, _ := absorb(slines)
			if sIn == inFlight || !results[inFlight].ran {
				mu.Lock()
				results[inFlight] = c15Result{ran: true, death: fmt.Sprintf("first run: %v\n%s\nalone: %v\n%s", err, output, serr, soutput)}
				mu.Unlock()
			}
			from = inFlight + 1
		}
	}

	if r.Replaying() {
		found := false
		for i, c := range all {
			if r.Want(c.id()) {
				found = true
				lines, output, err := c15Spawn(append([]string{"C15_ONLY=" + c.id(), "C15_SHARD=0", "C15_DEADLINE=0"}, baseEnv...), filepath.Join(scratch, "replay.jsonl"), 5*time.Minute)
				if in, _ := absorb(lines); in == i {
					results[i] = c15Result{ran: true, death: fmt.Sprintf("%v\n%s", err, output)}
				}
			}
		}
		if !found {
			r.Incomplete("replay case not in the enumerated space")
		}
	} else {
		var wg sync.WaitGroup
		for s := 0; s < nproc; s++ {
			wg.Add(1)
			go func(s int) {
				defer wg.Done()
				runShard(s)
			}(s)
		}
		wg.Wait()
	}

	// ---- judge
	type arcPanic struct {
		id, desc, stack string
	}
	var noRegularPanics []arcPanic
	dirDone, arcDone := 0, 0
	for i, c := range all {
		res := results[i]
		if !res.ran {
			continue
		}
		r.Eval(1)
		for _, d := range res.diffs {
			if strings.HasPrefix(d, "TOOL: ") {
				toolErrs = append(toolErrs, c.id()+": "+d)
				res.diffs = nil
				break
			}
		}
		if c.dir != nil {
			dirDone++
			d := *c.dir
			exp := d.expect(outside)
			// non-trivial: something must be left out (ignored directory, ignore pattern) or a link must be stored as its target
			present := 0
			for b := range c15Elems {
				if d.mask&(1<<b) != 0 {
					present++
				}
			}
			hasLink := d.mask&(1<<6|1<<7|1<<8) != 0
			if len(exp) > 0 && (present > len(exp) || hasLink) {
				r.Nontrivial(d.id())
			}
			if i%797 == 10 {
				r.Sample(map[string]any{"case": d.id(), "input": d.describe(), "expected_documents": len(exp)})
			}
			switch {
			case res.death != "":
				r.Violation("dir process death: "+d.describe(), "the indexing process died while running indexArg on "+d.describe()+"\n"+res.death, map[string]any{"case": d.id()})
			case res.panic_ != "":
				r.Violation("dir panic: "+d.describe(), "indexArg panicked on "+d.describe()+"\n"+res.panic_, map[string]any{"case": d.id()})
			case len(res.diffs) > 0:
				r.Violation("dir documents differ: "+d.describe(), "indexArg on "+d.describe()+":\n  "+strings.Join(res.diffs, "\n  "), map[string]any{"case": d.id()})
			}
			continue
		}
		arcDone++
		a := *c.arc
		want, regular := a.expect()
		// non-trivial: a member must be filtered (non-regular or stripped away) or a name must be rewritten by strip
		if len(want) > 0 && (len(a.kinds) > regular || len(want) < regular || a.strip > 0) {
			r.Nontrivial(a.id())
		}
		if i%1201 == 7 {
			r.Sample(map[string]any{"case": a.id(), "expected_documents": len(want)})
		}
		desc := fmt.Sprintf("format=%s strip=%d members=%s", a.format, a.strip, a.members())
		switch {
		case res.death != "":
			r.Violation("archive process death: "+desc, "the indexing process died while running archive.Index on "+desc+"\n"+res.death, map[string]any{"case": a.id()})
		case res.panic_ != "":
			if regular == 0 && strings.Contains(res.panic_, "nil pointer dereference") && strings.Contains(res.panic_, "index.(*Builder).Finish") {
				noRegularPanics = append(noRegularPanics, arcPanic{a.id(), desc, res.panic_})
				break
			}
			r.Violation("archive panic: "+desc, "archive.Index panicked on "+desc+"\n"+res.panic_, map[string]any{"case": a.id()})
		case len(res.diffs) > 0:
			r.Violation("archive documents differ: "+desc, "archive.Index on "+desc+":\n  "+strings.Join(res.diffs, "\n  "), map[string]any{"case": a.id()})
		}
	}
	if len(noRegularPanics) > 0 {
		// one root cause (the builder is only created when the first regular member is seen): one key
		sort.Slice(noRegularPanics, func(i, j int) bool {
			if len(noRegularPanics[i].id) != len(noRegularPanics[j].id) {
				return len(noRegularPanics[i].id) < len(noRegularPanics[j].id)
			}
			return noRegularPanics[i].id < noRegularPanics[j].id
		})
		var ds []string
		for i, p := range noRegularPanics {
			if i < 12 {
				ds = append(ds, p.desc)
			}
		}
		first := noRegularPanics[0]
		r.Violation("archive.Index panics (nil *index.Builder in Finish) on an archive without regular members",
			fmt.Sprintf("%d archives without any regular member (empty, directories/links only) crash archive.Index, e.g.\n  %s\nfirst: %s\n%s",
				len(noRegularPanics), strings.Join(ds, "\n  "), first.desc, first.stack),
			map[string]any{"case": first.id})
	}
	for i, e := range toolErrs {
		if i < 3 {
			r.Violation(fmt.Sprintf("TOOL: harness problem %d", i), e, nil)
		}
	}

	r.Set("dir_cases", dirDone)
	r.Set("archive_cases", arcDone)
	r.Set("worker_processes", nproc)
	if !r.Replaying() && (cut || dirDone < nDir || arcDone < nArc) {
		r.Incomplete("budget used up after %d of %d directory cases and %d of %d archive cases", dirDone, nDir, arcDone, nArc)
	}
	r.Assume("the produced shards are read back through search.NewDirectorySearcher + Const(true) + Whole (C01/C09 cover that path)")
	r.Assume("ignore-file reference implements only the generated pattern forms (literal prefix, *.ext, dir/, literal containing '.'); 1-2 byte, binary and over-limit files are expected as a 'NOT-INDEXED: ' explanation (DESIGN 8.1)")
	r.Assume("zip archives have no hard links: the seventh member kind is a named-pipe entry there")
	r.Finish("dir: every presence subset of {a.txt, sub/b.txt, empty, .git/x, sub/.hg (a regular file named like an ignored directory), n/.svn/z, link->a.txt, dlink->sub, out->outside, .sourcegraph/ignore} x 3 ignore contents (x 3 content modes in thorough) through indexArg; archive: every member list of length <= 2 (thorough 3) over {file depth 1/2/3, dir, symlink, hardlink, empty file} x {tar,tgz,zip} x strip {0,1,2} through archive.Index; cases run in worker processes (one per core). A case is non-trivial when at least one document is expected and (dir) an entry is excluded or a symlink is stored as its target, (archive) a member is filtered or renamed by strip")
}
