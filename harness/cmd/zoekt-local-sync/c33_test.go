//go:build verif

package main

// C33 / C34 shared machinery + the C33 check.
//
// Explicit-state breadth-first search over operation sequences on REAL git repositories
// (built once with go-git and cross-checked with the git binary, instantiated by copying) and a
// REAL index directory, driven through the command entry point execute() of this package.
//
// A state is an operation list. It is rebuilt by replaying the list on fresh directories
// (shards record absolute source paths, so a state can not be copied to another path).
// States are deduplicated by a canonical, path-independent key: the layout of the roots
// (path -> repository identity @ commit) plus the inventory of the index directory read with
// index.ReadMetadataPathAlive (file, name, root-relative source, branch versions).
//
// In every explored state every command of the alphabet is executed:
//   C33: each preview (`sync ROOTS`, `remove SEL`) on the state's index directory (snapshot
//        before/after must be byte-identical incl. mtimes) and the same command with -f on a
//        COPY of the index directory; announced sets must equal performed sets.
//   C34: each `-f` command on a copy; the result is compared with the generator's model.
// File-system operations (create / delete / move / commit) and the -f commands generate the
// successor states.
//
// All helpers are prefixed c33 and are also used by c34_test.go.

import (
	"bytes"
	"crypto/sha256"
	"encoding/hex"
	"encoding/json"
	"fmt"
	"io"
	"io/fs"
	"log"
	"os"
	"os/exec"
	"path/filepath"
	"regexp"
	"runtime/debug"
	"sort"
	"strconv"
	"strings"
	"testing"
	"time"

	"github.com/go-git/go-git/v5"
	"github.com/go-git/go-git/v5/plumbing/object"

	"github.com/sourcegraph/zoekt/index"
	"github.com/sourcegraph/zoekt/internal/verifshim/gen"
	"github.com/sourcegraph/zoekt/internal/verifshim/mc"
)

// ---------------------------------------------------------------------------------------
// world: templates of real git repositories

const c33MaxCommit = 2 // commits 0..2 exist in every template

type c33Tmpl struct {
	dir    string
	bare   bool
	ref    string // the branch HEAD points to
	hashes [c33MaxCommit + 1]string
}

type c33World struct {
	base  string
	tmpl  map[string]*c33Tmpl // identity (= slot path where it is created) -> template
	label map[string]string   // commit hash -> "identity@k"
}

func c33Git(dir string, args ...string) string {
	cmd := exec.Command("git", args...)
	cmd.Dir = dir
	cmd.Env = append(os.Environ(),
		"GIT_CONFIG_GLOBAL=/dev/null", "GIT_CONFIG_SYSTEM=/dev/null", "GIT_CONFIG_NOSYSTEM=1",
	)
	out, err := cmd.CombinedOutput()
	if err != nil {
		panic(fmt.Sprintf("git %v in %s: %v\n%s", args, dir, err, out))
	}
	return strings.TrimSpace(string(out))
}

// c33Slots is the alphabet of places where a repository can be created. The slot path is also
// the identity of the repository created there (distinct content, distinct commit hashes).
var c33Slots = []string{
	"ra/x",     // non-bare directly under root ra
	"ra/x.git", // bare, same name "x" as ra/x (duplicate name inside one root)
	"ra/d/y",   // nested; also reachable through the overlapping root ra/d as "y"
	"rb/x",     // same name as ra/x in the other root (duplicate name across roots)
	"rc",       // a root that is itself a repository (named after the root directory)
}

// c33ShardLimit is the -shard_limit of every sync: the first template's a.txt is larger, so that
// repository occupies two shard files (.00000 and .00001); all other repositories occupy one.
const c33ShardLimit = 300

func c33IsBare(p string) bool { return strings.HasSuffix(p, ".git") }

func c33NewWorld(base string) *c33World {
	w := &c33World{base: base, tmpl: map[string]*c33Tmpl{}, label: map[string]string{}}
	when := time.Date(2024, 1, 2, 3, 4, 5, 0, time.UTC)
	for i, slot := range c33Slots {
		wt := filepath.Join(base, "tmpl", fmt.Sprintf("t%d", i))
		c33Must(os.MkdirAll(wt, 0o755))
		repo, err := git.PlainInit(wt, false)
		c33Must(err)
		tree, err := repo.Worktree()
		c33Must(err)
		t := &c33Tmpl{bare: c33IsBare(slot)}
		for k := 0; k <= c33MaxCommit; k++ {
			// tiny, distinct content: the builder's cost is dominated by page faults in its 16 MB
			// trigram tables, one page per distinct trigram
			c33Must(os.WriteFile(filepath.Join(wt, "f.txt"), []byte(fmt.Sprintf("s%dc%d\n", i, k)), 0o644))
			_, err = tree.Add("f.txt")
			c33Must(err)
			if i == 0 && k == 0 {
				// the first template spans two shards: a.txt alone exceeds the -shard_limit every command
				// is run with (few distinct trigrams, see above)
				c33Must(os.WriteFile(filepath.Join(wt, "a.txt"), []byte(strings.Repeat("ab ", c33ShardLimit/3+20)), 0o644))
				_, err = tree.Add("a.txt")
				c33Must(err)
			}
			sig := &object.Signature{Name: "Verif", Email: "verif@example.com", When: when.Add(time.Duration(k) * time.Hour)}
			h, err := tree.Commit(fmt.Sprintf("%s commit %d", slot, k), &git.CommitOptions{Author: sig, Committer: sig})
			c33Must(err)
			t.hashes[k] = h.String()
			w.label[t.hashes[k]] = fmt.Sprintf("%s@%d", slot, k)
		}
		if i%2 == 1 {
			// every second template has an origin remote on a host zoekt has no URL templates for (deriving
			// templates from it fails; the repository keeps the name the command gave it), and one on a
			// known host (templates are derived, the name is still the root-relative one)
			url := "https://gitlab.example.com/group/proj" + fmt.Sprint(i) + ".git"
			if i%4 == 3 {
				url = "https://github.com/example/proj" + fmt.Sprint(i) + ".git"
			}
			cfgPath := filepath.Join(wt, ".git", "config")
			cfg, err := os.ReadFile(cfgPath)
			c33Must(err)
			c33Must(os.WriteFile(cfgPath, append(cfg, []byte("[remote \"origin\"]\n\turl = "+url+"\n\tfetch = +refs/heads/*:refs/remotes/origin/*\n")...), 0o644))
		}
		head, err := os.ReadFile(filepath.Join(wt, ".git", "HEAD"))
		c33Must(err)
		t.ref = strings.TrimSpace(strings.TrimPrefix(string(head), "ref: "))
		if !strings.HasPrefix(t.ref, "refs/heads/") {
			panic("unexpected HEAD " + string(head))
		}
		t.dir = wt
		if t.bare {
			bd := wt + ".git"
			c33Must(os.Rename(filepath.Join(wt, ".git"), bd))
			cfg, err := os.ReadFile(filepath.Join(bd, "config"))
			c33Must(err)
			if !strings.Contains(string(cfg), "bare = false") {
				panic("unexpected git config: " + string(cfg))
			}
			c33Must(os.WriteFile(filepath.Join(bd, "config"), []byte(strings.Replace(string(cfg), "bare = false", "bare = true", 1)), 0o644))
			c33Must(os.RemoveAll(wt))
			t.dir = bd
		}
		c33SetRef(t.dir, t.bare, t.ref, t.hashes[0])
		// the git binary must agree that this is a repository whose HEAD is commit 0
		if got := c33Git(t.dir, "rev-parse", "HEAD"); got != t.hashes[0] {
			panic("template HEAD not reset: " + got)
		}
		w.tmpl[slot] = t
	}
	return w
}

func c33Must(err error) {
	if err != nil {
		panic(err)
	}
}

func c33SetRef(repoDir string, bare bool, ref, hash string) {
	gd := repoDir
	if !bare {
		gd = filepath.Join(repoDir, ".git")
	}
	c33Must(os.WriteFile(filepath.Join(gd, filepath.FromSlash(ref)), []byte(hash+"\n"), 0o644))
}

func c33CopyTree(src, dst string) error {
	return filepath.WalkDir(src, func(p string, d fs.DirEntry, err error) error {
		if err != nil {
			return err
		}
		rel, _ := filepath.Rel(src, p)
		to := filepath.Join(dst, rel)
		if d.IsDir() {
			return os.MkdirAll(to, 0o755)
		}
		b, err := os.ReadFile(p)
		if err != nil {
			return err
		}
		return os.WriteFile(to, b, 0o644)
	})
}

// ---------------------------------------------------------------------------------------
// abstract state

type c33Repo struct {
	ID     string // identity = template
	Commit int
}

type c33Rec struct {
	File, Name, Source, Version string
}

type c33State struct {
	Ops    []string
	Layout map[string]c33Repo // path relative to the state directory -> repository
	Dirs   map[string]bool    // extra plain directories that exist (parents of nested repositories)
	Index  []c33Rec           // inventory of the index directory, sorted by file
}

func c33NewState() *c33State {
	return &c33State{Layout: map[string]c33Repo{}, Dirs: map[string]bool{}}
}

func (s *c33State) clone() *c33State {
	n := &c33State{Ops: append([]string(nil), s.Ops...), Layout: map[string]c33Repo{}, Dirs: map[string]bool{}, Index: append([]c33Rec(nil), s.Index...)}
	for k, v := range s.Layout {
		n.Layout[k] = v
	}
	for k := range s.Dirs {
		n.Dirs[k] = true
	}
	return n
}

func c33SortedKeys[V any](m map[string]V) []string {
	out := make([]string, 0, len(m))
	for k := range m {
		out = append(out, k)
	}
	sort.Strings(out)
	return out
}

func (s *c33State) layoutString() string {
	var sb strings.Builder
	for _, p := range c33SortedKeys(s.Layout) {
		fmt.Fprintf(&sb, "%s=%s@%d ", p, s.Layout[p].ID, s.Layout[p].Commit)
	}
	for _, d := range c33SortedKeys(s.Dirs) {
		fmt.Fprintf(&sb, "dir:%s ", d)
	}
	return strings.TrimSpace(sb.String())
}

func c33IndexString(recs []c33Rec) string {
	var sb strings.Builder
	for _, r := range recs {
		fmt.Fprintf(&sb, "%s{%q src=%s %s} ", r.File, r.Name, r.Source, r.Version)
	}
	return strings.TrimSpace(sb.String())
}

func (s *c33State) key() string {
	return "layout[" + s.layoutString() + "] index[" + c33IndexString(s.Index) + "]"
}

// ---------------------------------------------------------------------------------------
// operation alphabet

var c33Moves = [][2]string{
	{"ra/x", "ra/z"},         // rename inside a root (name changes)
	{"ra/x", "rb/x"},         // move between roots (name stays)
	{"rb/x", "ra/x"},         // and back
	{"ra/x.git", "rb/x.git"}, // bare repository moved between roots
	{"ra/d/y", "rb/y"},       // nested repository moved to the top of the other root (name changes d/y -> y, or stays y for root ra/d)
}

var c33RootSets = [][]string{
	{"ra"}, {"rb"}, {"ra", "rb"},
	{"ra/d"},       // a root inside another root
	{"ra", "ra/d"}, // overlapping roots
	{"ra", "rc"},   // rc is itself a repository
}

// c33FSOps lists the enabled file-system operations of a state in a fixed order.
func c33FSOps(s *c33State, thorough bool) []string {
	var ops []string
	for _, slot := range c33Slots {
		if _, ok := s.Layout[slot]; !ok {
			ops = append(ops, "mk:"+slot)
		}
	}
	for _, p := range c33SortedKeys(s.Layout) {
		ops = append(ops, "rm:"+p)
	}
	for _, m := range c33Moves {
		_, from := s.Layout[m[0]]
		_, to := s.Layout[m[1]]
		if from && !to {
			ops = append(ops, "mv:"+m[0]+">"+m[1])
		}
	}
	if thorough {
		if _, from := s.Layout["ra/z"]; from {
			if _, to := s.Layout["ra/x"]; !to {
				ops = append(ops, "mv:ra/z>ra/x")
			}
		}
	}
	for _, p := range c33SortedKeys(s.Layout) {
		if s.Layout[p].Commit < c33MaxCommit {
			ops = append(ops, "ci:"+p)
		}
	}
	return ops
}

// c33Selectors lists the remove selectors tried in a state: every indexed name, every indexed
// source, a selector that matches nothing, and a two-selector call of which one matches nothing.
func c33Selectors(s *c33State) []string {
	var sels []string
	seen := map[string]bool{}
	add := func(x string) {
		if !seen[x] {
			seen[x] = true
			sels = append(sels, x)
		}
	}
	for _, r := range s.Index {
		add("name=" + r.Name)
	}
	for _, r := range s.Index {
		add("src=" + r.Source)
	}
	add("name=nope")
	if len(s.Index) > 0 {
		add("name=" + s.Index[0].Name + "+name=nope")
	}
	if len(s.Index) > 1 {
		add("name=" + s.Index[0].Name + "+src=" + s.Index[1].Source)
	}
	return sels
}

// c33Commands lists the commands (without the -f / preview distinction) tried in a state.
func c33Commands(s *c33State) []string {
	var cmds []string
	for _, rs := range c33RootSets {
		cmds = append(cmds, "sync:"+strings.Join(rs, ","))
	}
	// the same sync asking for a branch no repository has, missing branches tolerated: nothing
	// can be resolved, and preview and -f must still agree (not expanded into successor states)
	cmds = append(cmds, "syncb:ra", "syncb:ra,rb")
	for _, sel := range c33Selectors(s) {
		cmds = append(cmds, "remove:"+sel)
	}
	return cmds
}

func c33Force(cmd string) string {
	i := strings.Index(cmd, ":")
	return cmd[:i] + "-f" + cmd[i:]
}

// c33ApplyFS applies a file-system operation to the abstract state and, when dir != "", to disk.
func c33ApplyFS(w *c33World, s *c33State, dir, op string) error {
	kind, arg, _ := strings.Cut(op, ":")
	addDirs := func(p string) {
		for d := filepath.Dir(p); d != "." && d != "ra" && d != "rb" && d != "/"; d = filepath.Dir(d) {
			s.Dirs[d] = true
		}
	}
	switch kind {
	case "mk":
		t := w.tmpl[arg]
		if t == nil {
			return fmt.Errorf("unknown slot %q", arg)
		}
		if _, ok := s.Layout[arg]; ok {
			return fmt.Errorf("%s: occupied", op)
		}
		s.Layout[arg] = c33Repo{ID: arg, Commit: 0}
		addDirs(arg)
		if dir != "" {
			if err := c33CopyTree(t.dir, filepath.Join(dir, arg)); err != nil {
				return err
			}
		}
	case "rm":
		if _, ok := s.Layout[arg]; !ok {
			return fmt.Errorf("%s: no repository", op)
		}
		delete(s.Layout, arg)
		if dir != "" {
			if err := os.RemoveAll(filepath.Join(dir, arg)); err != nil {
				return err
			}
		}
	case "mv":
		from, to, _ := strings.Cut(arg, ">")
		r, ok := s.Layout[from]
		if _, occupied := s.Layout[to]; !ok || occupied || c33IsBare(from) != c33IsBare(to) {
			return fmt.Errorf("%s: not enabled", op)
		}
		delete(s.Layout, from)
		s.Layout[to] = r
		addDirs(to)
		if dir != "" {
			if err := os.MkdirAll(filepath.Dir(filepath.Join(dir, to)), 0o755); err != nil {
				return err
			}
			if err := os.Rename(filepath.Join(dir, from), filepath.Join(dir, to)); err != nil {
				return err
			}
		}
	case "ci":
		r, ok := s.Layout[arg]
		if !ok || r.Commit >= c33MaxCommit {
			return fmt.Errorf("%s: not enabled", op)
		}
		r.Commit++
		s.Layout[arg] = r
		if dir != "" {
			c33SetRef(filepath.Join(dir, arg), c33IsBare(arg), w.tmpl[r.ID].ref, w.tmpl[r.ID].hashes[r.Commit])
		}
	default:
		return fmt.Errorf("unknown file-system operation %q", op)
	}
	return nil
}

// ---------------------------------------------------------------------------------------
// running the real command

// c33Args turns "sync:ra,rb" / "sync-f:ra" / "remove:name=x+src=ra/x" / "remove-f:..." into argv.
func c33Args(dir, idx, cmd string) []string {
	kind, arg, _ := strings.Cut(cmd, ":")
	force := strings.HasSuffix(kind, "-f")
	kind = strings.TrimSuffix(kind, "-f")
	var args []string
	switch kind {
	case "sync", "syncb":
		// alternate between the two spellings of the sync command
		if strings.Contains(arg, ",") {
			args = append(args, "sync")
		}
		args = append(args, "-index", idx, "-disable_ctags", "-shard_limit", strconv.Itoa(c33ShardLimit))
		if kind == "syncb" {
			args = append(args, "-branches", "no-such-branch", "-allow_missing_branches")
		}
		if force {
			args = append(args, "-f")
		}
		for _, r := range strings.Split(arg, ",") {
			args = append(args, filepath.Join(dir, r))
		}
	case "remove":
		args = append(args, "remove", "-index", idx)
		if force {
			args = append(args, "-f")
		}
		for _, sel := range strings.Split(arg, "+") {
			k, v, _ := strings.Cut(sel, "=")
			if k == "src" {
				if !filepath.IsAbs(v) {
					v = filepath.Join(dir, v)
				}
			}
			args = append(args, v)
		}
	default:
		panic("bad command " + cmd)
	}
	return args
}

func c33Run(dir, idx, cmd string) (out string, err error) {
	var o, e bytes.Buffer
	defer func() {
		if p := recover(); p != nil {
			err = fmt.Errorf("PANIC: %v", p)
		}
		out = o.String()
	}()
	err = execute(c33Args(dir, idx, cmd), &o, &e)
	return
}

// c33Inventory reads the index directory the way the property prescribes.
func c33Inventory(w *c33World, dir, idx string) ([]c33Rec, error) {
	entries, err := os.ReadDir(idx)
	if os.IsNotExist(err) {
		return nil, nil
	}
	if err != nil {
		return nil, err
	}
	var recs []c33Rec
	for _, e := range entries {
		if e.IsDir() || !strings.HasSuffix(e.Name(), ".zoekt") {
			continue
		}
		repos, _, err := index.ReadMetadataPathAlive(filepath.Join(idx, e.Name()))
		if err != nil {
			return nil, fmt.Errorf("%s: %w", e.Name(), err)
		}
		for _, r := range repos {
			src := r.Source
			if rel, err := filepath.Rel(dir, src); err == nil && !strings.HasPrefix(rel, "..") {
				src = rel
			}
			var vs []string
			for _, b := range r.Branches {
				v := b.Version
				if l, ok := w.label[v]; ok {
					v = l
				}
				vs = append(vs, b.Name+"="+v)
			}
			recs = append(recs, c33Rec{File: e.Name(), Name: r.Name, Source: src, Version: strings.Join(vs, ",")})
		}
	}
	sort.Slice(recs, func(i, j int) bool {
		if recs[i].File != recs[j].File {
			return recs[i].File < recs[j].File
		}
		return recs[i].Name < recs[j].Name
	})
	return recs, nil
}

// c33Replay rebuilds a state from its operation list in the (emptied) directory dir.
// The index directory of the state is dir/idx.
func c33Replay(w *c33World, dir string, ops []string) (*c33State, error) {
	if err := os.RemoveAll(dir); err != nil {
		return nil, err
	}
	for _, d := range []string{"ra", "rb"} {
		if err := os.MkdirAll(filepath.Join(dir, d), 0o755); err != nil {
			return nil, err
		}
	}
	s := c33NewState()
	idx := filepath.Join(dir, "idx")
	for _, op := range ops {
		if strings.HasPrefix(op, "sync-f:") || strings.HasPrefix(op, "remove-f:") {
			_, _ = c33Run(dir, idx, op) // failing commands are legitimate transitions
			recs, err := c33Inventory(w, dir, idx)
			if err != nil {
				return nil, fmt.Errorf("replay %s: %w", op, err)
			}
			s.Index = recs
		} else if err := c33ApplyFS(w, s, dir, op); err != nil {
			return nil, fmt.Errorf("replay %s: %w", op, err)
		}
		s.Ops = append(s.Ops, op)
	}
	return s, nil
}

// ---------------------------------------------------------------------------------------
// directory snapshots

type c33File struct {
	Size  int64
	Mode  fs.FileMode
	MTime int64
	Sum   string
}

type c33Snap struct {
	Exists bool
	Files  map[string]c33File // relative path -> file (directories have Sum "dir")
}

func c33Snapshot(dir string) c33Snap {
	s := c33Snap{Files: map[string]c33File{}}
	st, err := os.Lstat(dir)
	if err != nil {
		return s
	}
	s.Exists = true
	s.Files["."] = c33File{Mode: st.Mode(), MTime: st.ModTime().UnixNano(), Sum: "dir"}
	filepath.WalkDir(dir, func(p string, d fs.DirEntry, err error) error {
		if err != nil || p == dir {
			return nil
		}
		rel, _ := filepath.Rel(dir, p)
		info, err := os.Lstat(p)
		if err != nil {
			return nil
		}
		f := c33File{Size: info.Size(), Mode: info.Mode(), MTime: info.ModTime().UnixNano()}
		if info.IsDir() {
			f.Sum, f.Size = "dir", 0
		} else if b, err := os.ReadFile(p); err == nil {
			h := sha256.Sum256(b)
			f.Sum = hex.EncodeToString(h[:])
		} else {
			f.Sum = "unreadable: " + err.Error()
		}
		s.Files[rel] = f
		return nil
	})
	return s
}

// without returns the snapshot minus the named entries and minus the directory's own entry
// (whose mtime changes whenever an entry is added or removed).
func (s c33Snap) without(names ...string) c33Snap {
	n := c33Snap{Exists: s.Exists, Files: map[string]c33File{}}
	skip := map[string]bool{".": true}
	for _, x := range names {
		skip[x] = true
	}
	for k, v := range s.Files {
		if !skip[k] {
			n.Files[k] = v
		}
	}
	return n
}

// c33Diff describes the differences between two snapshots ("" = identical).
func c33Diff(a, b c33Snap) string {
	var d []string
	if a.Exists != b.Exists {
		d = append(d, fmt.Sprintf("directory exists: %v -> %v", a.Exists, b.Exists))
	}
	for _, k := range c33SortedKeys(a.Files) {
		fb, ok := b.Files[k]
		if !ok {
			d = append(d, "deleted "+k)
		} else if fa := a.Files[k]; fa != fb {
			what := "changed"
			if fa.Sum == fb.Sum && fa.Size == fb.Size && fa.Mode == fb.Mode {
				what = "mtime changed"
			}
			d = append(d, what+" "+k)
		}
	}
	for _, k := range c33SortedKeys(b.Files) {
		if _, ok := a.Files[k]; !ok {
			d = append(d, "created "+k)
		}
	}
	return strings.Join(d, "; ")
}

func c33CopyIndex(src, dst string) error {
	if err := os.RemoveAll(dst); err != nil {
		return err
	}
	if _, err := os.Stat(src); os.IsNotExist(err) {
		return nil
	}
	return c33CopyTree(src, dst)
}

// ---------------------------------------------------------------------------------------
// command output

type c33Out struct {
	Rm      map[string]bool // shard base names announced for removal / removed
	Ix      map[string]bool // name|source announced for indexing / indexed
	Up      map[string]bool // name|source reported up to date
	Unknown []string
	// lines of the other mode: a preview that says "Removing"/"Indexing"/"Indexed", a -f run that says "Would ..."
	WrongMode []string
}

var (
	c33ReRm = regexp.MustCompile(`^(Would remove|Removing) (.+) \(repository ("(?:[^"\\]|\\.)*"), source (.*): ([^:]*)\)$`)
	c33ReIx = regexp.MustCompile(`^(Would index|Indexed|Up to date|Indexing) ("(?:[^"\\]|\\.)*") from (.*)$`)
)

func c33Parse(dir, out string, force bool) c33Out {
	o := c33Out{Rm: map[string]bool{}, Ix: map[string]bool{}, Up: map[string]bool{}}
	for _, line := range strings.Split(out, "\n") {
		if line == "" {
			continue
		}
		if m := c33ReRm.FindStringSubmatch(line); m != nil {
			if (m[1] == "Removing") != force {
				o.WrongMode = append(o.WrongMode, line)
			}
			o.Rm[filepath.Base(m[2])] = true
			continue
		}
		if m := c33ReIx.FindStringSubmatch(line); m != nil {
			name, err := strconv.Unquote(m[2])
			if err != nil {
				o.Unknown = append(o.Unknown, line)
				continue
			}
			src := m[3]
			if rel, err := filepath.Rel(dir, src); err == nil && !strings.HasPrefix(rel, "..") {
				src = rel
			}
			k := name + "|" + src
			switch m[1] {
			case "Would index":
				if force {
					o.WrongMode = append(o.WrongMode, line)
				}
				o.Ix[k] = true
			case "Indexed":
				if !force {
					o.WrongMode = append(o.WrongMode, line)
				}
				o.Ix[k] = true
			case "Up to date":
				o.Up[k] = true
			case "Indexing":
				if !force {
					o.WrongMode = append(o.WrongMode, line)
				}
			}
			continue
		}
		if line == "Pass -f to apply these changes." {
			if force {
				o.WrongMode = append(o.WrongMode, line)
			}
			continue
		}
		o.Unknown = append(o.Unknown, strings.ReplaceAll(line, dir, "$DIR"))
	}
	return o
}

func c33Set(m map[string]bool) string { return "{" + strings.Join(c33SortedKeys(m), ", ") + "}" }

func c33SetEq(a, b map[string]bool) bool {
	if len(a) != len(b) {
		return false
	}
	for k := range a {
		if !b[k] {
			return false
		}
	}
	return true
}

// ---------------------------------------------------------------------------------------
// exploration

type c33Viol struct {
	Key, Detail, CaseID string
}

type c33Succ struct {
	Ops []string
	Key string
}

// c33StateResult is what the evaluation of one state yields.
type c33StateResult struct {
	Viols       []c33Viol
	Succ        []c33Succ
	Evals       int
	Transitions int
	Nontrivial  []string
	Sample      any
	Skipped     bool
	Notes       []string
	Incomplete  []string
	Counts      map[string]int
}

// c33Checker evaluates one command in one materialised state. It returns the inventory of the
// index directory after the -f form of the command (the successor state's index).
type c33Checker func(w *c33World, s *c33State, dir, cmd string, res *c33StateResult) ([]c33Rec, error)

func c33CheckerFor(id string) c33Checker {
	if id == "C34" {
		return c34Check
	}
	return c33Check
}

func c33CaseID(ops []string, cmd string) string {
	return strings.Join(ops, ";") + " => " + cmd
}

func c33ParseCase(id string) ([]string, string, error) {
	opss, cmd, ok := strings.Cut(id, " => ")
	if !ok {
		return nil, "", fmt.Errorf("bad case id %q", id)
	}
	var ops []string
	if opss != "" {
		ops = strings.Split(opss, ";")
	}
	return ops, cmd, nil
}

// Memory regime and child processes. index.Builder allocates 4 x 16 MB of pointer arrays per
// indexed repository and writes to a few hundred slots of them. With the default collector
// settings every such allocation triggers a collection that scans the (mostly untouched) arrays
// of all concurrently running builders, and the runtime clears every reused span, so every page
// of every array is faulted in again and again; on virtual machines with slow page faults that
// costs an order of magnitude more than the code under test. The states of a level are therefore
// evaluated in short-lived child processes (this test binary, TestVerifC33Child) that run with
// the collector switched off: arrays always come from fresh zero pages, and the memory is
// returned when the child exits. Nothing the code under test can observe changes.

const c33ChunkStates = 48 // states per child process

type c33Job struct {
	Mode     string // "C33" | "C34"
	Base     string // scratch directory of the parent (templates live in Base/tmpl)
	World    map[string]c33TmplJSON
	States   []c33Succ
	Expand   bool
	Thorough bool
	Deadline int64 // unix nanoseconds; states not started by then are skipped
	Workers  int
}

type c33TmplJSON struct {
	Dir    string
	Bare   bool
	Ref    string
	Hashes []string
}

func (w *c33World) export() map[string]c33TmplJSON {
	out := map[string]c33TmplJSON{}
	for k, t := range w.tmpl {
		out[k] = c33TmplJSON{Dir: t.dir, Bare: t.bare, Ref: t.ref, Hashes: t.hashes[:]}
	}
	return out
}

func c33ImportWorld(base string, m map[string]c33TmplJSON) *c33World {
	w := &c33World{base: base, tmpl: map[string]*c33Tmpl{}, label: map[string]string{}}
	for k, j := range m {
		t := &c33Tmpl{dir: j.Dir, bare: j.Bare, ref: j.Ref}
		copy(t.hashes[:], j.Hashes)
		for i, h := range j.Hashes {
			w.label[h] = fmt.Sprintf("%s@%d", k, i)
		}
		w.tmpl[k] = t
	}
	return w
}

// c33EvalStates evaluates the states of a job in this process.
func c33EvalStates(job *c33Job, tag string) []*c33StateResult {
	log.SetOutput(io.Discard)
	defer log.SetOutput(os.Stderr)
	w := c33ImportWorld(job.Base, job.World)
	check := c33CheckerFor(job.Mode)
	nworkers := job.Workers
	if nworkers <= 0 {
		nworkers = 16
	}
	dirs := make(chan string, nworkers)
	for i := 0; i < nworkers; i++ {
		dirs <- filepath.Join(job.Base, fmt.Sprintf("%s-w%02d", tag, i))
	}
	level := job.States
	results := make([]*c33StateResult, len(level))
	mc.ParallelFor(len(level), func(i int) {
		res := &c33StateResult{}
		results[i] = res
		if job.Deadline > 0 && time.Now().UnixNano() > job.Deadline {
			res.Skipped = true
			return
		}
		dir := <-dirs
		defer func() { dirs <- dir }()
		defer func() {
			if p := recover(); p != nil {
				res.Viols = append(res.Viols, c33Viol{Key: "TOOL: harness panic", Detail: fmt.Sprintf("ops=%v: %v", level[i].Ops, p), CaseID: c33CaseID(level[i].Ops, "sync:ra")})
			}
		}()
		s, err := c33Replay(w, dir, level[i].Ops)
		if err != nil {
			res.Viols = append(res.Viols, c33Viol{Key: "TOOL: replay failed", Detail: fmt.Sprintf("ops=%v: %v", level[i].Ops, err), CaseID: c33CaseID(level[i].Ops, "sync:ra")})
			return
		}
		if s.key() != level[i].Key {
			res.Viols = append(res.Viols, c33Viol{Key: "TOOL: replay diverged", Detail: fmt.Sprintf("ops=%v\nexpected %s\ngot      %s", level[i].Ops, level[i].Key, s.key()), CaseID: c33CaseID(level[i].Ops, "sync:ra")})
			return
		}
		res.Sample = map[string]any{"ops": s.Ops, "state": s.key()}
		for _, cmd := range c33Commands(s) {
			after, err := check(w, s, dir, cmd, res)
			if err != nil {
				res.Viols = append(res.Viols, c33Viol{Key: "TOOL: " + err.Error(), Detail: fmt.Sprintf("ops=%v cmd=%s: %v", s.Ops, cmd, err), CaseID: c33CaseID(s.Ops, cmd)})
				continue
			}
			res.Transitions++
			if job.Expand && !strings.HasPrefix(cmd, "syncb:") {
				n := s.clone()
				n.Index = after
				n.Ops = append(n.Ops, c33Force(cmd))
				res.Succ = append(res.Succ, c33Succ{Ops: n.Ops, Key: n.key()})
			}
		}
		if job.Expand {
			for _, op := range c33FSOps(s, job.Thorough) {
				n := s.clone()
				if err := c33ApplyFS(w, n, "", op); err != nil {
					panic(err)
				}
				n.Ops = append(n.Ops, op)
				res.Transitions++
				res.Succ = append(res.Succ, c33Succ{Ops: n.Ops, Key: n.key()})
			}
		}
		os.RemoveAll(dir)
	})
	return results
}

// TestVerifC33Child is the worker process of TestVerifC33 / TestVerifC34. It does nothing unless
// started by them.
func TestVerifC33Child(t *testing.T) {
	jobPath := os.Getenv("VERIF_C33_JOB")
	if jobPath == "" {
		t.Skip("worker process of TestVerifC33/C34")
	}
	// no periodic collection (every Builder allocates fresh 16 MB tables: collecting after each is the
	// dominant cost), but a ceiling: 16 workers must fit into memory together
	debug.SetGCPercent(-1)
	debug.SetMemoryLimit(1536 << 20)
	b, err := os.ReadFile(jobPath)
	if err != nil {
		t.Fatal(err)
	}
	var job c33Job
	if err := json.Unmarshal(b, &job); err != nil {
		t.Fatal(err)
	}
	results := c33EvalStates(&job, filepath.Base(jobPath))
	out, err := json.Marshal(results)
	if err != nil {
		t.Fatal(err)
	}
	if err := os.WriteFile(jobPath+".out", out, 0o644); err != nil {
		t.Fatal(err)
	}
}

// c33RunChunk evaluates a chunk of states in a child process.
func c33RunChunk(job *c33Job, name string) ([]*c33StateResult, error) {
	jobPath := filepath.Join(job.Base, name)
	b, err := json.Marshal(job)
	if err != nil {
		return nil, err
	}
	if err := os.WriteFile(jobPath, b, 0o644); err != nil {
		return nil, err
	}
	defer os.Remove(jobPath)
	defer os.Remove(jobPath + ".out")
	cmd := exec.Command(os.Args[0], "-test.run=^TestVerifC33Child$", "-test.count=1", "-test.timeout=0")
	cmd.Env = append(os.Environ(), "VERIF_C33_JOB="+jobPath, "VERIF_OUT=")
	output, runErr := cmd.CombinedOutput()
	ob, err := os.ReadFile(jobPath + ".out")
	if err != nil {
		tail := string(output)
		if len(tail) > 3600 {
			tail = tail[:1200] + "\n[...]\n" + tail[len(tail)-2400:]
		}
		return nil, fmt.Errorf("child process produced no result (%v): %s", runErr, tail)
	}
	var results []*c33StateResult
	if err := json.Unmarshal(ob, &results); err != nil {
		return nil, err
	}
	if len(results) != len(job.States) {
		return nil, fmt.Errorf("child returned %d results for %d states", len(results), len(job.States))
	}
	return results, nil
}

// c33Explore runs the breadth-first search. The checker of mode is applied to every command in
// every state.
func c33Explore(t *testing.T, r *mc.Report, mode string) {
	base, clean := gen.Scratch(strings.ToLower(mode))
	defer clean()
	w := c33NewWorld(base)
	thorough := r.Thorough()
	depth := 3
	if thorough {
		depth = 4
	}
	if v, err := strconv.Atoi(os.Getenv("VERIF_C33_DEPTH")); err == nil && v >= 0 {
		depth = v
	}
	r.Set("bound", fmt.Sprintf("operation sequences of length <= %d (%d state-changing operations + 1 evaluated command); %d slots, %d moves, %d root sets, <=%d commits per repository",
		depth+1, depth, len(c33Slots), len(c33Moves), len(c33RootSets), c33MaxCommit+1))

	if r.Replaying() {
		log.SetOutput(io.Discard)
		defer log.SetOutput(os.Stderr)
		ops, cmd, err := c33ParseCase(os.Getenv("VERIF_REPLAY_CASE"))
		if err != nil {
			t.Fatal(err)
		}
		cmd = strings.Replace(cmd, "-f:", ":", 1) // C34 cases name the -f form
		dir := filepath.Join(base, "replay")
		s, err := c33Replay(w, dir, ops)
		if err != nil {
			t.Fatal(err)
		}
		res := &c33StateResult{}
		if _, err := c33CheckerFor(mode)(w, s, dir, cmd, res); err != nil {
			t.Fatal(err)
		}
		r.Eval(res.Evals)
		for _, v := range res.Viols {
			r.Violation(v.Key, v.Detail, map[string]any{"case": v.CaseID})
		}
		return
	}

	nworkers := 16
	if v, err := strconv.Atoi(os.Getenv("VERIF_PROCS")); err == nil && v > 0 {
		nworkers = v
	}
	budget := 100.0
	if thorough {
		budget = 900
	}
	if b, err := strconv.ParseFloat(os.Getenv("VERIF_BUDGET_S"), 64); err == nil && b > 0 {
		budget = b
	}
	deadline := time.Now().Add(time.Duration(budget * float64(time.Second))).UnixNano()

	seen := map[string]bool{}
	s0 := c33NewState()
	level := []c33Succ{{Ops: nil, Key: s0.key()}}
	seen[s0.key()] = true
	states, transitions, traces, children := 0, 0, 0, 0
	perDepth := []int{}
	for d := 0; d <= depth && len(level) > 0; d++ {
		perDepth = append(perDepth, len(level))
		var results []*c33StateResult
		for lo := 0; lo < len(level); lo += c33ChunkStates {
			hi := min(lo+c33ChunkStates, len(level))
			job := &c33Job{Mode: mode, Base: base, World: w.export(), States: level[lo:hi], Expand: d < depth, Thorough: thorough, Deadline: deadline, Workers: nworkers}
			var chunk []*c33StateResult
			var err error
			if os.Getenv("VERIF_C33_INPROCESS") != "" {
				chunk = c33EvalStates(job, fmt.Sprintf("job-%d-%d", d, lo))
			} else {
				chunk, err = c33RunChunk(job, fmt.Sprintf("job-%d-%d", d, lo))
				children++
			}
			if err != nil {
				r.Violation("TOOL: worker process failed", fmt.Sprintf("depth %d states %d..%d: %v", d, lo, hi, err), map[string]any{"case": c33CaseID(level[lo].Ops, "sync:ra")})
				chunk = make([]*c33StateResult, hi-lo)
				for i := range chunk {
					chunk[i] = &c33StateResult{Skipped: true}
				}
			}
			results = append(results, chunk...)
		}
		var next []c33Succ
		skipped := 0
		for i, res := range results {
			if res.Skipped {
				skipped++
				continue
			}
			states++
			traces++
			transitions += res.Transitions
			r.Eval(res.Evals)
			for _, k := range res.Nontrivial {
				r.Nontrivial(k)
			}
			if res.Sample != nil && (d >= 2 || i == 0) {
				r.Sample(res.Sample)
			}
			for _, n := range res.Notes {
				r.Note("%s", n)
			}
			for _, n := range res.Incomplete {
				r.Incomplete("%s", n)
			}
			for k, n := range res.Counts {
				r.Add(k, n)
			}
			for _, v := range res.Viols {
				r.Violation(v.Key, v.Detail, map[string]any{"case": v.CaseID})
			}
			for _, sc := range res.Succ {
				if !seen[sc.Key] {
					seen[sc.Key] = true
					next = append(next, sc)
				}
			}
		}
		if skipped > 0 {
			r.Incomplete("budget exhausted (or worker failure) at depth %d: %d of %d states not evaluated, deeper levels not explored", d, skipped, len(level))
			break
		}
		level = next
	}
	r.Set("states", states)
	r.Set("states_per_depth", fmt.Sprint(perDepth))
	r.Set("transitions", transitions)
	r.Set("traces_validated_against_impl", traces)
	r.Set("worker_processes", children)
}

// ---------------------------------------------------------------------------------------
// C33

// c33ShardOfName returns the shard files of the state's index that hold repository name.
func c33ShardsOfName(recs []c33Rec, name string) []string {
	var out []string
	for _, r := range recs {
		if r.Name == name {
			out = append(out, r.File)
		}
	}
	return out
}

func c33Check(w *c33World, s *c33State, dir, cmd string, res *c33StateResult) ([]c33Rec, error) {
	idx := filepath.Join(dir, "idx")
	caseID := c33CaseID(s.Ops, cmd)
	res.Evals++

	// (1) the preview on the state's own index directory
	before := c33Snapshot(idx)
	outP, errP := c33Run(dir, idx, cmd)
	after := c33Snapshot(idx)
	if errP != nil && strings.HasPrefix(errP.Error(), "PANIC") {
		res.Viols = append(res.Viols, c33Viol{Key: "C33 preview panics cmd=" + cmd + " state=" + s.key(), Detail: fmt.Sprintf("ops=%v cmd=%s: %v", s.Ops, cmd, errP), CaseID: caseID})
	}
	if d := c33Diff(before, after); d != "" {
		res.Viols = append(res.Viols, c33Viol{
			Key:    "C33 preview changed the index directory cmd=" + cmd + " state=" + s.key(),
			Detail: fmt.Sprintf("ops=%v\ncmd=%s (preview)\ndifference: %s\noutput:\n%s\nerr=%v", s.Ops, cmd, d, outP, errP),
			CaseID: caseID,
		})
		// restore is impossible in general; rebuild the state so that the -f run sees the same state
		if _, err := c33Replay(w, dir, s.Ops); err != nil {
			return nil, err
		}
	}

	// (1b) the same preview on a copy of the index directory that also holds what interrupted runs and
	// other tools leave behind (a half-written shard *.tmp, an orphaned sidecar, a foreign file, a
	// sub-directory): a preview must not touch any of it either, and must announce the same
	{
		sp := filepath.Join(dir, "stray", "idx")
		if err := c33CopyIndex(idx, sp); err != nil {
			return nil, err
		}
		if err := os.MkdirAll(filepath.Join(sp, "subdir"), 0o755); err != nil {
			return nil, err
		}
		for name, content := range map[string]string{
			"leftover_v16.00000.zoekt.4711.tmp": "half written shard", "ghost_v16.00000.zoekt.meta": "{}", "NOTES.txt": "not an index file", "subdir/inner.zoekt.tmp": "x",
		} {
			if err := os.WriteFile(filepath.Join(sp, name), []byte(content), 0o644); err != nil {
				return nil, err
			}
		}
		sb := c33Snapshot(sp)
		outS, errS := c33Run(dir, sp, cmd)
		sa := c33Snapshot(sp)
		res.Evals++
		if d := c33Diff(sb, sa); d != "" {
			res.Viols = append(res.Viols, c33Viol{
				Key:    "C33 preview changed an index directory that holds leftover files cmd=" + cmd + " state=" + s.key(),
				Detail: fmt.Sprintf("ops=%v\ncmd=%s (preview) on the state's index directory plus leftover_v16.00000.zoekt.4711.tmp, ghost_v16.00000.zoekt.meta, NOTES.txt, subdir/inner.zoekt.tmp\ndifference: %s\noutput:\n%s\nerr=%v", s.Ops, cmd, d, outS, errS),
				CaseID: caseID,
			})
		}
		if (errS == nil) == (errP == nil) && strings.ReplaceAll(outS, sp, idx) != outP {
			res.Viols = append(res.Viols, c33Viol{
				Key:    "C33 preview announces something else when the index directory holds leftover files cmd=" + cmd + " state=" + s.key(),
				Detail: fmt.Sprintf("ops=%v\ncmd=%s (preview)\nwithout leftovers (err=%v):\n%s\nwith leftovers (err=%v):\n%s", s.Ops, cmd, errP, outP, errS, outS),
				CaseID: caseID,
			})
		}
		os.RemoveAll(filepath.Join(dir, "stray"))
	}

	// (2) the same command with -f on a copy of the index directory
	cp := filepath.Join(dir, "run", "idx")
	if err := c33CopyIndex(idx, cp); err != nil {
		return nil, err
	}
	b := c33Snapshot(cp).without(lockFileName)
	outF, errF := c33Run(dir, cp, c33Force(cmd))
	a := c33Snapshot(cp).without(lockFileName)
	recsAfter, err := c33Inventory(w, dir, cp)
	if err != nil {
		return nil, fmt.Errorf("inventory after %s: %w", c33Force(cmd), err)
	}

	ann := c33Parse(dir, outP, false)
	done := c33Parse(dir, outF, true)
	if len(ann.Unknown)+len(done.Unknown) > 0 {
		return nil, fmt.Errorf("unparseable command output: %q", append(ann.Unknown, done.Unknown...))
	}
	if len(ann.WrongMode)+len(done.WrongMode) > 0 {
		res.Viols = append(res.Viols, c33Viol{
			Key:    fmt.Sprintf("C33 preview reports performed actions or -f only announces: cmd=%s state=%s", cmd, s.key()),
			Detail: fmt.Sprintf("ops=%v\npreview `%s` (err=%v):\n%s\napply `%s` (err=%v):\n%s", s.Ops, cmd, errP, outP, c33Force(cmd), errF, outF),
			CaseID: caseID,
		})
	}

	// what -f really did, from the directory
	deleted, changed := map[string]bool{}, map[string]bool{}
	for k, fb := range b.Files {
		if fa, ok := a.Files[k]; !ok {
			deleted[k] = true
		} else if fa != fb {
			changed[k] = true
		}
	}
	for k := range a.Files {
		if _, ok := b.Files[k]; !ok {
			changed[k] = true
		}
	}
	changedNames := map[string]bool{}
	for f := range changed {
		for _, rec := range recsAfter {
			if rec.File == f {
				changedNames[rec.Name] = true
			}
		}
	}
	doneIxNames, annIxNames := map[string]bool{}, map[string]bool{}
	for k := range done.Ix {
		n, _, _ := strings.Cut(k, "|")
		doneIxNames[n] = true
	}
	for k := range ann.Ix {
		n, _, _ := strings.Cut(k, "|")
		annIxNames[n] = true
	}

	detail := func() string {
		return fmt.Sprintf("ops=%v\nstate=%s\npreview `%s` (err=%v):\n%s\napply `%s` (err=%v):\n%s\ndirectory after -f: deleted=%s changed/created=%s\nindex after -f: %s",
			s.Ops, s.key(), cmd, errP, outP, c33Force(cmd), errF, outF, c33Set(deleted), c33Set(changed), c33IndexString(recsAfter))
	}

	// (2a) announced == reported by -f
	if !c33SetEq(ann.Rm, done.Rm) || !c33SetEq(ann.Ix, done.Ix) {
		class := "announced != performed"
		sig := "state=" + s.key()
		// the specific shape: "Up to date" judged against a shard the same preview announces to remove
		var stale []string
		for k := range done.Ix {
			if ann.Ix[k] || !ann.Up[k] {
				continue
			}
			name, src, _ := strings.Cut(k, "|")
			for _, f := range c33ShardsOfName(s.Index, name) {
				if ann.Rm[f] {
					for _, rec := range s.Index {
						if rec.File == f {
							stale = append(stale, fmt.Sprintf("%q indexed-from=%s now-at=%s", name, rec.Source, src))
						}
					}
				}
			}
		}
		sort.Strings(stale)
		onlyStale := len(stale) > 0 && c33SetEq(ann.Rm, done.Rm)
		if onlyStale {
			// every difference must be explained by a stale entry
			for k := range done.Ix {
				if !ann.Ix[k] && !ann.Up[k] {
					onlyStale = false
				}
			}
			for k := range ann.Ix {
				if !done.Ix[k] {
					onlyStale = false
				}
			}
		}
		if onlyStale {
			class = "preview says up to date for a repository whose shard it announces to remove"
			sig = strings.Join(stale, "; ")
		}
		res.Viols = append(res.Viols, c33Viol{
			Key:    fmt.Sprintf("C33 %s: cmd=%s %s", class, cmd, sig),
			Detail: fmt.Sprintf("announced remove=%s index=%s uptodate=%s\nperformed remove=%s index=%s uptodate=%s\n%s", c33Set(ann.Rm), c33Set(ann.Ix), c33Set(ann.Up), c33Set(done.Rm), c33Set(done.Ix), c33Set(done.Up), detail()),
			CaseID: caseID,
		})
	}
	// (2b) what -f reports == what -f did to the directory, so that (2a) is about real actions
	var dishonest []string
	// a shard file of a repository that is announced / reported as (re-)indexed may disappear without
	// a "remove" line of its own: indexing replaces all shard files of that repository, and the new
	// index may need fewer of them
	nameOf := map[string]string{}
	for _, rec := range s.Index {
		nameOf[rec.File] = rec.Name
	}
	for f := range deleted {
		base := strings.TrimSuffix(f, ".meta")
		n, known := nameOf[base]
		if !done.Rm[base] && !(known && doneIxNames[n]) {
			dishonest = append(dishonest, "deleted without announcement: "+f)
		}
		if !ann.Rm[base] && !(known && annIxNames[n]) {
			dishonest = append(dishonest, "deleted but not announced by the preview: "+f)
		}
	}
	for f := range done.Rm {
		if _, still := a.Files[f]; still && !changed[f] {
			dishonest = append(dishonest, "reported as removed but untouched: "+f)
		}
	}
	for f := range changed {
		if !strings.HasSuffix(f, ".zoekt") {
			continue // temporary files etc. are not repositories
		}
		for _, rec := range recsAfter {
			if rec.File == f && !doneIxNames[rec.Name] {
				dishonest = append(dishonest, fmt.Sprintf("shard %s of %q written without an Indexed line", f, rec.Name))
			}
			if rec.File == f && !annIxNames[rec.Name] {
				dishonest = append(dishonest, fmt.Sprintf("shard %s of %q written but not announced by the preview", f, rec.Name))
			}
		}
	}
	for n := range doneIxNames {
		if !changedNames[n] {
			dishonest = append(dishonest, fmt.Sprintf("%q reported as Indexed but no shard of it was written", n))
		}
	}
	sort.Strings(dishonest)
	if len(dishonest) > 0 && c33SetEq(ann.Rm, done.Rm) && c33SetEq(ann.Ix, done.Ix) {
		res.Viols = append(res.Viols, c33Viol{
			Key:    fmt.Sprintf("C33 performed actions differ from announcement: cmd=%s state=%s", cmd, s.key()),
			Detail: strings.Join(dishonest, "\n") + "\n" + detail(),
			CaseID: caseID,
		})
	}

	if len(ann.Rm)+len(ann.Ix) > 0 || len(deleted)+len(changed) > 0 {
		res.Nontrivial = append(res.Nontrivial, cmd+" @ "+s.key())
	}
	return recsAfter, nil
}

func TestVerifC33(t *testing.T) {
	r := mc.NewReport("C33")
	r.Assume("git repositories are real on-disk repositories (built once with go-git, HEAD cross-checked with the git binary), instantiated by copying five templates; 'commit' moves the branch HEAD points to to the next prepared commit")
	r.Assume("a state is identified by root layout + index inventory (file, name, source, versions); IndexTime and lock file are ignored for deduplication")
	r.Assume("what -f performs is read from its output and cross-checked against the before/after snapshot of the index directory")
	r.Assume("execute() is called from 16 goroutines on disjoint directories inside short-lived worker processes of this test binary that run with the Go collector switched off (no mutable package state in cmd/zoekt-local-sync, gitindex, index.Builder)")
	c33Explore(t, r, "C33")
	r.Finish("breadth-first over operation lists (create/delete/move/commit repositories, sync -f, remove -f), states deduplicated by layout+inventory; in every state every preview command (6 root sets, every indexed name/source selector, missing and mixed selectors) is run and compared with its -f twin on a copy; non-trivial = the preview announces or the -f run performs at least one removal or indexing")
}
