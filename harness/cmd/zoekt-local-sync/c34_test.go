//go:build verif

package main

// C34: `zoekt-local-sync -f` makes the index match the discovered repositories; duplicate
// names fail before the index changes; `remove -f` deletes exactly the selected shards.
//
// Uses the breadth-first exploration of c33_test.go (real git repositories, real execute()).
// In every explored state every -f command of the alphabet runs on a copy of the state's index
// directory and the result is compared with the generator's own model of the layout.

import (
	"fmt"
	"os"
	"path/filepath"
	"sort"
	"strings"
	"sync"
	"testing"

	"github.com/sourcegraph/zoekt/internal/verifshim/mc"
)

type c34Expect struct {
	missingRoot string
	dupName     string
	overlap     string
	repos       map[string]c33Rec // name -> expected (Name, Source, Version)
}

// c34Model computes, from the generator's layout only, what a sync over roots must produce.
func c34Model(s *c33State, roots []string) c34Expect {
	e := c34Expect{repos: map[string]c33Rec{}}
	dirExists := func(d string) bool {
		if d == "ra" || d == "rb" || s.Dirs[d] {
			return true
		}
		_, ok := s.Layout[d]
		return ok
	}
	bySource := map[string]string{}
	paths := c33SortedKeys(s.Layout)
	for _, root := range roots {
		if !dirExists(root) {
			e.missingRoot = root
			continue
		}
		for _, p := range paths {
			if p != root && !strings.HasPrefix(p, root+"/") {
				continue
			}
			// a directory inside a repository belongs to that repository (never generated, kept for safety)
			inside := false
			for _, q := range paths {
				if q != p && strings.HasPrefix(p, q+"/") && (q == root || strings.HasPrefix(q, root+"/")) {
					inside = true
				}
			}
			if inside {
				continue
			}
			name := filepath.Base(root)
			if p != root {
				name = p[len(root)+1:]
			}
			if c33IsBare(p) {
				name = strings.TrimSuffix(name, ".git")
			}
			if prev, ok := bySource[p]; ok && prev != root {
				e.overlap = p
				continue
			}
			bySource[p] = root
			if _, dup := e.repos[name]; dup {
				e.dupName = name
				continue
			}
			r := s.Layout[p]
			e.repos[name] = c33Rec{Name: name, Source: p, Version: fmt.Sprintf("HEAD=%s@%d", r.ID, r.Commit)}
		}
	}
	return e
}

// c34RecSet is the set of alive repositories (a repository may occupy several shard files).
func c34RecSet(recs []c33Rec) []string {
	seen := map[string]bool{}
	var out []string
	for _, r := range recs {
		k := fmt.Sprintf("%q src=%s %s", r.Name, r.Source, r.Version)
		if !seen[k] {
			seen[k] = true
			out = append(out, k)
		}
	}
	sort.Strings(out)
	return out
}

// c34FileSet lists every (shard file, repository) pair.
func c34FileSet(recs []c33Rec) []string {
	var out []string
	for _, r := range recs {
		out = append(out, fmt.Sprintf("%s: %q src=%s %s", r.File, r.Name, r.Source, r.Version))
	}
	sort.Strings(out)
	return out
}

// c34Fresh caches, per process, the inventory a sync produces from an EMPTY index directory.
var (
	c34FreshMu sync.Mutex
	c34Fresh   = map[string][]string{}
)

func c34Check(w *c33World, s *c33State, dir, cmd string, res *c33StateResult) ([]c33Rec, error) {
	idx := filepath.Join(dir, "idx")
	fcmd := c33Force(cmd)
	caseID := c33CaseID(s.Ops, fcmd)
	res.Evals++
	if res.Counts == nil {
		res.Counts = map[string]int{}
	}

	cp := filepath.Join(dir, "run", "idx")
	if err := c33CopyIndex(idx, cp); err != nil {
		return nil, err
	}
	b := c33Snapshot(cp).without(lockFileName)
	out, runErr := c33Run(dir, cp, fcmd)
	a := c33Snapshot(cp).without(lockFileName)
	a.Exists = b.Exists // taking the lock creates the (empty) directory; that is not index content
	recsAfter, err := c33Inventory(w, dir, cp)
	if err != nil {
		return nil, fmt.Errorf("inventory after %s: %w", fcmd, err)
	}
	detail := func(what string) string {
		return fmt.Sprintf("%s\nops=%v\nstate=%s\ncommand `%s` err=%v output:\n%s\nindex after: %s\ndirectory difference: %s",
			what, s.Ops, s.key(), fcmd, runErr, out, c33IndexString(recsAfter), c33Diff(b, a))
	}
	viol := func(class, what string) {
		res.Viols = append(res.Viols, c33Viol{Key: fmt.Sprintf("C34 %s: cmd=%s state=%s", class, fcmd, s.key()), Detail: detail(what), CaseID: caseID})
	}
	if runErr != nil && strings.HasPrefix(runErr.Error(), "PANIC") {
		viol("command panics", runErr.Error())
		return recsAfter, nil
	}

	kind, arg, _ := strings.Cut(cmd, ":")
	switch kind {
	case "syncb":
		// a sync for a branch that does not exist: outside C34's model (C33 compares it with its preview)
		res.Counts["sync_no_claim_cases"]++
		return recsAfter, nil
	case "sync":
		e := c34Model(s, strings.Split(arg, ","))
		switch {
		case e.dupName != "":
			// must fail, and before changing the index
			if runErr == nil {
				viol("duplicate repository name accepted", fmt.Sprintf("two discovered repositories are named %q but the command succeeded", e.dupName))
			}
			if d := c33Diff(b, a); d != "" {
				viol("duplicate repository name but the index changed", fmt.Sprintf("two discovered repositories are named %q; index directory changed: %s", e.dupName, d))
			}
			res.Nontrivial = append(res.Nontrivial, "dup "+fcmd+" @ "+s.key())
			res.Counts["sync_duplicate_name_cases"]++
		case e.missingRoot != "" || e.overlap != "":
			// the property makes no claim: the command may refuse; if it does not refuse we
			// have no unambiguous expectation either
			res.Counts["sync_no_claim_cases"]++
			if runErr == nil {
				res.Notes = append(res.Notes, fmt.Sprintf("sync succeeded with missing root %q / repository %q under two roots: %s", e.missingRoot, e.overlap, caseID))
			}
		case runErr != nil:
			// success is the premise of the property; an unexpected failure is lost coverage, not a violation
			res.Counts["sync_unexpected_failures"]++
			res.Incomplete = append(res.Incomplete, fmt.Sprintf("sync failed although the layout has no duplicate names, all roots exist and do not overlap (%v): %s", runErr, caseID))
		default:
			var want []c33Rec
			for _, n := range c33SortedKeys(e.repos) {
				want = append(want, e.repos[n])
			}
			got, exp := c34RecSet(recsAfter), c34RecSet(want)
			if strings.Join(got, "\n") != strings.Join(exp, "\n") {
				viol("index does not match the discovered repositories", fmt.Sprintf("want alive repositories:\n  %s\ngot:\n  %s", strings.Join(exp, "\n  "), strings.Join(got, "\n  ")))
			}
			// differential: the index reached from this state equals, shard file by shard file, the index
			// the same sync builds from an empty directory (a repository that spans several shards keeps all of them)
			fk := s.layoutString() + "|" + fcmd
			c34FreshMu.Lock()
			ref, ok := c34Fresh[fk]
			c34FreshMu.Unlock()
			if !ok {
				fd := filepath.Join(dir, "fresh", "idx")
				os.RemoveAll(fd)
				if _, err := c33Run(dir, fd, fcmd); err == nil {
					if recs, err := c33Inventory(w, dir, fd); err == nil {
						ref = c34FileSet(recs)
						ok = true
					}
				}
				os.RemoveAll(filepath.Join(dir, "fresh"))
				if ok {
					c34FreshMu.Lock()
					c34Fresh[fk] = ref
					c34FreshMu.Unlock()
				}
			}
			if ok {
				if gotF := c34FileSet(recsAfter); strings.Join(gotF, "\n") != strings.Join(ref, "\n") {
					viol("index differs from the index a sync of the same repositories builds from scratch", fmt.Sprintf("shard files after the sync from this state:\n  %s\nshard files after the same sync into an empty index directory:\n  %s", strings.Join(gotF, "\n  "), strings.Join(ref, "\n  ")))
				}
				res.Counts["sync_compared_with_fresh_index"]++
			}
			res.Counts["sync_success_cases"]++
			if len(want) > 0 || len(s.Index) > 0 {
				res.Nontrivial = append(res.Nontrivial, "sync "+fcmd+" @ "+s.key())
			}
		}
	case "remove":
		// selection by the documented rule: exact name, else exact source; every selector must
		// select exactly one repository, otherwise nothing may be deleted
		type rk struct{ name, source string }
		groups := map[rk][]string{}
		for _, r := range s.Index {
			groups[rk{r.Name, r.Source}] = append(groups[rk{r.Name, r.Source}], r.File)
		}
		selected := map[rk]bool{}
		valid := true
		for _, sel := range strings.Split(arg, "+") {
			k, v, _ := strings.Cut(sel, "=")
			var m []rk
			if k == "name" {
				for g := range groups {
					if g.name == v {
						m = append(m, g)
					}
				}
			}
			if len(m) == 0 && k == "src" {
				for g := range groups {
					if g.source == v {
						m = append(m, g)
					}
				}
			}
			if len(m) != 1 {
				valid = false
				break
			}
			selected[m[0]] = true
		}
		want := c33Snap{Exists: b.Exists, Files: map[string]c33File{}}
		gone := map[string]bool{}
		if valid {
			for g := range selected {
				for _, f := range groups[g] {
					gone[f], gone[f+".meta"] = true, true
				}
			}
		}
		for k, v := range b.Files {
			if !gone[k] {
				want.Files[k] = v
			}
		}
		if d := c33Diff(want, a); d != "" {
			viol("remove -f did not delete exactly the selected shards", fmt.Sprintf("selectors %s (valid selection: %v); expected-vs-actual directory: %s", arg, valid, d))
		}
		res.Counts["remove_cases"]++
		if valid {
			res.Nontrivial = append(res.Nontrivial, "remove "+fcmd+" @ "+s.key())
		}
	}
	return recsAfter, nil
}

func TestVerifC34(t *testing.T) {
	r := mc.NewReport("C34")
	r.Assume("git repositories are real on-disk repositories (built once with go-git, HEAD cross-checked with the git binary), instantiated by copying five templates; 'commit' moves the branch HEAD points to to the next prepared commit")
	r.Assume("a state is identified by root layout + index inventory (file, name, source, versions); IndexTime and lock file are ignored for deduplication")
	r.Assume("expected repositories come from the generator's layout only: name = path relative to the root (base name of the root for a repository at the root, '.git' stripped for bare), source = its directory, version = its HEAD commit")
	r.Assume("missing roots and a repository reachable from two overlapping roots are outside the property (command may refuse); the lock file is not index content")
	r.Assume("execute() is called from 16 goroutines on disjoint directories inside short-lived worker processes of this test binary that run with the Go collector switched off (no mutable package state in cmd/zoekt-local-sync, gitindex, index.Builder)")
	c33Explore(t, r, "C34")
	r.Finish("breadth-first over operation lists (create/delete/move/commit repositories, sync -f, remove -f), states deduplicated by layout+inventory; in every state every -f command (6 root sets incl. nested/overlapping/repository-at-root, every indexed name/source selector, missing and mixed selectors) is run on a copy and compared with the layout model; non-trivial = successful sync with a non-empty layout or prior index, a duplicate-name refusal, or a remove with a valid selection")
}
