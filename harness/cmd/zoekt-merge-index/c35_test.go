//go:build verif

package main

import (
	"context"

	"fmt"
	"github.com/sourcegraph/zoekt"
	"github.com/sourcegraph/zoekt/query"
	"os"
	"os/exec"
	"path/filepath"
	"sort"
	"strings"
	"testing"

	"github.com/sourcegraph/zoekt/index"
	"github.com/sourcegraph/zoekt/internal/verifshim/gen"
	"github.com/sourcegraph/zoekt/internal/verifshim/mc"
	"github.com/sourcegraph/zoekt/internal/verifshim/ref"
	"github.com/sourcegraph/zoekt/internal/verifshim/vos"
)

// C35: crash-point and single-fault enumeration of `zoekt-merge-index merge` and `explode`
// (real merge()/explodeCmd() of this package and index.Merge/Explode, all over the vos shim).

// c35Alive maps repository name -> loadable *.zoekt files in which it is alive.
func c35Alive(dir string) (map[string][]string, []string) {
	out := map[string][]string{}
	var broken []string
	files, _ := filepath.Glob(filepath.Join(dir, "*.zoekt"))
	sort.Strings(files)
	for _, f := range files {
		s, err := gen.Open(f) // a shard the real loader accepts
		if err != nil {
			broken = append(broken, filepath.Base(f)+": "+err.Error())
			continue
		}
		s.Close()
		repos, _, err := index.ReadMetadataPathAlive(f)
		if err != nil {
			broken = append(broken, filepath.Base(f)+": "+err.Error())
			continue
		}
		for _, r := range repos {
			out[r.Name] = append(out[r.Name], filepath.Base(f))
		}
	}
	return out, broken
}

// c35DocNames lists the document names a shard file serves.
func c35DocNames(path string) (map[string]bool, error) {
	s, err := gen.Open(path)
	if err != nil {
		return nil, err
	}
	defer s.Close()
	o := zoekt.SearchOptions{ShardMaxMatchCount: 1 << 30, TotalMaxMatchCount: 1 << 30}
	res, err := s.Search(context.Background(), &query.Const{Value: true}, &o)
	if err != nil {
		return nil, err
	}
	out := map[string]bool{}
	for _, f := range res.Files {
		out[f.FileName] = true
	}
	return out, nil
}

func c35Copy(src, dst string) {
	os.MkdirAll(dst, 0o755)
	if out, err := exec.Command("cp", "-a", src+"/.", dst).CombinedOutput(); err != nil {
		panic(fmt.Sprintf("cp: %v %s", err, out))
	}
}

func TestVerifC35(t *testing.T) {
	r := mc.NewReport("C35")
	root, clean := gen.Scratch("c35")
	defer clean()
	type scenario struct {
		name    string
		explode bool
		repos   []*ref.Repo
		tomb    int // explode: index of a tombstoned repository or -1
		// fresh: the tombstoned repository has since been re-indexed into its own simple shard, which
		// lies beside the compound shard (the situation tombstones exist for)
		fresh bool
	}
	c := gen.CompoundCorpus
	scens := []scenario{
		{"merge-1", false, c()[:1], -1, false},
		{"merge-2", false, c()[:2], -1, false},
		{"merge-3", false, c(), -1, false},
		{"explode-2", true, c()[:2], -1, false},
		{"explode-3", true, c(), -1, false},
		{"explode-3-tomb", true, c(), 1, false},
		{"explode-3-tomb-reindexed", true, c(), 1, true},
		{"explode-2-tomb-first-reindexed", true, c()[:2], 0, true},
	}
	states, transitions := 0, 0
	for _, sc := range scens {
		if !r.Want(sc.name) {
			continue
		}
		if r.Expired() {
			r.Incomplete("budget exhausted before %s", sc.name)
			break
		}
		tmpl := filepath.Join(root, "tmpl-"+sc.name)
		os.MkdirAll(tmpl, 0o755)
		var inputs []string // base names
		var wantRepos []string
		for i, rp := range sc.repos {
			if sc.explode && i == sc.tomb && !sc.fresh {
				continue
			}
			wantRepos = append(wantRepos, rp.Name)
		}
		sort.Strings(wantRepos)
		if sc.explode {
			p, err := gen.WriteCompound(tmpl, sc.repos...)
			if err != nil {
				t.Fatal(err)
			}
			if sc.tomb >= 0 {
				if err := index.SetTombstone(p, sc.repos[sc.tomb].ID); err != nil {
					t.Fatal(err)
				}
			}
			inputs = []string{filepath.Base(p)}
			if sc.fresh {
				// the re-indexed copy: same repository, one more document
				fr := *sc.repos[sc.tomb]
				fr.Docs = append(append([]*ref.Doc{}, fr.Docs...), &ref.Doc{Name: "added-after-reindex.txt", Content: []byte("fresh copy abc"), Branches: fr.Branches[:1], Language: "Text"})
				if _, err := gen.WriteSimple(tmpl, &fr); err != nil {
					t.Fatal(err)
				}
			}
		} else {
			for _, rp := range sc.repos {
				p, err := gen.WriteSimple(tmpl, rp)
				if err != nil {
					t.Fatal(err)
				}
				inputs = append(inputs, filepath.Base(p))
			}
		}
		run := func(dir string) (err error) {
			defer func() {
				if p := recover(); p != nil {
					err = fmt.Errorf("panic: %v", p)
				}
			}()
			if sc.explode {
				return explodeCmd(filepath.Join(dir, inputs[0]))
			}
			var paths []string
			for _, in := range inputs {
				paths = append(paths, filepath.Join(dir, in))
			}
			_, err = mergeCmd(paths)
			return err
		}
		// judge a directory; success = the command reported success
		judge := func(kind string, k int, dir string, success bool, sess *vos.Session) {
			transitions++
			alive, broken := c35Alive(dir)
			var perf []string
			if sess != nil {
				for _, m := range sess.Log {
					if m.Done && (m.Op == "rename" || m.Op == "remove") {
						p := m.Path
						if m.Op == "rename" {
							p = m.Path2
						}
						perf = append(perf, m.Op+":"+filepath.Base(p))
					}
				}
			}
			sig := strings.Join(perf, ",")
			for name, fs := range alive {
				if len(fs) > 1 {
					r.Violation(fmt.Sprintf("%s %s: repository %s alive in %d shards after [%s]", sc.name, kind, name, len(fs), sig),
						fmt.Sprintf("%s %s at %d: %s is alive in %v", sc.name, kind, k, name, fs), map[string]any{"case": sc.name})
				}
			}
			if len(broken) > 0 {
				r.Violation(fmt.Sprintf("%s %s: unloadable shard under a final name after [%s]", sc.name, kind, sig), fmt.Sprint(broken), map[string]any{"case": sc.name})
			}
			if sc.fresh {
				// the re-indexed copy must stay the one that is served: never replaced by the stale,
				// tombstoned copy from the compound shard
				name := sc.repos[sc.tomb].Name
				for _, f := range alive[name] {
					if docs, err := c35DocNames(filepath.Join(dir, f)); err == nil && !docs["added-after-reindex.txt"] {
						r.Violation(fmt.Sprintf("%s %s: the stale tombstoned copy of %s is served from %s after [%s]", sc.name, kind, name, c35Generic(f), sig),
							fmt.Sprintf("%s %s at %d: %s is alive in %s, which lacks the document added by the re-index (documents %v)", sc.name, kind, k, name, f, docs), map[string]any{"case": sc.name})
					}
				}
			}
			if !success {
				return
			}
			failed := ""
			if sess != nil && sess.Failed != nil {
				failed = fmt.Sprintf(" although %s of %s failed", sess.Failed.Op, c35Generic(filepath.Base(sess.Failed.Path)))
			}
			var got []string
			for name := range alive {
				got = append(got, name)
			}
			sort.Strings(got)
			ok := fmt.Sprint(got) == fmt.Sprint(wantRepos)
			var why []string
			if !ok {
				why = append(why, fmt.Sprintf("alive repositories %v, want %v", got, wantRepos))
			}
			for name, fs := range alive {
				for _, f := range fs {
					isCompound := strings.HasPrefix(f, "compound-")
					if sc.explode && isCompound {
						why = append(why, name+" still in compound shard "+f)
					}
					if !sc.explode && !isCompound {
						why = append(why, name+" still in simple shard "+f)
					}
				}
			}
			for _, in := range inputs {
				if _, err := os.Stat(filepath.Join(dir, in)); err == nil {
					why = append(why, "input shard "+in+" still present")
				}
			}
			if len(why) > 0 {
				sort.Strings(why)
				r.Violation(fmt.Sprintf("%s %s: success reported%s but %s", sc.name, kind, failed, c35Generic(why[0])),
					fmt.Sprintf("%s %s at %d: command returned success%s\n%s\nperformed: %s", sc.name, kind, k, failed, strings.Join(why, "\n"), sig), map[string]any{"case": sc.name})
			}
		}
		// reference run
		refDir := filepath.Join(root, "ref-"+sc.name)
		c35Copy(tmpl, refDir)
		s := vos.Begin(vos.Record, 0)
		err := run(refDir)
		total, opens := s.Mutations(), s.Opens()
		vos.End()
		if err != nil {
			r.Violation("TOOL: reference run failed "+sc.name, err.Error(), nil)
			continue
		}
		judge("uninterrupted", 0, refDir, true, s)
		os.RemoveAll(refDir)
		seenStates := map[string]bool{}
		for _, mode := range []vos.Mode{vos.Crash, vos.Fail, vos.FailOpenMode} {
			n := total
			if mode == vos.FailOpenMode {
				n = opens
			}
			reps := 1
			if mode == vos.Crash {
				reps = 4 // map-ordered loops (Explode's rename loop): rotations of <=3 entries
			}
			for k := 1; k <= n; k++ {
				for rep := 0; rep < reps; rep++ {
					dir := filepath.Join(root, fmt.Sprintf("run-%s-%d-%d-%d", sc.name, mode, k, rep))
					c35Copy(tmpl, dir)
					sess := vos.Begin(mode, k)
					err := run(dir)
					vos.End()
					r.Eval(1)
					kind := map[vos.Mode]string{vos.Crash: "crash", vos.Fail: "fail", vos.FailOpenMode: "failopen"}[mode]
					// a crashed process reports nothing; a process with one failed operation reports err
					success := mode != vos.Crash && err == nil
					judge(kind, k, dir, success, sess)
					var perf []string
					for _, m := range sess.Log {
						if m.Done {
							perf = append(perf, m.Op+c35Generic(filepath.Base(m.Path2)))
						}
					}
					sk := kind + fmt.Sprint(k) + strings.Join(perf, ",")
					if !seenStates[sk] {
						seenStates[sk] = true
						states++
					}
					os.RemoveAll(dir)
				}
			}
		}
		r.Nontrivial(sc.name)
		r.Sample(map[string]any{"scenario": sc.name, "mutations": total, "opens": opens, "inputs": inputs})
		os.RemoveAll(tmpl)
	}
	r.Add("states", states)
	r.Add("transitions", transitions)
	r.Add("traces_validated_against_impl", int(r.Evals()))
	r.Assume("kill model without fsync reordering; single-fault model for failing operations (each mutation, each open)")
	r.Finish("case = scenario (merge of 1-3 simple shards / explode of a 2-3 repository compound shard, one with a tombstoned repository) × {crash before every mutation, every single failing mutation, every single failing open}; oracle over the *.zoekt files the loader would load: no repository alive in two shards, no unloadable shard under a final name, success => compound with all inputs and inputs gone / every live repository in its own shard and compound gone")
}

// c35Generic removes random temp-file suffixes and hashes from names so that keys are stable.
func c35Generic(s string) string {
	parts := strings.Split(s, ".")
	for i, p := range parts {
		if len(p) >= 8 && strings.Trim(p, "0123456789") == "" {
			parts[i] = "N"
		}
	}
	return strings.Join(parts, ".")
}
