//go:build verif

package main

import (
	"fmt"
	"os"
	"os/exec"
	"path/filepath"
	"sort"
	"strings"
	"testing"

	"github.com/sourcegraph/zoekt"
	"github.com/sourcegraph/zoekt/index"
	"github.com/sourcegraph/zoekt/internal/verifshim/gen"
	"github.com/sourcegraph/zoekt/internal/verifshim/mc"
	"github.com/sourcegraph/zoekt/internal/verifshim/vos"
)

// C12, second part: metadata-only updates. The real mergeMeta (meta.go over the vos shim) is
// killed before every filesystem mutation and every single mutation is made to fail; afterwards
// the metadata of all shards of the repository is read with the real reader: every shard must
// show the old metadata or every shard the new one, and success => new.

func c12mOpts(dir, url string, shards int) index.Options {
	o := index.Options{IndexDir: dir, ShardMax: 10, Parallelism: 1, DisableCTags: true,
		RepositoryDescription: zoekt.Repository{Name: "repo/m", ID: 9, URL: url,
			Branches: []zoekt.RepositoryBranch{{Name: "HEAD", Version: "v1"}}}}
	o.SetDefaults()
	return o
}

func c12mObserve(dir string) (string, error) {
	files, _ := filepath.Glob(filepath.Join(dir, "*.zoekt"))
	sort.Strings(files)
	var us []string
	for _, f := range files {
		repos, _, err := index.ReadMetadataPath(f)
		if err != nil {
			return "", fmt.Errorf("%s: %w", filepath.Base(f), err)
		}
		for _, r := range repos {
			us = append(us, r.URL)
		}
	}
	return strings.Join(us, ","), nil
}

func TestVerifC12Meta(t *testing.T) {
	r := mc.NewReport("C12")
	root, clean := gen.Scratch("c12meta")
	defer clean()
	states, transitions := 0, 0
	for _, shards := range []int{1, 2, 3} {
		name := fmt.Sprintf("meta-update-%dshards", shards)
		if !r.Want(name) {
			continue
		}
		tmpl := filepath.Join(root, "tmpl-"+name)
		os.MkdirAll(tmpl, 0o755)
		b, err := index.NewBuilder(c12mOpts(tmpl, "https://old.example/m", shards))
		if err != nil {
			t.Fatal(err)
		}
		for i := 0; i < shards; i++ {
			if err := b.Add(index.Document{Name: fmt.Sprintf("f%d.txt", i), Content: []byte(fmt.Sprintf("content of file %d ....", i)), Branches: []string{"HEAD"}}); err != nil {
				t.Fatal(err)
			}
		}
		if err := b.Finish(); err != nil {
			t.Fatal(err)
		}
		oldObs, _ := c12mObserve(tmpl)
		run := func(dir string) (err error) {
			defer func() {
				if p := recover(); p != nil {
					err = fmt.Errorf("panic: %v", p)
				}
			}()
			o := c12mOpts(dir, "https://new.example/m", shards)
			return mergeMeta(&o)
		}
		cp := func(dst string) {
			os.MkdirAll(dst, 0o755)
			if out, err := exec.Command("cp", "-a", tmpl+"/.", dst).CombinedOutput(); err != nil {
				t.Fatalf("cp: %v %s", err, out)
			}
		}
		ref := filepath.Join(root, "ref-"+name)
		cp(ref)
		s := vos.Begin(vos.Record, 0)
		err = run(ref)
		total := s.Mutations()
		vos.End()
		if err != nil {
			r.Violation("TOOL: reference mergeMeta failed "+name, err.Error(), nil)
			continue
		}
		newObs, _ := c12mObserve(ref)
		if newObs == oldObs {
			r.Violation("TOOL: scenario vacuous "+name, oldObs, nil)
			continue
		}
		for _, mode := range []vos.Mode{vos.Crash, vos.Fail} {
			for k := 1; k <= total; k++ {
				reps := 1
				if mode == vos.Crash {
					reps = 2 * shards // rotations of the map-ordered rename loop
				}
				for rep := 0; rep < reps; rep++ {
					dir := filepath.Join(root, fmt.Sprintf("run-%s-%d-%d-%d", name, mode, k, rep))
					cp(dir)
					sess := vos.Begin(mode, k)
					err := run(dir)
					vos.End()
					r.Eval(1)
					transitions++
					states++
					obs, oerr := c12mObserve(dir)
					var perf []string
					for _, m := range sess.Log {
						if m.Done && m.Op == "rename" {
							perf = append(perf, "rename:"+filepath.Base(m.Path2))
						}
					}
					sort.Strings(perf)
					kind := map[vos.Mode]string{vos.Crash: "crash", vos.Fail: "fail"}[mode]
					if oerr != nil {
						r.Violation(fmt.Sprintf("%s %s: shard metadata unreadable", name, kind), oerr.Error(), map[string]any{"case": name})
					} else if obs != oldObs && obs != newObs {
						phase := " before the install phase"
						if len(perf) > 0 {
							phase = " in the install phase"
						}
						what := "mixture of intact old and new shards"
						if mode == vos.Fail {
							what = "mixture of old and new shard metadata after a failed operation"
							phase = ""
						}
						if mode == vos.Crash {
							r.Violation(fmt.Sprintf("%s crash%s: %s after [%s]", name, phase, what, strings.Join(perf, ",")),
								fmt.Sprintf("%s killed before mutation %d of %d: shards show %s (old %s, new %s)", name, k, total, obs, oldObs, newObs), map[string]any{"case": name})
						}
					}
					if mode == vos.Fail && err == nil && sess.Failed != nil && obs != newObs {
						r.Violation(fmt.Sprintf("%s fail: mergeMeta reported success although %s failed and the new metadata is not installed", name, sess.Failed.Op),
							fmt.Sprintf("%s: %v failed, mergeMeta returned nil, shards show %s", name, sess.Failed, obs), map[string]any{"case": name})
					}
					os.RemoveAll(dir)
				}
			}
		}
		r.Nontrivial(name)
		r.Sample(map[string]any{"scenario": name, "mutations": total})
	}
	r.Add("states", states)
	r.Add("transitions", transitions)
	r.Add("traces_validated_against_impl", int(r.Evals()))
	r.Finish("metadata-only update (indexserver mergeMeta) of a repository with 1, 2 or 3 shards: crash before every mutation, every single failing mutation; all shards must show the old or all the new metadata")
}
