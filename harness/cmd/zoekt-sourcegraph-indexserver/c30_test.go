//go:build verif

package main

import (
	"fmt"
	"os"
	"reflect"
	"runtime/debug"
	"sort"
	"strings"
	"testing"
	"time"

	sglog "github.com/sourcegraph/log"

	"github.com/sourcegraph/zoekt"
	"github.com/sourcegraph/zoekt/internal/verifshim/mc"
	"github.com/sourcegraph/zoekt/internal/verifshim/vtime"
)

// C30: breadth-first search over operation histories of the REAL indexing
// Queue (queue.go and backoff.go compiled with "time" re-pointed at vtime, so
// the explorer owns the clock). For every successor a fresh Queue is built
// and the whole operation list replayed; a list-based reference queue runs in
// lock step and must agree on every return value, on the tracked set and on
// the complete pop order (the discarded object is drained after every
// history). Deduplication is by a canonical projection of the real object
// taken in-package (plus the reference state).

// c30JudgeSameSizeSkip: MaybeRemoveMissing documents a heuristic: when
// len(ids)==len(tracked) it does nothing. With ids==tracked that is exactly
// right. With ids!=tracked it leaves repositories tracked that the caller
// said no longer exist, which the property read literally forbids; it is
// reported under the single key "C30 same-size-skip ..." and the reference
// then follows the implementation so that exploration continues behind it.
const c30JudgeSameSizeSkip = true

const (
	c30Unit    = time.Second
	c30Backoff = 2 * c30Unit
	c30Max     = 5 * c30Unit
)

var c30T0 = time.Unix(1_700_000_000, 0)

type c30Op struct {
	kind byte // 'A' AddOrUpdate, 'P' Pop, 'B' Bump, 'S' SetIndexed, 'R' MaybeRemoveMissing, 'T' advance clock
	id   uint32
	ver  int
	st   indexState
	ids  []uint32
	d    time.Duration
	name string
}

func c30MkOpts(id uint32, ver int) IndexOptions {
	return IndexOptions{
		RepoID:   id,
		Name:     fmt.Sprintf("repo%d", id),
		Branches: []zoekt.RepositoryBranch{{Name: "HEAD", Version: fmt.Sprintf("v%d", ver)}},
	}
}

var (
	c30OptTab  [5][3]IndexOptions
	c30NameTab [5][3]string
)

func init() {
	for id := uint32(0); id < 5; id++ {
		for v := 1; v <= 2; v++ {
			c30OptTab[id][v] = c30MkOpts(id, v)
			c30NameTab[id][v] = fmt.Sprintf("%d/v%d", id, v)
		}
	}
}

// c30Opts returns the IndexOptions value the harness uses for (id, version).
// The returned value shares its Branches slice with the table; the queue
// never mutates options.
func c30Opts(id uint32, ver int) IndexOptions { return c30OptTab[id][ver] }

// c30OptsName projects stored IndexOptions to a short string: "zero",
// "<RepoID>/v<k>" or "?<dump>" for anything else.
func c30OptsName(o IndexOptions) string {
	if o.RepoID < 5 && len(o.Branches) == 1 {
		v := 0
		switch o.Branches[0].Version {
		case "v1":
			v = 1
		case "v2":
			v = 2
		}
		if v != 0 && reflect.DeepEqual(o, c30OptTab[o.RepoID][v]) {
			return c30NameTab[o.RepoID][v]
		}
	}
	if reflect.DeepEqual(o, IndexOptions{}) {
		return "zero"
	}
	return fmt.Sprintf("?%+v", o)
}

func c30Alphabet(thorough bool) []c30Op {
	var ops []c30Op
	addIDs := []uint32{1, 2, 3}
	allIDs := []uint32{1, 2, 3, 4}
	for _, id := range addIDs {
		for v := 1; v <= 2; v++ {
			ops = append(ops, c30Op{kind: 'A', id: id, ver: v, name: fmt.Sprintf("Add(%d,v%d)", id, v)})
		}
	}
	ops = append(ops, c30Op{kind: 'P', name: "Pop"})
	var subsets [][]uint32
	for m := 0; m < 16; m++ {
		var s []uint32
		for i, id := range allIDs {
			if m&(1<<i) != 0 {
				s = append(s, id)
			}
		}
		subsets = append(subsets, s)
	}
	var bumps [][]uint32
	if thorough {
		bumps = append(bumps, subsets[1:]...)
		bumps = append(bumps, []uint32{2, 1}, []uint32{4, 3, 2, 1}, []uint32{3, 1})
	} else {
		bumps = [][]uint32{{1}, {2}, {3}, {4}, {1, 2}, {2, 1}, {3, 4}, {1, 2, 3, 4}, {4, 3, 2, 1}}
	}
	for _, s := range bumps {
		ops = append(ops, c30Op{kind: 'B', ids: s, name: "Bump(" + c30IDs(s) + ")"})
	}
	states := []indexState{indexStateSuccess, indexStateFail, indexStateNoop}
	for _, id := range allIDs {
		for v := 1; v <= 2; v++ {
			for _, st := range states {
				if !thorough && st == indexStateNoop && (id != 1 || v != 1) {
					// quick: noop takes the same branch as success in queue.go; one representative
					continue
				}
				ops = append(ops, c30Op{kind: 'S', id: id, ver: v, st: st, name: fmt.Sprintf("SetIndexed(%d,v%d,%s)", id, v, st)})
			}
		}
	}
	for _, s := range subsets {
		ops = append(ops, c30Op{kind: 'R', ids: s, name: "RemoveMissing(" + c30IDs(s) + ")"})
	}
	// the argument is a list: the same id may occur twice (the list then has as many entries as a
	// larger set of tracked repositories has members)
	for _, s := range [][]uint32{{1, 1}, {2, 2}, {1, 1, 2}, {3, 1, 3}} {
		ops = append(ops, c30Op{kind: 'R', ids: s, name: "RemoveMissing(" + c30IDs(s) + ")"})
	}
	for _, d := range []time.Duration{c30Unit, c30Backoff, c30Max} {
		ops = append(ops, c30Op{kind: 'T', d: d, name: fmt.Sprintf("Advance(%d)", d/c30Unit)})
	}
	return ops
}

func c30IDs(s []uint32) string {
	parts := make([]string, len(s))
	for i, x := range s {
		parts[i] = fmt.Sprint(x)
	}
	return strings.Join(parts, " ")
}

// ---- reference queue (plain list, linear scans) ----

type c30RefItem struct {
	id      uint32
	ver     int // 0 = options never supplied
	indexed bool
	failed  bool
	queued  bool
	seq     int
	fails   int
	until   time.Time // zero value: no backoff
	added   time.Time
}

type c30Ref struct {
	items []*c30RefItem
	seq   int
}

func (m *c30Ref) find(id uint32) *c30RefItem {
	for _, it := range m.items {
		if it.id == id {
			return it
		}
	}
	return nil
}

func (m *c30Ref) findOrAdd(id uint32) *c30RefItem {
	if it := m.find(id); it != nil {
		return it
	}
	it := &c30RefItem{id: id}
	m.items = append(m.items, it)
	return it
}

// enqueue decides whether a tracked, unqueued item enters the queue at time
// now. Strictly before the end of the backoff window: no. Strictly after:
// yes. Exactly at the end the property allows both, the reference follows
// what the implementation did (implQueued).
func (m *c30Ref) enqueue(it *c30RefItem, now time.Time, implQueued bool) {
	if it.queued {
		return
	}
	allow := true
	if !it.until.IsZero() {
		switch {
		case now.Before(it.until):
			allow = false
		case now.Equal(it.until):
			allow = implQueued
		}
	}
	if allow {
		m.seq++
		it.seq = m.seq
		it.queued = true
		it.added = now
	}
}

func (m *c30Ref) less(x, y *c30RefItem) bool {
	if x.indexed != y.indexed {
		return !x.indexed
	}
	if x.failed != y.failed {
		return !x.failed
	}
	return x.seq < y.seq
}

func (m *c30Ref) pop() *c30RefItem {
	var best *c30RefItem
	for _, it := range m.items {
		if it.queued && (best == nil || m.less(it, best)) {
			best = it
		}
	}
	if best != nil {
		best.queued = false
	}
	return best
}

func (m *c30Ref) tracked() []uint32 {
	var out []uint32
	for _, it := range m.items {
		out = append(out, it.id)
	}
	sort.Slice(out, func(i, j int) bool { return out[i] < out[j] })
	return out
}

func (m *c30Ref) queuedIDs() []uint32 {
	var out []uint32
	for _, it := range m.items {
		if it.queued {
			out = append(out, it.id)
		}
	}
	sort.Slice(out, func(i, j int) bool { return out[i] < out[j] })
	return out
}

func (m *c30Ref) canon(now time.Time) string {
	its := append([]*c30RefItem{}, m.items...)
	sort.Slice(its, func(i, j int) bool { return its[i].id < its[j].id })
	var q []*c30RefItem
	for _, it := range its {
		if it.queued {
			q = append(q, it)
		}
	}
	sort.Slice(q, func(i, j int) bool { return q[i].seq < q[j].seq })
	rank := map[uint32]int{}
	for i, it := range q {
		rank[it.id] = i + 1
	}
	var sb strings.Builder
	for _, it := range its {
		rem := int64(-1)
		if !it.until.IsZero() && !it.until.Before(now) {
			rem = int64(it.until.Sub(now) / c30Unit)
		}
		f := it.fails
		if time.Duration(f)*c30Backoff > c30Max {
			// beyond the cap every further failure waits c30Max: same future behaviour
			f = int(c30Max/c30Backoff) + 1
		}
		fmt.Fprintf(&sb, "%d:%d%v%v%d,%d,%d;", it.id, it.ver, it.indexed, it.failed, rank[it.id], f, rem)
	}
	return sb.String()
}

// ---- projection and invariants of the real object (in-package) ----

func c30RealTracked(q *Queue) []uint32 {
	var out []uint32
	for id := range q.items {
		out = append(out, id)
	}
	sort.Slice(out, func(i, j int) bool { return out[i] < out[j] })
	return out
}

func c30RealQueued(q *Queue) []uint32 {
	var out []uint32
	for _, it := range q.pq {
		out = append(out, it.repoID)
	}
	sort.Slice(out, func(i, j int) bool { return out[i] < out[j] })
	return out
}

func c30RealCanon(q *Queue, now time.Time) string {
	ids := c30RealTracked(q)
	onq := append([]*queueItem{}, q.pq...)
	sort.Slice(onq, func(i, j int) bool { return onq[i].seq < onq[j].seq })
	rank := map[*queueItem]int{}
	for i, it := range onq {
		rank[it] = i + 1
	}
	var sb strings.Builder
	for _, id := range ids {
		it := q.items[id]
		rem := int64(-1)
		if !it.backoff.backoffUntil.Before(now) {
			rem = int64(it.backoff.backoffUntil.Sub(now) / c30Unit)
		}
		fmt.Fprintf(&sb, "%d:%d,%s,%v,%s,%v,%d,%d,%d;", id, it.repoID, c30OptsName(it.opts), it.indexed, it.indexState,
			it.heapIdx >= 0, rank[it], it.backoff.consecutiveFailures, rem)
	}
	// members of the heap that are no longer tracked would be a defect; keep them visible
	for i, it := range q.pq {
		if q.items[it.repoID] != it {
			fmt.Fprintf(&sb, "orphan@%d=%d;", i, it.repoID)
		}
	}
	return sb.String()
}

// c30Invariants checks the heap bookkeeping the property's anchors name.
func c30Invariants(q *Queue) string {
	for i, it := range q.pq {
		if it.heapIdx != i {
			return fmt.Sprintf("heap slot %d holds repo %d with heapIdx=%d", i, it.repoID, it.heapIdx)
		}
		if q.items[it.repoID] != it {
			return fmt.Sprintf("heap slot %d holds repo %d which is not the tracked item for that id", i, it.repoID)
		}
	}
	for id, it := range q.items {
		if it.repoID != id {
			return fmt.Sprintf("items[%d] has repoID %d", id, it.repoID)
		}
		if it.heapIdx >= 0 {
			if it.heapIdx >= len(q.pq) || q.pq[it.heapIdx] != it {
				return fmt.Sprintf("repo %d has heapIdx=%d but is not at that heap slot", id, it.heapIdx)
			}
		} else if it.heapIdx != -1 {
			return fmt.Sprintf("repo %d is off the heap with heapIdx=%d (want -1)", id, it.heapIdx)
		}
	}
	return ""
}

// ---- one history ----

type c30Bad struct{ key, detail string }

type c30Result struct {
	bad        []c30Bad
	diverged   bool // reference and implementation disagree: do not expand
	key        string
	nontrivial string
	last       string // rendering of the last step's observable result
}

func c30Eq(a, b []uint32) bool {
	if len(a) != len(b) {
		return false
	}
	for i := range a {
		if a[i] != b[i] {
			return false
		}
	}
	return true
}

// c30Minus returns the distinct members of a that are not in b.
func c30Minus(a, b []uint32) []uint32 {
	out := []uint32{}
	for _, x := range a {
		if !c30Contains(b, x) && !c30Contains(out, x) {
			out = append(out, x)
		}
	}
	return out
}

func c30Contains(s []uint32, x uint32) bool {
	for _, y := range s {
		if x == y {
			return true
		}
	}
	return false
}

func c30Run(ops []c30Op, hist []int, drain, verbose bool) (res c30Result) {
	trace := func() string {
		names := make([]string, len(hist))
		for i, o := range hist {
			names[i] = ops[o].name
		}
		return strings.Join(names, "; ")
	}
	fail := func(key, format string, a ...any) {
		res.diverged = true
		res.bad = append(res.bad, c30Bad{key, fmt.Sprintf("history: %s\n", trace()) + fmt.Sprintf(format, a...)})
	}
	defer func() {
		if p := recover(); p != nil {
			fail("C30 panic "+trace(), "panic: %v", p)
		}
	}()
	now := c30T0
	vtime.SetVirtual(true, now)
	q := NewQueue(c30Backoff, c30Max, sglog.NoOp())
	m := &c30Ref{}
	onHeap := func(id uint32) bool {
		it := q.items[id]
		return it != nil && it.heapIdx >= 0
	}
	checkPop := func(where string, got QueueItem, ok bool) {
		want := m.pop()
		if want == nil {
			if ok {
				fail(fmt.Sprintf("C30 pop-from-empty got=%s", c30OptsName(got.Opts)), "%s: Pop returned %s although nothing is enqueued", where, c30OptsName(got.Opts))
			}
			return
		}
		if !ok {
			fail(fmt.Sprintf("C30 pop-lost want=repo%d", want.id), "%s: Pop returned ok=false, repo %d is enqueued", where, want.id)
			return
		}
		if got.Opts.RepoID != want.id {
			if it := m.find(got.Opts.RepoID); it != nil || want.ver != 0 {
				fail(fmt.Sprintf("C30 pop-order want=repo%d got=%s (%s)", want.id, c30OptsName(got.Opts), where),
					"%s: Pop yielded %s, the reference yields repo %d first (indexed=%v failed=%v seq=%d)", where, c30OptsName(got.Opts), want.id, want.indexed, want.failed, want.seq)
			} else {
				fail(fmt.Sprintf("C30 pop-identity want=repo%d got=%s", want.id, c30OptsName(got.Opts)),
					"%s: repo %d was enqueued (it is known to Bump) but Pop yielded options %s with RepoID %d", where, want.id, c30OptsName(got.Opts), got.Opts.RepoID)
			}
			return
		}
		if want.ver == 0 || c30OptsName(got.Opts) != c30NameTab[want.id][want.ver] {
			fail(fmt.Sprintf("C30 pop-options repo%d want=v%d got=%s", want.id, want.ver, c30OptsName(got.Opts)),
				"%s: Pop yielded options %s for repo %d, latest options are v%d", where, c30OptsName(got.Opts), want.id, want.ver)
			return
		}
		if !got.DateAddedToQueue.Equal(want.added) {
			fail(fmt.Sprintf("C30 pop-date repo%d", want.id), "%s: DateAddedToQueue=%v, enqueued at %v", where, got.DateAddedToQueue, want.added)
		}
	}
	for step, oi := range hist {
		op := ops[oi]
		lastStep := step == len(hist)-1
		obs := ""
		switch op.kind {
		case 'T':
			now = now.Add(op.d)
			vtime.Advance(op.d)
		case 'A':
			q.AddOrUpdate(c30Opts(op.id, op.ver))
			it := m.findOrAdd(op.id)
			if it.ver != op.ver {
				it.ver = op.ver
				it.indexed = false
			}
			m.enqueue(it, now, onHeap(op.id))
		case 'P':
			got, ok := q.Pop()
			if verbose {
				obs = fmt.Sprintf("-> %s %v", c30OptsName(got.Opts), ok)
			}
			checkPop("Pop", got, ok)
		case 'B':
			missing := q.Bump(op.ids)
			var want []uint32
			for _, id := range op.ids {
				it := m.find(id)
				if it == nil {
					want = append(want, id)
					continue
				}
				m.enqueue(it, now, onHeap(id))
			}
			if verbose {
				obs = fmt.Sprintf("-> missing=%v", missing)
			}
			if !c30Eq(missing, want) {
				fail(fmt.Sprintf("C30 bump-return ids=%v tracked=%v got=%v want=%v", op.ids, m.tracked(), missing, want),
					"Bump(%v) returned %v, unknown ids are %v", op.ids, missing, want)
			}
		case 'S':
			q.SetIndexed(c30Opts(op.id, op.ver), op.st)
			// mark-indexed for a repository the queue does not track is ignored: the queue never
			// holds an item it has no options for (it could only yield empty options)
			it := m.find(op.id)
			if it == nil {
				break
			}
			if op.st != indexStateFail {
				it.failed = false
				it.indexed = it.ver == op.ver
				it.fails = 0
				it.until = time.Time{}
			} else {
				it.failed = true
				it.fails++
				d := time.Duration(it.fails) * c30Backoff
				if d > c30Max {
					d = c30Max
				}
				it.until = now.Add(d)
				it.queued = false
			}
		case 'R':
			before := m.tracked()
			zero := map[uint32]uint32{}
			for id, it := range q.items {
				zero[id] = it.opts.RepoID
			}
			removed := q.MaybeRemoveMissing(op.ids)
			got := append([]uint32{}, removed...)
			sort.Slice(got, func(i, j int) bool { return got[i] < got[j] })
			if verbose {
				obs = fmt.Sprintf("-> removed=%v", got)
			}
			var wantRemoved []uint32
			for _, id := range before {
				if !c30Contains(op.ids, id) {
					wantRemoved = append(wantRemoved, id)
				}
			}
			sameSize := len(before) == len(op.ids)
			if sameSize && len(wantRemoved) > 0 && len(got) == 0 && c30Eq(c30RealTracked(q), before) {
				// documented heuristic skipped although something had to go
				if c30JudgeSameSizeSkip {
					res.bad = append(res.bad, c30Bad{"C30 same-size-skip: MaybeRemoveMissing(ids) with len(ids)==len(tracked) and ids!=tracked removes nothing",
						fmt.Sprintf("history: %s\nMaybeRemoveMissing(%v) on tracked=%v removed nothing, want removed=%v (documented heuristic)", trace(), op.ids, before, wantRemoved)})
				}
				// the reference follows the implementation
				break
			}
			var keep []*c30RefItem
			for _, it := range m.items {
				if c30Contains(op.ids, it.id) {
					keep = append(keep, it)
				}
			}
			m.items = keep
			// judge: tracked set, queued set, return value
			realTracked, realQueued := c30RealTracked(q), c30RealQueued(q)
			wantTracked, wantQueued := m.tracked(), m.queuedIDs()
			if !c30Eq(realTracked, wantTracked) || !c30Eq(realQueued, wantQueued) || !c30Eq(got, wantRemoved) {
				// name the first repository the implementation treated wrongly
				what, bid := "", uint32(0)
				for _, id := range before {
					in := c30Contains(op.ids, id)
					switch {
					case !in && c30Contains(realTracked, id):
						what = "not in ids but still tracked"
					case in && !c30Contains(realTracked, id):
						what = "in ids but no longer tracked"
					case in && c30Contains(wantQueued, id) && !c30Contains(realQueued, id):
						what = "in ids but taken off the queue"
					case !in && c30Contains(realQueued, id):
						what = "not in ids but still enqueued"
					}
					if what != "" {
						bid = id
						break
					}
				}
				key := fmt.Sprintf("C30 remove-missing item=%d stored-opts.RepoID=%d: %s", bid, zero[bid], what)
				if what == "" {
					key = fmt.Sprintf("C30 remove-missing return value: wrongly reported=%v not reported=%v", c30Minus(got, wantRemoved), c30Minus(wantRemoved, got))
				}
				fail(key,
					"MaybeRemoveMissing(%v) on tracked=%v: tracked after=%v want %v; enqueued after=%v want %v; returned removed=%v want %v",
					op.ids, before, realTracked, wantTracked, realQueued, wantQueued, got, wantRemoved)
			}
		}
		if res.diverged {
			return res
		}
		if !lastStep {
			// the prefix was judged when it was itself the end of a history
			continue
		}
		// state agreement at the end of the history
		if msg := c30Invariants(q); msg != "" {
			fail("C30 heap-bookkeeping "+msg, "after %s: %s", op.name, msg)
			return res
		}
		if rt, wt := c30RealTracked(q), m.tracked(); !c30Eq(rt, wt) {
			fail(fmt.Sprintf("C30 tracked-set after %c got=%v want=%v", op.kind, rt, wt), "after %s: tracked=%v want %v", op.name, rt, wt)
			return res
		}
		if rq, wq := c30RealQueued(q), m.queuedIDs(); !c30Eq(rq, wq) {
			fail(fmt.Sprintf("C30 enqueued-set after %c got=%v want=%v", op.kind, rq, wq), "after %s: enqueued=%v want %v (Len()=%d)", op.name, rq, wq, q.Len())
			return res
		}
		if q.Len() != len(m.queuedIDs()) {
			fail("C30 len", "after %s: Len()=%d want %d", op.name, q.Len(), len(m.queuedIDs()))
			return res
		}
		if verbose {
			res.last = op.name + " " + obs
		}
	}
	res.key = c30RealCanon(q, now) + "|" + m.canon(now)
	nq, inBackoff := len(q.pq), false
	for _, it := range m.items {
		if !it.until.IsZero() && !it.until.Before(now) {
			inBackoff = true
		}
	}
	if nq >= 2 || inBackoff {
		res.nontrivial = res.key
	}
	if drain {
		// the object is discarded after this history: drain it and compare the complete order
		var order []string
		for i := 0; i < 16; i++ {
			got, ok := q.Pop()
			if !ok && len(m.queuedIDs()) == 0 {
				break
			}
			if verbose {
				order = append(order, c30OptsName(got.Opts))
			}
			checkPop(fmt.Sprintf("drain probe pop #%d", i+1), got, ok)
			if res.diverged {
				return res
			}
		}
		if msg := c30Invariants(q); msg != "" {
			fail("C30 heap-bookkeeping "+msg, "after draining: %s", msg)
		}
		if verbose {
			res.last += " | drain " + strings.Join(order, ",")
		}
	}
	return res
}

func TestVerifC30(t *testing.T) {
	r := mc.NewReport("C30")
	defer debug.SetGCPercent(debug.SetGCPercent(800)) // one short-lived Queue per history
	ops := c30Alphabet(r.Thorough())
	depth := 6
	if r.Thorough() {
		depth = 7
	}
	byName := map[string]int{}
	for i, o := range ops {
		byName[o.name] = i
	}
	caseID := func(h []int) string {
		names := make([]string, len(h))
		for i, o := range h {
			names[i] = ops[o].name
		}
		return strings.Join(names, "; ")
	}
	report := func(h []int, res c30Result) {
		for _, b := range res.bad {
			r.Violation(b.key, b.detail, map[string]any{"case": caseID(h)})
		}
	}
	defer vtime.SetVirtual(false, time.Time{})

	// the check is meaningless unless queue.go and backoff.go read the explorer's clock
	{
		vtime.SetVirtual(true, c30T0)
		q := NewQueue(c30Backoff, c30Max, sglog.NoOp())
		q.AddOrUpdate(c30Opts(1, 1))
		q.SetIndexed(c30Opts(1, 1), indexStateFail)
		if it := q.items[1]; it == nil || !it.backoff.backoffUntil.Equal(c30T0.Add(c30Backoff)) {
			r.Violation("C30 TOOL: queue.go/backoff.go are not compiled against vtime",
				`rewrites.json must contain {"cmd/zoekt-sourcegraph-indexserver/queue.go": {"time": ["time","vtime"]}, "cmd/zoekt-sourcegraph-indexserver/backoff.go": {"time": ["time","vtime"]}}`, nil)
			r.Finish("not run: clock not virtual")
			return
		}
	}

	if r.Replaying() {
		var h []int
		for _, n := range strings.Split(os.Getenv("VERIF_REPLAY_CASE"), "; ") {
			if i, ok := byName[n]; ok {
				h = append(h, i)
			}
		}
		res := c30Run(ops, h, true, true)
		r.Eval(1)
		report(h, res)
		r.Finish("replay of one history")
		return
	}

	seen := map[string]bool{}
	states, transitions, traces := 0, 0, 0
	init := c30Run(ops, nil, true, false)
	traces++
	seen[init.key] = true
	states++
	frontier := [][]int{nil}
	maxDepth := 0
	perKind := map[byte]int{}
	for d := 1; d <= depth && len(frontier) > 0; d++ {
		var next [][]int
		cut := false
		for fi, h := range frontier {
			if fi%256 == 0 && r.Expired() {
				cut = true
				r.Incomplete("budget exhausted at depth %d after %d of %d frontier states", d, fi, len(frontier))
				break
			}
			for oi := range ops {
				nh := append(append(make([]int, 0, len(h)+1), h...), oi)
				res := c30Run(ops, nh, true, false)
				traces++
				transitions++
				r.Eval(1)
				perKind[ops[oi].kind]++
				if len(res.bad) > 0 {
					report(nh, res)
				}
				if res.diverged {
					continue
				}
				if res.nontrivial != "" {
					r.Nontrivial(res.nontrivial)
				}
				if !seen[res.key] {
					seen[res.key] = true
					states++
					maxDepth = d
					next = append(next, nh)
					if states%5000 == 17 {
						v := c30Run(ops, nh, true, true)
						traces++
						r.Sample(map[string]any{"history": caseID(nh), "last_step": v.last, "state": v.key})
					}
				}
			}
		}
		if cut {
			break
		}
		frontier = next
	}
	r.Set("states", states)
	r.Set("transitions", transitions)
	r.Set("traces_validated_against_impl", traces)
	r.Set("max_depth", maxDepth)
	r.Set("depth_bound", depth)
	r.Set("alphabet_size", len(ops))
	r.Set("unexpanded_frontier", len(frontier))
	r.Assume("the clock read by queue.go/backoff.go is vtime (import rewrite); backoff=2s max=5s, clock moved only by Advance(1s|2s|5s)")
	r.Assume("exactly at the end of a backoff window both enqueueing and refusing are accepted (Allow is strict, the property does not say)")
	r.Assume("single caller: the Queue mutex is not exercised (operations are atomic under q.mu)")
	r.Finish("BFS over operation lists (AddOrUpdate id 1-3 x 2 option versions, Pop, Bump of id lists over 1-4, SetIndexed id 1-4 x version x outcome, MaybeRemoveMissing of every subset of 1-4, clock advance) to the depth bound; every list is executed on a fresh real Queue with the reference in lock step and then drained; states deduplicated on the in-package projection; non-trivial = resulting state has >=2 enqueued repositories or a repository inside its backoff window")
}
