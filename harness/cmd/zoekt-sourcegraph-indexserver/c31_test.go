//go:build verif

package main

import (
	"fmt"
	"reflect"
	"sort"
	"strings"
	"testing"
	"unsafe"

	"github.com/sourcegraph/zoekt/internal/verifshim/mc"
)

// C31: the real indexMutex (index_mutex.go with "sync" re-pointed at vsync) is
// driven by 2-4 controlled threads; every interleaving at every lock operation
// and inside the critical sections is explored (state-key pruned, unbounded).

type c31op struct {
	kind string // "Wa", "Wb", "G"
}

type c31call struct {
	thread, idx int
	kind        string
	inCall      bool
	inF         bool
	ran         bool
	returned    bool
	ret         bool
	overlap     map[int]bool // ids of same-name calls in flight during this call
}

// c31RunningLen reads the size of indexMutex's bookkeeping of running repositories whatever its
// representation (map, sync.Map-like with Range); -1 if there is no such field. It is only a
// refinement of the state key and a white-box quiescence check; the behavioural checks do not need it.
func c31RunningLen(m *indexMutex) int {
	v := reflect.ValueOf(m).Elem().FieldByName("running")
	if !v.IsValid() {
		return -1
	}
	switch v.Kind() {
	case reflect.Map, reflect.Slice:
		return v.Len()
	}
	if !v.CanAddr() {
		return -1
	}
	if r, ok := reflect.NewAt(v.Type(), unsafe.Pointer(v.UnsafeAddr())).Interface().(interface{ Range(func(k, v any) bool) }); ok {
		n := 0
		r.Range(func(k, v any) bool { n++; return true })
		return n
	}
	return -1
}

func c31name(kind string) string { return strings.TrimPrefix(kind, "W") }

func c31Scenario(progs [][]string) *mc.SchedConfig {
	type world struct {
		m     *indexMutex
		calls []*c31call
	}
	var w *world
	cfg := &mc.SchedConfig{Name: fmt.Sprint(progs), Bound: -1, Horizon: 400}
	cfg.Setup = func(e *mc.Exec) {
		w = &world{m: &indexMutex{}}
		for ti, prog := range progs {
			var mine []*c31call
			for i, k := range prog {
				c := &c31call{thread: ti, idx: len(w.calls), kind: k, overlap: map[int]bool{}}
				_ = i
				w.calls = append(w.calls, c)
				mine = append(mine, c)
			}
			e.Go(fmt.Sprintf("t%d%v", ti, prog), func() {
				for _, c := range mine {
					c := c
					// call start: record overlaps
					c.inCall = true
					for _, o := range w.calls {
						if o != c && o.inCall && o.kind == c.kind && c.kind != "G" {
							o.overlap[c.idx] = true
							c.overlap[o.idx] = true
						}
					}
					f := func() {
						for _, o := range w.calls {
							if o == c || !o.inF {
								continue
							}
							if c.kind == "G" || o.kind == "G" {
								e.Fail("global section overlaps another section: %s(T%d) with %s(T%d)", c.kind, c.thread, o.kind, o.thread)
							} else if o.kind == c.kind {
								e.Fail("two sections for repository %q run at the same time (T%d, T%d)", c31name(c.kind), c.thread, o.thread)
							}
						}
						c.inF = true
						c.ran = true
						e.Point("critical-section", c.kind, nil)
						c.inF = false
					}
					if c.kind == "G" {
						w.m.Global(f)
						c.ret = true
					} else {
						c.ret = w.m.With(c31name(c.kind), f)
					}
					c.inCall = false
					c.returned = true
					if c.ret != c.ran {
						e.Fail("%s(T%d) returned %v but f ran=%v", c.kind, c.thread, c.ret, c.ran)
					}
				}
			})
		}
	}
	cfg.StateKey = func(e *mc.Exec) string {
		var sb strings.Builder
		for _, c := range w.calls {
			var ov []int
			for k := range c.overlap {
				ov = append(ov, k)
			}
			sort.Ints(ov)
			fmt.Fprintf(&sb, "%v%v%v%v%v%v;", c.inCall, c.inF, c.ran, c.returned, c.ret, ov)
		}
		fmt.Fprintf(&sb, "running=%d viol=%d", c31RunningLen(w.m), len(e.Violations()))
		return sb.String()
	}
	cfg.Check = func(e *mc.Exec) {
		for _, c := range w.calls {
			if !c.returned {
				e.Fail("%s(T%d) never returned", c.kind, c.thread)
				continue
			}
			if c.kind != "G" && !c.ret {
				ok := false
				for o := range c.overlap {
					if w.calls[o].ran {
						ok = true
					}
				}
				if !ok {
					e.Fail("With(%s) by T%d reported skipped although no operation for that repository ran during the call", c31name(c.kind), c.thread)
				}
			}
		}
		if n := c31RunningLen(w.m); n > 0 {
			e.Fail("running set not empty at quiescence: %d entries", n)
		}
		// the same, observed through the interface only: at quiescence every repository and the
		// global section can be entered again
		names := map[string]bool{}
		for _, c := range w.calls {
			if c.kind != "G" {
				names[c31name(c.kind)] = true
			}
		}
		for n := range names {
			ran := false
			if ok := w.m.With(n, func() { ran = true }); !ok || !ran {
				e.Fail("at quiescence With(%s) is still refused (returned %v, ran %v): a finished operation left the repository marked as running", n, ok, ran)
			}
		}
		gran := false
		w.m.Global(func() { gran = true })
		if !gran {
			e.Fail("at quiescence Global did not run its function")
		}
	}
	return cfg
}

func c31Multisets(items [][]string, k int) [][][]string {
	var out [][][]string
	var rec func(start int, cur [][]string)
	rec = func(start int, cur [][]string) {
		if len(cur) == k {
			out = append(out, append([][]string{}, cur...))
			return
		}
		for i := start; i < len(items); i++ {
			rec(i, append(cur, items[i]))
		}
	}
	rec(0, nil)
	return out
}

func TestVerifC31(t *testing.T) {
	r := mc.NewReport("C31")
	ops := []string{"Wa", "Wb", "G"}
	var p1, p2 [][]string
	for _, a := range ops {
		p1 = append(p1, []string{a})
		for _, b := range ops {
			p2 = append(p2, []string{a, b})
		}
	}
	p12 := append(append([][]string{}, p1...), p2...)
	var scen [][][]string
	scen = append(scen, c31Multisets(p1, 2)...)
	scen = append(scen, c31Multisets(p1, 3)...)
	scen = append(scen, c31Multisets(p12, 2)...)
	if r.Thorough() {
		scen = append(scen, c31Multisets(p1, 4)...)
		scen = append(scen, c31Multisets(p12, 3)...)
	} else {
		// three threads, one of them with a two-operation program
		for _, a := range p2 {
			for _, bc := range c31Multisets(p1, 2) {
				scen = append(scen, [][]string{a, bc[0], bc[1]})
			}
		}
	}
	outcomes := map[string]bool{}
	for _, progs := range scen {
		name := fmt.Sprint(progs)
		if !r.Want(name) {
			continue
		}
		if r.Expired() {
			r.Incomplete("budget exhausted before scenario %s", name)
			break
		}
		cfg := c31Scenario(progs)
		cfg.Stop = r.Expired
		cfg.OnExec = func(e *mc.Exec) {
			if len(outcomes) < 100000 {
				outcomes[name+"|"+strings.Join(tailOps(e.Trace), ">")] = true
			}
		}
		res := mc.Explore(cfg)
		r.SchedReport(name, res)
		r.Nontrivial(name)
		r.Sample(map[string]any{"scenario": name, "executions": res.Execs, "states": res.States, "max_points": res.MaxPoints})
	}
	r.Set("distinct_schedules_observed", len(outcomes))
	r.Set("bound", "unbounded preemptions, visited-state pruning")
	r.Assume("Go's sync.Mutex/RWMutex meet their documented contract (modelled by vsync, writer preference included)")
	r.Assume("scheduling points: every Lock/RLock/Unlock/RUnlock of index_mutex.go and one point inside each critical section")
	r.Finish("one case = one scenario (multiset of thread programs over {With(a),With(b),Global}); every interleaving of each is explored; evaluations = executions run")
}

func tailOps(tr []string) []string {
	var out []string
	for _, s := range tr {
		f := strings.Fields(s)
		if len(f) >= 3 && strings.HasPrefix(f[0], "T") {
			out = append(out, f[0]+f[2])
		}
	}
	return out
}
