//go:build verif

package main

import (
	"context"
	"crypto/sha1"
	"encoding/gob"
	"encoding/json"
	"fmt"
	"io"
	"os"
	"os/exec"
	"path/filepath"
	"runtime"
	"runtime/debug"
	"sort"
	"strconv"
	"strings"
	"sync"
	"sync/atomic"
	"testing"
	"time"

	"github.com/sourcegraph/zoekt"
	"github.com/sourcegraph/zoekt/index"
	"github.com/sourcegraph/zoekt/internal/verifshim/gen"
	"github.com/sourcegraph/zoekt/internal/verifshim/mc"
	"github.com/sourcegraph/zoekt/internal/verifshim/ref"
	"github.com/sourcegraph/zoekt/query"
)

// C32: explicit-state breadth-first search over histories of the REAL cleanup()
// of zoekt-sourcegraph-indexserver.
//
// Initial states: every index directory made of 3 repositories (ids 1..3), each
// independently in one of the per-repository layouts of c32Layouts, x shard
// merging on/off (compound layouts only with merging on). Shard files come from
// a library built once with the real builders (gen.BuildSimple, index.Merge) and
// are written into a fresh state directory with explicit mtimes.
// Transitions: advance the clock by dt in {0, 25h} (thorough: {0, 24h, 25h}; quick:
// no advance before the first cleanup), then cleanup(dir, assigned, now, merging)
// for every subset `assigned` of the three ids. Depth 2 (thorough 3); successors are deduplicated by a canonical
// projection of the directory (file names, content hashes, alive / tombstoned
// repositories per shard, trash ages relative to the clock).
// The directory is observed independently of cleanup.go's own getShards: by
// index.ReadMetadataPath over *.zoekt and by listing .trash; for every distinct
// state the metadata view is cross-checked with a real search over every shard.

var c32T0 = time.Unix(1_700_000_000, 0)

const (
	c32Absent = iota
	c32Simple
	c32TwoShards
	c32TrashFresh
	c32TrashOld
	c32IndexAndTrash
	c32CompoundLive
	c32CompoundTomb
	c32Renamed
	c32StrayTmp
	c32RenamedInCompound // alive in a compound shard under the old name and in a simple shard under the new one
	c32TrashFuture       // trash entry stamped 48h in the future (clock skew): documented as "reset to now", never as old
	// thorough only
	c32TombAndSimple
	c32TombAndTrash
	c32NumLayouts
)

var c32LayoutNames = [...]string{"absent", "simple", "2shards", "trash-fresh", "trash-25h", "index+trash", "compound-live",
	"compound-tomb", "renamed", "stray-tmp", "renamed-in-compound", "trash+48h-future", "compound-tomb+simple", "compound-tomb+trash"}

func c32NeedsCompound(l int) bool {
	switch l {
	case c32CompoundLive, c32CompoundTomb, c32TombAndSimple, c32TombAndTrash, c32RenamedInCompound:
		return true
	}
	return false
}

// ---- library ------------------------------------------------------------------------------

type c32Blob struct {
	Name string // file base name
	Data []byte
}

type c32Library struct {
	S0v2, S1v2, S1meta, S0v1, Renamed, Tmp [4]c32Blob // by repository id
	Compound                               [8]c32Blob // by bit mask of member ids (bit i-1 = id i)
}

func c32RepoName(id uint32) string { return fmt.Sprintf("r%d", id) }

func c32Repo(id uint32, name, tag string) *ref.Repo {
	return &ref.Repo{Name: name, ID: id, Branches: []string{"HEAD"},
		RawConfig: map[string]string{"public": "1"},
		Docs: []*ref.Doc{
			{Name: "f-" + tag + ".txt", Content: []byte("needle " + name + " " + tag + "\n"), Branches: []string{"HEAD"}, Language: "Text"},
			{Name: "g-" + tag + ".txt", Content: []byte("other " + tag + "\n"), Branches: []string{"HEAD"}, Language: "Text"},
		}}
}

func c32BuildLibrary(dir string) (*c32Library, error) {
	lib := &c32Library{}
	shardName := func(name string, n int) string {
		return fmt.Sprintf("%s_v%d.%05d.zoekt", name, index.IndexFormatVersion, n)
	}
	var mu sync.Mutex
	var firstErr error
	fail := func(err error) {
		mu.Lock()
		if firstErr == nil {
			firstErr = err
		}
		mu.Unlock()
	}
	// every shard builder allocates tens of megabytes: build the simple shards in parallel
	type task struct {
		dst       *c32Blob
		id        uint32
		name, tag string
		n         int
	}
	var inCompound [4]c32Blob
	var tasks []task
	for id := uint32(1); id <= 3; id++ {
		nm := c32RepoName(id)
		tasks = append(tasks,
			task{&lib.S0v2[id], id, nm, "v2s0", 0}, task{&lib.S1v2[id], id, nm, "v2s1", 1},
			task{&lib.S0v1[id], id, nm, "v1s0", 0}, task{&lib.Renamed[id], id, nm + "new", "v3s0", 0},
			task{&inCompound[id], id, nm, "v2c", 0})
	}
	mc.ParallelFor(len(tasks), func(i int) {
		t := tasks[i]
		data, err := gen.BuildSimple(c32Repo(t.id, t.name, t.tag))
		if err != nil {
			fail(err)
			return
		}
		*t.dst = c32Blob{shardName(t.name, t.n), data}
	})
	if firstErr != nil {
		return nil, firstErr
	}
	for id := uint32(1); id <= 3; id++ {
		// a sidecar for the second shard, written the way mergeMeta does for a simple shard
		p := filepath.Join(dir, lib.S1v2[id].Name)
		if err := os.WriteFile(p, lib.S1v2[id].Data, 0o644); err != nil {
			return nil, err
		}
		repos, _, err := index.ReadMetadataPath(p)
		if err != nil {
			return nil, err
		}
		repos[0].RawConfig["archived"] = "1"
		tmp, err := jsonMarshalTmpFile(repos[0], p+".meta")
		if err != nil {
			return nil, err
		}
		if err := os.Rename(tmp, p+".meta"); err != nil {
			return nil, err
		}
		meta, err := os.ReadFile(p + ".meta")
		if err != nil {
			return nil, err
		}
		lib.S1meta[id] = c32Blob{lib.S1v2[id].Name + ".meta", meta}
		lib.Tmp[id] = c32Blob{lib.S0v2[id].Name + fmt.Sprintf(".%d.tmp", 1000+id), lib.S0v1[id].Data}
	}
	mc.ParallelFor(7, func(i int) {
		mask := i + 1
		var files []index.IndexFile
		for id := uint32(1); id <= 3; id++ {
			if mask&(1<<(id-1)) != 0 {
				files = append(files, &gen.MemFile{Data: inCompound[id].Data, Nm: c32RepoName(id)})
			}
		}
		cdir := filepath.Join(dir, fmt.Sprintf("c%d", mask))
		tmpName, dstName, err := index.Merge(cdir, files...)
		if err != nil {
			fail(err)
			return
		}
		data, err := os.ReadFile(tmpName)
		if err != nil {
			fail(err)
			return
		}
		if !strings.HasPrefix(filepath.Base(dstName), "compound-") {
			fail(fmt.Errorf("unexpected compound shard name %s", dstName))
			return
		}
		lib.Compound[mask] = c32Blob{filepath.Base(dstName), data}
	})
	return lib, firstErr
}

// ---- states -------------------------------------------------------------------------------

type c32Step struct {
	mask int           // assigned ids (bit i-1 = id i)
	dt   time.Duration // clock advance before the cleanup
}

func (s c32Step) String() string { return fmt.Sprintf("%d@%s", s.mask, c32Dur(s.dt)) }

func c32Dur(d time.Duration) string { return strconv.Itoa(int(d/time.Hour)) + "h" }

type c32Node struct {
	layout  [3]int
	merging bool
	path    []c32Step
}

func (n c32Node) id() string {
	var ps []string
	for _, s := range n.path {
		ps = append(ps, s.String())
	}
	m := 0
	if n.merging {
		m = 1
	}
	return fmt.Sprintf("layout=%d.%d.%d merging=%d steps=%s", n.layout[0], n.layout[1], n.layout[2], m, strings.Join(ps, ","))
}

func (n c32Node) describe() string {
	return fmt.Sprintf("r1:%s r2:%s r3:%s merging=%v", c32LayoutNames[n.layout[0]], c32LayoutNames[n.layout[1]], c32LayoutNames[n.layout[2]], n.merging)
}

func c32ParseNode(s string) (c32Node, error) {
	var n c32Node
	var m int
	var steps string
	f := strings.Fields(s)
	if len(f) != 3 {
		return n, fmt.Errorf("bad case id %q", s)
	}
	if _, err := fmt.Sscanf(f[0], "layout=%d.%d.%d", &n.layout[0], &n.layout[1], &n.layout[2]); err != nil {
		return n, err
	}
	if _, err := fmt.Sscanf(f[1], "merging=%d", &m); err != nil {
		return n, err
	}
	n.merging = m == 1
	steps = strings.TrimPrefix(f[2], "steps=")
	for _, p := range strings.Split(steps, ",") {
		if p == "" {
			continue
		}
		var st c32Step
		var h int
		if _, err := fmt.Sscanf(p, "%d@%dh", &st.mask, &h); err != nil {
			return n, err
		}
		st.dt = time.Duration(h) * time.Hour
		n.path = append(n.path, st)
	}
	return n, nil
}

func c32IDs(mask int) []uint32 {
	ids := []uint32{}
	for id := uint32(1); id <= 3; id++ {
		if mask&(1<<(id-1)) != 0 {
			ids = append(ids, id)
		}
	}
	return ids
}

const (
	c32IndexAge = 30 * time.Hour // shards in the index are older than the trash retention
	c32FreshAge = 24 * time.Hour // exactly the retention time: not yet "older than 24 hours"
	c32OldAge   = 25 * time.Hour
)

func c32Put(dir string, b c32Blob, mtime time.Time) {
	p := filepath.Join(dir, b.Name)
	if err := os.WriteFile(p, b.Data, 0o644); err != nil {
		panic(err)
	}
	if err := os.Chtimes(p, mtime, mtime); err != nil {
		panic(err)
	}
}

// c32Materialise writes the initial directory of a layout. It returns the trash
// entry times (file name -> time the shard entered the trash).
func c32Materialise(lib *c32Library, dir string, layout [3]int) map[string]time.Time {
	trash := filepath.Join(dir, ".trash")
	if err := os.MkdirAll(trash, 0o755); err != nil {
		panic(err)
	}
	enter := map[string]time.Time{}
	idxT := c32T0.Add(-c32IndexAge)
	cmask := 0
	var tomb []uint32
	for i, l := range layout {
		id := uint32(i + 1)
		toTrash := func(b c32Blob, age time.Duration) {
			c32Put(trash, b, c32T0.Add(-age))
			enter[b.Name] = c32T0.Add(-age)
		}
		switch l {
		case c32Absent:
		case c32Simple:
			c32Put(dir, lib.S0v2[id], idxT)
		case c32TwoShards:
			c32Put(dir, lib.S0v2[id], idxT)
			c32Put(dir, lib.S1v2[id], idxT)
			c32Put(dir, lib.S1meta[id], idxT)
		case c32TrashFresh:
			toTrash(lib.S0v1[id], c32FreshAge)
		case c32TrashOld:
			toTrash(lib.S0v1[id], c32OldAge)
		case c32TrashFuture:
			toTrash(lib.S0v1[id], -48*time.Hour)
		case c32IndexAndTrash:
			c32Put(dir, lib.S0v2[id], idxT)
			toTrash(lib.S0v1[id], c32FreshAge)
		case c32CompoundLive:
			cmask |= 1 << (id - 1)
		case c32CompoundTomb:
			cmask |= 1 << (id - 1)
			tomb = append(tomb, id)
		case c32Renamed:
			c32Put(dir, lib.S0v2[id], idxT)
			c32Put(dir, lib.Renamed[id], idxT)
		case c32StrayTmp:
			c32Put(dir, lib.Tmp[id], idxT)
		case c32TombAndSimple:
			cmask |= 1 << (id - 1)
			tomb = append(tomb, id)
			c32Put(dir, lib.S0v2[id], idxT)
		case c32TombAndTrash:
			cmask |= 1 << (id - 1)
			tomb = append(tomb, id)
			toTrash(lib.S0v1[id], c32FreshAge)
		case c32RenamedInCompound:
			cmask |= 1 << (id - 1)
			c32Put(dir, lib.Renamed[id], idxT)
		default:
			panic("bad layout")
		}
	}
	if cmask != 0 {
		c32Put(dir, lib.Compound[cmask], idxT)
		p := filepath.Join(dir, lib.Compound[cmask].Name)
		for _, id := range tomb {
			if err := index.SetTombstone(p, id); err != nil {
				panic(err)
			}
		}
		os.Chtimes(p, idxT, idxT)
	}
	return enter
}

// ---- observation --------------------------------------------------------------------------

type c32RepoIn struct {
	id   uint32
	name string
	tomb bool
}

type c32File struct {
	name  string
	sum   string // hash of the .zoekt bytes
	meta  string // hash of the .meta sidecar, "" if none
	mtime time.Time
	repos []c32RepoIn
	bad   string // metadata unreadable
}

func (f *c32File) compound() bool { return strings.HasPrefix(f.name, "compound-") }

func (f *c32File) repo(id uint32) *c32RepoIn {
	for i := range f.repos {
		if f.repos[i].id == id {
			return &f.repos[i]
		}
	}
	return nil
}

type c32View struct {
	index map[string]*c32File
	trash map[string]*c32File
	other []string // every other directory entry (relative path)
}

func c32Hash(b []byte) string { return fmt.Sprintf("%x", sha1.Sum(b))[:10] }

func c32ObserveDir(dir, rel string, others *[]string) map[string]*c32File {
	out := map[string]*c32File{}
	ents, err := os.ReadDir(dir)
	if err != nil {
		return out
	}
	metas := map[string]bool{}
	for _, e := range ents {
		n := e.Name()
		if e.IsDir() {
			if !(rel == "" && n == ".trash") {
				*others = append(*others, rel+n+"/")
			}
			continue
		}
		if !strings.HasSuffix(n, ".zoekt") {
			if strings.HasSuffix(n, ".zoekt.meta") {
				metas[n] = true
				continue
			}
			*others = append(*others, rel+n)
			continue
		}
		p := filepath.Join(dir, n)
		f := &c32File{name: n}
		data, err := os.ReadFile(p)
		if err != nil {
			f.bad = err.Error()
		}
		f.sum = c32Hash(data)
		if st, err := os.Stat(p); err == nil {
			f.mtime = st.ModTime()
		}
		if m, err := os.ReadFile(p + ".meta"); err == nil {
			f.meta = c32Hash(m)
		}
		// metadata (with the .meta sidecar applied) through the real reader, over an in-memory
		// copy of the file: the property's notion of "searchable" is "alive in the metadata"
		repos, _, err := index.ReadMetadata(&gen.MemFile{Data: data, Nm: p})
		if err != nil {
			f.bad = err.Error()
		}
		for _, rp := range repos {
			f.repos = append(f.repos, c32RepoIn{rp.ID, rp.Name, rp.Tombstone})
		}
		out[n] = f
	}
	for m := range metas {
		if out[strings.TrimSuffix(m, ".meta")] == nil {
			*others = append(*others, rel+m+"(orphan)")
		}
	}
	return out
}

func c32Observe(dir string) *c32View {
	v := &c32View{}
	v.index = c32ObserveDir(dir, "", &v.other)
	v.trash = c32ObserveDir(filepath.Join(dir, ".trash"), ".trash/", &v.other)
	sort.Strings(v.other)
	return v
}

func c32SortedFiles(m map[string]*c32File) []*c32File {
	var out []*c32File
	for _, f := range m {
		out = append(out, f)
	}
	sort.Slice(out, func(i, j int) bool { return out[i].name < out[j].name })
	return out
}

// alive returns the index shards in which id is searchable, and the set of names it has there.
func (v *c32View) alive(id uint32) (files []*c32File, names map[string]bool) {
	names = map[string]bool{}
	for _, f := range c32SortedFiles(v.index) {
		if rp := f.repo(id); rp != nil && !rp.tomb {
			files = append(files, f)
			names[rp.name] = true
		}
	}
	return
}

func (v *c32View) tombstonedIn(id uint32) (files []*c32File) {
	for _, f := range c32SortedFiles(v.index) {
		if rp := f.repo(id); rp != nil && rp.tomb {
			files = append(files, f)
		}
	}
	return
}

func (v *c32View) trashed(id uint32) (files []*c32File) {
	for _, f := range c32SortedFiles(v.trash) {
		if rp := f.repo(id); rp != nil && !rp.tomb {
			files = append(files, f)
		}
	}
	return
}

func c32Names(fs []*c32File) string {
	var out []string
	for _, f := range fs {
		out = append(out, f.name+"#"+f.sum)
	}
	return "[" + strings.Join(out, " ") + "]"
}

// c32Kinds names shard files without their content hash ("compound" for compound shards).
func c32Kinds(fs []*c32File) string {
	var out []string
	for _, f := range fs {
		if f.compound() {
			out = append(out, "compound")
		} else {
			out = append(out, f.name)
		}
	}
	return "[" + strings.Join(out, " ") + "]"
}

// c32Age buckets an age: exact up to the retention time, one bucket beyond it (such entries
// are removed by the next cleanup whatever their exact age).
func c32Age(d time.Duration) string {
	if d > 24*time.Hour {
		return ">24h"
	}
	return d.String()
}

// key is the canonical projection used for deduplication; ages are relative to the clock.
func (v *c32View) key(merging bool, now time.Time, enter map[string]time.Time) string {
	var sb strings.Builder
	fmt.Fprintf(&sb, "merging=%v\n", merging)
	for _, f := range c32SortedFiles(v.index) {
		fmt.Fprintf(&sb, "I %s %s meta=%v %v %s\n", f.name, f.sum, f.meta != "" && !f.compound(), f.repos, f.bad)
	}
	for _, f := range c32SortedFiles(v.trash) {
		fmt.Fprintf(&sb, "T %s %s meta=%v %v mtime-age=%s entered=%s %s\n", f.name, f.sum, f.meta != "", f.repos, c32Age(now.Sub(f.mtime)), c32Age(now.Sub(enter[f.name])), f.bad)
	}
	for _, o := range v.other {
		fmt.Fprintf(&sb, "O %s\n", o)
	}
	return sb.String()
}

func (v *c32View) String() string {
	var sb strings.Builder
	for _, f := range c32SortedFiles(v.index) {
		fmt.Fprintf(&sb, "  index  %s #%s meta=%v repos(id name tombstoned)=%v %s\n", f.name, f.sum, f.meta != "", f.repos, f.bad)
	}
	for _, f := range c32SortedFiles(v.trash) {
		fmt.Fprintf(&sb, "  .trash %s #%s meta=%v repos=%v mtime=T0%+v %s\n", f.name, f.sum, f.meta != "", f.repos, f.mtime.Sub(c32T0), f.bad)
	}
	for _, o := range v.other {
		fmt.Fprintf(&sb, "  other  %s\n", o)
	}
	return sb.String()
}

// c32SearchCheck loads every index shard with the real loader and checks that exactly the
// repositories that are alive according to the metadata return their needle document.
func c32SearchCheck(dir string, v *c32View) error {
	for _, f := range c32SortedFiles(v.index) {
		s, err := gen.Open(filepath.Join(dir, f.name))
		want := map[string]bool{}
		for _, rp := range f.repos {
			if !rp.tomb {
				want[rp.name] = true
			}
		}
		if err != nil {
			if len(want) == 0 {
				continue // a shard without any live repository may refuse to load
			}
			return fmt.Errorf("%s does not load: %v", f.name, err)
		}
		res, err := s.Search(context.Background(), &query.Substring{Pattern: "needle", Content: true}, &zoekt.SearchOptions{})
		s.Close()
		if err != nil {
			return fmt.Errorf("%s: search: %v", f.name, err)
		}
		got := map[string]bool{}
		for _, fm := range res.Files {
			got[fm.Repository] = true
		}
		if fmt.Sprint(gen.SortedNames(got)) != fmt.Sprint(gen.SortedNames(want)) {
			return fmt.Errorf("%s: metadata says alive=%v, search returns repositories %v", f.name, gen.SortedNames(want), gen.SortedNames(got))
		}
	}
	return nil
}

// ---- directory snapshots ------------------------------------------------------------------

type c32SnapFile struct {
	rel   string
	data  []byte
	mtime time.Time
}

func c32Snapshot(dir string) []c32SnapFile {
	var out []c32SnapFile
	for _, sub := range []string{"", ".trash"} {
		ents, _ := os.ReadDir(filepath.Join(dir, sub))
		for _, e := range ents {
			if e.IsDir() {
				continue
			}
			rel := filepath.Join(sub, e.Name())
			data, err := os.ReadFile(filepath.Join(dir, rel))
			if err != nil {
				panic(err)
			}
			st, err := os.Stat(filepath.Join(dir, rel))
			if err != nil {
				panic(err)
			}
			out = append(out, c32SnapFile{rel, data, st.ModTime()})
		}
	}
	return out
}

func c32Restore(dir string, snap []c32SnapFile) {
	if err := os.MkdirAll(filepath.Join(dir, ".trash"), 0o755); err != nil {
		panic(err)
	}
	for _, f := range snap {
		p := filepath.Join(dir, f.rel)
		if err := os.WriteFile(p, f.data, 0o644); err != nil {
			panic(err)
		}
		if err := os.Chtimes(p, f.mtime, f.mtime); err != nil {
			panic(err)
		}
	}
}

// ---- oracle -------------------------------------------------------------------------------

type c32Finding struct {
	Clause, Situation, CaseID, Detail string
}

type c32Stats struct {
	restored, untombstoned, expiredAssigned, trashedRepos, tombstoned, deleted, inconsistent, preserved atomic.Int64
}

// c32Check judges one transition. It returns the trash entry times of the post state.
func c32Check(pre, post *c32View, mask int, merging bool, now time.Time, enter map[string]time.Time, st *c32Stats, report func(clause, situation, detail string)) map[string]time.Time {
	assigned := map[uint32]bool{}
	for _, id := range c32IDs(mask) {
		assigned[id] = true
	}
	norm := func(id uint32, s string) string { return strings.ReplaceAll(s, c32RepoName(id), "r#") }
	// a trash entry stamped in the future counts from this cleanup on ("reset to now")
	enter0 := enter
	enter = make(map[string]time.Time, len(enter0))
	for n, t := range enter0 {
		if t.After(now) {
			t = now
		}
		enter[n] = t
	}
	expired := func(fs []*c32File) bool {
		for _, f := range fs {
			if now.Sub(enter[f.name]) > 24*time.Hour {
				return true
			}
		}
		return false
	}
	for _, f := range c32SortedFiles(post.index) {
		if f.bad != "" {
			report("index shard unreadable after cleanup", f.name, f.bad)
		}
	}
	for id := uint32(1); id <= 3; id++ {
		idx, names := pre.alive(id)
		tr := pre.trashed(id)
		tombs := pre.tombstonedIn(id)
		consistent := len(names) <= 1
		pidx, _ := post.alive(id)
		situation := norm(id, fmt.Sprintf("assigned=%v merging=%v index=%s trash=%s(expired=%v) tombstoned-in=%d", assigned[id], merging, c32Kinds(idx), c32Kinds(tr), expired(tr), len(tombs)))
		detail := func(msg string) string {
			return fmt.Sprintf("repository id %d: %s\nbefore:\n%s\nafter cleanup(assigned=%v, now=T0+%s, merging=%v):\n%s", id, msg, pre.String(), c32IDs(mask), now.Sub(c32T0), merging, post.String())
		}
		if assigned[id] {
			switch {
			case len(idx) > 0 && consistent:
				// never deleted or trashed: still searchable with the same shard files
				ok := len(pidx) == len(idx)
				for i := 0; ok && i < len(idx); i++ {
					ok = pidx[i].name == idx[i].name && pidx[i].sum == idx[i].sum && (idx[i].compound() || pidx[i].meta == idx[i].meta)
				}
				if !ok {
					report("assigned repository lost or changed", situation, detail(fmt.Sprintf("was searchable in %s, now in %s", c32Names(idx), c32Names(pidx))))
				}
				st.preserved.Add(1)
			case len(idx) > 0:
				st.inconsistent.Add(1) // shards disagree on the name: exempt by the property
			case len(tr) > 0:
				if expired(tr) {
					st.expiredAssigned.Add(1) // deletion of an expired trash entry is permitted; restoring it too
					break
				}
				ok := len(pidx) == len(tr)
				for i := 0; ok && i < len(tr); i++ {
					ok = pidx[i].name == tr[i].name && pidx[i].sum == tr[i].sum && pidx[i].meta == tr[i].meta
					if g := post.trash[tr[i].name]; g != nil && g.sum == tr[i].sum {
						ok = false // must have moved, not been copied
					}
				}
				if !ok {
					report("assigned repository in the trash not restored", situation, detail(fmt.Sprintf("trash had %s, index now has %s", c32Names(tr), c32Names(pidx))))
				}
				st.restored.Add(1)
			case len(tombs) > 0:
				if len(pidx) > 0 {
					st.untombstoned.Add(1)
				}
			}
			continue
		}
		// unassigned: out of the searchable index ...
		if len(pidx) > 0 {
			report("unassigned repository still searchable", situation, detail(fmt.Sprintf("still alive in %s", c32Names(pidx))))
		}
		// ... by moving it to the trash or tombstoning it, not by deleting it
		if len(idx) > 0 && consistent {
			for _, f := range idx {
				if f.compound() {
					g := post.index[f.name]
					if g == nil || g.sum != f.sum || g.repo(id) == nil || !g.repo(id).tomb {
						report("unassigned repository in a compound shard not tombstoned", situation, detail("compound shard "+f.name+" must stay with the repository tombstoned"))
					}
					st.tombstoned.Add(1)
					continue
				}
				g := post.trash[f.name]
				if g == nil || g.sum != f.sum || g.meta != f.meta {
					report("unassigned repository deleted instead of trashed", situation, detail("shard "+f.name+"#"+f.sum+" is not in the trash"))
				}
			}
			st.trashedRepos.Add(1)
		} else if len(idx) > 0 {
			st.inconsistent.Add(1)
		}
	}
	// permanent deletion of trash entries
	newEnter := map[string]time.Time{}
	for _, f := range c32SortedFiles(pre.trash) {
		if g := post.trash[f.name]; g != nil && g.sum == f.sum {
			newEnter[f.name] = enter[f.name]
			continue
		}
		if g := post.index[f.name]; g != nil && g.sum == f.sum {
			continue // restored (judged above)
		}
		st.deleted.Add(1)
		allowed := false
		why := ""
		for _, rp := range f.repos {
			if idx, _ := pre.alive(rp.id); len(idx) > 0 {
				allowed = true
			}
			if expired(pre.trashed(rp.id)) {
				allowed = true
			}
			why += fmt.Sprintf(" repo %d: indexed copies=%d, in trash for %s;", rp.id, len(c32Idx0(pre, rp.id)), now.Sub(enter[f.name]))
		}
		if !allowed {
			sit := fmt.Sprintf("merging=%v trash entry age=%s conflicts=none", merging, now.Sub(enter[f.name]))
			report("trash entry deleted before 24h without conflict", sit, fmt.Sprintf("trash shard %s#%s permanently deleted:%s\nbefore:\n%s\nafter cleanup(assigned=%v, now=T0+%s, merging=%v):\n%s", f.name, f.sum, why, pre.String(), c32IDs(mask), now.Sub(c32T0), merging, post.String()))
		}
	}
	for _, g := range c32SortedFiles(post.trash) {
		if _, ok := newEnter[g.name]; !ok {
			newEnter[g.name] = now // entered the trash in this cleanup
		}
	}
	return newEnter
}

func c32Idx0(v *c32View, id uint32) []*c32File { f, _ := v.alive(id); return f }

// ---- driver -------------------------------------------------------------------------------

type c32CountWriter struct {
	n     atomic.Int64
	mu    sync.Mutex
	first []string
}

func (w *c32CountWriter) Write(p []byte) (int, error) {
	w.n.Add(1)
	w.mu.Lock()
	if len(w.first) < 5 {
		w.first = append(w.first, strings.TrimSpace(string(p)))
	}
	w.mu.Unlock()
	return len(p), nil
}

type c32Succ struct {
	Hash string // hash of the canonical state key
	Node string // history that reaches it
}

// c32Job is what a worker process gets; c32Result what it returns.
type c32Job struct {
	LibPath  string
	Root     string
	Nodes    []string
	Steps    []c32Step0
	Seen     []string // state hashes known before this level
	Deadline time.Time
}

type c32Step0 struct {
	Mask int
	DtH  int
}

type c32Result struct {
	Succ        []c32Succ
	Pre         []string // state hash of every expanded node
	Findings    []c32Finding
	Stats       map[string]int64
	Transitions int
	Changed     int
	Nontrivial  []string
	Samples     []map[string]any
	ErrLines    int
	ErrFirst    []string
	Cut         bool
	Expanded    int
}

func c32HashKey(k string) string { return fmt.Sprintf("%x", sha1.Sum([]byte(k)))[:20] }

func c32Less(a, b string) bool { return len(a) < len(b) || (len(a) == len(b) && a < b) }

// c32Build replays a history into a fresh directory; it returns the clock and trash entry times.
func c32Build(lib *c32Library, dir string, n c32Node) (now time.Time, enter map[string]time.Time) {
	enter = c32Materialise(lib, dir, n.layout)
	now = c32T0
	for _, s := range n.path {
		pre := c32Observe(dir)
		now = now.Add(s.dt)
		cleanup(dir, c32IDs(s.mask), now, n.merging)
		post := c32Observe(dir)
		enter = c32Check(pre, post, s.mask, n.merging, now, enter, &c32Stats{}, func(string, string, string) {})
	}
	return
}

// c32RunChunk expands every node of a chunk: all transitions out of it are executed on the
// real cleanup() and judged. Sequential on purpose (see TestVerifC32).
func c32RunChunk(lib *c32Library, root string, nodes []c32Node, steps []c32Step, seen map[string]bool, deadline time.Time, want func(string) bool) *c32Result {
	res := &c32Result{Stats: map[string]int64{}}
	errW := &c32CountWriter{}
	oldI, oldE := infoLog.Writer(), errorLog.Writer()
	infoLog.SetOutput(io.Discard)
	errorLog.SetOutput(errW)
	defer func() { infoLog.SetOutput(oldI); errorLog.SetOutput(oldE) }()

	stats := &c32Stats{}
	findings := map[string]*c32Finding{}
	checked := map[string]bool{}
	seq := 0
	for ni, n := range nodes {
		if !deadline.IsZero() && time.Now().After(deadline) {
			res.Cut = true
			break
		}
		seq++
		pdir := filepath.Join(root, fmt.Sprintf("p%d", seq))
		now0, enter0 := c32Build(lib, pdir, n)
		pre := c32Observe(pdir)
		preKey := pre.key(n.merging, now0, enter0)
		preHash := c32HashKey(preKey)
		res.Pre = append(res.Pre, preHash)
		if len(n.path) == 0 && !checked[preHash] {
			checked[preHash] = true
			if err := c32SearchCheck(pdir, pre); err != nil {
				findings["TOOL: initial state inconsistent"] = &c32Finding{"TOOL: initial state inconsistent", "", n.id(), err.Error() + "\n" + pre.String()}
			}
		}
		snap := c32Snapshot(pdir)
		os.RemoveAll(pdir)
		for si, s := range steps {
			if !deadline.IsZero() && time.Now().After(deadline) {
				res.Cut = true
				break
			}
			child := c32Node{n.layout, n.merging, append(append([]c32Step{}, n.path...), s)}
			caseID := child.id()
			if !want(caseID) {
				continue
			}
			seq++
			dir := filepath.Join(root, fmt.Sprintf("t%d", seq))
			c32Restore(dir, snap)
			now := now0.Add(s.dt)
			report := func(clause, situation, detail string) {
				k := clause + " [" + situation + "]"
				if f := findings[k]; f == nil || c32Less(caseID, f.CaseID) {
					findings[k] = &c32Finding{clause, situation, caseID, "initial directory: " + n.describe() + "; history: " + caseID + "\n" + detail}
				}
			}
			var post *c32View
			func() {
				defer func() {
					if p := recover(); p != nil {
						report("cleanup panicked", "", fmt.Sprintf("%v\n%s", p, debug.Stack()))
					}
				}()
				cleanup(dir, c32IDs(s.mask), now, n.merging)
				post = c32Observe(dir)
			}()
			res.Transitions++
			if post == nil {
				os.RemoveAll(dir)
				continue
			}
			enter := c32Check(pre, post, s.mask, n.merging, now, enter0, stats, report)
			key := post.key(n.merging, now, enter)
			h := c32HashKey(key)
			if key != pre.key(n.merging, now, enter0) { // compared at the same clock: the cleanup did something
				res.Changed++
				res.Nontrivial = append(res.Nontrivial, c32HashKey(preKey+"|"+s.String()))
			}
			if !seen[h] && !checked[h] {
				// first visit (by this worker): cross-check the metadata view against a real search
				checked[h] = true
				if err := c32SearchCheck(dir, post); err != nil {
					report("metadata view and search disagree", "", err.Error()+"\n"+post.String())
				}
			}
			res.Succ = append(res.Succ, c32Succ{h, caseID})
			if (ni*len(steps)+si)%499 == 0 && len(res.Samples) < 6 && key != preKey && len(post.index)+len(post.trash) > 1 {
				res.Samples = append(res.Samples, map[string]any{"initial_directory": n.describe(), "history": caseID,
					"before": strings.Split(strings.TrimRight(pre.String(), "\n"), "\n"), "after": strings.Split(strings.TrimRight(post.String(), "\n"), "\n")})
			}
			os.RemoveAll(dir)
		}
		res.Expanded++
	}
	for _, f := range findings {
		res.Findings = append(res.Findings, *f)
	}
	res.Stats = map[string]int64{
		"assigned_preserved": stats.preserved.Load(), "assigned_restored_from_trash": stats.restored.Load(),
		"assigned_untombstoned": stats.untombstoned.Load(), "assigned_but_trash_entry_expired": stats.expiredAssigned.Load(),
		"unassigned_trashed": stats.trashedRepos.Load(), "unassigned_tombstoned": stats.tombstoned.Load(),
		"trash_entries_deleted": stats.deleted.Load(), "name_conflict_exempt": stats.inconsistent.Load()}
	res.ErrLines = int(errW.n.Load())
	res.ErrFirst = errW.first
	return res
}

func c32LoadLib(p string) (*c32Library, error) {
	f, err := os.Open(p)
	if err != nil {
		return nil, err
	}
	defer f.Close()
	lib := &c32Library{}
	return lib, gob.NewDecoder(f).Decode(lib)
}

// TestVerifC32Child is the worker process of TestVerifC32 (one chunk of one BFS level).
func TestVerifC32Child(t *testing.T) {
	jp := os.Getenv("VERIF_C32_JOB")
	if jp == "" {
		t.Skip("worker of TestVerifC32")
	}
	var job c32Job
	b, err := os.ReadFile(jp)
	if err != nil {
		t.Fatal(err)
	}
	if err := json.Unmarshal(b, &job); err != nil {
		t.Fatal(err)
	}
	lib, err := c32LoadLib(job.LibPath)
	if err != nil {
		t.Fatal(err)
	}
	var nodes []c32Node
	for _, s := range job.Nodes {
		n, err := c32ParseNode(s)
		if err != nil {
			t.Fatal(err)
		}
		nodes = append(nodes, n)
	}
	var steps []c32Step
	for _, s := range job.Steps {
		steps = append(steps, c32Step{s.Mask, time.Duration(s.DtH) * time.Hour})
	}
	seen := map[string]bool{}
	for _, h := range job.Seen {
		seen[h] = true
	}
	if err := os.MkdirAll(job.Root, 0o755); err != nil {
		t.Fatal(err)
	}
	res := c32RunChunk(lib, job.Root, nodes, steps, seen, job.Deadline, func(string) bool { return true })
	out, err := json.Marshal(res)
	if err != nil {
		t.Fatal(err)
	}
	if err := os.WriteFile(jp+".out", out, 0o644); err != nil {
		t.Fatal(err)
	}
}

func TestVerifC32(t *testing.T) {
	r := mc.NewReport("C32")
	// the same budget rule as mc.NewReport, as an absolute deadline for the worker processes
	budget := 100.0
	if r.Thorough() {
		budget = 900
	}
	if b, err := strconv.ParseFloat(os.Getenv("VERIF_BUDGET_S"), 64); err == nil && b > 0 {
		budget = b
	}
	deadline := time.Now().Add(time.Duration(budget * float64(time.Second)))
	root, clean := gen.Scratch("c32")
	defer clean()

	libDir := filepath.Join(root, "lib")
	os.MkdirAll(libDir, 0o755)
	lib, err := c32BuildLibrary(libDir)
	if err != nil {
		r.Violation("TOOL: library construction failed", err.Error(), nil)
		r.Finish("library construction failed")
		t.Fatal(err)
	}
	libPath := filepath.Join(root, "library.gob")
	{
		f, err := os.Create(libPath)
		if err == nil {
			err = gob.NewEncoder(f).Encode(lib)
			f.Close()
		}
		if err != nil {
			t.Fatal(err)
		}
	}

	dts := []time.Duration{0, 25 * time.Hour}
	maxDepth := 2
	nLayouts := int(c32TombAndSimple)
	if r.Thorough() {
		dts = []time.Duration{0, 24 * time.Hour, 25 * time.Hour}
		maxDepth = 3
		nLayouts = int(c32NumLayouts)
	}
	if v, err := strconv.Atoi(os.Getenv("VERIF_C32_DEPTH")); err == nil && v > 0 {
		maxDepth = v
	}
	var steps []c32Step
	var steps0 []c32Step0
	for _, dt := range dts {
		for mask := 0; mask < 8; mask++ {
			steps = append(steps, c32Step{mask, dt})
			steps0 = append(steps0, c32Step0{mask, int(dt / time.Hour)})
		}
	}

	findings := map[string]*c32Finding{}
	total := &c32Result{Stats: map[string]int64{}}
	merge := func(res *c32Result) {
		for i := range res.Findings {
			f := res.Findings[i]
			k := f.Clause + " [" + f.Situation + "]"
			if old := findings[k]; old == nil || c32Less(f.CaseID, old.CaseID) {
				findings[k] = &f
			}
		}
		for k, v := range res.Stats {
			total.Stats[k] += v
		}
		total.Transitions += res.Transitions
		total.Changed += res.Changed
		total.ErrLines += res.ErrLines
		if len(total.ErrFirst) < 5 {
			total.ErrFirst = append(total.ErrFirst, res.ErrFirst...)
		}
		for _, h := range res.Nontrivial {
			r.Nontrivial(h)
		}
		r.Eval(res.Transitions)
	}

	if r.Replaying() {
		n, err := c32ParseNode(os.Getenv("VERIF_REPLAY_CASE"))
		if err != nil || len(n.path) == 0 {
			r.Violation("TOOL: cannot parse replay case", fmt.Sprint(err), nil)
		} else {
			last := n.path[len(n.path)-1]
			n.path = n.path[:len(n.path)-1]
			res := c32RunChunk(lib, root, []c32Node{n}, []c32Step{last}, map[string]bool{}, time.Time{}, func(string) bool { return true })
			merge(res)
			for _, s := range res.Samples {
				r.Sample(s)
			}
		}
	} else {
		var frontier []c32Node
		for _, merging := range []bool{false, true} {
			for a := 0; a < nLayouts; a++ {
				for b := 0; b < nLayouts; b++ {
					for c := 0; c < nLayouts; c++ {
						compound := c32NeedsCompound(a) || c32NeedsCompound(b) || c32NeedsCompound(c)
						if !merging && compound {
							continue // compound shards exist only when shard merging is enabled
						}
						if merging && !compound && !r.Thorough() {
							// quick: without a compound shard in the directory cleanup takes the same path
							// with merging on and off (maybeSetTombstone declines simple shards)
							continue
						}
						frontier = append(frontier, c32Node{layout: [3]int{a, b, c}, merging: merging})
					}
				}
			}
		}
		r.Set("initial_states", len(frontier))
		procs := runtime.NumCPU()
		if v, err := strconv.Atoi(os.Getenv("VERIF_PROCS")); err == nil && v > 0 {
			procs = v
		}
		seen := map[string]bool{}
		depthReached := 0
		for depth := 1; depth <= maxDepth && len(frontier) > 0; depth++ {
			if r.Expired() {
				r.Incomplete("budget exhausted before depth %d (%d frontier states)", depth, len(frontier))
				break
			}
			// The cleanup code maps every shard it looks at into memory; with many threads in one
			// address space mmap/munmap serialise, so each level is spread over worker PROCESSES.
			p := procs
			if p > len(frontier) {
				p = len(frontier)
			}
			var seenList []string
			for h := range seen {
				seenList = append(seenList, h)
			}
			sort.Strings(seenList)
			results := make([]*c32Result, p)
			errs := make([]error, p)
			var wg sync.WaitGroup
			for w := 0; w < p; w++ {
				job := c32Job{LibPath: libPath, Root: filepath.Join(root, fmt.Sprintf("w%d-%d", depth, w)), Steps: steps0, Seen: seenList, Deadline: deadline}
				if depth == 1 && !r.Thorough() {
					// quick: the first cleanup runs at the clock the directory was generated for (the
					// layouts already contain fresh and expired trash); later cleanups use every advance
					job.Steps = steps0[:8]
				}
				for i := w; i < len(frontier); i += p {
					job.Nodes = append(job.Nodes, frontier[i].id())
				}
				jp := filepath.Join(root, fmt.Sprintf("job-%d-%d.json", depth, w))
				b, _ := json.Marshal(job)
				if err := os.WriteFile(jp, b, 0o644); err != nil {
					t.Fatal(err)
				}
				wg.Add(1)
				go func(w int) {
					defer wg.Done()
					cmd := exec.Command(os.Args[0], "-test.run=^TestVerifC32Child$", "-test.timeout=0")
					cmd.Env = append(os.Environ(), "VERIF_C32_JOB="+jp, "GOMAXPROCS=2", "VERIF_OUT=")
					out, err := cmd.CombinedOutput()
					if err != nil {
						errs[w] = fmt.Errorf("worker %d: %v\n%s", w, err, out)
						return
					}
					b, err := os.ReadFile(jp + ".out")
					if err != nil {
						errs[w] = fmt.Errorf("worker %d wrote no result: %v\n%s", w, err, out)
						return
					}
					res := &c32Result{}
					if err := json.Unmarshal(b, res); err != nil {
						errs[w] = err
						return
					}
					results[w] = res
				}(w)
			}
			wg.Wait()
			cut := false
			levelNew := map[string]string{}
			for w := 0; w < p; w++ {
				if errs[w] != nil {
					r.Violation("TOOL: worker process failed", errs[w].Error(), nil)
					cut = true
					continue
				}
				res := results[w]
				merge(res)
				for _, s := range res.Samples {
					r.Sample(s)
				}
				cut = cut || res.Cut
				if depth == 1 {
					for _, h := range res.Pre {
						seen[h] = true
					}
				}
			}
			for w := 0; w < p; w++ {
				if results[w] == nil {
					continue
				}
				for _, s := range results[w].Succ {
					if seen[s.Hash] {
						continue
					}
					// one deterministic representative per new state: the shortest, then smallest, history
					if old, ok := levelNew[s.Hash]; !ok || c32Less(s.Node, old) {
						levelNew[s.Hash] = s.Node
					}
				}
			}
			if depth == 1 {
				r.Set("distinct_initial_states", len(seen))
			}
			var hs []string
			for h := range levelNew {
				hs = append(hs, h)
				seen[h] = true
			}
			sort.Strings(hs)
			if cut {
				r.Incomplete("budget exhausted at depth %d (%d frontier states)", depth, len(frontier))
				break
			}
			depthReached = depth
			frontier = frontier[:0]
			for _, h := range hs {
				n, err := c32ParseNode(levelNew[h])
				if err != nil {
					t.Fatal(err)
				}
				frontier = append(frontier, n)
			}
			r.Set(fmt.Sprintf("new_states_depth_%d", depth), len(frontier))
		}
		if len(frontier) > 0 && depthReached == maxDepth {
			r.Note("%d states first reached at depth %d are not expanded (depth bound)", len(frontier), maxDepth)
		}
		r.Set("states", len(seen))
		r.Set("max_depth", depthReached)
	}

	var fkeys []string
	for k := range findings {
		fkeys = append(fkeys, k)
	}
	sort.Strings(fkeys)
	for _, k := range fkeys {
		f := findings[k]
		r.Violation(fmt.Sprintf("C32 %s [%s] first case: %s", f.Clause, f.Situation, f.CaseID), f.Detail, map[string]any{"case": f.CaseID})
	}
	r.Set("transitions", total.Transitions)
	r.Set("traces_validated_against_impl", total.Transitions)
	r.Set("transitions_changing_the_directory", total.Changed)
	r.Set("oracle_hits", total.Stats)
	r.Set("error_log_lines", total.ErrLines)
	if total.ErrLines > 0 {
		r.Note("cleanup wrote %d error log lines, first: %v", total.ErrLines, total.ErrFirst)
	}
	bound := fmt.Sprintf("3 repositories x %d layouts, 8 assigned sets x clock advances %v per step, depth %d", nLayouts, dts, maxDepth)
	if !r.Thorough() {
		bound += "; first step without clock advance; shard merging on only for directories with a compound shard"
	}
	r.Set("bound", bound)
	r.Assume("cleanup depends on index shard mtimes only through the touch it performs when trashing; ages of trash entries beyond 24h are one bucket")
	r.Assume("a trash entry older than 24h may be deleted even if its repository is assigned (both outcomes accepted); trash retention is judged per repository")
	r.Assume("repositories whose index shards disagree on the name are exempt (they may be deleted whether assigned or not), as the property states")
	r.Finish("BFS: one case = one cleanup call (state, assigned subset, clock advance) on a real directory; states deduplicated by canonical directory projection; non-trivial = the cleanup changed the directory (distinct (state, step) pairs)")
}
