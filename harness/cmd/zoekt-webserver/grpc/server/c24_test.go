//go:build verif

package server_test

// C24 — wire conversion is lossless and the gRPC service is total.
//
// (a) Every query tree up to depth 2 (thorough: 3) over every exported node kind of
//     package query (the kinds are read from the package source, so a new kind without a
//     generator is a tool error), and every value of the option/result/listing structs
//     (each field from a 2-3 value domain, full product per struct) is converted with
//     ToProto/QToProto, marshalled to protobuf wire bytes, unmarshalled, and converted
//     back. The result must equal the original; nil and empty collections are not
//     distinguished, SearchOptions.SpanContext and SearchResult.RepoURLs/LineFragments
//     are not part of the wire messages (as in zoekt's own tests).
// (b) Every SearchRequest / StreamSearchRequest / ListRequest generated from the
//     protobuf descriptors with each message-typed field in {unset, empty, populated}
//     recursively to message depth 4 (thorough: 5), every oneof case and every enum
//     value (also an unknown number), is marshalled, unmarshalled and given to the real
//     Server.Search / StreamSearch / List over the production searcher stack
//     (web.NewTraceAwareSearcher(search.NewDirectorySearcher(dir))) with one real shard.
//     The handler must return a response or an error; it must not panic.

import (
	"context"
	"encoding/hex"
	"fmt"
	"go/ast"
	"go/parser"
	"go/token"
	"math"
	"os"
	"path/filepath"
	"reflect"
	"regexp/syntax"
	"runtime"
	"sort"
	"strings"
	"sync"
	"sync/atomic"
	"testing"
	"time"

	"github.com/RoaringBitmap/roaring/v2"
	"github.com/google/go-cmp/cmp"
	"github.com/google/go-cmp/cmp/cmpopts"
	"github.com/grafana/regexp"
	"google.golang.org/grpc/metadata"
	"google.golang.org/protobuf/encoding/prototext"
	"google.golang.org/protobuf/proto"
	"google.golang.org/protobuf/reflect/protoreflect"
	"google.golang.org/protobuf/reflect/protoregistry"

	"github.com/sourcegraph/zoekt"
	server "github.com/sourcegraph/zoekt/cmd/zoekt-webserver/grpc/server"
	webserverv1 "github.com/sourcegraph/zoekt/grpc/protos/zoekt/webserver/v1"
	"github.com/sourcegraph/zoekt/internal/verifshim/gen"
	"github.com/sourcegraph/zoekt/internal/verifshim/mc"
	"github.com/sourcegraph/zoekt/internal/verifshim/ref"
	"github.com/sourcegraph/zoekt/query"
	"github.com/sourcegraph/zoekt/search"
	"github.com/sourcegraph/zoekt/web"
)

// ---------------------------------------------------------------------------------
// shared helpers
// ---------------------------------------------------------------------------------

// c24Wire sends a message through the protobuf wire format.
func c24Wire[T proto.Message](m T) (T, error) {
	var zero T
	if !m.ProtoReflect().IsValid() { // nil message: the field is simply absent on the wire
		return m, nil
	}
	b, err := proto.Marshal(m)
	if err != nil {
		return zero, fmt.Errorf("marshal: %w", err)
	}
	n := m.ProtoReflect().New().Interface()
	if err := proto.Unmarshal(b, n); err != nil {
		return zero, fmt.Errorf("unmarshal: %w", err)
	}
	return n.(T), nil
}

func c24Stack() string {
	buf := make([]byte, 16<<10)
	return string(buf[:runtime.Stack(buf, false)])
}

// c24Site returns the innermost zoekt function (not harness code) on the panicking stack.
func c24Site() string {
	pcs := make([]uintptr, 64)
	n := runtime.Callers(3, pcs)
	fr := runtime.CallersFrames(pcs[:n])
	for {
		f, more := fr.Next()
		if strings.Contains(f.Function, "github.com/sourcegraph/zoekt") && !strings.Contains(f.File, "zz_verif_") &&
			!strings.Contains(f.Function, "verifshim") && !strings.Contains(f.Function, "c24") {
			return strings.TrimPrefix(f.Function, "github.com/sourcegraph/zoekt/")
		}
		if !more {
			return "?"
		}
	}
}

var c24Hex = regexp.MustCompile(`0x[0-9a-f]+|\b[0-9]+\b`)

func c24Norm(msg string) string {
	msg = c24Hex.ReplaceAllString(msg, "N")
	if len(msg) > 160 {
		msg = msg[:160]
	}
	return msg
}

// c24Groups collects failures by signature and reports the first case (in enumeration
// order) of each signature.
type c24Groups struct {
	mu sync.Mutex
	m  map[string]*c24Group
}

type c24Group struct {
	order  int64
	caseID string
	show   string
	detail string
	count  int
}

func (g *c24Groups) add(sig string, order int64, caseID, show, detail string) {
	g.addLazy(sig, order, caseID, func() (string, string) { return show, detail })
}

// addLazy computes show/detail only when the case becomes the representative of its group.
func (g *c24Groups) addLazy(sig string, order int64, caseID string, f func() (show, detail string)) {
	g.mu.Lock()
	e := g.m[sig]
	need := e == nil || order < e.order
	if g.m == nil {
		g.m = map[string]*c24Group{}
	}
	if e == nil {
		e = &c24Group{order: order, caseID: caseID}
		g.m[sig] = e
	}
	e.count++
	g.mu.Unlock()
	if !need {
		return
	}
	show, detail := f()
	g.mu.Lock()
	if e.show == "" || order <= e.order {
		e.order, e.caseID, e.show, e.detail = order, caseID, show, detail
	}
	g.mu.Unlock()
}

func (g *c24Groups) report(r *mc.Report) {
	g.mu.Lock()
	defer g.mu.Unlock()
	for sig, e := range g.m {
		r.Violation(sig+" input="+e.show, fmt.Sprintf("%s\n%s\n(%d enumerated cases fail with this signature; this is the first in enumeration order)", sig, e.detail, e.count),
			map[string]any{"case": e.caseID})
	}
}

var c24CmpOpts = []cmp.Option{
	cmpopts.EquateEmpty(),
	cmpopts.EquateNaNs(),
	cmpopts.IgnoreUnexported(zoekt.Repository{}),
	cmp.Comparer(func(a, b *roaring.Bitmap) bool {
		if a == nil || b == nil {
			return a == b
		}
		return a.Equals(b)
	}),
	cmp.Comparer(func(a, b *regexp.Regexp) bool {
		if a == nil || b == nil {
			return a == b
		}
		return a.String() == b.String()
	}),
	cmp.Comparer(func(a, b *syntax.Regexp) bool {
		if a == nil || b == nil {
			return a == b
		}
		return a.String() == b.String()
	}),
}

// c24FirstDiff returns the path of the first difference (types only, no indices/values).
type c24PathReporter struct {
	path  cmp.Path
	first string
}

func (p *c24PathReporter) PushStep(ps cmp.PathStep) { p.path = append(p.path, ps) }
func (p *c24PathReporter) PopStep()                 { p.path = p.path[:len(p.path)-1] }
func (p *c24PathReporter) Report(rs cmp.Result) {
	if !rs.Equal() && p.first == "" {
		var sb strings.Builder
		for _, s := range p.path {
			switch s := s.(type) {
			case cmp.StructField:
				sb.WriteString("." + s.Name())
			case cmp.SliceIndex:
				sb.WriteString("[]")
			case cmp.MapIndex:
				sb.WriteString("[key]")
			case cmp.TypeAssertion:
				sb.WriteString("(" + s.Type().String() + ")")
			case cmp.Indirect:
				sb.WriteString("*")
			}
		}
		p.first = sb.String()
	}
}

func c24Diff(a, b any) (equal bool, where string, diff func() string) {
	pr := &c24PathReporter{}
	if cmp.Equal(a, b, append(append([]cmp.Option(nil), c24CmpOpts...), cmp.Reporter(pr))...) {
		return true, "", nil
	}
	return false, pr.first, func() string { return cmp.Diff(a, b, c24CmpOpts...) }
}

// ---------------------------------------------------------------------------------
// (a1) queries
// ---------------------------------------------------------------------------------

const c24RegexpFlags = syntax.ClassNL | syntax.PerlX | syntax.UnicodeGroups // query.regexpFlags

func c24MustParse(p string) *syntax.Regexp {
	re, err := syntax.Parse(p, c24RegexpFlags)
	if err != nil {
		panic(err)
	}
	return re
}

// c24Kinds maps every exported query node kind to its atoms (leaf values) or marks it as
// a composite.
type c24Kind struct {
	atoms     func() []query.Q
	composite bool
}

func c24BigBitmap() *roaring.Bitmap {
	b := roaring.New()
	b.AddRange(100, 20000)
	b.Add(1 << 31)
	b.Add(math.MaxUint32)
	b.RunOptimize()
	return b
}

func c24KindTable() map[string]c24Kind {
	bools := []bool{false, true}
	return map[string]c24Kind{
		"RawConfig": {atoms: func() []query.Q {
			return []query.Q{query.RawConfig(0), query.RcOnlyPublic, query.RcOnlyPrivate | query.RcNoForks | query.RcOnlyArchived,
				query.RcOnlyPublic | query.RcOnlyPrivate | query.RcOnlyForks | query.RcNoForks | query.RcOnlyArchived | query.RcNoArchived}
		}},
		"Regexp": {atoms: func() []query.Q {
			var out []query.Q
			for _, p := range []string{"a", "(?i)foo.*bar", `\bx\b|[a-c]+$`} {
				for _, f := range bools {
					for _, c := range bools {
						for _, cs := range bools {
							out = append(out, &query.Regexp{Regexp: c24MustParse(p), FileName: f, Content: c, CaseSensitive: cs})
						}
					}
				}
			}
			return out
		}},
		"Language": {atoms: func() []query.Q {
			return []query.Q{&query.Language{}, &query.Language{Language: "go"}, &query.Language{Language: "C++ é"}}
		}},
		"Const": {atoms: func() []query.Q { return []query.Q{&query.Const{Value: false}, &query.Const{Value: true}} }},
		"Repo": {atoms: func() []query.Q {
			return []query.Q{&query.Repo{Regexp: regexp.MustCompile("")}, &query.Repo{Regexp: regexp.MustCompile(`github\.com/foo`)}, &query.Repo{Regexp: regexp.MustCompile(`(?i)a|b$`)}}
		}},
		"RepoRegexp": {atoms: func() []query.Q {
			return []query.Q{&query.RepoRegexp{Regexp: regexp.MustCompile("")}, &query.RepoRegexp{Regexp: regexp.MustCompile(`^github\.com/.*`)}}
		}},
		"BranchesRepos": {atoms: func() []query.Q {
			return []query.Q{
				&query.BranchesRepos{},
				query.NewSingleBranchesRepos("HEAD", 1, 2, 3),
				&query.BranchesRepos{List: []query.BranchRepos{{Branch: "", Repos: roaring.New()}, {Branch: "b é", Repos: c24BigBitmap()}}},
			}
		}},
		"RepoIDs": {atoms: func() []query.Q {
			return []query.Q{query.NewRepoIDs(), query.NewRepoIDs(1, 2, 3), &query.RepoIDs{Repos: c24BigBitmap()}}
		}},
		"RepoSet": {atoms: func() []query.Q {
			return []query.Q{&query.RepoSet{}, query.NewRepoSet("a"), &query.RepoSet{Set: map[string]bool{"a": true, "b é": false, "": true}}}
		}},
		"FileNameSet": {atoms: func() []query.Q {
			return []query.Q{&query.FileNameSet{}, query.NewFileNameSet("a"), query.NewFileNameSet("", "x/y.go", "é")}
		}},
		"Substring": {atoms: func() []query.Q {
			var out []query.Q
			for _, p := range []string{"", "a", "é\x00 b"} {
				for _, f := range bools {
					for _, c := range bools {
						for _, cs := range bools {
							out = append(out, &query.Substring{Pattern: p, FileName: f, Content: c, CaseSensitive: cs})
						}
					}
				}
			}
			return out
		}},
		"Branch": {atoms: func() []query.Q {
			return []query.Q{&query.Branch{}, &query.Branch{Pattern: "main", Exact: true}, &query.Branch{Pattern: "é"}, &query.Branch{Exact: true}}
		}},
		"Meta": {atoms: func() []query.Q {
			return []query.Q{&query.Meta{Field: "", Value: regexp.MustCompile("")}, &query.Meta{Field: "k é", Value: regexp.MustCompile(`v.*$`)}}
		}},
		"Symbol": {composite: true},
		"Type":   {composite: true},
		"Boost":  {composite: true},
		"And":    {composite: true},
		"Or":     {composite: true},
		"Not":    {composite: true},
	}
}

// c24SourceKinds lists the types of package query that implement Q (have a String()
// string method), read from the package source of the tree under test.
func c24SourceKinds() (exported, unexported []string, err error) {
	_, self, _, _ := runtime.Caller(0)
	dir := ""
	for _, cand := range []string{"../../../../query", filepath.Join(filepath.Dir(self), "../../../../query")} {
		if st, e := os.Stat(filepath.Join(cand, "query.go")); e == nil && !st.IsDir() {
			dir = cand
			break
		}
	}
	if dir == "" {
		return nil, nil, fmt.Errorf("package query source not found from %s", self)
	}
	fset := token.NewFileSet()
	pkgs, err := parser.ParseDir(fset, dir, func(fi os.FileInfo) bool {
		return !strings.HasSuffix(fi.Name(), "_test.go") && !strings.HasPrefix(fi.Name(), "zz_verif_")
	}, 0)
	if err != nil {
		return nil, nil, err
	}
	seen := map[string]bool{}
	for _, p := range pkgs {
		for _, f := range p.Files {
			for _, d := range f.Decls {
				fd, ok := d.(*ast.FuncDecl)
				if !ok || fd.Recv == nil || fd.Name.Name != "String" || len(fd.Recv.List) != 1 {
					continue
				}
				if fd.Type.Params.NumFields() != 0 || fd.Type.Results.NumFields() != 1 {
					continue
				}
				if id, ok := fd.Type.Results.List[0].Type.(*ast.Ident); !ok || id.Name != "string" {
					continue
				}
				t := fd.Recv.List[0].Type
				if st, ok := t.(*ast.StarExpr); ok {
					t = st.X
				}
				if id, ok := t.(*ast.Ident); ok {
					seen[id.Name] = true
				}
			}
		}
	}
	for n := range seen {
		if ast.IsExported(n) {
			exported = append(exported, n)
		} else {
			unexported = append(unexported, n)
		}
	}
	sort.Strings(exported)
	sort.Strings(unexported)
	return exported, unexported, nil
}

func c24Composites(children []query.Q, pairs bool) []query.Q {
	var out []query.Q
	for _, c := range children {
		out = append(out, &query.Symbol{Expr: c}, &query.Not{Child: c},
			&query.Type{Child: c, Type: query.TypeFileMatch}, &query.Type{Child: c, Type: query.TypeFileName}, &query.Type{Child: c, Type: query.TypeRepo},
			&query.Boost{Child: c, Boost: 0}, &query.Boost{Child: c, Boost: 2.5}, &query.Boost{Child: c, Boost: math.Inf(1)},
			&query.And{Children: []query.Q{c}}, &query.Or{Children: []query.Q{c}})
	}
	out = append(out, &query.And{}, &query.Or{}, &query.And{Children: []query.Q{}})
	if pairs {
		for _, a := range children {
			for _, b := range children {
				out = append(out, &query.And{Children: []query.Q{a, b}}, &query.Or{Children: []query.Q{a, b}})
			}
		}
	}
	return out
}

func c24QueryRoundTrips(r *mc.Report, groups *c24Groups) {
	exported, unexported, err := c24SourceKinds()
	if err != nil {
		r.Violation("TOOL: C24 cannot read package query: "+err.Error(), err.Error(), nil)
		return
	}
	table := c24KindTable()
	for _, k := range exported {
		if _, ok := table[k]; !ok {
			r.Violation("TOOL: C24 has no generator for query node kind "+k, "package query declares the exported node kind "+k+" (a type with a String() string method); add atoms for it to c24KindTable", nil)
		}
	}
	r.Note("query node kinds from source: exported %v, unexported (not constructible by API clients, excluded) %v", exported, unexported)
	var atoms []query.Q
	var kinds []string
	for k := range table {
		kinds = append(kinds, k)
	}
	sort.Strings(kinds)
	perKindRep := []query.Q{}
	for _, k := range kinds {
		if table[k].atoms != nil {
			as := table[k].atoms()
			atoms = append(atoms, as...)
			perKindRep = append(perKindRep, as[len(as)-1])
		}
	}
	level2 := c24Composites(atoms, true)
	all := append(append([]query.Q(nil), atoms...), level2...)
	if r.Thorough() {
		// depth 3: every unary composite over every depth-2 tree, pairs of (one representative
		// per composite kind at depth 2) x (one atom per kind)
		all = append(all, c24Composites(level2[:len(level2)-2*len(atoms)*len(atoms)], false)...)
		reps := c24Composites(perKindRep[:1], false)
		for _, a := range reps {
			for _, b := range perKindRep {
				all = append(all, &query.And{Children: []query.Q{a, b}}, &query.Or{Children: []query.Q{b, a}})
			}
		}
	} else {
		reps := c24Composites(perKindRep, false)
		all = append(all, c24Composites(reps, false)...)
	}
	r.Set("query_trees", len(all))
	mc.ParallelFor(len(all), func(i int) {
		q := all[i]
		caseID := fmt.Sprintf("q:%d", i)
		if !r.Want(caseID) {
			return
		}
		r.Eval(1)
		show := q.String()
		if len(show) > 200 {
			show = show[:200] + "…"
		}
		show = fmt.Sprintf("%T %s", q, show)
		var back query.Q
		var stage string
		func() {
			defer func() {
				if e := recover(); e != nil {
					groups.add(fmt.Sprintf("query %s panic: %s @%s", stage, c24Norm(fmt.Sprint(e)), c24Site()), int64(i), caseID, show,
						fmt.Sprintf("query %s\n%s panicked: %v\n%s", show, stage, e, c24Stack()))
					stage = "panicked"
				}
			}()
			stage = "QToProto"
			p := query.QToProto(q)
			stage = "wire"
			p2, err := c24Wire(p)
			if err != nil {
				groups.add("query wire error: "+c24Norm(err.Error()), int64(i), caseID, show, fmt.Sprintf("query %s: %v", show, err))
				stage = "panicked"
				return
			}
			stage = "QFromProto"
			back, err = query.QFromProto(p2)
			if err != nil {
				groups.add("query QFromProto error: "+c24Norm(err.Error()), int64(i), caseID, show, fmt.Sprintf("query %s: QFromProto(QToProto(q)) = %v", show, err))
				stage = "panicked"
			}
		}()
		if stage == "panicked" {
			return
		}
		if eq, where, diff := c24Diff(q, back); !eq {
			groups.add(fmt.Sprintf("query changed by round trip at %s", where), int64(i), caseID, show,
				fmt.Sprintf("query %s\nafter QFromProto(wire(QToProto(q))): %s\ndiff (-want +got):\n%s", show, back.String(), diff()))
		}
		if _, isAtom := q.(*query.Const); !isAtom {
			r.Nontrivial("q:" + show)
		}
		if i%997 == 5 {
			r.Sample(map[string]any{"query": show})
		}
	})
}

// ---------------------------------------------------------------------------------
// (a2) option / result / listing values
// ---------------------------------------------------------------------------------

var (
	c24TimeA = time.Date(9999, 12, 31, 23, 59, 59, 999999999, time.UTC)
	c24TimeB = time.Unix(1700000000, 123456789).In(time.FixedZone("x", 3600))
)

// c24Value builds the value number which (0 zero, 1 "A" extreme, 2 "B" ordinary) of type t.
func c24Value(t reflect.Type, which, depth int) reflect.Value {
	v := reflect.New(t).Elem()
	if which == 0 {
		return v
	}
	a := which == 1
	switch t {
	case reflect.TypeOf(time.Time{}):
		if a {
			v.Set(reflect.ValueOf(c24TimeA))
		} else {
			v.Set(reflect.ValueOf(c24TimeB))
		}
		return v
	case reflect.TypeOf(time.Duration(0)):
		if a {
			v.SetInt(math.MinInt64)
		} else {
			v.SetInt(int64(1500 * time.Millisecond))
		}
		return v
	case reflect.TypeOf(zoekt.FlushReason(0)):
		if a {
			v.SetUint(uint64(zoekt.FlushReasonMaxSize))
		} else {
			v.SetUint(uint64(zoekt.FlushReasonTimerExpired))
		}
		return v
	case reflect.TypeOf(zoekt.RepoListField(0)):
		v.SetInt(int64(zoekt.RepoListFieldReposMap))
		return v
	}
	switch t.Kind() {
	case reflect.Bool:
		v.SetBool(true)
	case reflect.Int, reflect.Int64:
		if a {
			v.SetInt(math.MinInt64)
		} else {
			v.SetInt(1)
		}
	case reflect.Uint8, reflect.Uint16, reflect.Uint32, reflect.Uint64:
		if a {
			v.SetUint(math.MaxUint64 >> (64 - t.Bits()))
		} else {
			v.SetUint(1)
		}
	case reflect.Float64:
		if a {
			v.SetFloat(math.Inf(-1))
		} else {
			v.SetFloat(1.5)
		}
	case reflect.String:
		if a {
			v.SetString("é\x00  z")
		} else {
			v.SetString("a")
		}
	case reflect.Slice:
		et := t.Elem()
		switch {
		case et.Kind() == reflect.Uint8:
			if a {
				v.SetBytes([]byte{0xff, 0x00, 0x80})
			} else {
				v.SetBytes([]byte("x"))
			}
		case et.Kind() == reflect.String:
			if a {
				v.Set(reflect.ValueOf([]string{"", "b é"}))
			} else {
				v.Set(reflect.ValueOf([]string{"a"}))
			}
		default:
			if depth <= 0 {
				return v
			}
			if a {
				first := c24Value(et, 0, depth-1)
				if et.Kind() == reflect.Pointer && et != reflect.TypeOf((*zoekt.Symbol)(nil)) {
					// nil elements are meaningful only for []*Symbol ("Any of its elements may be nil")
					first = reflect.New(et.Elem())
				}
				v.Set(reflect.Append(v, first, c24Value(et, 1, depth-1)))
			} else {
				v.Set(reflect.Append(v, c24Value(et, 2, depth-1)))
			}
		}
	case reflect.Map:
		if depth <= 0 {
			return v
		}
		m := reflect.MakeMap(t)
		kt, et := t.Key(), t.Elem()
		key := func(w int) reflect.Value {
			k := reflect.New(kt).Elem()
			if kt.Kind() == reflect.String {
				k.SetString([]string{"", "k é", "a"}[w])
			} else {
				k.SetUint([]uint64{0, math.MaxUint32, 7}[w])
			}
			return k
		}
		elem := func(w int) reflect.Value {
			e := c24Value(et, w, depth-1)
			if et.Kind() == reflect.Pointer && e.IsNil() {
				e = reflect.New(et.Elem())
			}
			return e
		}
		if a {
			m.SetMapIndex(key(0), elem(0))
			m.SetMapIndex(key(1), elem(1))
		} else {
			m.SetMapIndex(key(2), elem(2))
		}
		v.Set(m)
	case reflect.Struct:
		for i := 0; i < t.NumField(); i++ {
			f := t.Field(i)
			if !f.IsExported() || c24Excluded(t, f.Name) {
				continue
			}
			v.Field(i).Set(c24Value(f.Type, which, depth-1))
		}
	case reflect.Pointer:
		if depth <= 0 {
			return v
		}
		p := reflect.New(t.Elem())
		p.Elem().Set(c24Value(t.Elem(), which, depth-1))
		v.Set(p)
	}
	return v
}

func c24Excluded(t reflect.Type, field string) bool {
	switch t.Name() + "." + field {
	case "SearchOptions.SpanContext", "SearchResult.RepoURLs", "SearchResult.LineFragments":
		return true
	}
	return false
}

// c24Domain returns the values of one field.
func c24Domain(st reflect.Type, f reflect.StructField, sets []int, fullEnums bool) []reflect.Value {
	switch f.Type {
	case reflect.TypeOf(zoekt.FlushReason(0)):
		var out []reflect.Value
		if !fullEnums && len(sets) == 2 {
			// quick tier, two-valued pass of a large struct: zero and one declared reason per pass
			return []reflect.Value{reflect.ValueOf(zoekt.FlushReason(0)), c24Value(f.Type, sets[1], 0)}
		}
		for _, x := range []zoekt.FlushReason{0, zoekt.FlushReasonTimerExpired, zoekt.FlushReasonFinalFlush, zoekt.FlushReasonMaxSize} {
			out = append(out, reflect.ValueOf(x))
		}
		return out
	case reflect.TypeOf(zoekt.RepoListField(0)):
		return []reflect.Value{reflect.ValueOf(zoekt.RepoListFieldRepos), reflect.ValueOf(zoekt.RepoListField(zoekt.RepoListFieldReposMap))}
	}
	if f.Type.Kind() == reflect.Bool {
		return []reflect.Value{reflect.ValueOf(false), reflect.ValueOf(true)}
	}
	var out []reflect.Value
	for _, w := range sets {
		v := c24Value(f.Type, w, 3)
		if w == 1 && st.Name() == "FileMatch" && f.Name == "FileName" {
			v = reflect.ValueOf("\xff\xfe/not-utf8") // bytes on the wire
		}
		out = append(out, v)
	}
	if f.Type.Kind() == reflect.Float64 && len(sets) == 3 {
		out = append(out, reflect.ValueOf(math.Inf(1)), reflect.ValueOf(math.NaN()))
	}
	return out
}

type c24Struct struct {
	name string
	typ  reflect.Type
	// rt converts a pointer to the struct to the wire and back and returns the result as
	// the same kind of value that was passed in (struct value).
	rt func(v reflect.Value) (any, error)
}

func c24Structs() []c24Struct {
	mk := func(sample any, rt func(v reflect.Value) (any, error)) c24Struct {
		t := reflect.TypeOf(sample)
		return c24Struct{name: t.Name(), typ: t, rt: rt}
	}
	return []c24Struct{
		mk(zoekt.Location{}, func(v reflect.Value) (any, error) {
			x := v.Interface().(zoekt.Location)
			p, err := c24Wire(x.ToProto())
			return zoekt.LocationFromProto(p), err
		}),
		mk(zoekt.Range{}, func(v reflect.Value) (any, error) {
			x := v.Interface().(zoekt.Range)
			p, err := c24Wire(x.ToProto())
			return zoekt.RangeFromProto(p), err
		}),
		mk(zoekt.Symbol{}, func(v reflect.Value) (any, error) {
			x := v.Interface().(zoekt.Symbol)
			p, err := c24Wire(x.ToProto())
			return *zoekt.SymbolFromProto(p), err
		}),
		mk(zoekt.LineFragmentMatch{}, func(v reflect.Value) (any, error) {
			x := v.Interface().(zoekt.LineFragmentMatch)
			p, err := c24Wire(x.ToProto())
			return zoekt.LineFragmentMatchFromProto(p), err
		}),
		mk(zoekt.LineMatch{}, func(v reflect.Value) (any, error) {
			x := v.Interface().(zoekt.LineMatch)
			p, err := c24Wire(x.ToProto())
			return zoekt.LineMatchFromProto(p), err
		}),
		mk(zoekt.ChunkMatch{}, func(v reflect.Value) (any, error) {
			x := v.Interface().(zoekt.ChunkMatch)
			p, err := c24Wire(x.ToProto())
			return zoekt.ChunkMatchFromProto(p), err
		}),
		mk(zoekt.FileMatch{}, func(v reflect.Value) (any, error) {
			x := v.Interface().(zoekt.FileMatch)
			p, err := c24Wire(x.ToProto())
			return zoekt.FileMatchFromProto(p), err
		}),
		mk(zoekt.Progress{}, func(v reflect.Value) (any, error) {
			x := v.Interface().(zoekt.Progress)
			p, err := c24Wire(x.ToProto())
			return zoekt.ProgressFromProto(p), err
		}),
		mk(zoekt.Stats{}, func(v reflect.Value) (any, error) {
			x := v.Interface().(zoekt.Stats)
			p, err := c24Wire(x.ToProto())
			return zoekt.StatsFromProto(p), err
		}),
		mk(zoekt.SearchResult{}, func(v reflect.Value) (any, error) {
			x := v.Interface().(zoekt.SearchResult)
			p, err := c24Wire(x.ToStreamProto())
			if err != nil {
				return nil, err
			}
			return *zoekt.SearchResultFromStreamProto(p, x.RepoURLs, x.LineFragments), nil
		}),
		mk(zoekt.SearchOptions{}, func(v reflect.Value) (any, error) {
			x := v.Interface().(zoekt.SearchOptions)
			p, err := c24Wire(x.ToProto())
			return *zoekt.SearchOptionsFromProto(p), err
		}),
		mk(zoekt.ListOptions{}, func(v reflect.Value) (any, error) {
			x := v.Interface().(zoekt.ListOptions)
			p, err := c24Wire(x.ToProto())
			return *zoekt.ListOptionsFromProto(p), err
		}),
		mk(zoekt.RepositoryBranch{}, func(v reflect.Value) (any, error) {
			x := v.Interface().(zoekt.RepositoryBranch)
			p, err := c24Wire(x.ToProto())
			return zoekt.RepositoryBranchFromProto(p), err
		}),
		mk(zoekt.Repository{}, func(v reflect.Value) (any, error) {
			x := v.Interface().(zoekt.Repository)
			p, err := c24Wire(x.ToProto())
			return zoekt.RepositoryFromProto(p), err
		}),
		mk(zoekt.IndexMetadata{}, func(v reflect.Value) (any, error) {
			x := v.Interface().(zoekt.IndexMetadata)
			p, err := c24Wire(x.ToProto())
			return zoekt.IndexMetadataFromProto(p), err
		}),
		mk(zoekt.RepoStats{}, func(v reflect.Value) (any, error) {
			x := v.Interface().(zoekt.RepoStats)
			p, err := c24Wire(x.ToProto())
			return zoekt.RepoStatsFromProto(p), err
		}),
		mk(zoekt.RepoListEntry{}, func(v reflect.Value) (any, error) {
			x := v.Interface().(zoekt.RepoListEntry)
			p, err := c24Wire(x.ToProto())
			return *zoekt.RepoListEntryFromProto(p), err
		}),
		mk(zoekt.MinimalRepoListEntry{}, func(v reflect.Value) (any, error) {
			x := v.Interface().(zoekt.MinimalRepoListEntry)
			p, err := c24Wire(x.ToProto())
			return zoekt.MinimalRepoListEntryFromProto(p), err
		}),
		mk(zoekt.RepoList{}, func(v reflect.Value) (any, error) {
			x := v.Interface().(zoekt.RepoList)
			p, err := c24Wire(x.ToProto())
			return *zoekt.RepoListFromProto(p), err
		}),
	}
}

func c24ValueRoundTrips(r *mc.Report, groups *c24Groups) {
	budget := int64(600000)
	if r.Thorough() {
		budget = 6000000
	}
	var base int64 = 1 << 32
	var timing []string
	defer func() { r.Note("struct values per struct/pass: %s", strings.Join(timing, ", ")) }()
	for si, s := range c24Structs() {
		var fields []int
		for i := 0; i < s.typ.NumField(); i++ {
			if f := s.typ.Field(i); f.IsExported() && !c24Excluded(s.typ, f.Name) {
				fields = append(fields, i)
			}
		}
		// choose the domains: three values per field if the full product fits, else two passes
		// with two values per field ({zero, extreme} and {zero, ordinary})
		passes := [][]int{{0, 1, 2}}
		size := func(sets []int) int64 {
			n := int64(1)
			for _, fi := range fields {
				n *= int64(len(c24Domain(s.typ, s.typ.Field(fi), sets, r.Thorough())))
				if n > 1<<40 {
					return n
				}
			}
			return n
		}
		if size(passes[0]) > budget {
			passes = [][]int{{0, 1}, {0, 2}}
		}
		for pi, sets := range passes {
			doms := make([][]reflect.Value, len(fields))
			for k, fi := range fields {
				doms[k] = c24Domain(s.typ, s.typ.Field(fi), sets, r.Thorough())
			}
			n := size(sets)
			if n > budget*4 {
				r.Incomplete("struct %s: product of %d values exceeds the cap, not enumerated", s.name, n)
				continue
			}
			r.Add("struct_values", int(n))
			tp := time.Now()
			passBase := base*int64(si*4+pi) + 0
			const block = 4096
			nb := int((n + block - 1) / block)
			mc.ParallelFor(nb, func(b int) {
				if r.Expired() {
					return
				}
				for idx := int64(b) * block; idx < n && idx < int64(b+1)*block; idx++ {
					caseID := fmt.Sprintf("v:%s:%d:%d", s.name, pi, idx)
					if !r.Want(caseID) {
						continue
					}
					v := reflect.New(s.typ).Elem()
					x := idx
					nonzero := 0
					for k, fi := range fields {
						d := doms[k]
						c := int(x % int64(len(d)))
						x /= int64(len(d))
						v.Field(fi).Set(d[c])
						if c != 0 {
							nonzero++
						}
					}
					r.Eval(1)
					c24OneValue(r, groups, s, v, caseID, passBase+idx)
					if nonzero > 0 {
						r.Nontrivial(caseID)
					}
					if idx == n/2 {
						r.Sample(map[string]any{"struct": s.name, "value": fmt.Sprintf("%+v", v.Interface())})
					}
				}
			})
			if r.Expired() {
				r.Incomplete("struct %s pass %d cut by the budget", s.name, pi)
			}
			timing = append(timing, fmt.Sprintf("%s/%d:%d in %.1fs", s.name, pi, n, time.Since(tp).Seconds()))
		}
	}
}

// c24Fmt renders a value without pointer addresses.
func c24Fmt(sb *strings.Builder, v reflect.Value) {
	switch v.Kind() {
	case reflect.Pointer:
		if v.IsNil() {
			sb.WriteString("nil")
			return
		}
		sb.WriteString("&")
		c24Fmt(sb, v.Elem())
	case reflect.Struct:
		if t, ok := v.Interface().(time.Time); ok {
			sb.WriteString(t.Format(time.RFC3339Nano))
			return
		}
		sb.WriteString("{")
		first := true
		for i := 0; i < v.NumField(); i++ {
			if !v.Type().Field(i).IsExported() || v.Field(i).IsZero() {
				continue
			}
			if !first {
				sb.WriteString(" ")
			}
			first = false
			sb.WriteString(v.Type().Field(i).Name + ":")
			c24Fmt(sb, v.Field(i))
		}
		sb.WriteString("}")
	case reflect.Slice:
		if v.Type().Elem().Kind() == reflect.Uint8 {
			fmt.Fprintf(sb, "%q", v.Bytes())
			return
		}
		sb.WriteString("[")
		for i := 0; i < v.Len(); i++ {
			if i > 0 {
				sb.WriteString(" ")
			}
			c24Fmt(sb, v.Index(i))
		}
		sb.WriteString("]")
	case reflect.Map:
		keys := v.MapKeys()
		sort.Slice(keys, func(i, j int) bool { return fmt.Sprint(keys[i]) < fmt.Sprint(keys[j]) })
		sb.WriteString("map[")
		for i, k := range keys {
			if i > 0 {
				sb.WriteString(" ")
			}
			fmt.Fprintf(sb, "%q:", fmt.Sprint(k))
			c24Fmt(sb, v.MapIndex(k))
		}
		sb.WriteString("]")
	case reflect.String:
		fmt.Fprintf(sb, "%q", v.String())
	default:
		fmt.Fprintf(sb, "%v", v.Interface())
	}
}

func c24OneValue(r *mc.Report, groups *c24Groups, s c24Struct, v reflect.Value, caseID string, order int64) {
	show := func() string {
		var sb strings.Builder
		c24Fmt(&sb, v)
		x := sb.String()
		if len(x) > 300 {
			x = x[:300] + "…"
		}
		return s.name + x
	}
	var got any
	var err error
	panicked := false
	func() {
		defer func() {
			if e := recover(); e != nil {
				panicked = true
				groups.add(fmt.Sprintf("%s round trip panic: %s @%s", s.name, c24Norm(fmt.Sprint(e)), c24Site()), order, caseID, show(),
					fmt.Sprintf("value %s\npanic: %v\n%s", show(), e, c24Stack()))
			}
		}()
		got, err = s.rt(v)
	}()
	if panicked {
		return
	}
	if err != nil {
		groups.add(fmt.Sprintf("%s cannot cross the wire: %s", s.name, c24Norm(err.Error())), order, caseID, show(), fmt.Sprintf("value %s: %v", show(), err))
		return
	}
	want := v.Interface()
	if reflect.DeepEqual(want, got) {
		return
	}
	if eq, where, diff := c24Diff(want, got); !eq {
		groups.addLazy(fmt.Sprintf("%s changed by round trip at %s", s.name, where), order, caseID, func() (string, string) {
			return show(), fmt.Sprintf("value %s\ndiff after FromProto(wire(ToProto(v))) (-want +got):\n%s", show(), diff())
		})
	}
}

// ---------------------------------------------------------------------------------
// (b) gRPC handlers
// ---------------------------------------------------------------------------------

type c24Stream struct {
	ctx  context.Context
	sent int
}

func (s *c24Stream) Send(*webserverv1.StreamSearchResponse) error { s.sent++; return nil }
func (s *c24Stream) SetHeader(metadata.MD) error                  { return nil }
func (s *c24Stream) SendHeader(metadata.MD) error                 { return nil }
func (s *c24Stream) SetTrailer(metadata.MD)                       {}
func (s *c24Stream) Context() context.Context                     { return s.ctx }
func (s *c24Stream) SendMsg(any) error                            { return nil }
func (s *c24Stream) RecvMsg(any) error                            { return nil }

// c24Gen generates protobuf messages from descriptors.
type c24Gen struct {
	thorough bool
	bitmap   []byte
	cache    map[string][]proto.Message
}

func c24NewMsg(md protoreflect.MessageDescriptor) protoreflect.Message {
	mt, err := protoregistry.GlobalTypes.FindMessageByName(md.FullName())
	if err != nil {
		panic(err)
	}
	return mt.New()
}

// scalarVariants returns the non-default values tried for a scalar field.
func (g *c24Gen) scalarVariants(fd protoreflect.FieldDescriptor) []protoreflect.Value {
	switch fd.Kind() {
	case protoreflect.BoolKind:
		return []protoreflect.Value{protoreflect.ValueOfBool(true)}
	case protoreflect.StringKind:
		return []protoreflect.Value{protoreflect.ValueOfString("x"), protoreflect.ValueOfString("(")}
	case protoreflect.BytesKind:
		return []protoreflect.Value{protoreflect.ValueOfBytes([]byte("x")), protoreflect.ValueOfBytes(g.bitmap)}
	case protoreflect.EnumKind:
		var out []protoreflect.Value
		vs := fd.Enum().Values()
		for i := 0; i < vs.Len(); i++ {
			if vs.Get(i).Number() != 0 {
				out = append(out, protoreflect.ValueOfEnum(vs.Get(i).Number()))
			}
		}
		return append(out, protoreflect.ValueOfEnum(99))
	case protoreflect.Int64Kind, protoreflect.Sint64Kind, protoreflect.Sfixed64Kind:
		return []protoreflect.Value{protoreflect.ValueOfInt64(3), protoreflect.ValueOfInt64(-1)}
	case protoreflect.Int32Kind, protoreflect.Sint32Kind, protoreflect.Sfixed32Kind:
		return []protoreflect.Value{protoreflect.ValueOfInt32(3), protoreflect.ValueOfInt32(-1)}
	case protoreflect.Uint32Kind, protoreflect.Fixed32Kind:
		return []protoreflect.Value{protoreflect.ValueOfUint32(3)}
	case protoreflect.Uint64Kind, protoreflect.Fixed64Kind:
		return []protoreflect.Value{protoreflect.ValueOfUint64(3)}
	case protoreflect.DoubleKind:
		return []protoreflect.Value{protoreflect.ValueOfFloat64(2.5), protoreflect.ValueOfFloat64(math.Inf(-1))}
	case protoreflect.FloatKind:
		return []protoreflect.Value{protoreflect.ValueOfFloat32(2.5)}
	}
	return nil
}

// setter applies one variant of one field (or oneof) to a message.
type c24Setter func(m protoreflect.Message)

// fieldVariants lists the variants of a field; the first one is always "unset".
func (g *c24Gen) fieldVariants(fd protoreflect.FieldDescriptor, depth int) []c24Setter {
	out := []c24Setter{func(protoreflect.Message) {}}
	switch {
	case fd.IsMap():
		vd := fd.MapValue()
		mk := func(keys ...string) c24Setter {
			return func(m protoreflect.Message) {
				mp := m.Mutable(fd).Map()
				for i, k := range keys {
					var kv protoreflect.MapKey
					if fd.MapKey().Kind() == protoreflect.StringKind {
						kv = protoreflect.ValueOfString(k).MapKey()
					} else {
						kv = protoreflect.ValueOfUint32(uint32(i + 1)).MapKey()
					}
					switch vd.Kind() {
					case protoreflect.MessageKind:
						mp.Set(kv, protoreflect.ValueOfMessage(c24NewMsg(vd.Message())))
					case protoreflect.BoolKind:
						mp.Set(kv, protoreflect.ValueOfBool(i == 0))
					case protoreflect.StringKind:
						mp.Set(kv, protoreflect.ValueOfString("v"))
					default:
						mp.Set(kv, vd.Default())
					}
				}
			}
		}
		out = append(out, mk("x"), mk("", "y"))
	case fd.IsList() && fd.Kind() == protoreflect.MessageKind:
		var elems []proto.Message
		if depth > 0 {
			elems = g.msgs(fd.Message(), depth-1)
		}
		mk := func(es ...proto.Message) c24Setter {
			return func(m protoreflect.Message) {
				l := m.Mutable(fd).List()
				for _, e := range es {
					l.Append(protoreflect.ValueOfMessage(proto.Clone(e).ProtoReflect()))
				}
			}
		}
		for _, e := range elems {
			out = append(out, mk(e))
		}
		if n := len(elems); n*n <= 70000 {
			for _, a := range elems {
				for _, b := range elems {
					out = append(out, mk(a, b))
				}
			}
		} else {
			for _, a := range elems {
				out = append(out, mk(a, elems[0]), mk(elems[len(elems)-1], a))
			}
		}
	case fd.IsList():
		vs := g.scalarVariants(fd)
		for _, v := range vs {
			v := v
			out = append(out, func(m protoreflect.Message) { m.Mutable(fd).List().Append(v) })
		}
		if len(vs) >= 2 {
			out = append(out, func(m protoreflect.Message) {
				l := m.Mutable(fd).List()
				for _, v := range vs {
					l.Append(v)
				}
				l.Append(vs[0])
			})
		}
	case fd.Kind() == protoreflect.MessageKind:
		if depth > 0 {
			for _, e := range g.msgs(fd.Message(), depth-1) {
				e := e
				out = append(out, func(m protoreflect.Message) { m.Set(fd, protoreflect.ValueOfMessage(proto.Clone(e).ProtoReflect())) })
			}
		}
	default:
		for _, v := range g.scalarVariants(fd) {
			v := v
			out = append(out, func(m protoreflect.Message) { m.Set(fd, v) })
		}
	}
	return out
}

// msgs returns the variants of a message type: depth 0 -> only the empty message;
// depth d -> the product of the variants of all fields (message-typed fields: unset or any
// variant of depth d-1; a oneof: unset or any variant of any member).
func (g *c24Gen) msgs(md protoreflect.MessageDescriptor, depth int) []proto.Message {
	key := fmt.Sprintf("%s/%d", md.FullName(), depth)
	if c, ok := g.cache[key]; ok {
		return c
	}
	empty := c24NewMsg(md).Interface()
	if depth == 0 {
		g.cache[key] = []proto.Message{empty}
		return g.cache[key]
	}
	switch md.FullName() {
	case "google.protobuf.Duration":
		d := c24NewMsg(md)
		d.Set(md.Fields().ByName("seconds"), protoreflect.ValueOfInt64(1))
		d.Set(md.Fields().ByName("nanos"), protoreflect.ValueOfInt32(500))
		neg := c24NewMsg(md)
		neg.Set(md.Fields().ByName("seconds"), protoreflect.ValueOfInt64(-5))
		g.cache[key] = []proto.Message{empty, d.Interface(), neg.Interface()}
		return g.cache[key]
	}
	var dims [][]c24Setter
	fds := md.Fields()
	doneOneof := map[protoreflect.FullName]bool{}
	for i := 0; i < fds.Len(); i++ {
		fd := fds.Get(i)
		if od := fd.ContainingOneof(); od != nil && !od.IsSynthetic() {
			if doneOneof[od.FullName()] {
				continue
			}
			doneOneof[od.FullName()] = true
			vs := []c24Setter{func(protoreflect.Message) {}}
			for j := 0; j < od.Fields().Len(); j++ {
				mfd := od.Fields().Get(j)
				mv := g.fieldVariants(mfd, depth)[1:]
				if mfd.Kind() == protoreflect.BoolKind {
					// a oneof member can also be present with its default value
					mv = append(mv, func(m protoreflect.Message) { m.Set(mfd, protoreflect.ValueOfBool(false)) })
				}
				vs = append(vs, mv...)
			}
			dims = append(dims, vs)
			continue
		}
		dims = append(dims, g.fieldVariants(fd, depth))
	}
	total := int64(1)
	for _, d := range dims {
		total *= int64(len(d))
		if total > 1<<40 {
			break
		}
	}
	var out []proto.Message
	cap := int64(50000)
	if total <= cap {
		idx := make([]int, len(dims))
		for {
			m := c24NewMsg(md)
			for k, d := range dims {
				d[idx[k]](m)
			}
			out = append(out, m.Interface())
			k := 0
			for ; k < len(dims); k++ {
				idx[k]++
				if idx[k] < len(dims[k]) {
					break
				}
				idx[k] = 0
			}
			if k == len(dims) {
				break
			}
		}
	} else {
		// too many combinations: nothing set, each single variant alone, and everything set
		out = append(out, empty)
		for _, d := range dims {
			for _, s := range d[1:] {
				m := c24NewMsg(md)
				s(m)
				out = append(out, m.Interface())
			}
		}
		for pick := 1; pick <= 2; pick++ {
			m := c24NewMsg(md)
			for _, d := range dims {
				if len(d) > pick {
					d[pick](m)
				} else {
					d[len(d)-1](m)
				}
			}
			out = append(out, m.Interface())
		}
	}
	g.cache[key] = out
	return out
}

func c24Corpus() *ref.Repo {
	return &ref.Repo{
		Name: "github.com/foo/bar", ID: 3, Branches: []string{"HEAD", "dev"},
		RawConfig: map[string]string{"public": "1", "fork": "0"},
		Metadata:  map[string]string{"k": "v"},
		Docs: []*ref.Doc{
			{Name: "a/x.go", Content: []byte("package x\n\nfunc Hello() { println(\"x\") }\n"), Branches: []string{"HEAD", "dev"}, Language: "Go", Symbols: [][2]int{{16, 21}}},
			{Name: "x", Content: []byte("xx (x) x\ny\n"), Branches: []string{"HEAD"}},
			{Name: "README.md", Content: []byte("hello world\n"), Branches: []string{"dev"}, Language: "Markdown"},
		},
	}
}

type c24Call struct {
	handler string
	wire    []byte
}

func c24Handlers(r *mc.Report, groups *c24Groups) {
	dir, clean := gen.Scratch("c24")
	defer clean()
	if _, err := gen.WriteSimple(dir, c24Corpus()); err != nil {
		r.Violation("TOOL: C24 cannot build the shard: "+err.Error(), err.Error(), nil)
		return
	}
	ds, err := search.NewDirectorySearcher(dir)
	if err != nil {
		r.Violation("TOOL: C24 cannot open the searcher: "+err.Error(), err.Error(), nil)
		return
	}
	defer ds.Close()
	srv := server.NewServer(web.NewTraceAwareSearcher(ds))
	r.Assume("searcher stack as built by cmd/zoekt-webserver/main.go: web.NewTraceAwareSearcher(search.NewDirectorySearcher(dir)) (the logging wrapper of package main is omitted); one shard with 3 documents")

	// sanity: the stack answers a plain, fully populated request (a panic here is reported by
	// the enumeration below, which contains this request too)
	func() {
		defer func() { recover() }()
		resp, err := srv.Search(context.Background(), &webserverv1.SearchRequest{Query: query.QToProto(&query.Substring{Pattern: "hello", Content: true}), Opts: &webserverv1.SearchOptions{}})
		if err != nil || len(resp.GetFiles()) == 0 {
			r.Violation("TOOL: C24 searcher stack does not answer a plain query", fmt.Sprintf("resp=%v err=%v", resp, err), nil)
		}
	}()

	bm, _ := roaring.BitmapOf(1, 2, 3).ToBytes()
	g := &c24Gen{thorough: r.Thorough(), bitmap: bm, cache: map[string][]proto.Message{}}
	qd := (&webserverv1.Q{}).ProtoReflect().Descriptor()
	sod := (&webserverv1.SearchOptions{}).ProtoReflect().Descriptor()
	lod := (&webserverv1.ListOptions{}).ProtoReflect().Descriptor()

	maxDepth := 4
	if r.Thorough() {
		maxDepth = 5
	}
	seen := map[string]bool{}
	var calls []c24Call
	add := func(handler string, m proto.Message) {
		b, err := proto.Marshal(m)
		if err != nil {
			r.Violation("TOOL: C24 generated an unmarshalable request: "+err.Error(), prototext.Format(m), nil)
			return
		}
		k := handler + "\x00" + string(b)
		if seen[k] {
			return
		}
		seen[k] = true
		calls = append(calls, c24Call{handler, b})
	}
	validQ := query.QToProto(&query.Substring{Pattern: "x", Content: true})
	// options: every variant of the options messages with one valid query and without query
	optsSample := func(all []proto.Message) []proto.Message {
		// unset is added by the caller; keep the empty message, the first and the last variants
		if len(all) <= 3 {
			return all
		}
		return []proto.Message{all[0], all[1], all[len(all)-1]}
	}
	for depth := 1; depth <= maxDepth; depth++ {
		var qs []proto.Message
		qs = append(qs, nil)
		qs = append(qs, g.msgs(qd, depth-1)...)
		sopts := append([]proto.Message{nil}, optsSample(g.msgs(sod, depth-1))...)
		lopts := append([]proto.Message{nil}, g.msgs(lod, depth-1)...)
		for _, q := range qs {
			for _, o := range sopts {
				req := &webserverv1.SearchRequest{}
				if q != nil {
					req.Query = q.(*webserverv1.Q)
				}
				if o != nil {
					req.Opts = o.(*webserverv1.SearchOptions)
				}
				add("Search", req)
				add("StreamSearch", &webserverv1.StreamSearchRequest{Request: req})
			}
			for _, o := range lopts {
				req := &webserverv1.ListRequest{}
				if q != nil {
					req.Query = q.(*webserverv1.Q)
				}
				if o != nil {
					req.Opts = o.(*webserverv1.ListOptions)
				}
				add("List", req)
			}
		}
		if depth == 1 {
			add("StreamSearch", &webserverv1.StreamSearchRequest{})
		}
	}
	// all option variants (arbitrary subsets of fields) with a valid query and with no query
	for _, o := range g.msgs(sod, 2) {
		for _, q := range []*webserverv1.Q{validQ, nil} {
			req := &webserverv1.SearchRequest{Query: q, Opts: o.(*webserverv1.SearchOptions)}
			add("Search", req)
			add("StreamSearch", &webserverv1.StreamSearchRequest{Request: req})
		}
	}
	r.Set("requests", len(calls))

	var ran atomic.Int64
	mc.ParallelFor(len(calls), func(i int) {
		c := calls[i]
		caseID := "rpc:" + c.handler + ":" + hex.EncodeToString(c.wire)
		if !r.Want(caseID) {
			return
		}
		if r.Expired() {
			return
		}
		ran.Add(1)
		c24OneCall(r, groups, srv, c, caseID, int64(i))
	})
	if r.Expired() {
		r.Incomplete("handler calls cut by the budget")
	}
	if rc := os.Getenv("VERIF_REPLAY_CASE"); strings.HasPrefix(rc, "rpc:") && ran.Load() == 0 {
		// replay of a request that this tier does not enumerate
		parts := strings.SplitN(rc, ":", 3)
		if b, err := hex.DecodeString(parts[2]); err == nil && len(parts) == 3 {
			c24OneCall(r, groups, srv, c24Call{parts[1], b}, rc, 0)
		}
	}
}

func c24OneCall(r *mc.Report, groups *c24Groups, srv *server.Server, c c24Call, caseID string, order int64) {
	r.Eval(1)
	var show string
	var outcome string
	func() {
		defer func() {
			if e := recover(); e != nil {
				groups.add(fmt.Sprintf("%s panic: %s @%s", c.handler, c24Norm(fmt.Sprint(e)), c24Site()), order, caseID, show,
					fmt.Sprintf("%s(%s) panicked: %v\n%s", c.handler, show, e, c24Stack()))
				outcome = "panic"
			}
		}()
		ctx, cancel := context.WithTimeout(context.Background(), 30*time.Second)
		defer cancel()
		switch c.handler {
		case "Search":
			req := &webserverv1.SearchRequest{}
			if err := proto.Unmarshal(c.wire, req); err != nil {
				panic("harness: " + err.Error())
			}
			show = c24Show(req)
			resp, err := srv.Search(ctx, req)
			outcome = c24Outcome(resp == nil, err)
		case "StreamSearch":
			req := &webserverv1.StreamSearchRequest{}
			if err := proto.Unmarshal(c.wire, req); err != nil {
				panic("harness: " + err.Error())
			}
			show = c24Show(req)
			err := srv.StreamSearch(req, &c24Stream{ctx: ctx})
			outcome = c24Outcome(false, err)
		case "List":
			req := &webserverv1.ListRequest{}
			if err := proto.Unmarshal(c.wire, req); err != nil {
				panic("harness: " + err.Error())
			}
			show = c24Show(req)
			resp, err := srv.List(ctx, req)
			outcome = c24Outcome(resp == nil, err)
		}
	}()
	switch outcome {
	case "neither":
		groups.add(c.handler+" returned neither a response nor an error", order, caseID, show, c.handler+"("+show+") returned (nil, nil)")
	case "response":
		r.Nontrivial(caseID)
		if order%1013 == 7 {
			r.Sample(map[string]any{"handler": c.handler, "request": show, "outcome": outcome})
		}
	case "error":
		r.Add("error_answers", 1)
	}
}

func c24Outcome(nilResp bool, err error) string {
	switch {
	case err != nil:
		return "error"
	case nilResp:
		return "neither"
	}
	return "response"
}

func c24Show(m proto.Message) string {
	s := prototext.MarshalOptions{Multiline: false}.Format(m)
	s = strings.Join(strings.Fields(s), " ") // prototext output is deliberately unstable in its spacing
	if s == "" {
		s = "{}"
	}
	if len(s) > 300 {
		s = s[:300] + "…"
	}
	return s
}

func TestVerifC24(t *testing.T) {
	r := mc.NewReport("C24")
	groups := &c24Groups{}
	rc := os.Getenv("VERIF_REPLAY_CASE")
	t0 := time.Now()
	if rc == "" || strings.HasPrefix(rc, "q:") {
		c24QueryRoundTrips(r, groups)
	}
	t1 := time.Now()
	if rc == "" || strings.HasPrefix(rc, "rpc:") {
		c24Handlers(r, groups)
	}
	t2 := time.Now()
	if rc == "" || strings.HasPrefix(rc, "v:") {
		c24ValueRoundTrips(r, groups)
	}
	r.Note("phases: queries %.1fs, handlers %.1fs, struct values %.1fs", t1.Sub(t0).Seconds(), t2.Sub(t1).Seconds(), time.Since(t2).Seconds())
	groups.report(r)
	r.Assume("protobuf wire format = proto.Marshal + proto.Unmarshal of the generated message types (what the gRPC codec does); transport, interceptors and HTTP/2 framing are not exercised")
	r.Assume("string fields carry valid UTF-8 (protobuf rejects anything else); only FileMatch.FileName, which is bytes on the wire, is tried with invalid UTF-8")
	r.Finish("case = one query tree (all exported node kinds as atoms with 2-24 boundary values each, every composite over every atom, And/Or over every ordered pair of atoms, one more level in thorough), " +
		"one struct value (full product of 2-5 values per field for each of 19 option/result/listing structs; two 2-valued passes when the 3-valued product is too large), " +
		"or one (handler, request) with the request generated from the protobuf descriptors (fields unset/empty/populated to message depth 4, thorough 5; all SearchOptions field subsets); " +
		"non-trivial = query other than a bare constant, struct value with at least one non-zero field, request answered with a response")
}
