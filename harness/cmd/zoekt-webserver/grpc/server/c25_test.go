//go:build verif

package server

import (
	"bytes"
	"context"
	"fmt"
	"os"
	"reflect"
	"strings"
	"testing"
	"time"

	"google.golang.org/grpc"
	"google.golang.org/protobuf/proto"

	"github.com/sourcegraph/zoekt"
	webserverv1 "github.com/sourcegraph/zoekt/grpc/protos/zoekt/webserver/v1"
	"github.com/sourcegraph/zoekt/internal/verifshim/gen"
	"github.com/sourcegraph/zoekt/internal/verifshim/mc"
	"github.com/sourcegraph/zoekt/internal/verifshim/ref"
	"github.com/sourcegraph/zoekt/query"
	"github.com/sourcegraph/zoekt/search"
)

// C25: breadth-first search over histories of produced search events pushed
// through the REAL streaming pipeline samplingSender -> gRPCChunkSender ->
// chunk.SendAll into a stream that serialises every message at Send time (as
// the gRPC transport does); the client side unmarshals the bytes. Every
// history is closed with Flush and judged: files once and in order, budget of
// multi-file messages, conservation of every additive Stats field. The same
// history is also driven through Server.StreamSearch with a scripted
// zoekt.Streamer and must put the same bytes on the wire. States are
// deduplicated on the in-package projection of the sampler
// (aggCount mod 100, aggregated stats and progress): the chunker and the
// chunk sender keep no state between events.

const c25Budget = 1 << 20 // grpc/chunk.maxMessageSize

// c25Stream is the server side of the stream: it records the wire bytes.
type c25Stream struct {
	grpc.ServerStream
	wire [][]byte
	err  error
}

func (s *c25Stream) Context() context.Context { return context.Background() }

func (s *c25Stream) Send(r *webserverv1.StreamSearchResponse) error {
	b, err := proto.Marshal(r)
	if err != nil {
		s.err = err
		return err
	}
	s.wire = append(s.wire, b)
	return nil
}

// c25Script is a zoekt.Streamer that replays a fixed event list.
type c25Script struct {
	zoekt.Streamer
	events func() []*zoekt.SearchResult
	tee    func(*zoekt.SearchResult)
}

func (s *c25Script) StreamSearch(ctx context.Context, q query.Q, opts *zoekt.SearchOptions, sender zoekt.Sender) error {
	for _, ev := range s.events() {
		sender.Send(ev)
	}
	return nil
}

// c25Tee wraps a real Streamer and records every produced event before the
// streaming pipeline (which mutates event.Stats) sees it.
type c25Tee struct {
	zoekt.Streamer
	produced []*zoekt.SearchResult
}

func (t *c25Tee) StreamSearch(ctx context.Context, q query.Q, opts *zoekt.SearchOptions, sender zoekt.Sender) error {
	return t.Streamer.StreamSearch(ctx, q, opts, zoekt.SenderFunc(func(ev *zoekt.SearchResult) {
		cp := *ev
		cp.Files = append([]zoekt.FileMatch(nil), ev.Files...)
		t.produced = append(t.produced, &cp)
		sender.Send(ev)
	}))
}

// additive Stats fields = every numeric field except Duration (wall clock of
// one search, not summed by Stats.Add either). FlushReason is an enum.
func c25Additive() []int {
	var idx []int
	t := reflect.TypeOf(zoekt.Stats{})
	for i := 0; i < t.NumField(); i++ {
		f := t.Field(i)
		if f.Name == "Duration" || f.Name == "FlushReason" {
			continue
		}
		switch f.Type.Kind() {
		case reflect.Int, reflect.Int64:
			idx = append(idx, i)
		default:
			panic("C25: unexpected Stats field kind " + f.Name)
		}
	}
	return idx
}

func c25Sum(fields []int, into []int64, s zoekt.Stats) {
	v := reflect.ValueOf(s)
	for k, i := range fields {
		into[k] += v.Field(i).Int()
	}
}

// c25Stats builds a Stats value: flavour -1 = every additive field set to a
// distinct value, flavour k = only the k-th additive field set.
func c25Stats(fields []int, flavour int) zoekt.Stats {
	var s zoekt.Stats
	v := reflect.ValueOf(&s).Elem()
	for k, i := range fields {
		if flavour == -1 || flavour == k {
			v.Field(i).SetInt(int64(3 + 2*k))
		}
	}
	return s
}

type c25Op struct {
	name  string
	count int // number of identical stats-only events
	stats int // 0 zero stats, 1 flavour stats, 2 only non-additive fields (Duration, FlushReason)
	files []zoekt.FileMatch
}

func c25File(name string, size int) zoekt.FileMatch {
	content := bytes.Repeat([]byte("x"), size)
	for i := 79; i < len(content); i += 80 {
		content[i] = '\n'
	}
	return zoekt.FileMatch{
		FileName:   name,
		Repository: "repo",
		Language:   "Go",
		Branches:   []string{"HEAD"},
		Score:      float64(size%97) + 0.5,
		Content:    content,
		ChunkMatches: []zoekt.ChunkMatch{{
			Content:      content[:min(size, 80)],
			ContentStart: zoekt.Location{LineNumber: 1, Column: 1},
			Ranges:       []zoekt.Range{{Start: zoekt.Location{ByteOffset: 0, LineNumber: 1, Column: 1}, End: zoekt.Location{ByteOffset: 1, LineNumber: 1, Column: 2}}},
		}},
		Checksum: []byte{1, 2, 3},
		Version:  "deadbeef",
	}
}

func c25Alphabet() []c25Op {
	small := func(n string) zoekt.FileMatch { return c25File(n, 100) }
	half := (c25Budget / 2) - 200 // two of these stay just under the budget, three do not
	return []c25Op{
		{name: "zero", count: 1, stats: 0},
		{name: "nonadditive", count: 1, stats: 2},
		{name: "stats", count: 1, stats: 1},
		{name: "stats*98", count: 98, stats: 1},
		{name: "stats*99", count: 99, stats: 1},
		{name: "stats*100", count: 100, stats: 1},
		{name: "zero*99", count: 99, stats: 0},
		{name: "file1", stats: 1, files: []zoekt.FileMatch{small("a")}},
		{name: "file1-nostats", stats: 0, files: []zoekt.FileMatch{small("a0")}},
		{name: "file3", stats: 1, files: []zoekt.FileMatch{small("b1"), small("b2"), small("b3")}},
		{name: "big", stats: 1, files: []zoekt.FileMatch{c25File("big", c25Budget+4096)}},
		{name: "2x600K", stats: 1, files: []zoekt.FileMatch{c25File("k1", 600<<10), c25File("k2", 600<<10)}},
		{name: "small-big-small", stats: 1, files: []zoekt.FileMatch{small("s1"), c25File("bigmid", c25Budget), small("s2")}},
		{name: "3xhalf", stats: 1, files: []zoekt.FileMatch{c25File("h1", half), c25File("h2", half), c25File("h3", half)}},
	}
}

// c25Events materialises fresh event values for a history (the pipeline
// mutates event.Stats, so events are never shared between runs).
func c25Events(ops []c25Op, hist []int, fields []int, flavour int) []*zoekt.SearchResult {
	var out []*zoekt.SearchResult
	for _, oi := range hist {
		op := ops[oi]
		cnt := op.count
		if len(op.files) > 0 {
			cnt = 1
		}
		for k := 0; k < cnt; k++ {
			// progress is not part of the property: one value per event kind keeps the state space small
			ev := &zoekt.SearchResult{Progress: zoekt.Progress{Priority: float64(100 - oi), MaxPendingPriority: float64(99 - oi)}}
			switch op.stats {
			case 1:
				ev.Stats = c25Stats(fields, flavour)
			case 2:
				ev.Stats = zoekt.Stats{Duration: 5 * time.Millisecond, FlushReason: zoekt.FlushReasonTimerExpired}
			}
			if len(op.files) > 0 {
				ev.Files = append([]zoekt.FileMatch(nil), op.files...)
			}
			out = append(out, ev)
		}
	}
	return out
}

type c25Verdict struct {
	bad        []string // one entry per violated clause: "<clause>: detail"
	messages   int
	statsOnly  int
	fileEvents int
}

// c25Judge compares what the client receives with what was produced.
func c25Judge(fields []int, produced []*zoekt.SearchResult, wire [][]byte) (v c25Verdict) {
	var wantFiles []*webserverv1.FileMatch
	wantSum := make([]int64, len(fields))
	for _, ev := range produced {
		if len(ev.Files) > 0 {
			v.fileEvents++
		}
		for i := range ev.Files {
			wantFiles = append(wantFiles, ev.Files[i].ToProto())
		}
		c25Sum(fields, wantSum, ev.Stats)
	}
	var gotFiles []*webserverv1.FileMatch
	gotSum := make([]int64, len(fields))
	for mi, b := range wire {
		var msg webserverv1.StreamSearchResponse
		if err := proto.Unmarshal(b, &msg); err != nil {
			v.bad = append(v.bad, fmt.Sprintf("decode: message %d does not unmarshal: %v", mi, err))
			return v
		}
		chunk := msg.GetResponseChunk()
		v.messages++
		if len(chunk.GetFiles()) == 0 {
			v.statsOnly++
		}
		payload := 0
		for _, f := range chunk.GetFiles() {
			payload += proto.Size(f)
		}
		if len(chunk.GetFiles()) > 1 && payload >= c25Budget {
			v.bad = append(v.bad, fmt.Sprintf("budget: message %d carries %d files with %d payload bytes (budget %d)", mi, len(chunk.GetFiles()), payload, c25Budget))
		}
		gotFiles = append(gotFiles, chunk.GetFiles()...)
		if chunk.GetStats() != nil {
			c25Sum(fields, gotSum, zoekt.StatsFromProto(chunk.GetStats()))
		}
	}
	if len(gotFiles) != len(wantFiles) {
		v.bad = append(v.bad, fmt.Sprintf("files: %d delivered, %d produced (delivered %s)", len(gotFiles), len(wantFiles), c25Names(gotFiles)))
	} else {
		for i := range gotFiles {
			if !proto.Equal(gotFiles[i], wantFiles[i]) {
				v.bad = append(v.bad, fmt.Sprintf("files: position %d delivered %q, produced %q (delivered order %s)", i, gotFiles[i].GetFileName(), wantFiles[i].GetFileName(), c25Names(gotFiles)))
				break
			}
		}
	}
	t := reflect.TypeOf(zoekt.Stats{})
	for k, i := range fields {
		if gotSum[k] != wantSum[k] {
			v.bad = append(v.bad, fmt.Sprintf("stats %s: delivered sum %d, produced sum %d", t.Field(i).Name, gotSum[k], wantSum[k]))
		}
	}
	return v
}

func c25Names(fs []*webserverv1.FileMatch) string {
	var n []string
	for _, f := range fs {
		n = append(n, string(f.GetFileName()))
		if len(n) > 12 {
			n = append(n, "…")
			break
		}
	}
	return "[" + strings.Join(n, " ") + "]"
}

func c25Clause(bad string) string {
	if i := strings.Index(bad, ":"); i > 0 {
		return bad[:i]
	}
	return bad
}

type c25Result struct {
	bad   []string
	key   string
	v     c25Verdict
	evs   int
	wireN int
}

// c25Run executes one history on a fresh pipeline, then Flush.
func c25Run(ops []c25Op, hist []int, fields []int, flavour int) (res c25Result) {
	defer func() {
		if p := recover(); p != nil {
			res.bad = append(res.bad, fmt.Sprintf("panic: %v", p))
		}
	}()
	// (1) the pipeline assembled exactly as Server.StreamSearch assembles it
	ss := &c25Stream{}
	sampler := newSamplingSender(gRPCChunkSender(ss))
	events := c25Events(ops, hist, fields, flavour)
	res.evs = len(events)
	for _, ev := range events {
		sampler.Send(ev)
	}
	// canonical projection of everything that influences future behaviour
	res.key = fmt.Sprintf("%d|%+v|%+v|%d", sampler.aggCount%100, sampler.agg.Stats, sampler.agg.Progress, len(sampler.agg.Files))
	sampler.Flush()
	res.wireN = len(ss.wire)
	produced := c25Events(ops, hist, fields, flavour) // pristine copy: Send mutates event.Stats
	res.v = c25Judge(fields, produced, ss.wire)
	res.bad = append(res.bad, res.v.bad...)
	if ss.err != nil {
		res.bad = append(res.bad, "marshal: "+ss.err.Error())
	}
	// (2) the same history through the real RPC handler
	ss2 := &c25Stream{}
	srv := NewServer(&c25Script{events: func() []*zoekt.SearchResult { return c25Events(ops, hist, fields, flavour) }})
	err := srv.StreamSearch(&webserverv1.StreamSearchRequest{Request: &webserverv1.SearchRequest{Query: query.QToProto(&query.Const{Value: true})}}, ss2)
	if err != nil {
		res.bad = append(res.bad, "handler: StreamSearch returned "+err.Error())
	}
	v2 := c25Judge(fields, produced, ss2.wire)
	for _, b := range v2.bad {
		res.bad = append(res.bad, "handler "+b)
	}
	if len(v2.bad) == 0 && len(res.v.bad) == 0 {
		same := len(ss.wire) == len(ss2.wire)
		for i := 0; same && i < len(ss.wire); i++ {
			same = bytes.Equal(ss.wire[i], ss2.wire[i])
		}
		if !same {
			res.bad = append(res.bad, fmt.Sprintf("handler wiring: Server.StreamSearch put %d messages on the wire, the hand-assembled pipeline %d (or different bytes)", len(ss2.wire), len(ss.wire)))
		}
	}
	return res
}

func c25Hist(ops []c25Op, h []int) string {
	n := make([]string, len(h))
	for i, o := range h {
		n[i] = ops[o].name
	}
	return strings.Join(n, " ")
}

func TestVerifC25(t *testing.T) {
	r := mc.NewReport("C25")
	fields := c25Additive()
	ops := c25Alphabet()
	statsT := reflect.TypeOf(zoekt.Stats{})
	flavourName := func(f int) string {
		if f < 0 {
			return "all"
		}
		return statsT.Field(fields[f]).Name
	}
	byName := map[string]int{}
	for i, o := range ops {
		byName[o.name] = i
	}
	report := func(flavour int, h []int, res c25Result) {
		caseID := fmt.Sprintf("%s|%s", flavourName(flavour), c25Hist(ops, h))
		for _, b := range res.bad {
			// key: violated clause + stats flavour + the shortest history (BFS order makes it stable)
			r.Violation(fmt.Sprintf("C25 %s flavour=%s history=[%s]", c25Clause(b), flavourName(flavour), c25Hist(ops, h)),
				fmt.Sprintf("events: %s (stats flavour %s), then Flush\n%s", c25Hist(ops, h), flavourName(flavour), b), map[string]any{"case": caseID})
		}
	}

	if r.Replaying() {
		parts := strings.SplitN(os.Getenv("VERIF_REPLAY_CASE"), "|", 2)
		if len(parts) == 2 && parts[0] != "e2e" {
			flavour := -1
			for k := range fields {
				if flavourName(k) == parts[0] {
					flavour = k
				}
			}
			var h []int
			for _, n := range strings.Fields(parts[1]) {
				h = append(h, byName[n])
			}
			res := c25Run(ops, h, fields, flavour)
			r.Eval(1)
			report(flavour, h, res)
			r.Finish("replay of one history")
			return
		}
	}

	states, transitions, traces := 0, 0, 0
	maxDepth := 0
	clausesSeen := map[string]bool{}
	bfs := func(flavour, depth int) {
		seen := map[string]bool{}
		init := c25Run(ops, nil, fields, flavour)
		traces += 2
		seen[init.key] = true
		states++
		report(flavour, nil, init)
		frontier := [][]int{nil}
		for d := 1; d <= depth && len(frontier) > 0; d++ {
			var next [][]int
			if r.Expired() {
				r.Incomplete("budget exhausted: flavour %s before depth %d (%d frontier states)", flavourName(flavour), d, len(frontier))
				return
			}
			// all successors of this level are independent executions: run them on all cores,
			// then fold the results in enumeration order (deterministic)
			results := make([]c25Result, len(frontier)*len(ops))
			mc.ParallelFor(len(results), func(i int) {
				h := frontier[i/len(ops)]
				nh := append(append(make([]int, 0, len(h)+1), h...), i%len(ops))
				results[i] = c25Run(ops, nh, fields, flavour)
			})
			for i, res := range results {
				h, oi := frontier[i/len(ops)], i%len(ops)
				nh := append(append(make([]int, 0, len(h)+1), h...), oi)
				traces += 2 // hand-assembled pipeline and Server.StreamSearch
				transitions++
				r.Eval(1)
				if len(res.bad) > 0 {
					// report the shortest history per violated clause and flavour only
					var fresh []string
					for _, b := range res.bad {
						ck := fmt.Sprintf("%d/%s", flavour, c25Clause(b))
						if !clausesSeen[ck] {
							clausesSeen[ck] = true
							fresh = append(fresh, b)
						}
					}
					if len(fresh) > 0 {
						res.bad = fresh
						report(flavour, nh, res)
					}
					continue // do not expand a violating state
				}
				if res.v.statsOnly > 0 || res.v.messages-res.v.statsOnly > res.v.fileEvents {
					r.Nontrivial(fmt.Sprintf("%d|%s|%s", flavour, res.key, ops[oi].name))
				}
				if !seen[res.key] {
					seen[res.key] = true
					states++
					if d > maxDepth {
						maxDepth = d
					}
					next = append(next, nh)
					if states%97 == 5 {
						r.Sample(map[string]any{"flavour": flavourName(flavour), "events": c25Hist(ops, nh), "produced_events": res.evs,
							"messages_on_wire": res.v.messages, "stats_only_messages": res.v.statsOnly, "sampler_state": res.key})
					}
				}
			}
			frontier = next
		}
	}
	depthAll, depthOne := 6, 4
	if r.Thorough() {
		depthAll, depthOne = 9, 6
	}
	bfs(-1, depthAll)
	for k := range fields {
		bfs(k, depthOne)
	}

	// end to end: real shards, real sharded searcher, Server.StreamSearch
	e2e, e2eNontrivial := c25EndToEnd(r, fields)
	traces += e2e
	r.Set("end_to_end_searches", e2e)
	r.Set("end_to_end_multi_message", e2eNontrivial)

	r.Set("states", states)
	r.Set("transitions", transitions)
	r.Set("traces_validated_against_impl", traces)
	r.Set("max_depth", maxDepth)
	r.Set("depth_bound", map[string]int{"all_fields_flavour": depthAll, "single_field_flavours": depthOne})
	r.Set("alphabet_size", len(ops))
	r.Set("stats_flavours", len(fields)+1)
	r.Assume("the transport serialises a message inside Send (grpc does); the recording stream marshals at Send time and the client side unmarshals those bytes")
	r.Assume("size budget = grpc/chunk.maxMessageSize (1 MiB) judged on the sum of proto.Size(file) of a message, the quantity the chunker accounts; envelope bytes (field tags, stats, progress) are not counted")
	r.Assume("statistics counters = every numeric field of zoekt.Stats except Duration (wall clock, not additive) ; FlushReason is an enum")
	r.Finish("BFS over event histories (zero/non-additive/stats-only events x1,x98,x99,x100, events with 1 or 3 small files, one file over 1 MiB, 2x600 KiB, small-big-small, 3 files of half the budget) then Flush, once with every Stats field set and once per single Stats field; each history runs through the hand-assembled pipeline and through Server.StreamSearch; plus end-to-end searches on real shards; non-trivial = the wire carries a stats-only message or an event split into several messages")
}

func c25EndToEnd(r *mc.Report, fields []int) (runs, multi int) {
	dir, clean := gen.Scratch("c25")
	defer clean()
	nrepo := 3
	for ri := 0; ri < nrepo; ri++ {
		repo := &ref.Repo{Name: fmt.Sprintf("repo%d", ri), ID: uint32(ri + 1), Branches: []string{"HEAD"}, Versions: []string{"v"}}
		for di := 0; di < 12; di++ {
			size := 200
			if di%4 == 0 {
				size = 400 << 10 // with Whole=true three of these cross the 1 MiB budget
			}
			var sb strings.Builder
			for sb.Len() < size {
				fmt.Fprintf(&sb, "needle%d line of repo %d doc %d common\n", di%3, ri, di)
			}
			repo.Docs = append(repo.Docs, &ref.Doc{Name: fmt.Sprintf("d%02d.go", di), Content: []byte(sb.String()), Branches: []string{"HEAD"}})
		}
		if _, err := gen.WriteSimple(dir, repo); err != nil {
			r.Violation("C25 TOOL: cannot build shard", err.Error(), nil)
			return
		}
	}
	real, err := search.NewDirectorySearcher(dir)
	if err != nil {
		r.Violation("C25 TOOL: cannot open searcher", err.Error(), nil)
		return
	}
	defer real.Close()
	queries := []query.Q{
		&query.Substring{Pattern: "common"},
		&query.Substring{Pattern: "needle1"},
		&query.Substring{Pattern: "absent-everywhere"},
		&query.Substring{Pattern: "d04", FileName: true},
		&query.Const{Value: true},
	}
	type optv struct {
		name string
		o    zoekt.SearchOptions
	}
	var opts []optv
	for _, whole := range []bool{false, true} {
		for _, chunk := range []bool{false, true} {
			for _, flush := range []time.Duration{0, time.Hour} {
				for _, shardMax := range []int{0, 3} {
					opts = append(opts, optv{fmt.Sprintf("whole=%v chunk=%v flush=%v shardmax=%d", whole, chunk, flush, shardMax),
						zoekt.SearchOptions{Whole: whole, ChunkMatches: chunk, FlushWallTime: flush, ShardMaxMatchCount: shardMax}})
				}
			}
		}
	}
	for qi, q := range queries {
		for _, ov := range opts {
			if r.Expired() {
				r.Incomplete("budget exhausted in end-to-end part at query %d", qi)
				return
			}
			caseID := fmt.Sprintf("e2e|%s|%s", q.String(), ov.name)
			if !r.Want(caseID) {
				continue
			}
			tee := &c25Tee{Streamer: real}
			ss := &c25Stream{}
			o := ov.o
			err := NewServer(tee).StreamSearch(&webserverv1.StreamSearchRequest{Request: &webserverv1.SearchRequest{Query: query.QToProto(q), Opts: o.ToProto()}}, ss)
			runs++
			r.Eval(1)
			if err != nil {
				r.Violation("C25 e2e error "+caseID, err.Error(), map[string]any{"case": caseID})
				continue
			}
			v := c25Judge(fields, tee.produced, ss.wire)
			for _, b := range v.bad {
				r.Violation(fmt.Sprintf("C25 e2e %s query=%s opts=%s", c25Clause(b), q.String(), ov.name), b, map[string]any{"case": caseID})
			}
			nfiles := 0
			for _, ev := range tee.produced {
				nfiles += len(ev.Files)
			}
			if v.statsOnly > 0 || v.messages-v.statsOnly > v.fileEvents {
				multi++
				r.Nontrivial(caseID)
			}
			if runs%17 == 3 {
				r.Sample(map[string]any{"end_to_end": caseID, "produced_events": len(tee.produced), "produced_files": nfiles, "messages_on_wire": v.messages})
			}
		}
	}
	return runs, multi
}
