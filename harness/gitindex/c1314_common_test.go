//go:build verif

package gitindex

// Shared helpers of the C13 and C14 harnesses: real git object stores built with go-git
// (loose objects written through the go-git filesystem storer), cheap per-case repositories
// that share one object store, and observation of an index directory through the real
// directory searcher.

import (
	"context"
	"fmt"
	"os"
	"path/filepath"
	"sort"
	"strings"
	"sync"
	"time"

	"github.com/go-git/go-billy/v5/osfs"
	"github.com/go-git/go-git/v5/plumbing"
	"github.com/go-git/go-git/v5/plumbing/cache"
	"github.com/go-git/go-git/v5/plumbing/filemode"
	"github.com/go-git/go-git/v5/plumbing/object"
	"github.com/go-git/go-git/v5/storage/filesystem"

	git "github.com/go-git/go-git/v5"

	"github.com/sourcegraph/zoekt"
	"github.com/sourcegraph/zoekt/query"
	"github.com/sourcegraph/zoekt/search"
)

// c1314Store is a bare git repository used only as an object store. All writes go through
// go-git and are serialised by mu. The repositories that get indexed hard-link the loose
// objects they need (go-git's chroot filesystem refuses symlinked object directories and
// alternates outside the repository).
type c1314Store struct {
	dir string
	mu  sync.Mutex
	st  *filesystem.Storage

	blobs   map[string]plumbing.Hash
	trees   map[string]plumbing.Hash
	commits map[string]plumbing.Hash
	// closure[h] = every object reachable from tree or commit h without following parents
	// or gitlinks (h included)
	closure map[plumbing.Hash][]plumbing.Hash
}

func c1314NewStore(dir string) (*c1314Store, error) {
	if _, err := git.PlainInit(dir, true); err != nil {
		return nil, err
	}
	st := filesystem.NewStorage(osfs.New(dir), cache.NewObjectLRUDefault())
	return &c1314Store{dir: dir, st: st, blobs: map[string]plumbing.Hash{}, trees: map[string]plumbing.Hash{}, commits: map[string]plumbing.Hash{},
		closure: map[plumbing.Hash][]plumbing.Hash{}}, nil
}

func (s *c1314Store) blob(content []byte) plumbing.Hash {
	s.mu.Lock()
	defer s.mu.Unlock()
	if h, ok := s.blobs[string(content)]; ok {
		return h
	}
	o := s.st.NewEncodedObject()
	o.SetType(plumbing.BlobObject)
	w, err := o.Writer()
	if err != nil {
		panic(err)
	}
	if _, err := w.Write(content); err != nil {
		panic(err)
	}
	w.Close()
	h, err := s.st.SetEncodedObject(o)
	if err != nil {
		panic(err)
	}
	s.blobs[string(content)] = h
	return h
}

// c1314Entry is one leaf of a tree description.
type c1314Entry struct {
	Path string
	Mode filemode.FileMode
	Hash plumbing.Hash
}

// tree writes the (nested) tree objects for the given leaves and returns the root tree hash.
// An empty list gives the empty tree (written explicitly so that go-git finds it).
func (s *c1314Store) tree(leaves []c1314Entry) plumbing.Hash {
	s.mu.Lock()
	defer s.mu.Unlock()
	return s.treeLocked(leaves)
}

func (s *c1314Store) treeLocked(leaves []c1314Entry) plumbing.Hash {
	var sb strings.Builder
	for _, l := range leaves {
		fmt.Fprintf(&sb, "%s\x00%o\x00%s\n", l.Path, uint32(l.Mode), l.Hash)
	}
	key := sb.String()
	if h, ok := s.trees[key]; ok {
		return h
	}
	var entries []object.TreeEntry
	var reach []plumbing.Hash
	sub := map[string][]c1314Entry{}
	var subNames []string
	for _, l := range leaves {
		if i := strings.IndexByte(l.Path, '/'); i >= 0 {
			d := l.Path[:i]
			if _, ok := sub[d]; !ok {
				subNames = append(subNames, d)
			}
			sub[d] = append(sub[d], c1314Entry{Path: l.Path[i+1:], Mode: l.Mode, Hash: l.Hash})
		} else {
			entries = append(entries, object.TreeEntry{Name: l.Path, Mode: l.Mode, Hash: l.Hash})
			if l.Mode != filemode.Submodule {
				reach = append(reach, l.Hash)
			}
		}
	}
	for _, d := range subNames {
		sh := s.treeLocked(sub[d])
		entries = append(entries, object.TreeEntry{Name: d, Mode: filemode.Dir, Hash: sh})
		reach = append(reach, s.closure[sh]...)
	}
	// git tree order: byte order of the name, directories compared as name + "/"
	sortName := func(e object.TreeEntry) string {
		if e.Mode == filemode.Dir {
			return e.Name + "/"
		}
		return e.Name
	}
	sort.Slice(entries, func(i, j int) bool { return sortName(entries[i]) < sortName(entries[j]) })
	t := &object.Tree{Entries: entries}
	o := s.st.NewEncodedObject()
	if err := t.Encode(o); err != nil {
		panic(err)
	}
	h, err := s.st.SetEncodedObject(o)
	if err != nil {
		panic(err)
	}
	s.trees[key] = h
	s.closure[h] = append([]plumbing.Hash{h}, reach...)
	return h
}

// commit writes a commit object; identical arguments give the identical commit.
func (s *c1314Store) commit(tree plumbing.Hash, parents []plumbing.Hash, msg string, seq int) plumbing.Hash {
	s.mu.Lock()
	defer s.mu.Unlock()
	key := fmt.Sprintf("%s|%v|%s|%d", tree, parents, msg, seq)
	if h, ok := s.commits[key]; ok {
		return h
	}
	when := time.Date(2024, 1, 2, 3, 4, 5, 0, time.UTC).Add(time.Duration(seq) * time.Minute)
	sig := object.Signature{Name: "verif", Email: "verif@example.com", When: when}
	c := &object.Commit{Author: sig, Committer: sig, Message: msg, TreeHash: tree, ParentHashes: parents}
	o := s.st.NewEncodedObject()
	if err := c.Encode(o); err != nil {
		panic(err)
	}
	h, err := s.st.SetEncodedObject(o)
	if err != nil {
		panic(err)
	}
	s.commits[key] = h
	s.closure[h] = append([]plumbing.Hash{h}, s.closure[tree]...)
	return h
}

// link hard-links the loose objects of the closure of every given commit into the objects
// directory of repository dir.
func (s *c1314Store) link(dir string, commits ...plumbing.Hash) error {
	for _, c := range commits {
		s.mu.Lock()
		objs := s.closure[c]
		s.mu.Unlock()
		if len(objs) == 0 {
			return fmt.Errorf("unknown commit %s", c)
		}
		for _, h := range objs {
			hs := h.String()
			dst := filepath.Join(dir, "objects", hs[:2], hs[2:])
			if _, err := os.Lstat(dst); err == nil {
				continue
			}
			if err := os.MkdirAll(filepath.Dir(dst), 0o755); err != nil {
				return err
			}
			if err := os.Link(filepath.Join(s.dir, "objects", hs[:2], hs[2:]), dst); err != nil && !os.IsExist(err) {
				return err
			}
		}
	}
	return nil
}

// c1314WriteRepo creates (or updates) a bare repository directory whose loose objects are
// hard links into the shared store and whose branches point at the given commits. Every
// commit in heads and extra is made available with its trees and blobs.
func c1314WriteRepo(store *c1314Store, dir string, name string, heads map[string]plumbing.Hash, extra ...plumbing.Hash) error {
	if _, err := os.Lstat(filepath.Join(dir, "HEAD")); err != nil {
		for _, d := range []string{"refs/heads", "refs/tags", "objects/info", "objects/pack"} {
			if err := os.MkdirAll(filepath.Join(dir, d), 0o755); err != nil {
				return err
			}
		}
		cfg := "[core]\n\trepositoryformatversion = 0\n\tfilemode = true\n\tbare = true\n[zoekt]\n\tname = " + name + "\n"
		if err := os.WriteFile(filepath.Join(dir, "config"), []byte(cfg), 0o644); err != nil {
			return err
		}
		var first string
		for b := range heads {
			if first == "" || b < first {
				first = b
			}
		}
		if err := os.WriteFile(filepath.Join(dir, "HEAD"), []byte("ref: refs/heads/"+first+"\n"), 0o644); err != nil {
			return err
		}
	}
	for b, h := range heads {
		if err := store.link(dir, h); err != nil {
			return err
		}
		p := filepath.Join(dir, "refs", "heads", b)
		tmp := p + ".tmp"
		if err := os.WriteFile(tmp, []byte(h.String()+"\n"), 0o644); err != nil {
			return err
		}
		if err := os.Rename(tmp, p); err != nil {
			return err
		}
	}
	return store.link(dir, extra...)
}

// c1314Doc is one document as seen through a search.
type c1314Doc struct {
	Name     string
	Content  string
	Branches []string
}

func (d c1314Doc) String() string {
	c := d.Content
	if len(c) > 40 {
		c = fmt.Sprintf("%s…(%d bytes)", c[:40], len(c))
	}
	return fmt.Sprintf("{%q %q %v}", d.Name, c, d.Branches)
}

func c1314SortDocs(ds []c1314Doc) {
	sort.Slice(ds, func(i, j int) bool {
		if ds[i].Name != ds[j].Name {
			return ds[i].Name < ds[j].Name
		}
		if ds[i].Content != ds[j].Content {
			return ds[i].Content < ds[j].Content
		}
		return strings.Join(ds[i].Branches, ",") < strings.Join(ds[j].Branches, ",")
	})
}

// c1314Search returns every document matching q in the index directory, with whole content.
func c1314Search(indexDir string, q query.Q) ([]c1314Doc, error) {
	ss, err := search.NewDirectorySearcher(indexDir)
	if err != nil {
		return nil, err
	}
	defer ss.Close()
	return c1314SearchWith(ss, q)
}

func c1314SearchWith(ss zoekt.Searcher, q query.Q) ([]c1314Doc, error) {
	res, err := ss.Search(context.Background(), q, &zoekt.SearchOptions{Whole: true})
	if err != nil {
		return nil, err
	}
	var out []c1314Doc
	for _, f := range res.Files {
		br := append([]string(nil), f.Branches...)
		sort.Strings(br)
		out = append(out, c1314Doc{Name: f.FileName, Content: string(f.Content), Branches: br})
	}
	c1314SortDocs(out)
	return out, nil
}

func c1314BranchQuery(b string) query.Q {
	return query.NewAnd(&query.Branch{Pattern: b, Exact: true}, &query.Const{Value: true})
}

func c1314Fmt(ds []c1314Doc) string {
	var parts []string
	for _, d := range ds {
		parts = append(parts, d.String())
	}
	return "[" + strings.Join(parts, " ") + "]"
}
