//go:build verif

package gitindex

// C13: delta builds expose the same per-branch content as full builds.
//
// Explicit-state breadth-first search over histories of the REAL gitindex.IndexGitRepo on
// real git repositories (objects and commits written with go-git, on tmpfs):
//
//	full build of tree state s0, then d rounds of
//	    (move the branches to another tree state by real commits ; index with IsDelta=true | false)
//
// A tree state assigns a content in {absent, c1, c2} to every variable cell (branch, path) of
// a family; constant bystander entries complete the trees. After EVERY indexing run the index
// directory is searched through search.NewDirectorySearcher with
// And(Branch{b, Exact}, Const true), Whole=true, for every indexed branch, and the documents
// are compared with (1) the head tree of the branch: one document per path with the head
// content, none for absent paths, and (2) the per-branch view of a fresh full build of the
// same tree state in another index directory.
//
// Families: P (path P on both branches x {absent,c1,c2}, bystander file Q; quick: s0 up to
// the renaming c1<->c2, 2 rounds; thorough: every s0 with 2 rounds and the representatives
// with 3 rounds), IGN (an unchanged .sourcegraph/ignore file excludes P: the expectation is
// what a full build shows, i.e. no document for P), and in the thorough tier R (renames and
// files moving between branches) and FD (a path that is a file in one state and a directory in
// the next).
//
// The state of a BFS node is (tree state, canonical content of the index directory: for every
// shard the raw documents with their branches - read without the .meta sidecar, so hidden
// documents count - and the file tombstones). Index and repository directories of a BFS
// prefix are copied, not rebuilt.

import (
	"fmt"
	"os"
	"path/filepath"
	"runtime/debug"
	"sort"
	"strconv"
	"strings"
	"sync"
	"sync/atomic"
	"testing"

	"github.com/go-git/go-git/v5/plumbing"
	"github.com/go-git/go-git/v5/plumbing/filemode"

	"github.com/sourcegraph/zoekt"
	"github.com/sourcegraph/zoekt/index"
	"github.com/sourcegraph/zoekt/internal/verifshim/mc"
	"github.com/sourcegraph/zoekt/query"
	"github.com/sourcegraph/zoekt/search"
)

var c13Branches = []string{"main", "dev"}

// content ids: 0 = absent
var c13Contents = []string{"", "alpha one\n", "beta two\n", "gamma three\n", "# verif\nP\n"}

type c13Cell struct {
	branch int
	path   string
	dom    []int
}

type c13Fixed struct {
	branch  int
	path    string
	content int
}

type c13Family struct {
	name   string
	cells  []c13Cell
	fixed  []c13Fixed
	states [][]int // every tree state (product of the domains)
	roots  []int   // indices into states used as s0
	rounds int
	desc   string
	note   string
	forbid func(s []int) bool // tree states that cannot exist
	// ignored lists paths that the (constant) ignore file of the family excludes: the head
	// tree expectation leaves them out, as a full build does.
	ignored map[string]bool
}

func (f *c13Family) init() {
	f.states = [][]int{{}}
	for _, c := range f.cells {
		var next [][]int
		for _, s := range f.states {
			for _, v := range c.dom {
				next = append(next, append(append([]int(nil), s...), v))
			}
		}
		f.states = next
	}
	if f.forbid != nil {
		var keep [][]int
		for _, s := range f.states {
			if !f.forbid(s) {
				keep = append(keep, s)
			}
		}
		f.states = keep
	}
}

func c13StateID(s []int) string {
	var sb strings.Builder
	for _, v := range s {
		sb.WriteString(strconv.Itoa(v))
	}
	return sb.String()
}

// tree returns path -> content id of branch b in state s.
func (f *c13Family) tree(s []int, b int) map[string]int {
	m := map[string]int{}
	for _, fx := range f.fixed {
		if fx.branch == b && fx.content != 0 {
			m[fx.path] = fx.content
		}
	}
	for i, c := range f.cells {
		if c.branch == b && s[i] != 0 {
			m[c.path] = s[i]
		}
	}
	return m
}

func (f *c13Family) describe(s []int) string {
	var parts []string
	for i, c := range f.cells {
		v := "absent"
		if s[i] != 0 {
			v = "c" + strconv.Itoa(s[i])
		}
		parts = append(parts, fmt.Sprintf("%s@%s=%s", c.path, c13Branches[c.branch], v))
	}
	return strings.Join(parts, " ")
}

type c13World struct {
	r     *mc.Report
	root  string
	store *c1314Store
	fam   *c13Family

	mu      sync.Mutex
	nextDir int
	visited map[string]bool
	fresh   map[string][2][]c1314Doc // state id -> per-branch view of a fresh full build
	trans   int
	runs    int
	deltas  int // runs that really were delta builds
}

type c13Node struct {
	state []int
	heads [2]plumbing.Hash
	hist  string
	dir   string
	depth int
	bad   bool
}

func (w *c13World) newDir() string {
	w.mu.Lock()
	w.nextDir++
	n := w.nextDir
	w.mu.Unlock()
	return filepath.Join(w.root, w.fam.name+"-n"+strconv.Itoa(n))
}

func (w *c13World) treeHash(s []int, b int) plumbing.Hash {
	m := w.fam.tree(s, b)
	var paths []string
	for p := range m {
		paths = append(paths, p)
	}
	sort.Strings(paths)
	var leaves []c1314Entry
	for _, p := range paths {
		leaves = append(leaves, c1314Entry{Path: p, Mode: filemode.Regular, Hash: w.store.blob([]byte(c13Contents[m[p]]))})
	}
	return w.store.tree(leaves)
}

func (w *c13World) opts(n *c13Node, delta bool) Options {
	return Options{
		RepoDir:  filepath.Join(n.dir, "repo"),
		Branches: append([]string(nil), c13Branches...),
		BuildOptions: index.Options{
			IndexDir:              filepath.Join(n.dir, "idx"),
			DisableCTags:          true,
			IsDelta:               delta,
			ShardMax:              1 << 20,
			RepositoryDescription: zoekt.Repository{Name: "repo"},
		},
	}
}

// root node: parentless commits, full build into an empty index directory.
func (w *c13World) rootNode(s []int) (*c13Node, error) {
	n := &c13Node{state: s, dir: w.newDir(), hist: w.fam.name + "|" + c13StateID(s)}
	heads := map[string]plumbing.Hash{}
	for b := range c13Branches {
		n.heads[b] = w.store.commit(w.treeHash(s, b), nil, c13Branches[b], 0)
		heads[c13Branches[b]] = n.heads[b]
	}
	if err := os.MkdirAll(filepath.Join(n.dir, "idx"), 0o755); err != nil {
		return nil, err
	}
	if err := c1314WriteRepo(w.store, filepath.Join(n.dir, "repo"), "repo", heads); err != nil {
		return nil, err
	}
	_, err := IndexGitRepo(w.opts(n, false))
	return n, err
}

func c13CopyTree(src, dst string) error {
	return filepath.Walk(src, func(p string, fi os.FileInfo, err error) error {
		if err != nil {
			return err
		}
		rel, _ := filepath.Rel(src, p)
		q := filepath.Join(dst, rel)
		if fi.IsDir() {
			return os.MkdirAll(q, 0o755)
		}
		if strings.Contains(rel, "repo/objects/") {
			return os.Link(p, q) // immutable loose objects
		}
		data, err := os.ReadFile(p)
		if err != nil {
			return err
		}
		return os.WriteFile(q, data, 0o644)
	})
}

// step: copy the parent's directories, commit the move to state t, run the indexer.
// It returns the new node and the error of IndexGitRepo (harness errors panic).
func (w *c13World) step(parent *c13Node, t []int, delta bool) (*c13Node, error) {
	mode := "F"
	if delta {
		mode = "D"
	}
	n := &c13Node{state: t, dir: w.newDir(), depth: parent.depth + 1, hist: parent.hist + ">" + c13StateID(t) + ":" + mode}
	if err := c13CopyTree(parent.dir, n.dir); err != nil {
		panic(err)
	}
	heads := map[string]plumbing.Hash{}
	for b := range c13Branches {
		n.heads[b] = parent.heads[b]
		nt := w.treeHash(t, b)
		if nt != w.treeHash(parent.state, b) {
			n.heads[b] = w.store.commit(nt, []plumbing.Hash{parent.heads[b]}, c13Branches[b], n.depth)
			heads[c13Branches[b]] = n.heads[b]
		}
	}
	if err := c1314WriteRepo(w.store, filepath.Join(n.dir, "repo"), "repo", heads); err != nil {
		panic(err)
	}
	_, err := IndexGitRepo(w.opts(n, delta))
	return n, err
}

// view = per-branch documents through the directory searcher.
func (w *c13World) view(n *c13Node) ([2][]c1314Doc, error) {
	var v [2][]c1314Doc
	ss, err := search.NewDirectorySearcher(filepath.Join(n.dir, "idx"))
	if err != nil {
		return v, err
	}
	defer ss.Close()
	for b, name := range c13Branches {
		ds, err := c1314SearchWith(ss, c1314BranchQuery(name))
		if err != nil {
			return v, err
		}
		v[b] = ds
	}
	return v, nil
}

func c13NamesContents(ds []c1314Doc) string {
	var parts []string
	for _, d := range ds {
		parts = append(parts, fmt.Sprintf("%q=%q", d.Name, d.Content))
	}
	sort.Strings(parts)
	return strings.Join(parts, " ")
}

// check evaluates the oracle on node n; it returns false when a violation was reported.
func (w *c13World) check(n *c13Node, runErr error, what string) bool {
	replay := map[string]any{"case": n.hist}
	ok := true
	if runErr != nil {
		w.r.Violation("C13 "+n.hist+" IndexGitRepo failed", fmt.Sprintf("history %s (%s): %s: IndexGitRepo returned %v", n.hist, w.fam.describe(n.state), what, runErr), replay)
		ok = false
	}
	v, err := w.view(n)
	if err != nil {
		w.r.Violation("C13 "+n.hist+" search failed", fmt.Sprintf("history %s: search: %v", n.hist, err), replay)
		return false
	}
	w.mu.Lock()
	fresh, haveFresh := w.fresh[c13StateID(n.state)]
	w.mu.Unlock()
	for b, name := range c13Branches {
		var exp []string
		for p, c := range w.fam.tree(n.state, b) {
			if w.fam.ignored[p] {
				continue
			}
			exp = append(exp, fmt.Sprintf("%q=%q", p, c13Contents[c]))
		}
		sort.Strings(exp)
		want := strings.Join(exp, " ")
		got := c13NamesContents(v[b])
		var bad []string
		if got != want {
			lbl := "head tree of " + name + " has  "
			if len(w.fam.ignored) > 0 {
				lbl = "head tree of " + name + " minus the paths its ignore file excludes has"
			}
			bad = append(bad, fmt.Sprintf("%s {%s}", lbl, want))
		}
		if haveFresh {
			if f := c13NamesContents(fresh[b]); got != f {
				bad = append(bad, fmt.Sprintf("fresh full build shows {%s}", f))
			}
		}
		if len(bad) > 0 {
			w.r.Violation(fmt.Sprintf("C13 %s branch=%s", n.hist, name),
				fmt.Sprintf("history %s\n  (family %s: %s; history = s0 then >state:D(elta)|F(ull); digits = %s; last run: %s)\n  search branch:%s returns {%s}\n  %s\n  shards (raw documents, tombstones): %s",
					n.hist, w.fam.name, w.fam.desc, w.cellLegend(), what, name, got, strings.Join(bad, "\n  "), c13DescribeIndex(filepath.Join(n.dir, "idx"))), replay)
			ok = false
		}
	}
	return ok
}

func (w *c13World) cellLegend() string {
	var parts []string
	for _, c := range w.fam.cells {
		parts = append(parts, c.path+"@"+c13Branches[c.branch])
	}
	return strings.Join(parts, ",") + " with 0=absent 1=c1 2=c2"
}

type c13MemFile struct {
	data []byte
	name string
}

func (f *c13MemFile) Read(off, sz uint32) ([]byte, error) {
	if uint64(off)+uint64(sz) > uint64(len(f.data)) {
		return nil, fmt.Errorf("read past end")
	}
	return f.data[off : off+sz], nil
}
func (f *c13MemFile) Size() (uint32, error) { return uint32(len(f.data)), nil }
func (f *c13MemFile) Close()                {}
func (f *c13MemFile) Name() string          { return f.name }

// c13DescribeIndex lists, per shard, the raw documents (ignoring the .meta sidecar, so
// documents hidden by tombstones are listed too) and the file tombstones of the sidecar.
func c13DescribeIndex(idx string) string {
	shards, _ := filepath.Glob(filepath.Join(idx, "*.zoekt"))
	sort.Strings(shards)
	var out []string
	for i, p := range shards {
		data, err := os.ReadFile(p)
		if err != nil {
			out = append(out, "ERR "+err.Error())
			continue
		}
		s, err := index.NewSearcher(&c13MemFile{data: data, name: fmt.Sprintf("/nonexistent/raw-%d.zoekt", i)})
		if err != nil {
			out = append(out, "ERR "+err.Error())
			continue
		}
		ds, err := c1314SearchWith(s, &query.Const{Value: true})
		s.Close()
		if err != nil {
			out = append(out, "ERR "+err.Error())
			continue
		}
		var tomb []string
		if repos, _, err := index.ReadMetadataPath(p); err == nil && len(repos) > 0 {
			for t := range repos[0].FileTombstones {
				tomb = append(tomb, t)
			}
		}
		sort.Strings(tomb)
		out = append(out, fmt.Sprintf("#%d docs=%s tombstones=%v", i, c1314Fmt(ds), tomb))
	}
	return strings.Join(out, " | ")
}

func c13HasMeta(idx string) bool {
	m, _ := filepath.Glob(filepath.Join(idx, "*.meta"))
	return len(m) > 0
}

func (w *c13World) stateKey(n *c13Node) string {
	return w.fam.name + "|" + c13StateID(n.state) + "|" + c13DescribeIndex(filepath.Join(n.dir, "idx"))
}

// explore runs the BFS of one family.
func (w *c13World) explore() {
	r, f := w.r, w.fam
	// phase 0: fresh full build of every tree state (cached per-branch views); the nodes of
	// the chosen roots are kept as BFS level 0.
	isRoot := map[int]bool{}
	for _, i := range f.roots {
		isRoot[i] = true
	}
	nodes := make([]*c13Node, len(f.states))
	mc.ParallelFor(len(f.states), func(i int) {
		defer c13Recover(r, f.name+"|"+c13StateID(f.states[i]))
		n, err := w.rootNode(f.states[i])
		if n == nil {
			panic(err)
		}
		r.Eval(1)
		v, verr := w.view(n)
		if verr == nil && err == nil {
			w.mu.Lock()
			w.fresh[c13StateID(n.state)] = v
			w.mu.Unlock()
		}
		if !w.check(n, err, "fresh full build") {
			n.bad = true
		}
		w.mu.Lock()
		w.runs++
		w.visited[w.stateKey(n)] = true
		w.mu.Unlock()
		if isRoot[i] && !n.bad {
			nodes[i] = n
		} else {
			os.RemoveAll(n.dir)
		}
	})
	var level []*c13Node
	for _, i := range f.roots {
		if nodes[i] != nil {
			level = append(level, nodes[i])
		}
	}
	for round := 1; round <= f.rounds && len(level) > 0; round++ {
		type job struct {
			parent *c13Node
			t      []int
			delta  bool
		}
		var jobs []job
		for _, p := range level {
			for _, t := range f.states {
				if c13StateID(t) == c13StateID(p.state) {
					continue
				}
				jobs = append(jobs, job{p, t, true}, job{p, t, false})
			}
		}
		next := make([]*c13Node, len(jobs))
		var cut atomic.Bool
		mc.ParallelFor(len(jobs), func(i int) {
			if r.Expired() {
				cut.Store(true)
				return
			}
			j := jobs[i]
			hist := j.parent.hist + ">" + c13StateID(j.t)
			defer c13Recover(r, hist)
			n, err := w.step(j.parent, j.t, j.delta)
			r.Eval(1)
			what := "full build"
			realDelta := false
			if j.delta {
				what = "delta build requested"
				if c13HasMeta(filepath.Join(n.dir, "idx")) {
					what = "delta build"
					realDelta = true
				} else {
					what = "delta build requested, fell back to a full build"
				}
			}
			ok := w.check(n, err, what)
			key := w.stateKey(n)
			w.mu.Lock()
			w.trans++
			w.runs++
			if realDelta {
				w.deltas++
			}
			isNew := !w.visited[key]
			w.visited[key] = true
			w.mu.Unlock()
			if realDelta {
				// non-trivial: a real delta build whose move changed the tree of at least one branch
				r.Nontrivial(f.name + "|" + key + "|from|" + c13StateID(j.parent.state))
			}
			if i%97 == 0 {
				r.Sample(map[string]any{"history": n.hist, "legend": w.cellLegend(), "run": what, "index_after": c13DescribeIndex(filepath.Join(n.dir, "idx"))})
			}
			if ok && isNew && round < f.rounds {
				next[i] = n
			} else {
				os.RemoveAll(n.dir)
			}
		})
		for _, p := range level {
			os.RemoveAll(p.dir)
		}
		level = level[:0]
		for _, n := range next {
			if n != nil {
				level = append(level, n)
			}
		}
		if cut.Load() {
			r.Incomplete("family %s: budget used up in round %d; the remaining transitions of that round and deeper rounds were not executed", f.name, round)
			break
		}
	}
	for _, p := range level {
		os.RemoveAll(p.dir)
	}
}

func c13Recover(r *mc.Report, hist string) {
	if e := recover(); e != nil {
		r.Violation("C13 "+hist+" panic", fmt.Sprintf("history %s: panic: %v\n%s", hist, e, debug.Stack()), map[string]any{"case": hist})
	}
}

// replay executes one history sequentially.
func (w *c13World) replay(hist string) {
	parts := strings.Split(hist, ">")
	head := strings.SplitN(parts[0], "|", 2)
	parse := func(s string) []int {
		var out []int
		for _, ch := range s {
			out = append(out, int(ch-'0'))
		}
		return out
	}
	// the fresh views of every state on the path
	want := map[string]bool{c13StateID(parse(head[1])): true}
	for _, p := range parts[1:] {
		want[strings.SplitN(p, ":", 2)[0]] = true
	}
	for id := range want {
		n, err := w.rootNode(parse(id))
		if err == nil {
			if v, verr := w.view(n); verr == nil {
				w.fresh[id] = v
			}
		}
		os.RemoveAll(n.dir)
	}
	n, err := w.rootNode(parse(head[1]))
	w.r.Eval(1)
	w.check(n, err, "fresh full build")
	for _, p := range parts[1:] {
		sm := strings.SplitN(p, ":", 2)
		delta := len(sm) < 2 || sm[1] != "F"
		nn, err := w.step(n, parse(sm[0]), delta)
		os.RemoveAll(n.dir)
		n = nn
		w.r.Eval(1)
		w.trans++
		w.check(n, err, map[bool]string{true: "delta build requested", false: "full build"}[delta])
	}
	os.RemoveAll(n.dir)
}

func c13Families(thorough bool) []*c13Family {
	d3 := []int{0, 1, 2}
	// P on both branches, bystander Q (third content) on both branches. States are indexed
	// main*3+dev.
	pq := func(name string, roots []int, rounds int, note string) *c13Family {
		return &c13Family{name: name, rounds: rounds, roots: roots, note: note,
			desc:  "path P on both branches x {absent,c1,c2}, constant file Q on both branches",
			cells: []c13Cell{{0, "P", d3}, {1, "P", d3}},
			fixed: []c13Fixed{{0, "Q", 3}, {1, "Q", 3}}}
	}
	// representatives of the 9 states under the renaming c1<->c2 of the two variable contents:
	// 00, 01(~02), 10(~20), 11(~22), 12(~21)
	reps := []int{0, 1, 3, 4, 5}
	repNote := "s0 restricted to one representative per orbit of the content renaming c1<->c2"
	// an unchanged .sourcegraph/ignore file that excludes P: a full build leaves P out, so
	// every later build has to leave it out too
	ign := &c13Family{name: "IGN", rounds: 1,
		desc:    "path P on main x {absent,c1,c2}; both branches carry the same .sourcegraph/ignore file (never changed) whose only pattern is P; constant file Q on main",
		cells:   []c13Cell{{0, "P", d3}},
		fixed:   []c13Fixed{{0, ".sourcegraph/ignore", 4}, {1, ".sourcegraph/ignore", 4}, {0, "Q", 3}},
		ignored: map[string]bool{"P": true}}
	// the same path is a file on one branch and a directory on the other at the same time
	xfd := &c13Family{name: "XFD", rounds: 1,
		desc:  "P is a file on main x {absent,c1,c2} while P/x is a file on dev x {absent,c1} (P is a directory there); constant file Q on both branches",
		cells: []c13Cell{{0, "P", d3}, {1, "P/x", []int{0, 1}}},
		fixed: []c13Fixed{{0, "Q", 3}, {1, "Q", 3}}}
	var fams []*c13Family
	if !thorough {
		fams = append(fams, ign, xfd, pq("P", reps, 2, repNote))
	} else {
		xfd.rounds = 2
		fams = append(fams,
			ign, xfd,
			pq("P", []int{2, 6, 7, 8}, 2, "the other five initial states are covered by family P3"),
			// files moving between paths and branches: three cells with {absent, c1}
			&c13Family{name: "R", rounds: 2,
				desc:  "P and dir/Q on main, P on dev, each in {absent,c1} (renames, files moving between branches); constant file keep on dev",
				cells: []c13Cell{{0, "P", []int{0, 1}}, {0, "dir/Q", []int{0, 1}}, {1, "P", []int{0, 1}}},
				fixed: []c13Fixed{{1, "keep", 2}}},
			// a path that is a file on one side of a move and a directory on the other
			&c13Family{name: "FD", rounds: 2,
				desc:   "P (file) and P/x on main, P on dev, each in {absent,c1}; states with both P and P/x on main do not exist",
				cells:  []c13Cell{{0, "P", []int{0, 1}}, {0, "P/x", []int{0, 1}}, {1, "P", []int{0, 1}}},
				forbid: func(s []int) bool { return s[0] != 0 && s[1] != 0 }},
			pq("P3", reps, 3, repNote),
		)
	}
	for _, f := range fams {
		f.init()
		if f.roots == nil {
			for i := range f.states {
				f.roots = append(f.roots, i)
			}
		}
	}
	return fams
}

func TestVerifC13(t *testing.T) {
	r := mc.NewReport("C13")
	old := debug.SetGCPercent(400) // every Builder allocates four 16 MB posting arrays; keep them recyclable
	defer debug.SetGCPercent(old)
	defer debug.SetMemoryLimit(debug.SetMemoryLimit(20 << 30)) // ... but never beyond what the machine has (thorough tier: many live builders)
	base := os.Getenv("VERIF_SCRATCH")
	if base == "" {
		base = "/dev/shm"
		if st, err := os.Stat(base); err != nil || !st.IsDir() {
			base = os.TempDir()
		}
	}
	root, err := os.MkdirTemp(base, "verif-c13-")
	if err != nil {
		t.Fatal(err)
	}
	defer os.RemoveAll(root)
	store, err := c1314NewStore(filepath.Join(root, "store.git"))
	if err != nil {
		t.Fatal(err)
	}
	os.Setenv("ZOEKT_DISABLE_CATFILE_BATCH", "true")

	r.Assume("git objects/commits written by go-git are what zoekt sees in production repositories; blob reading through go-git only (cat-file path is C14)")
	r.Assume("the per-branch view of a fresh full build depends only on the head trees, so it is computed once per tree state (parentless commits) and cached")
	r.Assume("BFS state = tree state + raw documents/branches/tombstones of every shard; index directories of a prefix are copied (shards are immutable, sidecars are replaced by rename)")

	states, trans, runs, deltas := 0, 0, 0, 0
	var bounds []string
	fams := c13Families(r.Thorough())
	if r.Replaying() {
		hist := os.Getenv("VERIF_REPLAY_CASE")
		name := strings.SplitN(hist, "|", 2)[0]
		for _, f := range c13Families(true) {
			if f.name == name {
				w := &c13World{r: r, root: root, store: store, fam: f, visited: map[string]bool{}, fresh: map[string][2][]c1314Doc{}}
				func() {
					defer c13Recover(r, hist)
					w.replay(hist)
				}()
				trans += w.trans
				break
			}
		}
	} else {
		for _, f := range fams {
			if r.Expired() {
				r.Incomplete("family %s not started: budget used up", f.name)
				continue
			}
			w := &c13World{r: r, root: root, store: store, fam: f, visited: map[string]bool{}, fresh: map[string][2][]c1314Doc{}}
			w.explore()
			states += len(w.visited)
			trans += w.trans
			runs += w.runs
			deltas += w.deltas
			b := fmt.Sprintf("family %s: cells %s, %d tree states, %d initial states, %d rounds: %d states, %d transitions", f.name, w.cellLegend(), len(f.states), len(f.roots), f.rounds, len(w.visited), w.trans)
			if f.note != "" {
				b += " (" + f.note + ")"
				r.Assume("family " + f.name + ": " + f.note)
			}
			bounds = append(bounds, b)
		}
	}
	r.Set("states", states)
	r.Set("transitions", trans)
	r.Set("traces_validated_against_impl", runs)
	r.Set("real_delta_builds", deltas)
	r.Set("bound", bounds)
	r.Finish("BFS over histories: full build of s0, then rounds of (commit a move to any other tree state; IndexGitRepo with IsDelta true|false); every run is followed by a per-branch Whole search of the index directory compared with the head trees and with a fresh full build. evaluations = IndexGitRepo runs; a case is non-trivial when the run really was a delta build (sidecar metadata written, no fallback), counted by distinct (resulting index state, previous tree state)")
}
