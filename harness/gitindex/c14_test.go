//go:build verif

package gitindex

// C14: git indexing captures exactly the indexed branch trees.
//
// Exhaustive enumeration of small two-branch repositories (real git objects written with
// go-git) x index configurations x both blob reading paths (go-git, and `git cat-file
// --batch` enabled with ZOEKT_DISABLE_CATFILE_BATCH=false plus an unmatched LargeFiles
// pattern because git 2.39 has no cat-file --filter). Every repository is indexed with the
// real gitindex.IndexGitRepo and read back through search.NewDirectorySearcher
// (Const true, Whole). The expected document set is computed from the generator's
// description of the repository:
//
//	one document per distinct (path, blob) over the two branches, branch list = exactly the
//	branches that have this blob at this path, content = blob (or a "NOT-INDEXED: "
//	explanation when larger than SizeMax or containing a NUL byte), nothing for gitlinks and
//	for paths excluded by the branch's own .sourcegraph/ignore file.
//
// Families (each is a full product over its stated alphabets):
//
//	pair : one path p, (kind on main, kind on dev) in K x K, fixed background on the other paths
//	adj  : two neighbouring paths (p,q), (kind of p, kind of q) in K x K on main, swapped on dev
//	ign  : (ignore file of main, ignore file of dev) in I x I over a six-path text tree
//	size : default SizeMax (2 MiB), kind in K at one path, same on both branches
//	shard: (thorough) adj family with a tiny ShardMax so that every document gets its own shard
//	lf   : (thorough) pair family at d/b with a LargeFiles pattern that matches d/b
//	prod : (thorough) all four paths x {absent, shared, large}, dev = main with every single edit

import (
	"fmt"
	"os"
	"os/exec"
	"path/filepath"
	"runtime/debug"
	"sort"
	"strconv"
	"strings"
	"sync/atomic"
	"testing"
	"time"

	"github.com/go-git/go-git/v5/plumbing"
	"github.com/go-git/go-git/v5/plumbing/filemode"

	"github.com/sourcegraph/zoekt"
	"github.com/sourcegraph/zoekt/index"
	"github.com/sourcegraph/zoekt/internal/verifshim/mc"
	"github.com/sourcegraph/zoekt/query"
)

const (
	c14Absent = iota
	c14Shared
	c14Own
	c14Large
	c14Binary
	c14Exec
	c14Symlink
	c14Gitlink
	c14Empty
	c14Edge
)

var c14KindNames = []string{"absent", "shared", "own", "large", "binary", "exec", "symlink", "gitlink", "empty", "edge"}

var c14Branches = []string{"main", "dev"}

const c14SmallMax = 64

// c14Content returns mode and blob content of kind k at path p.
func c14Content(k int, p string) (filemode.FileMode, []byte) {
	pad := func(s string, n int) []byte {
		b := []byte(s)
		for len(b) < n {
			b = append(b, 'x')
		}
		return b
	}
	switch k {
	case c14Shared:
		return filemode.Regular, []byte("shared text\n")
	case c14Own:
		return filemode.Regular, []byte("own text of " + p + "\n")
	case c14Large:
		return filemode.Regular, pad("large "+p+" ", c14SmallMax+1)
	case c14Binary:
		return filemode.Regular, []byte("bin\x00ary " + p + "\n")
	case c14Exec:
		// same blob as kind own: (own on one branch, exec on the other) is ONE (path, content) pair
		return filemode.Executable, []byte("own text of " + p + "\n")
	case c14Symlink:
		return filemode.Symlink, []byte("target/of/" + p)
	case c14Empty:
		return filemode.Regular, []byte{}
	case c14Edge:
		return filemode.Regular, pad("edge "+p+" ", c14SmallMax)
	}
	panic("no content")
}

var c14IgnoreFiles = []string{
	"",                   // no ignore file
	"d/\n",               // directory prefix
	"*.x\n",              // * does not cross /
	"/a\n",               // leading slash is stripped, literal gets an implicit **
	"# comment\n\n   \n", // comments and blank lines only
	"d/e\n",              // literal prefix inside a directory
	"x y\n",              // literal with a space
}

// c14Ignored is the reference for the generated pattern set: the documented rules for
// literal prefixes, dir/ and *.ext.
func c14Ignored(ignoreFile, path string) bool {
	for _, line := range strings.Split(ignoreFile, "\n") {
		line = strings.TrimSpace(line)
		if line == "" || strings.HasPrefix(line, "#") {
			continue
		}
		line = strings.TrimPrefix(line, "/")
		if !strings.ContainsAny(line, ".][*?") {
			if strings.HasPrefix(path, line) {
				return true
			}
			continue
		}
		if strings.HasPrefix(line, "*.") && !strings.ContainsAny(line[1:], "][*?") {
			if !strings.Contains(path, "/") && strings.HasSuffix(path, line[1:]) {
				return true
			}
			continue
		}
		panic("pattern outside the reference's set: " + line)
	}
	return false
}

type c14Case struct {
	id         string
	trees      [2]map[string]int // path -> kind
	ignore     [2]int            // index into c14IgnoreFiles
	sizeMax    int               // 0 = default
	shardMax   int
	largeFiles []string
}

const c14GitlinkHash = "1111111111111111111111111111111111111111"

func (c *c14Case) effSizeMax() int {
	if c.sizeMax == 0 {
		return 2 << 20
	}
	return c.sizeMax
}

// expected documents, canonical strings "name\x00content\x00branches"
func (c *c14Case) expected() (docs []c1314Doc, interesting bool) {
	type key struct{ path, content string }
	br := map[key][]string{}
	var order []key
	o := index.Options{LargeFiles: c.largeFiles}
	for b := range c14Branches {
		ig := c14IgnoreFiles[c.ignore[b]]
		add := func(p string, content []byte) {
			if c14Ignored(ig, p) {
				interesting = true
				return
			}
			obs := string(content)
			if len(content) > c.effSizeMax() && !o.IgnoreSizeMax(p) {
				obs = "NOT-INDEXED"
				interesting = true
			} else if strings.IndexByte(obs, 0) >= 0 {
				obs = "NOT-INDEXED"
				interesting = true
			}
			// distinct blobs stay distinct documents even when both are skipped
			k := key{p, obs + "\x01" + string(content)}
			if _, ok := br[k]; !ok {
				order = append(order, k)
			}
			br[k] = append(br[k], c14Branches[b])
		}
		for p, kind := range c.trees[b] {
			if kind == c14Absent {
				continue
			}
			if kind == c14Gitlink {
				interesting = true
				continue
			}
			_, content := c14Content(kind, p)
			add(p, content)
		}
		if ig != "" {
			add(".sourcegraph/ignore", []byte(ig))
		}
	}
	for _, k := range order {
		bs := append([]string(nil), br[k]...)
		sort.Strings(bs)
		if len(bs) > 1 {
			interesting = true
		}
		docs = append(docs, c1314Doc{Name: k.path, Content: k.content[:strings.IndexByte(k.content, 1)], Branches: bs})
	}
	c1314SortDocs(docs)
	return docs, interesting
}

func c14Normalise(ds []c1314Doc) []c1314Doc {
	out := make([]c1314Doc, len(ds))
	for i, d := range ds {
		if strings.HasPrefix(d.Content, "NOT-INDEXED: ") {
			d.Content = "NOT-INDEXED"
		}
		out[i] = d
	}
	c1314SortDocs(out)
	return out
}

func (c *c14Case) describe() string {
	var parts []string
	for b, name := range c14Branches {
		var ps []string
		for p := range c.trees[b] {
			ps = append(ps, p)
		}
		sort.Strings(ps)
		var es []string
		for _, p := range ps {
			es = append(es, fmt.Sprintf("%q:%s", p, c14KindNames[c.trees[b][p]]))
		}
		parts = append(parts, fmt.Sprintf("%s={%s} ignore=%q", name, strings.Join(es, " "), c14IgnoreFiles[c.ignore[b]]))
	}
	return fmt.Sprintf("%s SizeMax=%d ShardMax=%d LargeFiles=%q", strings.Join(parts, "; "), c.effSizeMax(), c.shardMax, c.largeFiles)
}

func c14Cases(thorough bool) []*c14Case {
	base := []string{"a", "d/b", "d/e/c", "x y"}
	kinds := []int{c14Absent, c14Shared, c14Own, c14Large, c14Binary, c14Exec, c14Symlink, c14Gitlink}
	if thorough {
		kinds = append(kinds, c14Empty, c14Edge)
	}
	background := map[string]int{"a": c14Own, "d/b": c14Large, "d/e/c": c14Shared, "x y": c14Shared}
	clone := func(m map[string]int) map[string]int {
		o := map[string]int{}
		for k, v := range m {
			o[k] = v
		}
		return o
	}
	nomatch := []string{"no-such-file-*"}
	var out []*c14Case
	pair := func(fam, p string, sizeMax int, lf []string, ks []int) {
		for _, k0 := range ks {
			for _, k1 := range ks {
				t0, t1 := clone(background), clone(background)
				t0[p], t1[p] = k0, k1
				out = append(out, &c14Case{id: fmt.Sprintf("%s|%s|%s,%s", fam, p, c14KindNames[k0], c14KindNames[k1]),
					trees: [2]map[string]int{t0, t1}, sizeMax: sizeMax, largeFiles: lf})
			}
		}
	}
	adj := func(fam, p, q string, shardMax int, ks []int) {
		for _, kp := range ks {
			for _, kq := range ks {
				t0 := map[string]int{"a": c14Absent, "d/b": c14Absent, "d/e/c": c14Own, "x y": c14Absent}
				if p == "d/e/c" || q == "d/e/c" {
					t0["a"] = c14Own
					t0["d/e/c"] = c14Absent
				}
				t1 := clone(t0)
				t0[p], t0[q] = kp, kq
				t1[p], t1[q] = kq, kp
				out = append(out, &c14Case{id: fmt.Sprintf("%s|%s+%s|%s,%s", fam, p, q, c14KindNames[kp], c14KindNames[kq]),
					trees: [2]map[string]int{t0, t1}, sizeMax: c14SmallMax, shardMax: shardMax, largeFiles: nomatch})
			}
		}
	}
	// pair
	pairPaths := []string{"d/b", "x y"}
	if thorough {
		pairPaths = base
	}
	for _, p := range pairPaths {
		pair("pair", p, c14SmallMax, nomatch, kinds)
	}
	// adj
	adj("adj", "a", "d/b", 0, kinds)
	if thorough {
		adj("adj", "d/b", "d/e/c", 0, kinds)
		adj("adj", "d/e/c", "x y", 0, kinds)
	}
	// ign
	nIgn := 5
	if thorough {
		nIgn = len(c14IgnoreFiles)
	}
	text := map[string]int{"a": c14Own, "d/b": c14Shared, "d/e/c": c14Own, "x y": c14Shared, "f.x": c14Own, "d/g.x": c14Shared}
	for i0 := 0; i0 < nIgn; i0++ {
		for i1 := 0; i1 < nIgn; i1++ {
			out = append(out, &c14Case{id: fmt.Sprintf("ign|%d,%d", i0, i1), trees: [2]map[string]int{clone(text), clone(text)},
				ignore: [2]int{i0, i1}, sizeMax: c14SmallMax, largeFiles: nomatch})
		}
	}
	// size
	sizePaths := []string{"a"}
	if thorough {
		sizePaths = base
	}
	for _, p := range sizePaths {
		for _, k := range kinds {
			t := clone(background)
			t[p] = k
			out = append(out, &c14Case{id: fmt.Sprintf("size|%s|%s", p, c14KindNames[k]), trees: [2]map[string]int{t, clone(t)}, largeFiles: nomatch})
		}
	}
	if thorough {
		adj("shard", "a", "d/b", 40, kinds[:8])
		pair("lf", "d/b", c14SmallMax, []string{"no-such-file-*", "d/b"}, kinds)
		// prod
		k3 := []int{c14Absent, c14Shared, c14Large}
		for i := 0; i < 81; i++ {
			t0 := map[string]int{}
			n := i
			for _, p := range base {
				t0[p] = k3[n%3]
				n /= 3
			}
			mk := func(t1 map[string]int, edit string) {
				out = append(out, &c14Case{id: fmt.Sprintf("prod|%d|%s", i, edit), trees: [2]map[string]int{clone(t0), t1}, sizeMax: c14SmallMax, largeFiles: nomatch})
			}
			mk(clone(t0), "same")
			for _, p := range base {
				for _, k := range k3 {
					if k != t0[p] {
						t1 := clone(t0)
						t1[p] = k
						mk(t1, p+"="+c14KindNames[k])
					}
				}
			}
		}
	}
	return out
}

type c14Result struct {
	docs []c1314Doc
	err  error
	done bool
}

func TestVerifC14(t *testing.T) {
	r := mc.NewReport("C14")
	old := debug.SetGCPercent(400)
	defer debug.SetGCPercent(old)
	defer debug.SetMemoryLimit(debug.SetMemoryLimit(20 << 30))
	base := os.Getenv("VERIF_SCRATCH")
	if base == "" {
		base = "/dev/shm"
		if st, err := os.Stat(base); err != nil || !st.IsDir() {
			base = os.TempDir()
		}
	}
	root, err := os.MkdirTemp(base, "verif-c14-")
	if err != nil {
		t.Fatal(err)
	}
	defer os.RemoveAll(root)
	store, err := c1314NewStore(filepath.Join(root, "store.git"))
	if err != nil {
		t.Fatal(err)
	}
	if _, err := exec.LookPath("git"); err != nil {
		t.Fatalf("git binary needed for the cat-file reading path: %v", err)
	}
	prevEnv, hadEnv := os.LookupEnv("ZOEKT_DISABLE_CATFILE_BATCH")
	defer func() {
		if hadEnv {
			os.Setenv("ZOEKT_DISABLE_CATFILE_BATCH", prevEnv)
		} else {
			os.Unsetenv("ZOEKT_DISABLE_CATFILE_BATCH")
		}
	}()

	r.Assume("git objects written by go-git (loose objects, nested trees, modes 100644/100755/120000/160000) are what zoekt sees in production repositories")
	r.Assume("ignore-file reference implements the documented rules for the generated patterns only (literal prefix with implicit **, dir/, *.ext not crossing /, comments, blank lines, leading /)")
	r.Assume("skip explanations are matched by the prefix 'NOT-INDEXED: '; all other contents are at least 3 bytes or empty (1-2 byte files are 'too small' by design)")
	r.Assume("cat-file path taken when ZOEKT_DISABLE_CATFILE_BATCH=false and LargeFiles is non-empty (catfileFilterSpec == \"\" is asserted); the environment variable is process global, so all go-git runs happen before all cat-file runs")

	cases := c14Cases(r.Thorough())
	var todo []*c14Case
	for _, c := range cases {
		if r.Want(c.id) {
			todo = append(todo, c)
		}
	}
	opts := func(c *c14Case, dir string, reader int) Options {
		shardMax := c.shardMax
		if shardMax == 0 {
			shardMax = 1 << 20
		}
		return Options{
			RepoDir:  filepath.Join(dir, "repo"),
			Branches: append([]string(nil), c14Branches...),
			BuildOptions: index.Options{
				IndexDir:              filepath.Join(dir, fmt.Sprintf("idx%d", reader)),
				DisableCTags:          true,
				SizeMax:               c.sizeMax,
				ShardMax:              shardMax,
				LargeFiles:            c.largeFiles,
				RepositoryDescription: zoekt.Repository{Name: "repo"},
			},
		}
	}
	results := make([][2]c14Result, len(todo))
	readers := []string{"go-git", "cat-file"}
	run := func(i, reader int) {
		c := todo[i]
		dir := filepath.Join(root, fmt.Sprintf("c%d", i))
		res := &results[i][reader]
		defer func() {
			if e := recover(); e != nil {
				r.Violation(fmt.Sprintf("C14 %s reader=%s panic", c.id, readers[reader]), fmt.Sprintf("%s\n%s\npanic: %v\n%s", c.id, c.describe(), e, debug.Stack()), map[string]any{"case": c.id})
			}
		}()
		if reader == 0 {
			heads := map[string]plumbing.Hash{}
			for b, name := range c14Branches {
				var leaves []c1314Entry
				var paths []string
				for p := range c.trees[b] {
					paths = append(paths, p)
				}
				sort.Strings(paths)
				for _, p := range paths {
					k := c.trees[b][p]
					switch k {
					case c14Absent:
					case c14Gitlink:
						leaves = append(leaves, c1314Entry{Path: p, Mode: filemode.Submodule, Hash: plumbing.NewHash(c14GitlinkHash)})
					default:
						m, content := c14Content(k, p)
						leaves = append(leaves, c1314Entry{Path: p, Mode: m, Hash: store.blob(content)})
					}
				}
				if ig := c14IgnoreFiles[c.ignore[b]]; ig != "" {
					leaves = append(leaves, c1314Entry{Path: ".sourcegraph/ignore", Mode: filemode.Regular, Hash: store.blob([]byte(ig))})
				}
				heads[name] = store.commit(store.tree(leaves), nil, name+" "+c.id, 0)
			}
			if err := c1314WriteRepo(store, filepath.Join(dir, "repo"), "repo", heads); err != nil {
				panic(err)
			}
		}
		o := opts(c, dir, reader)
		if err := os.MkdirAll(o.BuildOptions.IndexDir, 0o755); err != nil {
			panic(err)
		}
		if reader == 1 {
			chk := o
			chk.BuildOptions.SetDefaults()
			if catfileFilterSpec(chk) != "" {
				panic("TOOL: cat-file path would need --filter")
			}
		}
		_, res.err = IndexGitRepo(o)
		r.Eval(1)
		if res.err == nil {
			res.docs, res.err = c1314Search(o.BuildOptions.IndexDir, &query.Const{Value: true})
		}
		res.done = true
		os.RemoveAll(o.BuildOptions.IndexDir)
		if reader == 1 {
			os.RemoveAll(dir)
		}
		want, interesting := c.expected()
		replay := map[string]any{"case": c.id}
		if res.err != nil {
			r.Violation(fmt.Sprintf("C14 %s reader=%s error", c.id, readers[reader]), fmt.Sprintf("%s\n%s\nreader %s: %v", c.id, c.describe(), readers[reader], res.err), replay)
			return
		}
		if got := c14Normalise(res.docs); c1314Fmt(got) != c1314Fmt(want) {
			r.Violation(fmt.Sprintf("C14 %s reader=%s", c.id, readers[reader]),
				fmt.Sprintf("case %s\n  %s\n  reader %s\n  expected documents {name content branches}: %s\n  indexed documents:                            %s", c.id, c.describe(), readers[reader], c1314Fmt(want), c1314Fmt(got)), replay)
		}
		if interesting && len(want) >= 2 {
			r.Nontrivial(c.id)
		}
		if reader == 1 && results[i][0].done && results[i][0].err == nil {
			a, b := results[i][0].docs, res.docs
			if c1314Fmt(a) != c1314Fmt(b) {
				r.Violation(fmt.Sprintf("C14 %s readers differ", c.id), fmt.Sprintf("case %s\n  %s\n  go-git:   %s\n  cat-file: %s", c.id, c.describe(), c1314Fmt(a), c1314Fmt(b)), replay)
			}
		}
		if i%61 == 0 {
			r.Sample(map[string]any{"case": c.id, "repository": c.describe(), "reader": readers[reader], "documents": c1314Fmt(res.docs)})
		}
	}
	half := time.Now().Add(c14Budget(r) / 2)
	done0 := make([]bool, len(todo))
	for reader := 0; reader < 2; reader++ {
		// the environment variable is read by every IndexGitRepo call: one phase per reader
		os.Setenv("ZOEKT_DISABLE_CATFILE_BATCH", map[int]string{0: "true", 1: "false"}[reader])
		var miss atomic.Int64
		mc.ParallelFor(len(todo), func(i int) {
			if reader == 1 && !done0[i] {
				return
			}
			// the go-git phase may use at most half of the budget so that both readers see the same cases
			if r.Expired() || (reader == 0 && time.Now().After(half)) {
				miss.Add(1)
				return
			}
			run(i, reader)
			if reader == 0 {
				done0[i] = true
			}
		})
		if m := miss.Load(); m > 0 {
			r.Incomplete("reader %s: %d of %d cases not executed (budget)", readers[reader], m, len(todo))
		}
	}
	fam := map[string]int{}
	for _, c := range todo {
		fam[strings.SplitN(c.id, "|", 2)[0]]++
	}
	r.Set("bound", fmt.Sprintf("cases per family %v, each indexed through both reading paths; kinds %v; ignore files %q", fam, c14KindNames, c14IgnoreFiles))
	r.Set("cases", len(todo))
	r.Finish("explicit products (see bound) of two-branch repositories x configuration x reading path; evaluations = IndexGitRepo runs; a case is non-trivial when the expected index has >= 2 documents and at least one of: a document on both branches, a skip explanation, a gitlink, a path excluded by an ignore file (counted by distinct repository+configuration)")
}

// c14Budget mirrors the budget of mc.Report (VERIF_BUDGET_S, else 100 s quick / 900 s thorough).
func c14Budget(r *mc.Report) time.Duration {
	b := 100.0
	if r.Thorough() {
		b = 900
	}
	if v, err := strconv.ParseFloat(os.Getenv("VERIF_BUDGET_S"), 64); err == nil && v > 0 {
		b = v
	}
	return time.Duration(b * float64(time.Second))
}
