//go:build verif

package gitindex

// C14 (second part): the content buffers handed to the builder by the cat-file reading path.
//
// indexCatfileBlobs sub-slices every blob's content from a shared 16 MiB slab (contentSlab) and
// ShardBuilder keeps the slice until the shard is written, so "the indexed content of a path is
// the blob's content" additionally needs: no two live allocations share bytes, across every
// sequence of sizes including the slab roll-over and the larger-than-slab case.
//
//  (a) every sequence of up to 5 (thorough 6) allocation sizes from {0,1,2,3,4,5,7,8,9} on the real
//      contentSlab with capacity 8: each slice is filled with its own marker directly after alloc
//      (as the reader does) and, after every later allocation, must still hold it; len == n and
//      cap == n (an append can never reach a neighbour).
//  (b) the real IndexGitRepo cat-file path on repositories whose blobs cross the real 16 MiB slab
//      boundary at every position of a small follow-up blob (before / at / after the roll-over),
//      compared blob by blob with the repository contents and with the go-git reader.

import (
	"bytes"
	"crypto/sha1"
	"fmt"
	"os"
	"path/filepath"
	"sort"
	"testing"

	"github.com/go-git/go-git/v5/plumbing"
	"github.com/go-git/go-git/v5/plumbing/filemode"

	"github.com/sourcegraph/zoekt"
	"github.com/sourcegraph/zoekt/index"
	"github.com/sourcegraph/zoekt/internal/verifshim/mc"
	"github.com/sourcegraph/zoekt/query"
)

func c14SlabSeq(r *mc.Report, sizes []int) {
	s := newContentSlab(8)
	type live struct {
		b    []byte
		mark byte
	}
	var all []live
	id := fmt.Sprintf("slab|cap=8|%v", sizes)
	for i, n := range sizes {
		b := s.alloc(n)
		if len(b) != n || cap(b) != n {
			r.Violation(fmt.Sprintf("C14 slab alloc(%d) after %v: len/cap", n, sizes[:i]), fmt.Sprintf("%s: alloc(%d) returned len=%d cap=%d, want both %d", id, n, len(b), cap(b), n), map[string]any{"case": id})
			return
		}
		m := byte(i + 1)
		for j := range b {
			b[j] = m
		}
		all = append(all, live{b, m})
		for k, l := range all {
			for _, x := range l.b {
				if x != l.mark {
					r.Violation(fmt.Sprintf("C14 slab sizes=%v: allocation %d overwritten", sizes[:i+1], k),
						fmt.Sprintf("%s: after alloc #%d (size %d) the bytes of allocation #%d (size %d) read %v, want all %d: two documents share content bytes", id, i, n, k, sizes[k], l.b, l.mark), map[string]any{"case": id})
					return
				}
			}
		}
	}
}

type c14BigFile struct {
	name string
	size int
}

func c14BigContent(f c14BigFile) []byte {
	// text with few distinct trigrams (the builder skips files with too many) and a per-file marker
	line := []byte(fmt.Sprintf("marker-%s 0123456789 abcdefghij\n", f.name))
	var b bytes.Buffer
	b.Grow(f.size + len(line))
	for b.Len() < f.size {
		b.Write(line)
	}
	out := b.Bytes()[:f.size]
	if f.size > 0 {
		out[f.size-1] = '\n'
	}
	return out
}

func TestVerifC14Slab(t *testing.T) {
	r := mc.NewReport("C14")
	r.Assume("slab sequences: the reader fills a slice completely before the next alloc (io.ReadFull directly after alloc), which is what the harness does")
	// (a)
	alphabet := []int{0, 1, 2, 3, 4, 5, 7, 8, 9}
	depth := 5
	if r.Thorough() {
		depth = 6
	}
	nseq := 0
	var rec func(prefix []int)
	rec = func(prefix []int) {
		if len(prefix) > 0 {
			id := fmt.Sprintf("slab|cap=8|%v", prefix)
			if r.Want(id) {
				c14SlabSeq(r, prefix)
				r.Eval(1)
				nseq++
				sum := 0
				for _, n := range prefix {
					sum += n
				}
				if sum > 8 && len(prefix) >= 3 {
					r.Nontrivial(id)
				}
			}
		}
		if len(prefix) == depth {
			return
		}
		for _, n := range alphabet {
			rec(append(append([]int{}, prefix...), n))
		}
	}
	rec(nil)
	r.Set("slab_sequences", nseq)

	// (b)
	base := os.Getenv("VERIF_SCRATCH")
	if base == "" {
		base = "/dev/shm"
		if st, err := os.Stat(base); err != nil || !st.IsDir() {
			base = os.TempDir()
		}
	}
	root, err := os.MkdirTemp(base, "verif-c14slab-")
	if err != nil {
		t.Fatal(err)
	}
	defer os.RemoveAll(root)
	prevEnv, hadEnv := os.LookupEnv("ZOEKT_DISABLE_CATFILE_BATCH")
	defer func() {
		if hadEnv {
			os.Setenv("ZOEKT_DISABLE_CATFILE_BATCH", prevEnv)
		} else {
			os.Unsetenv("ZOEKT_DISABLE_CATFILE_BATCH")
		}
	}()
	const mib = 1 << 20
	// blobs are read in path order; 5 x 3 MiB fill 15 of the 16 MiB, then the layouts differ
	layouts := map[string][]c14BigFile{
		"roll-then-small":       {{"f0", 3 * mib}, {"f1", 3 * mib}, {"f2", 3 * mib}, {"f3", 3 * mib}, {"f4", 3 * mib}, {"f5", 3 * mib}, {"f6", 40}, {"f7", 3 * mib}},
		"exact-fit-then-small":  {{"f0", 4 * mib}, {"f1", 4 * mib}, {"f2", 4 * mib}, {"f3", 4 * mib}, {"f4", 50}, {"f5", 60}},
		"small-rolls":           {{"f0", 4 * mib}, {"f1", 4 * mib}, {"f2", 4 * mib}, {"f3", 4*mib - 10}, {"f4", 50}, {"f5", 60}, {"f6", 70}},
		"two-rollovers":         {{"f0", 6 * mib}, {"f1", 6 * mib}, {"f2", 6 * mib}, {"f3", 30}, {"f4", 6 * mib}, {"f5", 6 * mib}, {"f6", 45}, {"f7", 6 * mib}, {"f8", 55}},
		"larger-than-slab":      {{"f0", 5 * mib}, {"f1", 17 * mib}, {"f2", 35}, {"f3", 12 * mib}, {"f4", 44}},
		"roll-on-first-of-many": {{"f0", 15 * mib}, {"f1", 2 * mib}, {"f2", 33}, {"f3", 34}, {"f4", 2 * mib}},
	}
	var names []string
	for n := range layouts {
		names = append(names, n)
	}
	sort.Strings(names)
	for _, ln := range names {
		id := "slabrepo|" + ln
		if !r.Want(id) {
			continue
		}
		if r.Expired() {
			r.Incomplete("slab repository layout %s not executed (budget)", ln)
			continue
		}
		files := layouts[ln]
		dir := filepath.Join(root, ln)
		store, err := c1314NewStore(filepath.Join(dir, "store.git"))
		if err != nil {
			t.Fatal(err)
		}
		want := map[string][20]byte{}
		var leaves []c1314Entry
		for _, f := range files {
			content := c14BigContent(f)
			want[f.name] = sha1.Sum(content)
			leaves = append(leaves, c1314Entry{Path: f.name, Mode: filemode.Regular, Hash: store.blob(content)})
		}
		head := store.commit(store.tree(leaves), nil, "big "+ln, 0)
		if err := c1314WriteRepo(store, filepath.Join(dir, "repo"), "repo", map[string]plumbing.Hash{"main": head}); err != nil {
			t.Fatal(err)
		}
		for reader, rn := range []string{"go-git", "cat-file"} {
			os.Setenv("ZOEKT_DISABLE_CATFILE_BATCH", map[int]string{0: "true", 1: "false"}[reader])
			o := Options{
				RepoDir:  filepath.Join(dir, "repo"),
				Branches: []string{"main"},
				BuildOptions: index.Options{
					IndexDir:              filepath.Join(dir, "idx-"+rn),
					DisableCTags:          true,
					SizeMax:               32 * mib,
					ShardMax:              256 * mib,
					LargeFiles:            []string{"nomatch-*"},
					RepositoryDescription: zoekt.Repository{Name: "repo"},
				},
			}
			if reader == 1 {
				chk := o
				chk.BuildOptions.SetDefaults()
				if catfileFilterSpec(chk) != "" {
					t.Fatal("TOOL: cat-file path would need --filter")
				}
			}
			os.MkdirAll(o.BuildOptions.IndexDir, 0o755)
			_, err := IndexGitRepo(o)
			r.Eval(1)
			replay := map[string]any{"case": id}
			if err != nil {
				r.Violation(fmt.Sprintf("C14 %s reader=%s error", id, rn), fmt.Sprintf("%s: %v", id, err), replay)
				continue
			}
			docs, err := c1314Search(o.BuildOptions.IndexDir, &query.Const{Value: true})
			os.RemoveAll(o.BuildOptions.IndexDir)
			if err != nil {
				r.Violation(fmt.Sprintf("C14 %s reader=%s search error", id, rn), fmt.Sprintf("%s: %v", id, err), replay)
				continue
			}
			got := map[string][20]byte{}
			for _, d := range docs {
				got[d.Name] = sha1.Sum([]byte(d.Content))
			}
			var bad []string
			for _, f := range files {
				g, ok := got[f.name]
				switch {
				case !ok:
					bad = append(bad, fmt.Sprintf("%s (%d bytes): not indexed", f.name, f.size))
				case g != want[f.name]:
					for _, d := range docs {
						if d.Name == f.name {
							n := len(d.Content)
							if n > 60 {
								n = 60
							}
							bad = append(bad, fmt.Sprintf("%s (%d bytes): indexed content differs from the blob (indexed length %d, begins %q)", f.name, f.size, len(d.Content), d.Content[:n]))
						}
					}
				}
			}
			if len(docs) != len(files) {
				bad = append(bad, fmt.Sprintf("%d documents indexed, %d blobs", len(docs), len(files)))
			}
			if len(bad) > 0 {
				r.Violation(fmt.Sprintf("C14 %s reader=%s", id, rn), fmt.Sprintf("layout %s files(name,size)=%v reader %s:\n  %s", ln, files, rn, fmt.Sprint(bad)), replay)
			}
			r.Nontrivial(id + rn)
		}
		os.RemoveAll(dir)
	}
	r.Set("slab_repository_layouts", len(names))
	r.Finish("(a) every sequence of <= depth allocation sizes on the real contentSlab(8) with an aliasing oracle; (b) 6 blob-size layouts around the real 16 MiB slab roll-over indexed by both readers and compared blob by blob (sha1) with the repository")
}
