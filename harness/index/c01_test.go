//go:build verif

package index_test

import (
	"fmt"
	"sort"
	"strings"
	"testing"

	"github.com/sourcegraph/zoekt"
	"github.com/sourcegraph/zoekt/internal/verifshim/mc"
	"github.com/sourcegraph/zoekt/query"
)

// C01: for every (shard, query) of the G-shards × G-query product the set of returned
// documents must equal the reference model's answer.
func TestVerifC01(t *testing.T) {
	r := mc.NewReport("C01")
	opts := unlimited()
	runMatrix(r, []zoekt.SearchOptions{opts}, func(sc *shardCase, q query.Q, caseID string, res *zoekt.SearchResult, opts *zoekt.SearchOptions, exp map[string]bool) {
		got := map[string]bool{}
		for _, f := range res.Files {
			k := f.Repository + "\x00" + f.FileName
			if got[k] {
				r.Violation("duplicate file: "+caseID, fmt.Sprintf("%s: file %q returned twice", caseID, k), map[string]any{"case": caseID})
			}
			got[k] = true
		}
		var missing, extra []string
		for k := range exp {
			if !got[k] {
				missing = append(missing, k)
			}
		}
		for k := range got {
			if !exp[k] {
				extra = append(extra, k)
			}
		}
		if len(missing)+len(extra) > 0 {
			sort.Strings(missing)
			sort.Strings(extra)
			show := func(ks []string) string {
				var sb strings.Builder
				for i, k := range ks {
					if i == 4 {
						fmt.Fprintf(&sb, " …(%d)", len(ks))
						break
					}
					dr := sc.byKey[k]
					if dr != nil {
						fmt.Fprintf(&sb, " %q[content=%q branches=%v]", strings.ReplaceAll(k, "\x00", ":"), dr.doc.Content, dr.doc.Branches)
					} else {
						fmt.Fprintf(&sb, " %q[unknown document]", k)
					}
				}
				return sb.String()
			}
			r.Violation("docset: "+caseID, fmt.Sprintf("%s\nquery %s\nmissing (model says match):%s\nextra (model says no match):%s", caseID, q.String(), show(missing), show(extra)), map[string]any{"case": caseID})
		}
	})
	r.Assume("reference model ref.Eval (whole-content scan; stdlib regexp) defines the expected document set")
	r.Assume("case-insensitive alphabets restricted to runes whose ToLower and SimpleFold agree (ASCII, é/É)")
	r.Finish("case = (shard, query) over G-shards × G-query (all strings over {a,b,A,space,newline,é} up to length L as documents; all substring patterns up to length 3 × case × field; G-re regexps; filter atoms; one combinator level); non-trivial = expected document set neither empty nor everything")
}
