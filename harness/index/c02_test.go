//go:build verif

package index_test

import (
	"fmt"
	"testing"

	"github.com/sourcegraph/zoekt"
	"github.com/sourcegraph/zoekt/internal/verifshim/gen"
	"github.com/sourcegraph/zoekt/internal/verifshim/mc"
	"github.com/sourcegraph/zoekt/internal/verifshim/ref"
	"github.com/sourcegraph/zoekt/query"
)

// positiveTextAtoms collects the non-negated text atoms of q. underFN marks atoms below a
// type:filename node (their candidates are never gathered by the implementation).
type posAtom struct {
	q       query.Q
	underFN bool
}

func positiveTextAtoms(q query.Q, underFN bool, out *[]posAtom) {
	switch s := q.(type) {
	case *query.And:
		for _, c := range s.Children {
			positiveTextAtoms(c, underFN, out)
		}
	case *query.Or:
		for _, c := range s.Children {
			positiveTextAtoms(c, underFN, out)
		}
	case *query.Type:
		positiveTextAtoms(s.Child, underFN || s.Type == query.TypeFileName, out)
	case *query.Boost:
		positiveTextAtoms(s.Child, underFN, out)
	case *query.Substring, *query.Regexp, *query.Symbol:
		*out = append(*out, posAtom{q, underFN})
	}
}

// atomMatchesPiece: is [s,e) of text (one channel) a match of the atom, or (lineMode) a
// newline-delimited piece of one of its matches?
func atomMatchesPiece(a query.Q, d *ref.Doc, name bool, s, e int, lineMode bool) bool {
	text := d.Content
	if name {
		text = []byte(d.Name)
	}
	pieceOf := func(ms, me int) bool {
		if ms == s && me == e {
			return true
		}
		if !lineMode || ms > s || me < e {
			return false
		}
		for i := s; i < e; i++ {
			if text[i] == '\n' {
				return false
			}
		}
		return (s == ms || text[s-1] == '\n') && (e == me || text[e] == '\n')
	}
	switch x := a.(type) {
	case *query.Substring:
		fn, ct := x.FileName, x.Content
		if fn == ct {
			fn, ct = true, true
		}
		if (name && !fn) || (!name && !ct) {
			return false
		}
		for _, m := range ref.SubstringRanges(x.Pattern, x.CaseSensitive, text) {
			if pieceOf(m[0], m[1]) {
				return true
			}
		}
	case *query.Regexp:
		fn, ct := x.FileName, x.Content
		if fn == ct {
			fn, ct = true, true
		}
		if (name && !fn) || (!name && !ct) {
			return false
		}
		sm := (&ref.SetMatcher{}).Init(x.Regexp, x.CaseSensitive).On(text)
		for ms := 0; ms <= s; ms++ {
			for me := range sm.Ends(ms) {
				if pieceOf(ms, me) {
					return true
				}
			}
		}
	case *query.Symbol:
		if name {
			return false
		}
		for _, m := range ref.SymbolRanges(x, d) {
			if pieceOf(m[0], m[1]) {
				return true
			}
		}
		// a symbol regexp may match differently when the engine is run on the section text;
		// accept any match of the expression that lies inside one section
		if re, ok := x.Expr.(*query.Regexp); ok {
			for _, sec := range d.Symbols {
				if s >= sec[0] && e <= sec[1] {
					sm := (&ref.SetMatcher{}).Init(re.Regexp, re.CaseSensitive).On(d.Content[sec[0]:sec[1]])
					if sm.IsMatch(s-sec[0], e-sec[0]) {
						return true
					}
				}
			}
		}
	}
	return false
}

// withoutPositiveText replaces every non-negated text atom outside type:filename by FALSE.
// If the document still satisfies the result, an implementation may legitimately never have
// looked for text candidates (constant folding, short-circuit) and report the whole file name.
func withoutPositiveText(q query.Q) query.Q {
	switch s := q.(type) {
	case *query.And:
		var ch []query.Q
		for _, c := range s.Children {
			ch = append(ch, withoutPositiveText(c))
		}
		return &query.And{Children: ch}
	case *query.Or:
		var ch []query.Q
		for _, c := range s.Children {
			ch = append(ch, withoutPositiveText(c))
		}
		return &query.Or{Children: ch}
	case *query.Type:
		if s.Type == query.TypeFileName {
			return q
		}
		return &query.Type{Type: s.Type, Child: withoutPositiveText(s.Child)}
	case *query.Boost:
		return &query.Boost{Boost: s.Boost, Child: withoutPositiveText(s.Child)}
	case *query.Substring, *query.Regexp, *query.Symbol:
		return &query.Const{Value: false}
	}
	return q
}

func atomHasAnyMatch(a query.Q, d *ref.Doc) bool {
	r := &ref.Repo{Name: "x", Branches: d.Branches}
	return ref.Eval(a, r, d)
}

func TestVerifC02(t *testing.T) {
	r := mc.NewReport("C02")
	var optsList []zoekt.SearchOptions
	for _, chunk := range []bool{false, true} {
		for _, ctx := range []int{0, 2} {
			o := unlimited()
			o.ChunkMatches = chunk
			o.NumContextLines = ctx
			optsList = append(optsList, o)
		}
	}
	runMatrix(r, optsList, func(sc *shardCase, q query.Q, caseID string, res *zoekt.SearchResult, opts *zoekt.SearchOptions, exp map[string]bool) {
		lineMode := !opts.ChunkMatches
		var atoms []posAtom
		positiveTextAtoms(q, false, &atoms)
		bad := func(kind string, f *zoekt.FileMatch, format string, a ...any) {
			dr := sc.byKey[f.Repository+"\x00"+f.FileName]
			r.Violation(kind+": "+caseID+" file="+f.FileName, fmt.Sprintf("%s\nquery %s\nfile %q content=%q\n%s\nreported ranges: %v", caseID, q.String(), f.FileName, dr.doc.Content, fmt.Sprintf(format, a...), fileRanges(f)), map[string]any{"case": caseID})
		}
		for fi := range res.Files {
			f := &res.Files[fi]
			dr := sc.byKey[f.Repository+"\x00"+f.FileName]
			if dr == nil {
				continue // C01's business
			}
			d := dr.doc
			// order inside each reported match
			checkSeq := func(rs []repRange) bool {
				for i := 1; i < len(rs); i++ {
					if rs[i].s < rs[i-1].e || rs[i].s < rs[i-1].s {
						return false
					}
				}
				return true
			}
			for _, lm := range f.LineMatches {
				var rs []repRange
				for _, fr := range lm.LineFragments {
					rs = append(rs, repRange{int(fr.Offset), int(fr.Offset) + fr.MatchLength, lm.FileName})
				}
				if !checkSeq(rs) {
					bad("order", f, "fragments of line %d are not increasing / overlap: %v", lm.LineNumber, rs)
				}
			}
			for _, cm := range f.ChunkMatches {
				var rs []repRange
				for _, rg := range cm.Ranges {
					rs = append(rs, repRange{int(rg.Start.ByteOffset), int(rg.End.ByteOffset), cm.FileName})
				}
				if !checkSeq(rs) {
					bad("order", f, "ranges of a chunk are not increasing / overlap: %v", rs)
				}
			}
			all := fileRanges(f)
			sortRanges(all)
			hasContent, hasName := false, false
			for i, x := range all {
				limit := len(d.Content)
				if x.name {
					limit = len(d.Name)
					hasName = true
				} else {
					hasContent = true
				}
				if x.s < 0 || x.e < x.s || x.e > limit {
					bad("bounds", f, "range [%d,%d) name=%v outside the text of length %d", x.s, x.e, x.name, limit)
					continue
				}
				if i > 0 && all[i-1].name == x.name && x.s < all[i-1].e {
					bad("overlap", f, "ranges [%d,%d) and [%d,%d) overlap", all[i-1].s, all[i-1].e, x.s, x.e)
				}
			}
			if hasContent && hasName {
				bad("mixed", f, "file reports both content and file-name ranges")
			}
			// justification of every range
			anyPos := false
			for _, a := range atoms {
				if !a.underFN && atomHasAnyMatch(a.q, d) {
					anyPos = true
				}
			}
			synthetic := len(all) == 1 && all[0].name && all[0].s == 0 && all[0].e == len(d.Name)
			for _, x := range all {
				ok := false
				for _, a := range atoms {
					if atomMatchesPiece(a.q, d, x.name, x.s, x.e, lineMode) {
						ok = true
						break
					}
				}
				if !ok && synthetic && (!anyPos || ref.Eval(withoutPositiveText(q), dr.repo, d)) {
					ok = true // no text atom had to produce a candidate: the whole file name is reported
				}
				if !ok {
					bad("unjustified", f, "range [%d,%d) name=%v (%q) is not a match of any non-negated atom at that position", x.s, x.e, x.name, textOf(d, x))
				}
			}
			// exactness for single content atoms
			split := func(ms [][2]int) [][2]int {
				var out [][2]int
				for _, m := range ms {
					if !lineMode {
						out = append(out, m)
						continue
					}
					st := m[0]
					for i := m[0]; i < m[1]; i++ {
						if d.Content[i] == '\n' {
							if i > st {
								out = append(out, [2]int{st, i})
							}
							st = i + 1
						}
					}
					if m[1] > st {
						out = append(out, [2]int{st, m[1]})
					}
				}
				return out
			}
			switch x := q.(type) {
			case *query.Substring:
				if x.Content && !x.FileName && x.Pattern != "" {
					want := split(ref.NonOverlapping(ref.SubstringRanges(x.Pattern, x.CaseSensitive, d.Content)))
					var got [][2]int
					for _, g := range all {
						if !g.name {
							got = append(got, [2]int{g.s, g.e})
						}
					}
					if fmt.Sprint(want) != fmt.Sprint(got) {
						bad("substring-exact", f, "single content substring: want leftmost non-overlapping occurrences %v, got %v", want, got)
					}
				}
			case *query.Regexp:
				if x.Content && !x.FileName {
					want := map[int]bool{}
					for _, m := range ref.RegexpRanges(x.Regexp.String(), x.CaseSensitive, d.Content) {
						for i := m[0]; i < m[1]; i++ {
							if !(lineMode && d.Content[i] == '\n') {
								want[i] = true
							}
						}
					}
					got := map[int]bool{}
					for _, g := range all {
						if !g.name {
							for i := g.s; i < g.e; i++ {
								got[i] = true
							}
						}
					}
					if fmt.Sprint(sortedInts(want)) != fmt.Sprint(sortedInts(got)) {
						bad("regexp-exact", f, "single content regexp: engine's non-empty matches cover bytes %v, reported ranges cover %v", sortedInts(want), sortedInts(got))
					}
				}
			}
		}
	})
	_ = gen.Key
	r.Assume("range order is judged inside each line/chunk match; across matches (which zoekt orders by score) ranges must be pairwise disjoint")
	r.Assume("regexp atoms: 'matched at that position' decided by ref.SetMatcher (all possible match ends); exact byte coverage by the standard library engine")
	r.Finish("case = (shard, query, line|chunk, context 0|2) over G-shards × G-query; every returned file's ranges checked: inside text, ordered, disjoint, justified by a non-negated atom, exact for single content substring / regexp; non-trivial = expected document set neither empty nor everything")
}

func textOf(d *ref.Doc, x repRange) string {
	t := d.Content
	if x.name {
		t = []byte(d.Name)
	}
	if x.s >= 0 && x.e <= len(t) && x.s <= x.e {
		return string(t[x.s:x.e])
	}
	return "?"
}
