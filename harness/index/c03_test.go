//go:build verif

package index_test

import (
	"bytes"
	"fmt"
	"sort"
	"testing"

	"github.com/sourcegraph/zoekt"
	"github.com/sourcegraph/zoekt/internal/verifshim/mc"
	"github.com/sourcegraph/zoekt/query"
)

// C03: line numbers, line bounds, context and chunk geometry are recomputed from the file
// content with the naive definitions (line n starts after the (n-1)-th newline byte).
func TestVerifC03(t *testing.T) {
	r := mc.NewReport("C03")
	var optsList []zoekt.SearchOptions
	for _, chunk := range []bool{false, true} {
		for _, ctx := range []int{0, 1, 2} {
			o := unlimited()
			o.ChunkMatches = chunk
			o.NumContextLines = ctx
			optsList = append(optsList, o)
		}
	}
	runMatrix(r, optsList, func(sc *shardCase, q query.Q, caseID string, res *zoekt.SearchResult, opts *zoekt.SearchOptions, exp map[string]bool) {
		ctx := opts.NumContextLines
		for fi := range res.Files {
			f := &res.Files[fi]
			dr := sc.byKey[f.Repository+"\x00"+f.FileName]
			if dr == nil {
				continue
			}
			c := dr.doc.Content
			bad := func(kind string, format string, a ...any) {
				r.Violation(kind+": "+caseID+" file="+f.FileName, fmt.Sprintf("%s\nquery %s\nfile %q content=%q\n%s", caseID, q.String(), f.FileName, c, fmt.Sprintf(format, a...)), map[string]any{"case": caseID})
			}
			for _, lm := range f.LineMatches {
				if lm.FileName {
					if string(lm.Line) != f.FileName {
						bad("name-line", "file-name match text %q != file name", lm.Line)
					}
					continue
				}
				n := lm.LineNumber
				ls, le := lineStartOf(c, n), lineStartOf(c, n+1)
				if n < 1 || lm.LineStart != ls || lm.LineEnd != le {
					bad("line-bounds", "line %d: reported [%d,%d), file says [%d,%d)", n, lm.LineStart, lm.LineEnd, ls, le)
					continue
				}
				if !bytes.Equal(lm.Line, c[ls:le]) {
					bad("line-text", "line %d text %q != %q", n, lm.Line, c[ls:le])
				}
				if len(lm.LineFragments) == 0 {
					bad("line-empty", "line match %d without fragments", n)
				}
				for _, fr := range lm.LineFragments {
					off := int(fr.Offset)
					if off < ls || off+fr.MatchLength > le || fr.LineOffset != off-ls || fr.MatchLength <= 0 {
						bad("fragment", "line %d [%d,%d): fragment offset=%d lineoffset=%d len=%d", n, ls, le, fr.Offset, fr.LineOffset, fr.MatchLength)
					} else if lineOfOffset(c, off) != n {
						bad("fragment-line", "fragment at %d is on line %d, reported on line %d", off, lineOfOffset(c, off), n)
					}
				}
				wantBefore := c[lineStartOf(c, n-ctx):ls]
				wantAfter := c[le:lineStartOf(c, n+1+ctx)]
				if ctx == 0 {
					wantBefore, wantAfter = nil, nil
				}
				if !bytes.Equal(lm.Before, wantBefore) || !bytes.Equal(lm.After, wantAfter) {
					bad("context", "line %d ctx=%d: before=%q after=%q, want before=%q after=%q", n, ctx, lm.Before, lm.After, wantBefore, wantAfter)
				}
			}
			type span struct{ s, e int }
			var spans []span
			for _, cm := range f.ChunkMatches {
				if cm.FileName {
					if string(cm.Content) != f.FileName {
						bad("name-chunk", "file-name chunk text %q != file name", cm.Content)
					}
					for _, rg := range cm.Ranges {
						if rg.Start.LineNumber != 1 || rg.End.LineNumber != 1 ||
							int(rg.Start.Column) != columnOf([]byte(f.FileName), 0, int(rg.Start.ByteOffset)) ||
							int(rg.End.Column) != columnOf([]byte(f.FileName), 0, int(rg.End.ByteOffset)) {
							bad("name-range-loc", "file-name range %+v", rg)
						}
					}
					continue
				}
				st := int(cm.ContentStart.ByteOffset)
				en := st + len(cm.Content)
				if st > len(c) || en > len(c) || !bytes.Equal(cm.Content, c[st:en]) {
					bad("chunk-text", "chunk [%d,%d) content %q is not that part of the file", st, en, cm.Content)
					continue
				}
				ln := int(cm.ContentStart.LineNumber)
				if cm.ContentStart.Column != 1 || ln < 1 || lineStartOf(c, ln) != st || lineOfOffset(c, st) != ln {
					bad("chunk-start", "chunk start %+v is not the start of that line (line %d starts at %d)", cm.ContentStart, ln, lineStartOf(c, ln))
				}
				if !(en == len(c) || (en > 0 && c[en-1] == '\n')) {
					bad("chunk-whole-lines", "chunk [%d,%d) does not end at a line end", st, en)
				}
				if len(cm.Ranges) == 0 {
					bad("chunk-empty", "chunk without ranges")
					continue
				}
				minLine, maxLine := 1<<30, 0
				for _, rg := range cm.Ranges {
					s, e := int(rg.Start.ByteOffset), int(rg.End.ByteOffset)
					if s < st || e > en || e < s {
						bad("chunk-contains", "range [%d,%d) outside its chunk [%d,%d)", s, e, st, en)
						continue
					}
					sl := lineOfOffset(c, s)
					if int(rg.Start.LineNumber) != sl || int(rg.Start.Column) != columnOf(c, lineStartOf(c, sl), s) {
						bad("range-start-loc", "range start offset %d: reported line %d col %d, file says line %d col %d", s, rg.Start.LineNumber, rg.Start.Column, sl, columnOf(c, lineStartOf(c, sl), s))
					}
					// the exclusive end may be expressed on the line of the last byte or on the line of the offset itself
					last := e - 1
					if last < s {
						last = s
					}
					el1 := lineOfOffset(c, last)
					el2 := lineOfOffset(c, e)
					ok1 := int(rg.End.LineNumber) == el1 && int(rg.End.Column) == columnOf(c, lineStartOf(c, el1), e)
					ok2 := int(rg.End.LineNumber) == el2 && int(rg.End.Column) == columnOf(c, lineStartOf(c, el2), e)
					if !ok1 && !ok2 {
						bad("range-end-loc", "range end offset %d: reported line %d col %d", e, rg.End.LineNumber, rg.End.Column)
					}
					if sl < minLine {
						minLine = sl
					}
					if el1 > maxLine {
						maxLine = el1
					}
				}
				wantFirst := minLine - ctx
				if wantFirst < 1 {
					wantFirst = 1
				}
				if ln != wantFirst || en != lineStartOf(c, maxLine+ctx+1) {
					bad("chunk-context", "ctx=%d ranges on lines %d..%d: chunk covers lines from %d, bytes [%d,%d); want from line %d to byte %d", ctx, minLine, maxLine, ln, st, en, wantFirst, lineStartOf(c, maxLine+ctx+1))
				}
				spans = append(spans, span{st, en})
			}
			sort.Slice(spans, func(i, j int) bool { return spans[i].s < spans[j].s })
			for i := 1; i < len(spans); i++ {
				if spans[i].s < spans[i-1].e {
					bad("chunk-overlap", "chunks [%d,%d) and [%d,%d) overlap", spans[i-1].s, spans[i-1].e, spans[i].s, spans[i].e)
				}
			}
		}
	})
	r.Assume("line n starts after the (n-1)-th newline byte; a newline byte belongs to the line it ends; columns count runes from the line start, 1-based")
	r.Assume("the exclusive end of a range may be located on the line of its last byte or on the line of the end offset")
	r.Finish("case = (shard, query, line|chunk, context 0|1|2) over G-shards × G-query; every line match / chunk of every returned file is recomputed from the file content; non-trivial = expected document set neither empty nor everything")
}
