//go:build verif

package index_test

import (
	"context"
	"fmt"
	"os"
	"sort"
	"strings"
	"testing"
	"time"

	"github.com/grafana/regexp"

	"github.com/sourcegraph/zoekt"
	"github.com/sourcegraph/zoekt/index"
	"github.com/sourcegraph/zoekt/internal/verifshim/gen"
	"github.com/sourcegraph/zoekt/internal/verifshim/mc"
	"github.com/sourcegraph/zoekt/query"
)

// canonResult serialises everything a caller can observe of a result except statistics.
func canonResult(res *zoekt.SearchResult) string {
	var fs []string
	for _, f := range res.Files {
		var sb strings.Builder
		fmt.Fprintf(&sb, "%s|%s|%v|%s|%x|", f.Repository, f.FileName, f.Branches, f.Language, f.Checksum)
		for _, lm := range f.LineMatches {
			fmt.Fprintf(&sb, "L%d[%d,%d)%v:", lm.LineNumber, lm.LineStart, lm.LineEnd, lm.FileName)
			for _, fr := range lm.LineFragments {
				fmt.Fprintf(&sb, "%d+%d,", fr.Offset, fr.MatchLength)
			}
		}
		for _, cm := range f.ChunkMatches {
			fmt.Fprintf(&sb, "C%d:%q:", cm.ContentStart.ByteOffset, cm.Content)
			for _, rg := range cm.Ranges {
				fmt.Fprintf(&sb, "%d-%d,", rg.Start.ByteOffset, rg.End.ByteOffset)
			}
		}
		fs = append(fs, sb.String())
	}
	sort.Strings(fs)
	return strings.Join(fs, "\n")
}

func c04Queries() []query.Q {
	meta := func(f, v string) query.Q { return &query.Meta{Field: f, Value: regexp.MustCompile(v)} }
	ab := &query.Substring{Pattern: "ab", Content: true}
	return []query.Q{
		meta("team", "red"),
		meta("team", "blue"),
		&query.And{Children: []query.Q{meta("team", "red"), ab}},
		&query.Or{Children: []query.Q{meta("team", "blue"), meta("tier", "1")}},
		&query.Not{Child: meta("team", "red")},
		&query.And{Children: []query.Q{meta("team", "^(red|blue)$"), &query.Branch{Pattern: "dev"}}},
		ab,
		&query.Branch{Pattern: "HEAD"},
		// pairs of different filters that look alike (equal cardinality, equal printed form "count:2"):
		// a per-shard cache of anything derived from them must not confuse them
		query.NewRepoIDs(1, 2),
		query.NewRepoIDs(2, 3),
		query.NewRepoSet("alpha/one", "beta/two"),
		query.NewRepoSet("beta/two", "alpha/three"),
		query.NewSingleBranchesRepos("HEAD", 1, 2),
		query.NewSingleBranchesRepos("HEAD", 2, 3),
	}
}

type c04op struct {
	q     int
	chunk bool
}

// c04MetaKeys lists the distinct cache keys each query of c04Queries creates.
var c04MetaKeys = [][]string{{"red"}, {"blue"}, {"red"}, {"blue", "tier"}, {"red"}, {"redblue"}, nil, nil, nil, nil, nil, nil, nil, nil}

// pollCtx is a context whose Done() is a scheduling point of the explorer (one poll per
// candidate document in indexData.Search).
type pollCtx struct {
	context.Context
	e    *mc.Exec
	name string
}

func (c *pollCtx) Done() <-chan struct{} {
	c.e.Point("ctx.Done", c.name, nil)
	return nil
}

func TestVerifC04(t *testing.T) {
	r := mc.NewReport("C04")
	dir, clean := gen.Scratch("c04")
	defer clean()
	path, err := gen.WriteCompound(dir, gen.CompoundCorpus()...)
	if err != nil {
		t.Fatal(err)
	}
	data, err := os.ReadFile(path)
	if err != nil {
		t.Fatal(err)
	}
	fresh := func(cache int) zoekt.Searcher {
		s, err := index.NewSearcher(&gen.MemFile{Data: data, Nm: path})
		if err != nil {
			panic(err)
		}
		index.VerifSetDocMatchTreeCache(s, cache)
		return s
	}
	qs := c04Queries()
	type op = c04op
	var ops []op
	for i := range qs {
		ops = append(ops, op{i, false}, op{i, true})
	}
	run := func(s zoekt.Searcher, o op, ctx context.Context) (string, error) {
		opts := unlimited()
		opts.ChunkMatches = o.chunk
		res, err := s.Search(ctx, qs[o.q], &opts)
		if err != nil {
			return "", err
		}
		return canonResult(res), nil
	}
	// expected: each search alone on a freshly loaded index (cache disabled = as shipped by default)
	expected := map[op]string{}
	nonEmpty := 0
	for _, o := range ops {
		c, err := run(fresh(0), o, context.Background())
		if err != nil {
			t.Fatal(err)
		}
		expected[o] = c
		if c != "" {
			nonEmpty++
		}
	}
	if nonEmpty < len(ops)-2 {
		r.Violation("TOOL: C04 alphabet is vacuous", fmt.Sprintf("only %d of %d searches return files", nonEmpty, len(ops)), nil)
	}

	// ---- (a) histories: BFS over search sequences, state = cache contents incl. cursors ----
	depth := 3
	if r.Thorough() {
		depth = 4
	}
	states, transitions, traces := 0, 0, 0
	for _, cache := range []int{0, 1, 2, 100, -1} {
		if cache == -1 {
			os.Setenv("ZOEKT_DOCMATCHTREE_CACHE", "3")
		}
		type node struct {
			path  []op
			canon []string // canon after each op of path (to steer around random eviction)
		}
		reach := func(n node) zoekt.Searcher {
			for try := 0; try < 400; try++ {
				s := fresh(cache)
				ok := true
				for i, o := range n.path {
					if _, err := run(s, o, context.Background()); err != nil {
						panic(err)
					}
					if index.VerifCacheCanon(s) != n.canon[i] {
						ok = false
						break
					}
				}
				traces++
				if ok {
					return s
				}
			}
			return nil
		}
		seen := map[string]bool{"": true}
		frontier := []node{{}}
		states++
		for d := 0; d < depth && len(frontier) > 0; d++ {
			var next []node
			for _, n := range frontier {
				if r.Expired() {
					r.Incomplete("C04(a): budget exhausted at depth %d cache=%d", d, cache)
					break
				}
				for _, o := range ops {
					caseID := fmt.Sprintf("hist cache=%d %v + %v", cache, n.path, o)
					if !r.Want(caseID) {
						continue
					}
					// random eviction fan-out: repeat the transition and collect distinct successors
					reps := 1
					if cache == 1 || cache == 2 {
						reps = 6 * (cache + 1)
					}
					succ := map[string]bool{}
					for rep := 0; rep < reps; rep++ {
						s := reach(n)
						if s == nil {
							r.Incomplete("C04(a): could not re-reach state %v (eviction order)", n.path)
							break
						}
						got, err := run(s, o, context.Background())
						transitions++
						r.Eval(1)
						if err != nil {
							r.Violation("search error: "+caseID, err.Error(), map[string]any{"case": caseID})
							break
						}
						if got != expected[o] {
							r.Violation(fmt.Sprintf("history: cache=%d after %v search %v differs from the same search alone", cacheName(cache), pathQ(n.path, qs), qs[o.q]),
								fmt.Sprintf("%s\nprevious searches: %v\nsearch: %v chunk=%v\nalone on a fresh index:\n%s\nafter the history:\n%s", caseID, pathQ(n.path, qs), qs[o.q], o.chunk, expected[o], got), map[string]any{"case": caseID})
						}
						c := index.VerifCacheCanon(s)
						if !succ[c] {
							succ[c] = true
							if !seen[c] {
								seen[c] = true
								states++
								next = append(next, node{append(append([]op{}, n.path...), o), append(append([]string{}, n.canon...), c)})
							}
						}
					}
					r.Nontrivial(caseID)
					if len(n.path) == 2 && o.q == 0 && !o.chunk {
						r.Sample(map[string]any{"history": pathQ(n.path, qs), "then": qs[o.q].String(), "cache": cacheName(cache), "distinct_successor_cache_states": len(succ)})
					}
				}
			}
			frontier = next
		}
		if cache == -1 {
			os.Unsetenv("ZOEKT_DOCMATCHTREE_CACHE")
		}
	}

	// ---- (b) schedules: two threads searching one index, preemption at every ctx poll and cache lock ----
	type pair struct{ a, b []op }
	var pairs []pair
	one := func(i int) []op { return []op{{i, false}} }
	for _, p := range [][2]int{{0, 0}, {0, 1}, {0, 2}, {2, 3}, {4, 0}, {5, 5}, {0, 6}, {8, 9}} {
		pairs = append(pairs, pair{one(p[0]), one(p[1])})
	}
	pairs = append(pairs, pair{[]op{{0, false}, {0, true}}, one(0)}, pair{[]op{{1, false}, {0, false}}, []op{{0, false}, {1, false}}})
	bound := 2
	if r.Thorough() {
		bound = 3
	}
	for _, cache := range []int{1, 100} {
		for _, p := range pairs {
			keys := map[string]bool{}
			for _, o := range append(append([]op{}, p.a...), p.b...) {
				for _, k := range c04MetaKeys[o.q] {
					keys[k] = true
				}
			}
			if len(keys) > cache {
				continue // eviction order is map-iteration nondeterminism the scheduler does not own; covered by (a)
			}
			name := fmt.Sprintf("sched cache=%d %v || %v", cache, pathQ(p.a, qs), pathQ(p.b, qs))
			if !r.Want(name) {
				continue
			}
			if r.Expired() {
				r.Incomplete("C04(b): budget exhausted before %s", name)
				break
			}
			var s zoekt.Searcher
			cfg := &mc.SchedConfig{Name: name, Bound: bound, Horizon: 5000, Stop: r.Expired}
			cfg.Setup = func(e *mc.Exec) {
				s = fresh(cache)
				for ti, prog := range [][]op{p.a, p.b} {
					prog := prog
					tn := fmt.Sprintf("search%d", ti)
					e.Go(tn, func() {
						for _, o := range prog {
							got, err := run(s, o, &pollCtx{context.Background(), e, tn})
							if err != nil {
								e.Fail("%s: search %v failed: %v", tn, qs[o.q], err)
							} else if got != expected[o] {
								e.Fail("%s: search %v differs from the same search alone: got\n%s\nwant\n%s", tn, qs[o.q], got, expected[o])
							}
						}
					})
				}
			}
			res := mc.Explore(cfg)
			r.SchedReport(name, res)
			r.Nontrivial(name)
			transitions += res.Transitions
		}
	}
	// ---- (c) auxiliary: the same bodies free-running (meaningful under -race only) ----
	if os.Getenv("VERIF_FREE_RUN") != "" {
		s := fresh(2)
		done := make(chan bool)
		for g := 0; g < 8; g++ {
			go func(g int) {
				for i := 0; i < 300; i++ {
					o := ops[(i+g)%len(ops)]
					got, err := run(s, o, context.Background())
					if err != nil || got != expected[o] {
						r.Violation(fmt.Sprintf("free-running: search %v differs", qs[o.q]), got, nil)
					}
				}
				done <- true
			}(g)
		}
		for g := 0; g < 8; g++ {
			select {
			case <-done:
			case <-time.After(10 * time.Minute):
			}
		}
	}
	r.Add("states", states)
	r.Add("transitions", transitions)
	r.Add("traces_validated_against_impl", traces)
	r.Set("history_depth", depth)
	r.Set("preemption_bound", bound)
	r.Assume("random cache eviction (map iteration order) is covered by repeating each transition and exploring every successor state observed, not by enumeration")
	r.Assume("data-race freedom is outside a cooperative scheduler's reach; VERIF_FREE_RUN=1 with -race runs the same bodies free-running as auxiliary evidence")
	r.Finish("(a) BFS over sequences of searches (8 queries × line/chunk) up to the stated depth for cache sizes off/1/2/100/env, states deduplicated on cache contents incl. cursors; (b) all interleavings of two searching threads with at most the stated number of preemptions at every context poll and cache lock operation; oracle: each result equals the same search alone on a freshly loaded index")
}

func cacheName(c int) any {
	if c == -1 {
		return "env:3"
	}
	return c
}

func pathQ(p interface{}, qs []query.Q) []string {
	var out []string
	switch v := p.(type) {
	case []c04op:
		for _, o := range v {
			out = append(out, fmt.Sprintf("%v(chunk=%v)", qs[o.q], o.chunk))
		}
	}
	return out
}
