//go:build verif

package index_test

import (
	"context"
	"os"
	"sync"
	"testing"

	"github.com/sourcegraph/zoekt"
	"github.com/sourcegraph/zoekt/index"
	"github.com/sourcegraph/zoekt/internal/verifshim/gen"
)

// TestVerifC04Race runs the search bodies of C04 free-running on one shared searcher with the
// match-tree cache enabled. It is meant for `go test -race` (auxiliary evidence: a cooperative
// scheduler cannot see unsynchronised accesses).
func TestVerifC04Race(t *testing.T) {
	dir, clean := gen.Scratch("c04race")
	defer clean()
	path, err := gen.WriteCompound(dir, gen.CompoundCorpus()...)
	if err != nil {
		t.Fatal(err)
	}
	data, _ := os.ReadFile(path)
	for _, cache := range []int{1, 2, 100} {
		s, err := index.NewSearcher(&gen.MemFile{Data: data, Nm: path})
		if err != nil {
			t.Fatal(err)
		}
		index.VerifSetDocMatchTreeCache(s, cache)
		qs := c04Queries()
		var wg sync.WaitGroup
		for g := 0; g < 8; g++ {
			wg.Add(1)
			go func(g int) {
				defer wg.Done()
				for i := 0; i < 200; i++ {
					o := zoekt.SearchOptions{ShardMaxMatchCount: 1 << 30, TotalMaxMatchCount: 1 << 30, ChunkMatches: i%2 == 0}
					if _, err := s.Search(context.Background(), qs[(i+g)%len(qs)], &o); err != nil {
						t.Error(err)
					}
				}
			}(g)
		}
		wg.Wait()
	}
}
