//go:build verif

package index_test

import (
	"fmt"
	"os"
	"regexp/syntax"
	"testing"

	"github.com/RoaringBitmap/roaring/v2"
	"github.com/grafana/regexp"

	"github.com/sourcegraph/zoekt/index"
	"github.com/sourcegraph/zoekt/internal/verifshim/gen"
	"github.com/sourcegraph/zoekt/internal/verifshim/mc"
	"github.com/sourcegraph/zoekt/internal/verifshim/ref"
	"github.com/sourcegraph/zoekt/query"
)

// C05: every query tree up to depth 3 over an atom set that includes all degenerate
// forms is rewritten by query.Simplify, Map(ExpandFileContent) and by the per-shard
// indexData.simplify of six shards with different repository metadata; the rewritten
// query must select the same documents as the original on every document of the shard.

func c05Atoms() []query.Q {
	re := func(s string) *regexp.Regexp { return regexp.MustCompile(s) }
	mustRe := func(p string) *query.Regexp {
		r, err := gen.Regexp(p, true, false, true)
		if err != nil {
			panic(err)
		}
		return r
	}
	return []query.Q{
		&query.Const{Value: true}, &query.Const{Value: false},
		&query.And{}, &query.Or{},
		&query.Substring{Pattern: ""}, &query.Substring{Pattern: "", FileName: true},
		&query.Substring{Pattern: "abc", Content: true}, &query.Substring{Pattern: "ab"}, &query.Substring{Pattern: "f1", FileName: true}, &query.Substring{Pattern: "ABC", CaseSensitive: true},
		&query.Regexp{Regexp: &syntax.Regexp{Op: syntax.OpEmptyMatch}}, mustRe("a.c"), mustRe("(?:)"), mustRe("b*"),
		&query.Branch{Pattern: ""}, &query.Branch{Pattern: "", Exact: true}, &query.Branch{Pattern: "dev"}, &query.Branch{Pattern: "HEAD", Exact: true},
		query.NewRepoSet(), query.NewRepoSet("alpha/one"), query.NewRepoSet("alpha/one", "beta/two", "alpha/three"),
		query.NewRepoIDs(), query.NewRepoIDs(1), query.NewRepoIDs(1, 2, 3),
		&query.BranchesRepos{}, &query.BranchesRepos{List: []query.BranchRepos{{Branch: "HEAD", Repos: roaring.New()}}}, query.NewSingleBranchesRepos("dev", 1, 3), query.NewSingleBranchesRepos("HEAD", 9),
		query.NewFileNameSet(), query.NewFileNameSet("da/f0.go"),
		&query.Repo{Regexp: re("alpha")}, &query.RepoRegexp{Regexp: re("two$")}, &query.Repo{Regexp: re("")},
		&query.Language{Language: "Go"}, &query.Language{Language: "Rust"},
		query.RcOnlyPublic, query.RcNoForks, query.RcOnlyArchived | query.RcOnlyPrivate,
		&query.Meta{Field: "team", Value: re("red")}, &query.Meta{Field: "team", Value: re(".")}, &query.Meta{Field: "nope", Value: re("")},
		&query.Symbol{Expr: &query.Substring{Pattern: "abc", Content: true}},
		// look-alike partners of atoms above: different filters whose printed form is the same
		// (String() abbreviates id sets to their size and omits some flags); appended at the end, the
		// index-based selections below stay as they are
		query.NewRepoIDs(1, 2), query.NewRepoIDs(2, 3), query.NewRepoIDs(2, 3, 9),
		query.NewSingleBranchesRepos("dev", 1, 2), query.NewSingleBranchesRepos("dev", 2, 3),
		query.NewRepoSet("alpha/one", "x1", "x2", "x3", "x4", "x5"), query.NewRepoSet("beta/two", "x1", "x2", "x3", "x4", "x5"),
		query.NewFileNameSet("da/f0.go", "y1", "y2", "y3", "y4", "y5"), query.NewFileNameSet("db/f1.py", "y1", "y2", "y3", "y4", "y5"),
		func() query.Q { r, _ := gen.Regexp("a.c", true, true, false); return r }(),
	}
}

func c05Wrap(level []query.Q, atoms []query.Q, nary bool) []query.Q {
	var out []query.Q
	for _, a := range level {
		out = append(out, &query.Not{Child: a}, &query.Type{Type: query.TypeFileName, Child: a}, &query.Type{Type: query.TypeFileMatch, Child: a}, &query.Type{Type: query.TypeRepo, Child: a},
			&query.Boost{Boost: 0.5, Child: a}, &query.And{Children: []query.Q{a}}, &query.Or{Children: []query.Q{a}})
		for _, b := range atoms {
			out = append(out, &query.And{Children: []query.Q{a, b}}, &query.Or{Children: []query.Q{a, b}}, &query.And{Children: []query.Q{b, a}}, &query.Or{Children: []query.Q{b, a}})
		}
	}
	if nary {
		for i := 0; i+2 < len(atoms); i += 3 {
			out = append(out, &query.And{Children: []query.Q{atoms[i], atoms[i+1], atoms[i+2]}}, &query.Or{Children: []query.Q{atoms[i], atoms[i+1], atoms[i+2]}})
		}
	}
	return out
}

func TestVerifC05(t *testing.T) {
	r := mc.NewReport("C05")
	dir, clean := gen.Scratch("c05")
	defer clean()
	type shard struct {
		name  string
		sc    *shardCase
		repos []*ref.Repo
	}
	var shards []shard
	addShard := func(name string, tomb int, rs ...*ref.Repo) {
		var p string
		sub := dir + "/" + name // compound shard names derive from repository names: one directory per shard
		err := os.MkdirAll(sub, 0o755)
		if err != nil {
			t.Fatal(err)
		}
		if len(rs) == 1 {
			p, err = gen.WriteSimple(sub, rs[0])
		} else {
			p, err = gen.WriteCompound(sub, rs...)
		}
		if err == nil && tomb >= 0 {
			err = index.SetTombstone(p, rs[tomb].ID)
			rs[tomb].Tombstone = true
		}
		if err != nil {
			t.Fatal(err)
		}
		sc, err := newShardCase(name, p, rs...)
		if err != nil {
			t.Fatal(err)
		}
		shards = append(shards, shard{name, sc, rs})
	}
	sym := func(rs []*ref.Repo) []*ref.Repo {
		// give one document a symbol so that sym: atoms are not constant
		rs[0].Docs[0].Symbols = [][2]int{{0, 3}}
		return rs
	}
	c := sym(gen.CompoundCorpus())
	addShard("all3", -1, c...)
	c = sym(gen.CompoundCorpus())
	addShard("tomb3", 2, c...)
	c = sym(gen.CompoundCorpus())
	addShard("tomb1", 0, c...)
	c = sym(gen.CompoundCorpus())
	addShard("alpha13", -1, c[0], c[2])
	c = sym(gen.CompoundCorpus())
	addShard("only1", -1, c[0])
	c = sym(gen.CompoundCorpus())
	addShard("only2", -1, c[1])

	atoms := c05Atoms()
	trees := append([]query.Q{}, atoms...)
	l2 := c05Wrap(atoms, atoms, true)
	trees = append(trees, l2...)
	sub := atoms
	if !r.Thorough() {
		// depth 3 against a reduced atom set in the quick tier
		sub = []query.Q{atoms[0], atoms[1], atoms[2], atoms[3], atoms[4], atoms[6], atoms[14], atoms[16], atoms[19], atoms[22], atoms[26], atoms[30], atoms[33], atoms[38]}
	}
	trees = append(trees, c05Wrap(l2, sub, false)...)
	r.Set("trees", len(trees))

	eval := func(q query.Q, corpus []*ref.Repo, rp *ref.Repo, d *ref.Doc) (res bool, unsupported bool) {
		defer func() {
			if p := recover(); p != nil {
				if _, ok := p.(ref.Unsupported); ok {
					unsupported = true
					return
				}
				panic(p)
			}
		}()
		return ref.EvalCorpus(q, corpus, rp, d), false
	}
	mc.ParallelFor(len(trees), func(i int) {
		q := trees[i]
		qk := gen.Key(q)
		if r.Expired() {
			r.Incomplete("budget exhausted")
			return
		}
		if !r.Want(qk) {
			return
		}
		type rw struct {
			name string
			f    func(sh *shard) query.Q
		}
		rws := []rw{
			{"query.Simplify", func(*shard) query.Q { return query.Simplify(q) }},
			{"Map(ExpandFileContent)", func(*shard) query.Q { return query.Map(q, query.ExpandFileContent) }},
			{"Simplify∘Expand", func(*shard) query.Q { return query.Simplify(query.Map(q, query.ExpandFileContent)) }},
			{"indexData.simplify", func(sh *shard) query.Q { return index.VerifSimplify(sh.sc.searcher, q) }},
		}
		varies := false
		for si := range shards {
			sh := &shards[si]
			for _, w := range rws {
				if si > 0 && w.name != "indexData.simplify" {
					continue // shard independent rewrites are judged once, on the full universe
				}
				var q2 query.Q
				func() {
					defer func() {
						if p := recover(); p != nil {
							r.Violation(fmt.Sprintf("%s panics on %s", w.name, qk), fmt.Sprint(p), map[string]any{"case": qk})
						}
					}()
					q2 = w.f(sh)
				}()
				if q2 == nil {
					continue
				}
				r.Eval(1)
				seenT, seenF := false, false
				for _, rp := range sh.repos {
					for _, d := range rp.Docs {
						if !ref.Live(rp, d) {
							continue
						}
						a, u1 := eval(q, sh.repos, rp, d)
						b, u2 := eval(q2, sh.repos, rp, d)
						if u1 || u2 {
							continue
						}
						if a {
							seenT = true
						} else {
							seenF = true
						}
						if a != b {
							r.Violation(fmt.Sprintf("%s changes meaning of %s", w.name, qk),
								fmt.Sprintf("rewrite %s on shard %s\noriginal  %s\nrewritten %s\ndocument %s:%s content=%q: original=%v rewritten=%v", w.name, sh.name, q, q2, rp.Name, d.Name, d.Content, a, b), map[string]any{"case": qk})
						}
					}
				}
				if seenT && seenF {
					varies = true
				}
			}
		}
		if varies {
			r.Nontrivial(qk)
		}
		if i%20011 == 0 {
			r.Sample(map[string]any{"tree": q.String(), "simplified": query.Simplify(q).String()})
		}
	})
	r.Assume("meaning = ref.EvalCorpus on every live document of the shard (type:repo = some live document of the repository satisfies the child)")
	r.Assume("case-scope handling is internal to the parser and is covered by C06 through query.Parse")
	r.Finish("case = (query tree, rewrite, shard): all trees to depth 3 over 52 atoms incl. every degenerate form and look-alike pairs (same printed form, different meaning) (quick: third level over 14 atoms) × {Simplify, ExpandFileContent, their composition, per-shard simplify on 6 shards}; non-trivial = original is true on some and false on other documents")
}
