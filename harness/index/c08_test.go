//go:build verif

package index_test

import (
	"context"
	"fmt"
	"sort"
	"strings"
	"testing"
	"unicode"

	"github.com/sourcegraph/zoekt"
	"github.com/sourcegraph/zoekt/index"
	"github.com/sourcegraph/zoekt/internal/verifshim/gen"
	"github.com/sourcegraph/zoekt/internal/verifshim/mc"
	"github.com/sourcegraph/zoekt/internal/verifshim/ref"
	"github.com/sourcegraph/zoekt/query"
)

// C08: for EVERY rune with non-trivial case folding (complete for Go's Unicode tables) and
// every ordered pair (p, c) of its fold orbit and case forms, the case-insensitive literal
// built from p is searched as a Substring and as an equivalent regular expression that the
// match-tree translation cannot turn back into a substring tree; both must return the same
// files with the same ranges on a shard that holds the contents built from all c.

func c08Orbit(r rune) []rune {
	set := map[rune]bool{r: true}
	for f := unicode.SimpleFold(r); f != r; f = unicode.SimpleFold(f) {
		set[f] = true
	}
	for changed := true; changed; {
		changed = false
		for x := range set {
			for _, y := range []rune{unicode.ToLower(x), unicode.ToUpper(x), unicode.ToTitle(x)} {
				if !set[y] {
					set[y] = true
					changed = true
				}
			}
		}
	}
	var out []rune
	for x := range set {
		out = append(out, x)
	}
	sort.Slice(out, func(i, j int) bool { return out[i] < out[j] })
	return out
}

func TestVerifC08(t *testing.T) {
	r := mc.NewReport("C08")
	// this harness holds one 30 MB shard and small results: a case that needs gigabytes does not terminate
	r.SetMemLimitMB(6144)
	// all runes with non-trivial folding, grouped by orbit
	seen := map[rune]bool{}
	var orbits [][]rune
	for x := rune(0); x <= unicode.MaxRune; x++ {
		if x >= 0xD800 && x <= 0xDFFF {
			continue
		}
		if seen[x] {
			continue
		}
		if unicode.SimpleFold(x) == x && unicode.ToLower(x) == x && unicode.ToUpper(x) == x && unicode.ToTitle(x) == x {
			continue
		}
		o := c08Orbit(x)
		for _, y := range o {
			seen[y] = true
		}
		orbits = append(orbits, o)
	}
	nRunes := len(seen)
	r.Set("runes_with_case_folding", nRunes)
	r.Set("orbits", len(orbits))
	// one shard with every content form of every rune
	repo := &ref.Repo{Name: "unicode/all", ID: 8, Branches: []string{"HEAD"}}
	di := 0
	for _, o := range orbits {
		for _, c := range o {
			s := string(c)
			for _, content := range []string{s + s + s, "a" + s + "b", "é" + s + s + s + "€ tail", s + s} {
				repo.Docs = append(repo.Docs, &ref.Doc{Name: fmt.Sprintf("d%06d", di), Content: []byte(content), Branches: []string{"HEAD"}, Language: "Text"})
				di++
			}
		}
	}
	data, err := gen.BuildSimple(repo)
	if err != nil {
		t.Fatal(err)
	}
	s, err := index.NewSearcher(&gen.MemFile{Data: data, Nm: "unicode"})
	if err != nil {
		t.Fatal(err)
	}
	contentOf := map[string]string{}
	for _, d := range repo.Docs {
		contentOf[d.Name] = string(d.Content)
	}
	type pat struct {
		text string // the literal
		re   string // equivalent regexp, not reducible to a substring tree
		p    rune
	}
	var pats []pat
	const never = `\x{10FFFF}`
	q := func(x rune) string { return fmt.Sprintf(`\x{%X}`, x) }
	for _, o := range orbits {
		for _, p := range o {
			ps := string(p)
			// every position is a two-member class, so the regexp holds no literal at all
			// (literals would be handed to the engine's own literal matcher, and to zoekt's
			// substring pre-filter)
			cl := func(x string) string { return "[" + x + never + "]" }
			pats = append(pats,
				pat{ps + ps + ps, cl(q(p)) + cl(q(p)) + cl(q(p)), p},
				pat{"a" + ps + "b", cl("a") + cl(q(p)) + cl("b"), p},
				pat{ps + ps, cl(q(p)) + cl(q(p)), p},
			)
		}
	}
	search := func(qq query.Q) (map[string][][2]uint32, error) {
		o := zoekt.SearchOptions{ShardMaxMatchCount: 1 << 30, TotalMaxMatchCount: 1 << 30, ChunkMatches: true}
		res, err := s.Search(context.Background(), qq, &o)
		if err != nil {
			return nil, err
		}
		out := map[string][][2]uint32{}
		for _, f := range res.Files {
			var rs [][2]uint32
			for _, cm := range f.ChunkMatches {
				for _, rg := range cm.Ranges {
					rs = append(rs, [2]uint32{rg.Start.ByteOffset, rg.End.ByteOffset})
				}
			}
			sort.Slice(rs, func(i, j int) bool { return rs[i][0] < rs[j][0] })
			out[f.FileName] = rs
		}
		return out, nil
	}
	mc.ParallelFor(len(pats), func(i int) {
		p := pats[i]
		caseID := fmt.Sprintf("pattern %+q", p.text)
		if !r.Want(caseID) {
			return
		}
		if r.Expired() {
			r.Incomplete("budget exhausted")
			return
		}
		re, err := gen.Regexp(p.re, false, false, true)
		if err != nil {
			r.Violation("TOOL: cannot build regexp "+p.re, err.Error(), nil)
			return
		}
		var a, b map[string][][2]uint32
		var ea, eb error
		func() {
			defer func() {
				if x := recover(); x != nil {
					ea = fmt.Errorf("panic: %v", x)
				}
			}()
			a, ea = search(&query.Substring{Pattern: p.text, CaseSensitive: false, Content: true})
			b, eb = search(re)
		}()
		r.Eval(1)
		if ea != nil || eb != nil {
			r.Violation("search failed: "+caseID, fmt.Sprint(ea, eb), map[string]any{"case": caseID})
			return
		}
		if len(a) > 1 || len(b) > 1 {
			r.Nontrivial(caseID)
		}
		var diff []string
		names := map[string]bool{}
		for n := range a {
			names[n] = true
		}
		for n := range b {
			names[n] = true
		}
		for n := range names {
			if fmt.Sprint(a[n]) != fmt.Sprint(b[n]) {
				diff = append(diff, fmt.Sprintf("content %+q: substring ranges %v, regexp ranges %v", contentOf[n], a[n], b[n]))
			}
		}
		if len(diff) > 0 {
			sort.Strings(diff)
			// key: the pattern rune and the content runes it disagrees on
			var cs []string
			for n := range names {
				if fmt.Sprint(a[n]) != fmt.Sprint(b[n]) {
					for _, x := range contentOf[n] {
						if x != 'a' && x != 'b' && x != 'é' && x != '€' && x != ' ' && x != 't' && x != 'i' && x != 'l' {
							cs = append(cs, fmt.Sprintf("%U", x))
							break
						}
					}
				}
			}
			sort.Strings(cs)
			cs = uniqStrings(cs)
			r.Violation(fmt.Sprintf("sub≠re pattern rune %U (%d-rune pattern) content runes %s", p.p, len([]rune(p.text)), strings.Join(cs, ",")),
				fmt.Sprintf("pattern %+q as case-insensitive substring vs regexp %s:\n%s", p.text, p.re, strings.Join(diff[:min(len(diff), 6)], "\n")), map[string]any{"case": caseID})
		}
		if i%1500 == 0 {
			r.Sample(map[string]any{"pattern": fmt.Sprintf("%+q", p.text), "regexp": p.re, "files_substring": len(a), "files_regexp": len(b)})
		}
	})
	r.Assume("the regexp form [p\\x{10FFFF}][p\\x{10FFFF}][p\\x{10FFFF}] is equivalent to the literal ppp on contents without U+10FFFF and is evaluated by the regexp engine alone (no substring tree)")
	r.Finish("case = one literal pattern (ppp, apb, pp) for EVERY rune p with non-trivial case folding in Go's Unicode tables, searched case-insensitively as Substring and as an equivalent regexp on one shard holding ccc, acb, é·ccc·€, cc for every such rune c; oracle: same files, same ranges; non-trivial = more than one file matches")
}

func uniqStrings(in []string) []string {
	var out []string
	for i, s := range in {
		if i == 0 || s != in[i-1] {
			out = append(out, s)
		}
	}
	return out
}
