//go:build verif

package index

import (
	"bufio"
	"bytes"
	"context"
	"encoding/json"
	"fmt"
	"hash/crc64"
	"os"
	"path/filepath"
	"reflect"
	"runtime"
	"sort"
	"strconv"
	"strings"
	"sync"
	"sync/atomic"
	"testing"
	"time"
	"unicode/utf8"

	"github.com/sourcegraph/zoekt"
	"github.com/sourcegraph/zoekt/internal/verifshim/mc"
	"github.com/sourcegraph/zoekt/query"
)

// C09: a written shard reads back every document and all metadata.
//
// Every case builds a shard with the real ShardBuilder (simple), the real merge (compound) or the
// real Builder (skip reasons), serialises it with ShardBuilder.Write, loads it with the real
// reader (NewSearcher) and compares, for every document, what Search(Const true, Whole), List and
// the in-package accessors used by merge/explode report with the expectation computed from the
// input. In addition every trigram posting list, the sampled rune offsets and the newline tables
// are compared with a plain recomputation from the input.
//
// Case identifiers: "mass|<list length>|<tuple index>" and "fam|<family>|<variant>".

const c09Big = 1 << 30

var c09Time = time.Date(2021, 3, 4, 5, 6, 7, 0, time.UTC)

type c09MemFile struct {
	data []byte
	name string
}

func (f *c09MemFile) Read(off, sz uint32) ([]byte, error) {
	if uint64(off)+uint64(sz) > uint64(len(f.data)) {
		return nil, fmt.Errorf("c09MemFile: read %d+%d beyond %d", off, sz, len(f.data))
	}
	return f.data[off : off+sz], nil
}
func (f *c09MemFile) Size() (uint32, error) { return uint32(len(f.data)), nil }
func (f *c09MemFile) Close()                {}
func (f *c09MemFile) Name() string          { return f.name }

type c09Repo struct {
	desc zoekt.Repository
	docs []Document
}

// c09Exp is what must be read back for one document.
type c09Exp struct {
	repo      string
	name      string
	content   []byte // nil for skipped documents (then only the NOT-INDEXED prefix is required)
	skipped   bool
	branches  []string
	language  string
	category  FileCategory
	subPath   string
	subName   string
	version   string
	secs      []DocumentSection
	meta      []zoekt.Symbol
	anyLang   bool // language guessed by go-enry from content that is replaced: not compared
	stored    []byte
	origIndex int
}

func c09CloneDoc(d Document) Document {
	d.Symbols = append([]DocumentSection(nil), d.Symbols...)
	d.SymbolsMetaData = append([]*zoekt.Symbol(nil), d.SymbolsMetaData...)
	d.Branches = append([]string(nil), d.Branches...)
	return d
}

// c09Expect computes the expectation for a document handed to ShardBuilder.Add.
func c09Expect(desc *zoekt.Repository, d Document) c09Exp {
	e := c09Exp{repo: desc.Name, name: d.Name, subPath: d.SubRepositoryPath}
	skip := d.SkipReason
	if d.Category == FileCategoryMissing && bytes.IndexByte(d.Content, 0) >= 0 {
		skip = SkipReasonBinary
	}
	e.skipped = skip != SkipReasonNone
	if !e.skipped {
		e.content = d.Content
		if e.content == nil {
			e.content = []byte{}
		}
	}
	// branches in repository order
	version := ""
	first := true
	for _, b := range desc.Branches {
		for _, db := range d.Branches {
			if db == b.Name {
				e.branches = append(e.branches, b.Name)
				if first {
					version = b.Version
					first = false
				}
				break
			}
		}
	}
	e.version = version
	if d.SubRepositoryPath != "" {
		sr := desc.SubRepoMap[d.SubRepositoryPath]
		if sr != nil {
			e.subName = sr.Name
			e.version = ""
			for i, b := range desc.Branches {
				on := false
				for _, db := range d.Branches {
					if db == b.Name {
						on = true
					}
				}
				if on {
					if i < len(sr.Branches) {
						e.version = sr.Branches[i].Version
					}
					break
				}
			}
		}
	}
	// category and language: explicit values must be preserved; missing ones are computed by the
	// same go-enry helpers (trusted)
	e.category = d.Category
	if d.Category == FileCategoryMissing {
		c := Document{Name: d.Name, Content: d.Content, SkipReason: skip}
		DetermineFileCategory(&c)
		e.category = c.Category
	}
	e.language = d.Language
	if d.Language == "" {
		c := Document{Name: d.Name, Content: d.Content, SkipReason: skip}
		if e.skipped {
			c.Content = nil
		}
		DetermineLanguageIfUnknown(&c)
		e.language = c.Language
	}
	if !e.skipped {
		type pair struct {
			s DocumentSection
			m zoekt.Symbol
		}
		var ps []pair
		for i, s := range d.Symbols {
			m := zoekt.Symbol{}
			if i < len(d.SymbolsMetaData) && d.SymbolsMetaData[i] != nil {
				m = *d.SymbolsMetaData[i]
			}
			m.Sym = string(d.Content[s.Start:s.End])
			ps = append(ps, pair{s, m})
		}
		// Add stores the sections ordered by start offset, each with its own metadata (inputs with
		// equal start offsets are only generated in order)
		sort.SliceStable(ps, func(i, j int) bool { return ps[i].s.Start < ps[j].s.Start })
		for _, p := range ps {
			e.secs = append(e.secs, p.s)
			e.meta = append(e.meta, p.m)
		}
	}
	return e
}

// c09AllocMu serialises the calls that allocate fresh 16 MB trigram tables (NewShardBuilder,
// merge): touching that much fresh memory from 16 goroutines at once is pathologically slow on
// the test machines (seconds instead of milliseconds), one at a time it is cheap.
var c09AllocMu sync.Mutex

func c09NewPool() *c09Pool { return &c09Pool{wb: wbNewPool()} }

type c09Pool struct {
	wb *wbPool // reused postings builders (white-box fast path, see wbpool_test.go)
	// ShardBuilder.Write wraps its destination in a 1 MB bufio.Writer unless it already is one:
	// a reusable one per worker avoids a 1 MB allocation per shard
	w   *bufio.Writer
	buf bytes.Buffer
}

func (p *c09Pool) write(b *ShardBuilder) ([]byte, error) {
	if p == nil {
		var buf bytes.Buffer
		if err := b.Write(&buf); err != nil {
			return nil, err
		}
		return buf.Bytes(), nil
	}
	p.buf.Reset()
	if p.w == nil {
		p.w = bufio.NewWriterSize(&p.buf, 1<<20)
	} else {
		p.w.Reset(&p.buf)
	}
	if err := b.Write(p.w); err != nil {
		return nil, err
	}
	if err := p.w.Flush(); err != nil {
		return nil, err
	}
	return append([]byte(nil), p.buf.Bytes()...), nil
}

// c09BuildSimple builds one simple shard. With a pool the postings builders are reused through
// postingsBuilder.reset (the path Builder takes for every shard after its first); without, the
// exported NewShardBuilder is used.
func c09BuildSimple(rp *c09Repo, pool *c09Pool) (data []byte, err error) {
	defer func() {
		if p := recover(); p != nil {
			err = fmt.Errorf("panic while building: %v", p)
		}
	}()
	var b *ShardBuilder
	if pool != nil {
		if b, err = pool.wb.newBuilder(&rp.desc); err != nil {
			return nil, err
		}
	} else {
		c09AllocMu.Lock()
		b, err = NewShardBuilder(&rp.desc)
		c09AllocMu.Unlock()
		if err != nil {
			return nil, fmt.Errorf("NewShardBuilder: %w", err)
		}
	}
	b.IndexTime = c09Time
	b.ID = "c09-shard-id"
	for i, d := range rp.docs {
		if err := b.Add(c09CloneDoc(d)); err != nil {
			return nil, fmt.Errorf("Add(document %d %q): %w", i, d.Name, err)
		}
	}
	data, err = pool.write(b)
	if err != nil {
		return nil, fmt.Errorf("Write: %w", err)
	}
	return data, nil
}

// c09BuildCompound merges simple shards with the real merge and serialises the result. With a
// pool, merge's loop (setRepository + the real addDocument per document) is run on reused postings
// builders instead, because merge itself allocates two fresh 16 MB tables per call.
func c09BuildCompound(shards [][]byte, pool *c09Pool) (data []byte, err error) {
	defer func() {
		if p := recover(); p != nil {
			err = fmt.Errorf("panic while merging: %v", p)
		}
	}()
	var ds []*indexData
	for i, sd := range shards {
		s, err := NewSearcher(&c09MemFile{data: sd, name: fmt.Sprintf("/dev/shm/verif-c09-none/in%d.zoekt", i)})
		if err != nil {
			return nil, fmt.Errorf("load input shard %d: %w", i, err)
		}
		ds = append(ds, s.(*indexData))
	}
	var sb *ShardBuilder
	if pool == nil {
		c09AllocMu.Lock()
		sb, err = merge(ds...)
		c09AllocMu.Unlock()
		if err != nil {
			return nil, fmt.Errorf("merge: %w", err)
		}
	} else {
		if sb, err = pool.wb.mergeSimple(ds); err != nil {
			return nil, fmt.Errorf("merge: %w", err)
		}
	}
	data, err = pool.write(sb)
	if err != nil {
		return nil, fmt.Errorf("Write(compound): %w", err)
	}
	return data, nil
}

func c09NormRepo(in *zoekt.Repository) map[string]any {
	r := *in
	out := map[string]any{
		"TenantID": r.TenantID, "ID": r.ID, "Name": r.Name, "URL": r.URL, "Source": r.Source,
		"CommitURLTemplate": r.CommitURLTemplate, "FileURLTemplate": r.FileURLTemplate, "LineFragmentTemplate": r.LineFragmentTemplate,
		"Rank": r.Rank, "IndexOptions": r.IndexOptions, "HasSymbols": r.HasSymbols, "Tombstone": r.Tombstone,
		"LatestCommitDate": r.LatestCommitDate.UTC().Format(time.RFC3339Nano),
	}
	md := map[string]string{}
	for k, v := range r.Metadata {
		md[k] = v
	}
	out["Metadata"] = md
	rc := map[string]string{}
	for k, v := range r.RawConfig {
		rc[k] = v
	}
	out["RawConfig"] = rc
	var br []string
	for _, b := range r.Branches {
		br = append(br, b.Name+"\x00"+b.Version)
	}
	out["Branches"] = br
	ft := []string{}
	for k := range r.FileTombstones {
		ft = append(ft, k)
	}
	sort.Strings(ft)
	out["FileTombstones"] = ft
	sub := map[string]any{}
	for k, v := range r.SubRepoMap {
		if k == "" || v == nil {
			continue
		}
		sub[k] = c09NormRepo(v)
	}
	out["SubRepoMap"] = sub
	return out
}

func c09RepoDiff(got, exp *zoekt.Repository) string {
	g, _ := json.Marshal(c09NormRepo(got))
	e, _ := json.Marshal(c09NormRepo(exp))
	if bytes.Equal(g, e) {
		return ""
	}
	return fmt.Sprintf("got  %s\nwant %s", g, e)
}

// c09Postings recomputes trigram posting lists, rune-offset samples and end runes of a corpus.
func c09Postings(texts [][]byte) (post map[ngram][]uint32, samples []uint32, endRunes []uint32, plainASCII bool) {
	post = map[ngram][]uint32{}
	plainASCII = true
	runeBase := uint32(0)
	byteBase := uint32(0)
	for _, t := range texts {
		var g [3]rune
		local := uint32(0)
		for pos := 0; pos < len(t); {
			c, sz := utf8.DecodeRune(t[pos:])
			if t[pos] >= utf8.RuneSelf {
				plainASCII = false
			}
			if (runeBase+local)%runeOffsetFrequency == 0 {
				samples = append(samples, byteBase+uint32(pos))
			}
			g[0], g[1], g[2] = g[1], g[2], c
			if local >= 2 {
				ng := runesToNGram(g)
				post[ng] = append(post[ng], runeBase+local-2)
			}
			pos += sz
			local++
		}
		runeBase += local
		byteBase += uint32(len(t))
		endRunes = append(endRunes, runeBase)
	}
	return
}

func c09CheckPostings(d *indexData, what string, bi btreeIndex, texts [][]byte, gotEnd []uint32, rom runeOffsetMap) []string {
	var probs []string
	post, samples, endRunes, _ := c09Postings(texts)
	if !(len(gotEnd) == 0 && len(endRunes) == 0) && !reflect.DeepEqual(gotEnd, endRunes) {
		probs = append(probs, fmt.Sprintf("%s end runes: got %v want %v", what, c09Trunc(gotEnd), c09Trunc(endRunes)))
	}
	for k, want := range samples {
		off, left := rom.lookup(uint32(k) * runeOffsetFrequency)
		if off != want || left != 0 {
			probs = append(probs, fmt.Sprintf("%s rune offset sample %d: got byte %d (+%d runes) want byte %d", what, k, off, left, want))
			break
		}
	}
	dump := bi.DumpMap()
	if len(dump) != len(post) {
		probs = append(probs, fmt.Sprintf("%s index lists %d distinct trigrams, input has %d", what, len(dump), len(post)))
	}
	bad := 0
	for ng, want := range post {
		sec := bi.Get(ng)
		var got []uint32
		if sec.sz > 0 {
			blob, err := d.readSectionBlob(sec)
			if err != nil {
				probs = append(probs, fmt.Sprintf("%s posting list of %q unreadable: %v", what, ng.String(), err))
				continue
			}
			got = fromDeltas(blob, nil)
		}
		if !reflect.DeepEqual(got, want) {
			bad++
			if bad <= 3 {
				probs = append(probs, fmt.Sprintf("%s posting list of trigram %q (%#x): got %v want %v", what, ng.String(), uint64(ng), c09Trunc(got), c09Trunc(want)))
			}
		}
		// neighbours that do not occur must not be found
		for _, o := range []ngram{ng + 1, ng - 1} {
			if _, ok := post[o]; !ok {
				if s := bi.Get(o); s.sz != 0 {
					probs = append(probs, fmt.Sprintf("%s: absent trigram %#x has a posting list of %d bytes", what, uint64(o), s.sz))
				}
			}
		}
	}
	if bad > 3 {
		probs = append(probs, fmt.Sprintf("%s: %d posting lists differ in total", what, bad))
	}
	return probs
}

func c09Trunc(v []uint32) string {
	if len(v) <= 12 {
		return fmt.Sprint(v)
	}
	return fmt.Sprintf("%v…(%d)", v[:12], len(v))
}

type c09VerifyOpts struct {
	compound    bool
	byName      bool // documents may be reordered inside a repository (Builder sorts them): match by name
	symbolQuery bool // additionally search every non-empty symbol section through the public API
	noIndexMeta bool
}

// c09Verify loads the shard and compares everything with the expectation. repos are in the
// order in which they appear in the shard.
func c09Verify(file IndexFile, repos []*c09Repo, exps [][]c09Exp, o c09VerifyOpts) (probs []string) {
	defer func() {
		if p := recover(); p != nil {
			buf := make([]byte, 2048)
			buf = buf[:runtime.Stack(buf, false)]
			probs = append(probs, fmt.Sprintf("panic while reading back: %v\n%s", p, buf))
		}
	}()
	add := func(format string, a ...any) {
		if len(probs) < 12 {
			probs = append(probs, fmt.Sprintf(format, a...))
		}
	}
	s, err := NewSearcher(file)
	if err != nil {
		add("shard does not load: %v", err)
		return
	}
	d := s.(*indexData)
	ctx := context.Background()

	var flat []c09Exp
	for ri := range repos {
		flat = append(flat, exps[ri]...)
	}

	// ---- public API: Search(Const true, Whole)
	opts := zoekt.SearchOptions{Whole: true, ShardMaxMatchCount: c09Big, TotalMaxMatchCount: c09Big}
	res, err := s.Search(ctx, &query.Const{Value: true}, &opts)
	if err != nil {
		add("Search(Const true) fails: %v", err)
		return
	}
	if len(res.Files) != len(flat) {
		add("Search(Const true) returns %d files, %d documents were added", len(res.Files), len(flat))
	}
	order := make([]int, len(flat)) // shard document index -> index in flat
	for i := range order {
		order[i] = i
	}
	if o.byName {
		idx := map[string]int{}
		for i, e := range flat {
			idx[e.repo+"\x00"+e.name] = i
		}
		for i := 0; i < len(res.Files) && i < len(order); i++ {
			j, ok := idx[res.Files[i].Repository+"\x00"+res.Files[i].FileName]
			if !ok {
				add("Search returns unknown document %q of %q", res.Files[i].FileName, res.Files[i].Repository)
				return
			}
			order[i] = j
		}
		seen := map[int]bool{}
		for _, j := range order[:min(len(order), len(res.Files))] {
			if seen[j] {
				add("document %q returned twice", flat[j].name)
			}
			seen[j] = true
		}
	}
	stored := make([][]byte, len(flat)) // content as stored, in shard order
	names := make([][]byte, len(flat))
	for i := 0; i < len(res.Files) && i < len(flat); i++ {
		f := &res.Files[i]
		e := &flat[order[i]]
		tag := fmt.Sprintf("document %d (%q in %q)", i, e.name, e.repo)
		if f.Repository != e.repo {
			add("%s: Repository = %q", tag, f.Repository)
		}
		if f.FileName != e.name {
			add("%s: FileName = %q", tag, f.FileName)
		}
		if e.skipped {
			if !bytes.HasPrefix(f.Content, []byte("NOT-INDEXED: ")) || len(f.Content) <= len("NOT-INDEXED: ") {
				add("%s: skipped document lacks the explanation, content = %q", tag, c09Short(f.Content))
			}
		} else if !bytes.Equal(f.Content, e.content) {
			add("%s: content differs: got %q want %q", tag, c09Short(f.Content), c09Short(e.content))
		}
		stored[i] = f.Content
		names[i] = []byte(f.FileName)
		if !(len(f.Branches) == 0 && len(e.branches) == 0) && !reflect.DeepEqual(f.Branches, e.branches) {
			add("%s: branches = %v want %v", tag, f.Branches, e.branches)
		}
		h := crc64.New(crc64.MakeTable(crc64.ISO))
		h.Write(f.Content)
		if !bytes.Equal(f.Checksum, h.Sum(nil)) {
			add("%s: checksum %x is not the checksum of the content (%x)", tag, f.Checksum, h.Sum(nil))
		}
		if f.Language != e.language {
			add("%s: language = %q want %q", tag, f.Language, e.language)
		}
		if f.SubRepositoryPath != e.subPath || f.SubRepositoryName != e.subName {
			add("%s: sub-repository = (%q,%q) want (%q,%q)", tag, f.SubRepositoryPath, f.SubRepositoryName, e.subPath, e.subName)
		}
		if f.Version != e.version {
			add("%s: version = %q want %q", tag, f.Version, e.version)
		}
	}
	if len(probs) > 0 && len(res.Files) != len(flat) {
		return
	}

	// ---- public API: List
	rl, err := s.List(ctx, &query.Const{Value: true}, nil)
	if err != nil {
		add("List fails: %v", err)
	} else {
		if len(rl.Repos) != len(repos) {
			add("List returns %d repositories, want %d", len(rl.Repos), len(repos))
		}
		for i := 0; i < len(rl.Repos) && i < len(repos); i++ {
			e := rl.Repos[i]
			if diff := c09RepoDiff(&e.Repository, &repos[i].desc); diff != "" {
				add("repository metadata of %q differs:\n%s", repos[i].desc.Name, diff)
			}
			if e.Stats.Documents != len(repos[i].docs) {
				add("repository %q: Stats.Documents = %d want %d", repos[i].desc.Name, e.Stats.Documents, len(repos[i].docs))
			}
			md := e.IndexMetadata
			wantVersion := IndexFormatVersion
			if o.compound {
				wantVersion = NextIndexFormatVersion
			}
			if md.IndexFormatVersion != wantVersion || md.IndexFeatureVersion != FeatureVersion || md.IndexMinReaderVersion != WriteMinFeatureVersion || md.ZoektVersion != Version {
				add("index metadata versions: %+v", md)
			}
			if !o.compound && !o.noIndexMeta {
				if !md.IndexTime.Equal(c09Time) {
					add("index metadata IndexTime = %v want %v", md.IndexTime, c09Time)
				}
				if md.ID != "c09-shard-id" {
					add("index metadata ID = %q", md.ID)
				}
			}
			// language map: codes by first appearance in shard order
			wantLM := map[string]uint16{}
			for i := range flat {
				if i < len(res.Files) {
					l := flat[order[i]].language
					if _, ok := wantLM[l]; !ok {
						wantLM[l] = uint16(len(wantLM))
					}
				}
			}
			if !(len(md.LanguageMap) == 0 && len(wantLM) == 0) && !reflect.DeepEqual(md.LanguageMap, wantLM) {
				add("index metadata LanguageMap = %v want %v", md.LanguageMap, wantLM)
			}
		}
	}
	// metadata through ReadMetadata (what indexserver and builder use)
	mrepos, mmd, err := ReadMetadata(file)
	if err != nil {
		add("ReadMetadata fails: %v", err)
	} else {
		if len(mrepos) != len(repos) {
			add("ReadMetadata returns %d repositories, want %d", len(mrepos), len(repos))
		}
		for i := 0; i < len(mrepos) && i < len(repos); i++ {
			if diff := c09RepoDiff(mrepos[i], &repos[i].desc); diff != "" {
				add("ReadMetadata: repository %q differs:\n%s", repos[i].desc.Name, diff)
			}
		}
		if mmd == nil {
			add("ReadMetadata returns no index metadata")
		}
	}

	// ---- accessors used by merge / explode and by the match trees
	if int(d.numDocs()) != len(flat) {
		add("shard has %d documents, %d were added", d.numDocs(), len(flat))
		return
	}
	symBase := uint32(0)
	for i := range flat {
		e := &flat[order[i]]
		tag := fmt.Sprintf("document %d (%q in %q)", i, e.name, e.repo)
		c, err := d.readContents(uint32(i))
		if err != nil {
			add("%s: readContents: %v", tag, err)
			continue
		}
		if !bytes.Equal(c, stored[i]) {
			add("%s: readContents differs from Search content", tag)
		}
		if string(d.fileName(uint32(i))) != e.name {
			add("%s: fileName() = %q", tag, d.fileName(uint32(i)))
		}
		if got := d.getCategory(uint32(i)); got != e.category {
			add("%s: category = %d want %d", tag, got, e.category)
		}
		nl, _, err := d.readNewlines(uint32(i), nil)
		if err != nil {
			add("%s: readNewlines: %v", tag, err)
		} else {
			var want []uint32
			for p, b := range c {
				if b == '\n' {
					want = append(want, uint32(p))
				}
			}
			if !(len(nl) == 0 && len(want) == 0) && !reflect.DeepEqual(nl, want) {
				add("%s: newline table = %s want %s", tag, c09Trunc(nl), c09Trunc(want))
			}
		}
		secs, _, err := d.readDocSections(uint32(i), nil)
		if err != nil {
			add("%s: readDocSections: %v", tag, err)
			continue
		}
		if !(len(secs) == 0 && len(e.secs) == 0) && !reflect.DeepEqual(secs, e.secs) {
			add("%s: symbol sections = %v want %v", tag, secs, e.secs)
		}
		if d.fileEndSymbol[i] != symBase {
			add("%s: first symbol index = %d want %d", tag, d.fileEndSymbol[i], symBase)
		}
		for k := range e.secs {
			m := d.symbols.data(symBase + uint32(k))
			if m == nil {
				add("%s: symbol %d has no metadata", tag, k)
				continue
			}
			if m.Kind != e.meta[k].Kind || m.Parent != e.meta[k].Parent || m.ParentKind != e.meta[k].ParentKind {
				add("%s: symbol %d metadata = %+v want %+v", tag, k, *m, e.meta[k])
			}
		}
		// rune sections: same boundaries, measured in runes from the start of the corpus
		symBase += uint32(len(e.secs))
	}
	if int(symBase) != len(d.runeDocSections) {
		add("shard has %d rune sections, %d symbols were added", len(d.runeDocSections), symBase)
	} else {
		k := 0
		runeBase := uint32(0)
		for i := range flat {
			e := &flat[order[i]]
			for _, sec := range e.secs {
				want := DocumentSection{runeBase + uint32(utf8.RuneCount(stored[i][:sec.Start])), runeBase + uint32(utf8.RuneCount(stored[i][:sec.End]))}
				if d.runeDocSections[k] != want {
					add("document %d: rune section %d = %v want %v", i, k, d.runeDocSections[k], want)
				}
				k++
			}
			runeBase += uint32(utf8.RuneCount(stored[i]))
		}
	}
	if len(probs) > 0 {
		return
	}

	// ---- index structures
	for _, p := range c09CheckPostings(d, "content", d.contentNgrams, stored, d.fileEndRunes, d.runeOffsets) {
		add("%s", p)
	}
	for _, p := range c09CheckPostings(d, "name", d.fileNameNgrams, names, d.fileNameEndRunes, d.fileNameRuneOffsets) {
		add("%s", p)
	}
	_, _, _, asciiC := c09Postings(stored)
	_, _, _, asciiN := c09Postings(names)
	if d.metaData.PlainASCII != (asciiC && asciiN) {
		add("index metadata PlainASCII = %v want %v", d.metaData.PlainASCII, asciiC && asciiN)
	}

	// ---- symbols through the public API
	if o.symbolQuery {
		for i := range flat {
			e := &flat[order[i]]
			done := map[string]bool{}
			for k, sec := range e.secs {
				text := e.meta[k].Sym
				if text == "" || done[text] || !utf8.ValidString(text) {
					continue
				}
				done[text] = true
				q := &query.And{Children: []query.Q{
					&query.Symbol{Expr: &query.Substring{Pattern: text, CaseSensitive: true, Content: true}},
					&query.Substring{Pattern: e.name, CaseSensitive: true, FileName: true},
				}}
				so := zoekt.SearchOptions{ChunkMatches: true, ShardMaxMatchCount: c09Big, TotalMaxMatchCount: c09Big}
				sr, err := s.Search(ctx, q, &so)
				if err != nil {
					add("symbol search %q fails: %v", text, err)
					continue
				}
				found := false
				for _, f := range sr.Files {
					if f.FileName != e.name || f.Repository != e.repo {
						continue
					}
					for _, cm := range f.ChunkMatches {
						for ri, rg := range cm.Ranges {
							if rg.Start.ByteOffset == sec.Start && rg.End.ByteOffset == sec.End {
								if ri < len(cm.SymbolInfo) && cm.SymbolInfo[ri] != nil {
									si := cm.SymbolInfo[ri]
									if si.Sym == text && si.Kind == e.meta[k].Kind && si.Parent == e.meta[k].Parent && si.ParentKind == e.meta[k].ParentKind {
										found = true
									} else {
										add("document %q: symbol search %q reports %+v want %+v", e.name, text, *si, e.meta[k])
										found = true
									}
								}
							}
						}
					}
				}
				if !found && e.name != "" {
					add("document %q: symbol search for %q does not report the section [%d,%d) with its symbol info", e.name, text, sec.Start, sec.End)
				}
			}
		}
	}
	return
}

func c09Short(b []byte) string {
	if len(b) <= 80 {
		return string(b)
	}
	return fmt.Sprintf("%s…(%d bytes)…%s", b[:40], len(b), b[len(b)-20:])
}

// ---------------------------------------------------------------------------------------------
// case construction

func c09BaseRepo(name string, id uint32, branches int) zoekt.Repository {
	r := zoekt.Repository{
		Name: name, ID: id, URL: "https://example.com/" + name, Source: "/src/" + name,
		CommitURLTemplate: "https://example.com/c/{{.Version}}", FileURLTemplate: "https://example.com/b/{{.Version}}/{{.Path}}", LineFragmentTemplate: "#L{{.LineNumber}}",
	}
	for i := 0; i < branches; i++ {
		r.Branches = append(r.Branches, zoekt.RepositoryBranch{Name: "b" + strconv.Itoa(i), Version: fmt.Sprintf("v%d-%s", i, name)})
	}
	return r
}

func c09RuneBounds(content []byte) []uint32 {
	var out []uint32
	for pos := 0; pos < len(content); {
		out = append(out, uint32(pos))
		_, sz := utf8.DecodeRune(content[pos:])
		pos += sz
	}
	return append(out, uint32(len(content)))
}

var c09Names = []string{"a.go", "é.go", "dir/é/ü.txt", "x y", "n\xff", "dir/a.go", "b", "README.md"}
var c09Langs = []string{"Go", "Text", "C#", "язык"}
var c09Cats = []FileCategory{FileCategoryDefault, FileCategoryTest, FileCategoryVendored, FileCategoryGenerated, FileCategoryConfig, FileCategoryDotFile, FileCategoryBinary, FileCategoryDocumentation}

// c09MassDoc derives all attributes other than content deterministically from (case, position).
func c09MassDoc(content []byte, k int, repoBranches int) Document {
	d := Document{
		Name:     c09Names[k%len(c09Names)],
		Content:  content,
		Language: c09Langs[(k/3)%len(c09Langs)],
		Category: c09Cats[(k/5)%len(c09Cats)],
	}
	mask := k % (1 << repoBranches)
	for b := 0; b < repoBranches; b++ {
		if mask&(1<<b) != 0 {
			d.Branches = append(d.Branches, "b"+strconv.Itoa(b))
		}
	}
	rb := c09RuneBounds(content)
	sym := func(s, e uint32, kind string) {
		d.Symbols = append(d.Symbols, DocumentSection{s, e})
		d.SymbolsMetaData = append(d.SymbolsMetaData, &zoekt.Symbol{Kind: kind, Parent: "P" + kind, ParentKind: "pk"})
	}
	switch (k / 7) % 5 {
	case 1:
		if len(rb) >= 2 {
			sym(rb[0], rb[1], "func")
		}
	case 2:
		if len(rb) >= 3 {
			sym(rb[0], rb[1], "func")
			sym(rb[1], rb[len(rb)-1], "")
		}
	case 3:
		sym(rb[len(rb)-1], rb[len(rb)-1], "label")
	case 4:
		if len(rb) >= 3 {
			sym(rb[1], rb[1], "z")
			sym(rb[1], rb[2], "class")
		}
	}
	return d
}

func c09AllStrings(sigma []string, maxLen int) []string {
	out := []string{""}
	prev := []string{""}
	for l := 1; l <= maxLen; l++ {
		var cur []string
		for _, p := range prev {
			for _, s := range sigma {
				cur = append(cur, p+s)
			}
		}
		out = append(out, cur...)
		prev = cur
	}
	return out
}

type c09Case struct {
	id        string
	repos     []*c09Repo // one simple shard per repo; >1 = also/only merged
	pooled    bool       // simple shards are built on reused postings builders
	realMerge bool       // compound shard through the real merge() (else merge's loop on reused builders)
	opts      c09VerifyOpts
	desc      string
	nontriv   bool
}

// c09Run builds the case as simple shard(s) and, when it has several repositories (or when
// alsoCompound), as a compound shard, and verifies each. It returns problems.
func c09Run(c *c09Case, pool *c09Pool, alsoCompound bool) (probs []string) {
	var shards [][]byte
	exps := make([][]c09Exp, len(c.repos))
	for ri, rp := range c.repos {
		for _, d := range rp.docs {
			exps[ri] = append(exps[ri], c09Expect(&rp.desc, d))
		}
		var p *c09Pool
		if c.pooled {
			p = pool
		}
		data, err := c09BuildSimple(rp, p)
		if err != nil {
			return []string{fmt.Sprintf("building the simple shard of %q fails: %v", rp.desc.Name, err)}
		}
		shards = append(shards, data)
		o := c.opts
		o.compound = false
		for _, pr := range c09Verify(&c09MemFile{data: data, name: "/dev/shm/verif-c09-none/s.zoekt"}, []*c09Repo{rp}, exps[ri:ri+1], o) {
			probs = append(probs, fmt.Sprintf("[simple shard %q] %s", rp.desc.Name, pr))
		}
	}
	if len(probs) > 0 {
		return probs
	}
	if len(c.repos) > 1 || alsoCompound {
		var cp *c09Pool
		if !c.realMerge {
			cp = pool
		}
		data, err := c09BuildCompound(shards, cp)
		if err != nil {
			return []string{fmt.Sprintf("[compound] %v", err)}
		}
		// merge drops repositories without documents (by design) and orders by priority (all 0 here)
		var rs []*c09Repo
		var es [][]c09Exp
		for ri, rp := range c.repos {
			if len(rp.docs) > 0 {
				rs = append(rs, rp)
				es = append(es, exps[ri])
			}
		}
		if len(rs) == 0 {
			return probs
		}
		o := c.opts
		o.compound = true
		for _, pr := range c09Verify(&c09MemFile{data: data, name: "/dev/shm/verif-c09-none/c.zoekt"}, rs, es, o) {
			probs = append(probs, "[compound shard] "+pr)
		}
	}
	return probs
}

// c09DistinctRunes returns a text with exactly n distinct trigrams (n+2 pairwise distinct runes).
func c09DistinctRunes(n int, base rune) []byte {
	var sb strings.Builder
	for i := 0; i < n+2; i++ {
		r := base + rune(i)
		if r >= 0xD800 && r <= 0xDFFF {
			r += 0x800
		}
		sb.WriteRune(r)
	}
	return []byte(sb.String())
}

// c09ASCIITrigrams returns an ASCII text with exactly n distinct trigrams.
func c09ASCIITrigrams(n int) []byte {
	const sigma = "abcdefghijklmnopqrstuvwx"
	var out []byte
	seen := map[[3]byte]bool{}
	state := uint32(12345)
	for len(seen) < n {
		state = state*1664525 + 1013904223
		out = append(out, sigma[(state>>16)%uint32(len(sigma))])
		if l := len(out); l >= 3 {
			seen[[3]byte{out[l-3], out[l-2], out[l-1]}] = true
		}
	}
	return out
}

func c09Families(thorough bool) []*c09Case {
	var cases []*c09Case
	// Fresh builders (exported NewShardBuilder, real merge) cost two 16 MB tables each; they are used
	// for one case of every family and for every merged case, the rest reuses pooled tables.
	freshSeen := map[string]bool{}
	addCase := func(id, desc string, symQ bool, repos ...*c09Repo) {
		fam := id
		if i := strings.IndexByte(id, '|'); i >= 0 {
			fam = id[:i]
		}
		merged := strings.HasSuffix(id, "|merged")
		pooled := merged || freshSeen[fam]
		if !merged {
			freshSeen[fam] = true
		}
		cases = append(cases, &c09Case{id: "fam|" + id, repos: repos, desc: desc, opts: c09VerifyOpts{symbolQuery: symQ}, nontriv: true, pooled: pooled, realMerge: true})
	}
	other := func() *c09Repo {
		r := c09BaseRepo("other/repo", 900, 2)
		return &c09Repo{desc: r, docs: []Document{
			{Name: "o1.txt", Content: []byte("other one é\n"), Branches: []string{"b0"}, Language: "Text", Category: FileCategoryDefault},
			{Name: "o2.txt", Content: []byte("other two"), Branches: []string{"b1", "b0"}, Language: "Text", Category: FileCategoryDefault},
		}}
	}

	// names
	{
		r := c09BaseRepo("names/repo", 1, 1)
		rp := &c09Repo{desc: r}
		for i, n := range []string{"a", "é.go", "dir/é/ü.txt", "", strings.Repeat("long/", 60) + "x.go", "\xff\xfe", "a\nb", "x y", "a", "日本語.txt", "ab", "abc"} {
			rp.docs = append(rp.docs, Document{Name: n, Content: []byte(fmt.Sprintf("content %d of %q\n", i, n)), Branches: []string{"b0"}, Language: "Text", Category: FileCategoryDefault})
		}
		addCase("names", "file names: empty, multi-byte, invalid UTF-8, newline, 300 bytes, duplicates", false, rp)
		addCase("names+other", "names family merged with a second repository", false, rp, other())
	}
	// branches
	for _, nb := range []int{0, 1, 2, 31, 32, 33, 63, 64} {
		r := c09BaseRepo(fmt.Sprintf("branches%d/repo", nb), 2, nb)
		rp := &c09Repo{desc: r}
		sets := [][]int{{}}
		if nb >= 1 {
			sets = append(sets, []int{0}, []int{nb - 1}, []int{0, nb - 1})
			all := []int{}
			for i := 0; i < nb; i++ {
				all = append(all, i)
			}
			sets = append(sets, all)
		}
		if nb >= 33 {
			sets = append(sets, []int{31}, []int{32}, []int{31, 32})
		}
		if nb >= 34 {
			sets = append(sets, []int{30, 33})
		}
		for i, set := range sets {
			d := Document{Name: fmt.Sprintf("f%d.txt", i), Content: []byte(fmt.Sprintf("branch set %v\n", set)), Language: "Text", Category: FileCategoryDefault}
			// given in reverse order on purpose: the set is what matters
			for j := len(set) - 1; j >= 0; j-- {
				d.Branches = append(d.Branches, "b"+strconv.Itoa(set[j]))
			}
			rp.docs = append(rp.docs, d)
		}
		addCase(fmt.Sprintf("branches|%d", nb), fmt.Sprintf("repository with %d branches, documents on {none, first, last, first+last, all, around bit 32}", nb), false, rp)
		addCase(fmt.Sprintf("branches|%d|merged", nb), fmt.Sprintf("repository with %d branches merged into a compound shard", nb), false, rp, other())
	}
	// branch positions: repositories of one compound shard list the same branch names at different
	// positions; the last document of one repository and the first document of the next carry the
	// same branch list (anything remembered about "the previous document's branches" is per repository)
	{
		layouts := [][]string{{"main", "release"}, {"main", "dev", "release"}, {"release", "main"}, {"dev"}}
		mk := func(li int, first, last []string) *c09Repo {
			r := c09BaseRepo(fmt.Sprintf("branchpos/r%d", li), uint32(700+li), 0)
			for i, b := range layouts[li] {
				r.Branches = append(r.Branches, zoekt.RepositoryBranch{Name: b, Version: fmt.Sprintf("v%d-%d", li, i)})
			}
			rp := &c09Repo{desc: r}
			add := func(nm string, br []string) {
				rp.docs = append(rp.docs, Document{Name: nm, Content: []byte(fmt.Sprintf("layout %d %s on %v\n", li, nm, br)), Branches: append([]string{}, br...), Language: "Text", Category: FileCategoryDefault})
			}
			if first != nil {
				add("first.txt", first)
			}
			add("mid.txt", layouts[li][:1])
			if last != nil {
				add("last.txt", last)
			}
			return rp
		}
		has := func(li int, br []string) bool {
			for _, b := range br {
				ok := false
				for _, x := range layouts[li] {
					ok = ok || x == b
				}
				if !ok {
					return false
				}
			}
			return true
		}
		for _, shared := range [][]string{{"release"}, {"main"}, {"main", "release"}, {"release", "main"}, {"dev"}} {
			for x := range layouts {
				for y := range layouts {
					if x == y || !has(x, shared) || !has(y, shared) {
						continue
					}
					addCase(fmt.Sprintf("branchpos|%d-%d|%s|merged", x, y, strings.Join(shared, "+")),
						fmt.Sprintf("branches %v then %v in one compound shard, boundary documents both on %v", layouts[x], layouts[y], shared), false, mk(x, nil, shared), mk(y, shared, nil))
				}
			}
		}
	}
	// languages and categories
	{
		r := c09BaseRepo("lang/repo", 3, 1)
		rp := &c09Repo{desc: r}
		for i, l := range []string{"", "Go", "C#", "язык", "", "Go", strings.Repeat("L", 300)} {
			name := []string{"main.go", "x.txt", "y.cs", "z", "Makefile", "dup.go", "w"}[i]
			rp.docs = append(rp.docs, Document{Name: name, Content: []byte("package main\n\nfunc main() {}\n"), Branches: []string{"b0"}, Language: l})
		}
		for i, c := range append([]FileCategory{FileCategoryMissing}, c09Cats...) {
			name := []string{"plain.go", "c1", "c2_test.go", "vendor/c3.go", "c4", "c5.json", ".c6", "c7.bin", "README.md"}[i]
			rp.docs = append(rp.docs, Document{Name: name, Content: []byte("some text here\n"), Branches: []string{"b0"}, Language: "Text", Category: c})
		}
		addCase("lang-cat", "languages (empty = detected, unknown names, 300-byte name) and every file category", false, rp)
		addCase("lang-cat|merged", "languages and categories through merge", false, other(), rp)
		for _, n := range []int{255, 256, 257, 300} {
			r := c09BaseRepo(fmt.Sprintf("lang%d/repo", n), 4, 1)
			rp := &c09Repo{desc: r}
			for i := 0; i < n; i++ {
				rp.docs = append(rp.docs, Document{Name: fmt.Sprintf("f%03d", i), Content: []byte(fmt.Sprintf("doc %d", i)), Branches: []string{"b0"}, Language: fmt.Sprintf("lang-%d", i), Category: FileCategoryDefault})
			}
			addCase(fmt.Sprintf("langs|%d", n), fmt.Sprintf("%d distinct languages in one shard (two-byte language codes)", n), false, rp)
		}
	}
	// sub-repositories
	{
		r := c09BaseRepo("super/repo", 5, 2)
		mk := func(name string) *zoekt.Repository {
			s := c09BaseRepo(name, 0, 2)
			return &s
		}
		r.SubRepoMap = map[string]*zoekt.Repository{"": mk("root-must-be-dropped"), "sub": mk("sub/repo"), "sub/deeper": mk("deeper/repo"), "zeta": mk("zeta/repo")}
		rp := &c09Repo{desc: r}
		for i, x := range [][2]string{{"zeta/q.txt", "zeta"}, {"root.txt", ""}, {"sub/deeper/y.txt", "sub/deeper"}, {"sub/x.txt", "sub"}, {"zeta/r.txt", "zeta"}, {"sub/z.txt", "sub"}, {"last.txt", ""}} {
			br := []string{"b0", "b1"}[i%2 : i%2+1]
			rp.docs = append(rp.docs, Document{Name: x[0], Content: []byte("in " + x[1] + "\n"), Branches: br, SubRepositoryPath: x[1], Language: "Text", Category: FileCategoryDefault})
		}
		addCase("subrepos", "documents in three sub-repositories in non-monotonic order", false, rp)
		addCase("subrepos|merged", "sub-repositories through merge", false, rp, other())
	}
	// repository metadata
	{
		r := c09BaseRepo("meta/repo", 77, 3)
		r.TenantID = 0
		r.Metadata = map[string]string{"k": "v", "é": "ü", "empty": ""}
		r.RawConfig = map[string]string{"public": "1", "fork": "0", "archived": "1", "other": "x y"}
		r.Rank = 4711
		r.IndexOptions = "hash-of-options"
		r.HasSymbols = true
		r.LatestCommitDate = time.Date(2020, 2, 29, 23, 59, 58, 123456789, time.UTC)
		r.FileTombstones = map[string]struct{}{"not/present.txt": {}}
		rp := &c09Repo{desc: r, docs: []Document{{Name: "m.txt", Content: []byte("meta\n"), Branches: []string{"b1"}, Language: "Text", Category: FileCategoryDefault}}}
		addCase("metadata", "every Repository field populated", false, rp)
		addCase("metadata|merged", "every Repository field populated, merged", false, rp, other())
		r2 := zoekt.Repository{Name: "bare"}
		addCase("metadata|bare", "repository with a name only and no documents", false, &c09Repo{desc: r2})
		r3 := zoekt.Repository{Name: "bare-docs"}
		addCase("metadata|bare-docs", "repository with a name only, one document on no branch", false, &c09Repo{desc: r3, docs: []Document{{Name: "f", Content: []byte("x")}}})
	}
	// symbols: all valid section lists over <= 4 boundaries of "aéb\nc"
	{
		content := []byte("aéb\nc")
		rb := c09RuneBounds(content)
		kinds := []string{"", "func", "class"}
		all := &c09Repo{desc: c09BaseRepo("symbols/all", 6, 1)}
		n := 0
		addDoc := func(secs []DocumentSection) {
			d := Document{Name: fmt.Sprintf("s%03d.txt", n), Content: content, Branches: []string{"b0"}, Language: "Text", Category: FileCategoryDefault}
			for k, s := range secs {
				d.Symbols = append(d.Symbols, s)
				d.SymbolsMetaData = append(d.SymbolsMetaData, &zoekt.Symbol{Kind: kinds[(n+k)%3], Parent: []string{"", "Par"}[(n/2+k)%2], ParentKind: kinds[(n/3)%3]})
			}
			n++
			all.docs = append(all.docs, d)
			rp := &c09Repo{desc: c09BaseRepo("symbols/one", 6, 1), docs: []Document{d}}
			addCase(fmt.Sprintf("symbols|%v", secs), fmt.Sprintf("one document %q with sections %v", content, secs), true, rp)
		}
		addDoc(nil)
		for a := 0; a < len(rb); a++ {
			for b := a; b < len(rb); b++ {
				addDoc([]DocumentSection{{rb[a], rb[b]}})
				for c := b; c < len(rb); c++ {
					for e := c; e < len(rb); e++ {
						addDoc([]DocumentSection{{rb[a], rb[b]}, {rb[c], rb[e]}})
						if a != c {
							// the same sections handed over in the other order (Add sorts sections AND their metadata)
							addDoc([]DocumentSection{{rb[c], rb[e]}, {rb[a], rb[b]}})
						}
					}
				}
			}
		}
		addCase("symbols|all-in-one", "all section lists as documents of one shard (symbol indices accumulate)", true, all)
		addCase("symbols|all-in-one|merged", "all section lists, merged", true, other(), all)
		// many symbols, varint widths of the deltas
		var sb strings.Builder
		var secs []DocumentSection
		pos := 0
		for i := 0; i < 320; i++ {
			gap := []int{1, 126, 127, 128, 129, 16382, 16383, 16384, 3}[i%9]
			if i >= 40 {
				gap = 1 + i%5
			}
			sb.WriteString(strings.Repeat("x", gap))
			pos += gap
			w := fmt.Sprintf("sym%dé", i)
			sb.WriteString(w)
			secs = append(secs, DocumentSection{uint32(pos), uint32(pos + len(w))})
			pos += len(w)
		}
		d := Document{Name: "many.txt", Content: []byte(sb.String()), Branches: []string{"b0"}, Language: "Text", Category: FileCategoryDefault, Symbols: secs}
		for i := range secs {
			d.SymbolsMetaData = append(d.SymbolsMetaData, &zoekt.Symbol{Kind: fmt.Sprintf("kind%d", i%70), Parent: fmt.Sprintf("parent%d", i%33), ParentKind: fmt.Sprintf("kind%d", (i+1)%70)})
		}
		rp := &c09Repo{desc: c09BaseRepo("symbols/many", 6, 1), docs: []Document{{Name: "pre.txt", Content: []byte("pre é"), Branches: []string{"b0"}, Language: "Text", Category: FileCategoryDefault}, d}}
		addCase("symbols|many", "320 symbols with section deltas around 127/128 and 16383/16384 on one long line", true, rp)
		addCase("symbols|many|merged", "320 symbols, merged", true, rp, other())
	}
	// sizes: rune counts around the 100-rune samples with multi-byte runes on the boundary
	{
		var ks []int
		for _, base := range []int{100, 200, 300} {
			for dlt := -3; dlt <= 3; dlt++ {
				ks = append(ks, base+dlt)
			}
		}
		for _, first := range []string{"", "é", "ab\xffc"} {
			rp := &c09Repo{desc: c09BaseRepo("sizes/repo", 7, 1)}
			if first != "" {
				rp.docs = append(rp.docs, Document{Name: "first", Content: []byte(first), Branches: []string{"b0"}, Language: "Text", Category: FileCategoryDefault})
			}
			for _, k := range ks {
				for vi, filler := range []string{"x", "é", "€"} {
					var sb strings.Builder
					for i := 0; i < k; i++ {
						if i%10 == 9 {
							sb.WriteByte('\n')
						} else if i%3 == vi%3 {
							sb.WriteString(filler)
						} else {
							sb.WriteByte('y')
						}
					}
					pre := sb.Len()
					sb.WriteString("€MARK")
					sb.WriteString(strconv.Itoa(k))
					d := Document{Name: fmt.Sprintf("k%d-%d", k, vi), Content: []byte(sb.String()), Branches: []string{"b0"}, Language: "Text", Category: FileCategoryDefault}
					d.Symbols = []DocumentSection{{uint32(pre), uint32(pre + 3)}, {uint32(pre + 3), uint32(sb.Len())}}
					d.SymbolsMetaData = []*zoekt.Symbol{{Kind: "euro"}, {Kind: "mark", Parent: "€"}}
					rp.docs = append(rp.docs, d)
				}
			}
			addCase(fmt.Sprintf("sizes|first=%q", first), "documents whose rune counts straddle the 100-rune offset samples, multi-byte runes on the boundary", true, rp)
			if first == "é" {
				addCase("sizes|merged", "size family merged", true, other(), rp)
			}
		}
		long := &c09Repo{desc: c09BaseRepo("long/repo", 8, 1)}
		long.docs = append(long.docs, Document{Name: "empty", Content: []byte{}, Branches: []string{"b0"}, Language: "Text", Category: FileCategoryDefault})
		long.docs = append(long.docs, Document{Name: "line70k", Content: bytes.Repeat([]byte("abcdefg é"), 7000), Branches: []string{"b0"}, Language: "Text", Category: FileCategoryDefault})
		long.docs = append(long.docs, Document{Name: "nil", Content: nil, Branches: []string{"b0"}, Language: "Text", Category: FileCategoryDefault})
		long.docs = append(long.docs, Document{Name: "newlines", Content: bytes.Repeat([]byte("\n"), 300), Branches: []string{"b0"}, Language: "Text", Category: FileCategoryDefault})
		long.docs = append(long.docs, Document{Name: "invalid", Content: []byte("\xff\xfe\xc3(\xe2\x82\xf0\x9f\x92"), Branches: []string{"b0"}, Language: "Text", Category: FileCategoryDefault})
		addCase("long", "empty file, nil content, one 70k-byte line, 300 newlines, invalid UTF-8", false, long)
		addCase("long|merged", "long family merged", false, long, other())
	}
	// trigram counts around the b-tree bucket size (512 per leaf)
	{
		counts := []int{1, 2, 511, 512, 513, 1023, 1024, 1025, 1535, 1536, 1537, 2048, 2049}
		if thorough {
			counts = append(counts, 25599, 25600, 25601, 51199, 51200, 51201, 51713)
		}
		for _, n := range counts {
			for vi, gen := range []func(int) []byte{
				func(n int) []byte { return c09DistinctRunes(n, 0x100) },
				func(n int) []byte { return c09DistinctRunes(n, 0x3000) },
			} {
				rp := &c09Repo{desc: c09BaseRepo("trigrams/repo", 9, 1)}
				rp.docs = append(rp.docs, Document{Name: "t", Content: gen(n), Branches: []string{"b0"}, Language: "Text", Category: FileCategoryDefault})
				addCase(fmt.Sprintf("trigrams|%d|runes%d", n, vi), fmt.Sprintf("%d distinct non-ASCII trigrams", n), false, rp)
			}
			if n <= 13000 {
				rp := &c09Repo{desc: c09BaseRepo("trigrams/repo", 9, 1)}
				rp.docs = append(rp.docs, Document{Name: "t", Content: c09ASCIITrigrams(n), Branches: []string{"b0"}, Language: "Text", Category: FileCategoryDefault})
				rp.docs = append(rp.docs, Document{Name: "u", Content: c09ASCIITrigrams(n / 2), Branches: []string{"b0"}, Language: "Text", Category: FileCategoryDefault})
				addCase(fmt.Sprintf("trigrams|%d|ascii", n), fmt.Sprintf("%d distinct ASCII trigrams", n), false, rp)
				if n == 513 || n == 1024 {
					addCase(fmt.Sprintf("trigrams|%d|ascii|merged", n), fmt.Sprintf("%d distinct ASCII trigrams, merged", n), false, rp, other())
				}
			}
		}
		// file-name trigrams
		for _, n := range []int{511, 512, 513, 1025} {
			rp := &c09Repo{desc: c09BaseRepo("nametrigrams/repo", 10, 1)}
			txt := c09DistinctRunes(n, 0x400)
			rs := []rune(string(txt))
			for i := 0; i+3 <= len(rs); i += 3 {
				rp.docs = append(rp.docs, Document{Name: string(rs[i:min(i+5, len(rs))]), Content: []byte("c"), Branches: []string{"b0"}, Language: "Text", Category: FileCategoryDefault})
			}
			addCase(fmt.Sprintf("nametrigrams|%d", n), "many distinct file-name trigrams", false, rp)
		}
	}
	// skip reasons through ShardBuilder.Add
	{
		rp := &c09Repo{desc: c09BaseRepo("skips/repo", 11, 2)}
		for i, sr := range []SkipReason{SkipReasonTooLarge, SkipReasonTooSmall, SkipReasonBinary, SkipReasonTooManyTrigrams, SkipReasonMissing, SkipReasonNone} {
			d := Document{Name: fmt.Sprintf("skip%d.go", i), Content: []byte("package skipped\n"), Branches: []string{"b1"}, SkipReason: sr, Language: "Go", Category: FileCategoryDefault,
				Symbols: []DocumentSection{{0, 7}}, SymbolsMetaData: []*zoekt.Symbol{{Kind: "package"}}}
			rp.docs = append(rp.docs, d)
		}
		// binary detected by ShardBuilder.Add itself (category not pre-computed)
		rp.docs = append(rp.docs, Document{Name: "bin.dat", Content: []byte("ab\x00cd"), Branches: []string{"b0", "b1"}, Language: "Text"})
		rp.docs = append(rp.docs, Document{Name: "tiny1", Content: []byte("a"), Branches: []string{"b0"}, Language: "Text", Category: FileCategoryDefault})
		rp.docs = append(rp.docs, Document{Name: "tiny2", Content: []byte("é"), Branches: []string{"b0"}, Language: "Text", Category: FileCategoryDefault})
		rp.docs = append(rp.docs, Document{Name: "skip-nolang.py", Content: []byte("print(1)\n"), Branches: []string{"b0"}, SkipReason: SkipReasonTooLarge})
		addCase("skips", "every skip reason handed to ShardBuilder.Add, binary detection, 1-2 byte files stored verbatim", false, rp)
		addCase("skips|merged", "skip reasons through merge", false, rp, other())
	}
	return cases
}

// c09BuilderSkips drives the real Builder with tiny limits so that it assigns every skip reason
// itself; the produced shard files are read back with the real loader.
func c09BuilderSkips(r *mc.Report) {
	caseID := "fam|builder-skips"
	if !r.Want(caseID) {
		return
	}
	r.Eval(1)
	r.Nontrivial(caseID)
	base := "/dev/shm"
	if st, err := os.Stat(base); err != nil || !st.IsDir() {
		base = os.TempDir()
	}
	dir, err := os.MkdirTemp(base, "verif-c09-")
	if err != nil {
		r.Violation("TOOL: scratch dir", err.Error(), nil)
		return
	}
	defer os.RemoveAll(dir)
	desc := c09BaseRepo("builder/repo", 12, 2)
	type bd struct {
		doc     Document
		skipped bool
	}
	docs := []bd{
		{Document{Name: "ok.txt", Content: []byte("hello world"), Branches: []string{"b0"}}, false},
		{Document{Name: "large.txt", Content: []byte("aaaaaaaaaaaaaaaaaaaaaaaaa"), Branches: []string{"b0", "b1"}}, true},   // 25 > SizeMax 24
		{Document{Name: "allowed.big", Content: []byte("abcdefghijklmnopqrstuvwxyz0123"), Branches: []string{"b1"}}, false}, // LargeFiles pattern
		{Document{Name: "small1.txt", Content: []byte("a"), Branches: []string{"b0"}}, true},
		{Document{Name: "small2.txt", Content: []byte("é"), Branches: []string{"b0"}}, true},
		{Document{Name: "empty.txt", Content: []byte(""), Branches: []string{"b0"}}, false},
		{Document{Name: "bin.dat", Content: []byte("abc\x00def"), Branches: []string{"b0"}}, true},
		{Document{Name: "trigrams.txt", Content: []byte("abcdefghijklmn"), Branches: []string{"b1"}}, true}, // 12 distinct > TrigramMax 10
		{Document{Name: "fewtrigrams.txt", Content: []byte("aaaaaaaaaaaaaaaaaaaa"), Branches: []string{"b1"}}, false},
		{Document{Name: "sym.go", Content: []byte("func main()"), Branches: []string{"b0"}, Symbols: []DocumentSection{{5, 9}}, SymbolsMetaData: []*zoekt.Symbol{{Kind: "function"}}}, false},
		{Document{Name: "symlarge.go", Content: []byte("func mainmainmainmainmain()"), Branches: []string{"b0"}, Symbols: []DocumentSection{{5, 9}}, SymbolsMetaData: []*zoekt.Symbol{{Kind: "function"}}}, true},
	}
	for _, shardMax := range []int{1 << 20, 1} {
		sub := filepath.Join(dir, strconv.Itoa(shardMax))
		opts := Options{IndexDir: sub, RepositoryDescription: desc, SizeMax: 24, TrigramMax: 10, ShardMax: shardMax, Parallelism: 1, DisableCTags: true, LargeFiles: []string{"*.big"}}
		b, err := NewBuilder(opts)
		if err != nil {
			r.Violation("builder-skips: NewBuilder fails", err.Error(), map[string]any{"case": caseID})
			return
		}
		for _, d := range docs {
			if err := b.Add(c09CloneDoc(d.doc)); err != nil {
				r.Violation("builder-skips: Builder.Add fails for "+d.doc.Name, err.Error(), map[string]any{"case": caseID})
			}
		}
		if err := b.Finish(); err != nil {
			r.Violation("builder-skips: Finish fails", err.Error(), map[string]any{"case": caseID})
			return
		}
		files, _ := filepath.Glob(filepath.Join(sub, "*.zoekt"))
		sort.Strings(files)
		found := map[string]bool{}
		for _, fn := range files {
			f, err := os.Open(fn)
			if err != nil {
				r.Violation("TOOL: open shard", err.Error(), nil)
				return
			}
			inf, err := NewIndexFile(f)
			if err != nil {
				r.Violation("builder-skips: NewIndexFile fails", err.Error(), map[string]any{"case": caseID})
				f.Close()
				return
			}
			s, err := NewSearcher(inf)
			if err != nil {
				r.Violation("builder-skips: shard does not load", err.Error(), map[string]any{"case": caseID})
				inf.Close()
				return
			}
			res, err := s.Search(context.Background(), &query.Const{Value: true}, &zoekt.SearchOptions{Whole: true, ShardMaxMatchCount: c09Big, TotalMaxMatchCount: c09Big})
			if err != nil {
				r.Violation("builder-skips: Search fails", err.Error(), map[string]any{"case": caseID})
				s.Close()
				return
			}
			id := s.(*indexData)
			for di, f := range res.Files {
				var want *bd
				for i := range docs {
					if docs[i].doc.Name == f.FileName {
						want = &docs[i]
					}
				}
				if want == nil || found[f.FileName] {
					r.Violation("builder-skips: unexpected or duplicate document "+f.FileName, fmt.Sprintf("shard %s returns %q", fn, f.FileName), map[string]any{"case": caseID})
					continue
				}
				found[f.FileName] = true
				var probs []string
				if want.skipped {
					if !bytes.HasPrefix(f.Content, []byte("NOT-INDEXED: ")) || len(f.Content) <= len("NOT-INDEXED: ") {
						probs = append(probs, fmt.Sprintf("content %q is not an explanation", c09Short(f.Content)))
					}
				} else if !bytes.Equal(f.Content, want.doc.Content) {
					probs = append(probs, fmt.Sprintf("content %q want %q", c09Short(f.Content), want.doc.Content))
				}
				if !reflect.DeepEqual(f.Branches, want.doc.Branches) {
					probs = append(probs, fmt.Sprintf("branches %v want %v", f.Branches, want.doc.Branches))
				}
				h := crc64.New(crc64.MakeTable(crc64.ISO))
				h.Write(f.Content)
				if !bytes.Equal(f.Checksum, h.Sum(nil)) {
					probs = append(probs, "checksum is not the checksum of the stored content")
				}
				secs, _, _ := id.readDocSections(uint32(di), nil)
				wantSecs := want.doc.Symbols
				if want.skipped {
					wantSecs = nil
				}
				if !(len(secs) == 0 && len(wantSecs) == 0) && !reflect.DeepEqual(secs, wantSecs) {
					probs = append(probs, fmt.Sprintf("symbol sections %v want %v", secs, wantSecs))
				}
				if len(probs) > 0 {
					r.Violation(fmt.Sprintf("builder-skips: document %s (ShardMax=%d) not read back", f.FileName, shardMax), strings.Join(probs, "\n"), map[string]any{"case": caseID})
				}
			}
			s.Close()
		}
		for _, d := range docs {
			if !found[d.doc.Name] {
				r.Violation(fmt.Sprintf("builder-skips: document %s (ShardMax=%d) is missing from the written shards", d.doc.Name, shardMax), fmt.Sprintf("shards: %v", files), map[string]any{"case": caseID})
			}
		}
	}
}

func TestVerifC09(t *testing.T) {
	r := mc.NewReport("C09")
	thorough := r.Thorough()
	// every shard build allocates a 1 MB write buffer and the pooled trigram tables are 16 MB of
	// pointers each; collect less often than the default

	pools := make(chan *c09Pool, runtime.NumCPU()+1)
	for i := 0; i < cap(pools); i++ {
		pools <- c09NewPool()
	}
	violation := func(c *c09Case, probs []string) {
		what := probs[0]
		if i := strings.IndexByte(what, '\n'); i >= 0 {
			what = what[:i]
		}
		if len(what) > 160 {
			what = what[:160]
		}
		r.Violation(fmt.Sprintf("%s: %s", c.id, what), fmt.Sprintf("case %s\n%s\n%s", c.id, c.desc, strings.Join(probs, "\n")), map[string]any{"case": c.id})
	}

	// ---- families
	t0 := time.Now()
	fams := c09Families(thorough)
	var cut atomic.Bool
	mc.ParallelFor(len(fams), func(i int) {
		c := fams[i]
		if !r.Want(c.id) {
			return
		}
		if r.Expired() {
			cut.Store(true)
			return
		}
		pool := <-pools
		probs := c09Run(c, pool, false)
		pools <- pool
		r.Eval(1)
		r.Nontrivial(c.id)
		if i%37 == 0 {
			r.Sample(map[string]any{"case": c.id, "what": c.desc})
		}
		if len(probs) > 0 {
			violation(c, probs)
		}
	})
	if cut.Load() {
		r.Incomplete("budget exhausted inside the families")
	}
	c09BuilderSkips(r)
	c09BuilderSeq(r)
	r.Note("families done after %.1fs", time.Since(t0).Seconds())

	// ---- mass enumeration: document lists of length 1..3 over all byte strings of the alphabet
	sigma := []string{"a", "\n", "é", "\xff"}
	type level struct{ listLen, maxLen int }
	levels := []level{{1, 6}, {3, 2}, {2, 3}}
	if thorough {
		levels = []level{{1, 7}, {3, 3}, {2, 4}}
	}
	for _, lv := range levels {
		contents := c09AllStrings(sigma, lv.maxLen)
		n := len(contents)
		total := 1
		for i := 0; i < lv.listLen; i++ {
			total *= n
		}
		const chunk = 256
		units := (total + chunk - 1) / chunk
		var cutMass atomic.Bool
		mc.ParallelFor(units, func(u int) {
			if cutMass.Load() {
				return
			}
			if r.Expired() {
				cutMass.Store(true)
				return
			}
			pool := <-pools
			defer func() { pools <- pool }()
			cnt := 0
			for idx := u * chunk; idx < (u+1)*chunk && idx < total; idx++ {
				id := fmt.Sprintf("mass|%d|%d", lv.listLen, idx)
				if r.Replaying() && !r.Want(id) {
					continue
				}
				// decode tuple
				rem := idx
				nb := 3
				rp := &c09Repo{desc: c09BaseRepo("mass/repo", 42, nb)}
				var second *c09Repo
				var descs []string
				for j := 0; j < lv.listLen; j++ {
					ci := rem % n
					rem /= n
					doc := c09MassDoc([]byte(contents[ci]), idx+j*11, nb)
					if j > 0 {
						doc.Name += strconv.Itoa(j) // unique names are not required by the format, but keep (repo,name) unique for the symbol queries
					}
					descs = append(descs, strconv.Quote(contents[ci]))
					if j == 0 || lv.listLen == 1 {
						rp.docs = append(rp.docs, doc)
					} else {
						if second == nil {
							second = &c09Repo{desc: c09BaseRepo("mass/second", 43, nb)}
						}
						second.docs = append(second.docs, doc)
					}
				}
				// variant A: all documents in one simple shard; variant B (lists of >= 2): first document in
				// one repository, the others in a second one, merged into a compound shard
				one := &c09Repo{desc: rp.desc, docs: append([]Document{}, rp.docs...)}
				if second != nil {
					one.docs = append(one.docs, second.docs...)
				}
				c := &c09Case{id: id, repos: []*c09Repo{one}, pooled: true, desc: "documents " + strings.Join(descs, ", ")}
				probs := c09Run(c, pool, lv.listLen == 1 && idx%4 == 0)
				if len(probs) == 0 && second != nil {
					c2 := &c09Case{id: id, repos: []*c09Repo{rp, second}, pooled: true, desc: c.desc + " (split over two merged repositories)"}
					probs = c09Run(c2, pool, false)
				}
				cnt++
				if len(probs) > 0 {
					violation(c, probs)
				}
				if idx%9973 == 1 {
					r.Sample(map[string]any{"case": id, "documents": descs})
				}
				if lv.listLen > 1 || len(contents[idx%n]) > 2 {
					if idx%64 == 0 {
						r.Nontrivial(id)
					}
				}
			}
			r.Eval(cnt)
		})
		if cutMass.Load() {
			r.Incomplete("budget exhausted inside lists of length %d (contents up to %d symbols)", lv.listLen, lv.maxLen)
		}
		r.Set(fmt.Sprintf("lists_of_length_%d", lv.listLen), total)
		r.Note("lists of length %d done after %.1fs", lv.listLen, time.Since(t0).Seconds())
	}
	r.Set("families", len(fams)+1)
	r.Assume("go-enry decides language and category when the caller leaves them empty; the expectation calls the same helpers")
	r.Assume("the mass enumeration reuses postings builders through postingsBuilder.reset (as Builder does); the families use the exported NewShardBuilder")
	r.Assume("shards are loaded from memory through the IndexFile interface, the Builder family from real files; symbol lists are given sorted")
	r.Finish("case = list of documents written to a shard and read back: (a) ALL lists of 1..3 documents whose contents are all strings over {a, newline, é, 0xff} up to the stated length (names, branch subsets of 3 branches, language, category and symbol sections cycle with the case index), each as one simple shard and, for lists of >= 2, split over two repositories merged into a compound shard; (b) families: names, 0..64 branches, languages (up to 300 per shard), categories, sub-repositories, full repository metadata, all symbol-section lists over <= 4 rune boundaries, 320 symbols, rune counts around the 100-rune samples, distinct-trigram counts around multiples of 512, every skip reason via ShardBuilder and via Builder; each also merged. Oracle: Search(Const,Whole), List, ReadMetadata and the accessors used by merge return the input; every posting list, rune-offset sample, newline table and rune section equals a recomputation. distinct_nontrivial = families + every 64th mass case with >= 2 documents or >= 3 content symbols")
}
