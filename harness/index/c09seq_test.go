//go:build verif

package index

// C09 (additional family "builder-seq"): what the Builder stores for a document (content verbatim
// or a NOT-INDEXED explanation, branches) must depend on that document and the options only, not on
// the documents that went through the same Builder before it. Differential oracle: every ordered
// sequence of up to 2 (thorough 3) documents over an alphabet built around the limits the Builder
// checks (SizeMax, TrigramMax with disjoint and overlapping trigram sets just below and above the
// limit, binary, too small, LargeFiles exception) is indexed through one real Builder and each
// document's stored form is compared with the form it gets when indexed alone.

import (
	"context"
	"fmt"
	"os"
	"path/filepath"
	"sort"
	"strings"

	"github.com/sourcegraph/zoekt"
	"github.com/sourcegraph/zoekt/internal/verifshim/mc"
	"github.com/sourcegraph/zoekt/query"
)

var c09SeqAlphabet = []struct{ kind, content string }{
	{"few", "hello world hello"},
	{"nearA", "abcdefghijabcdefghij"},    // 10 distinct trigrams = TrigramMax, longer than TrigramMax+2
	{"nearB", "klmnopqrstklmnopqrst"},    // 10 distinct trigrams, disjoint from nearA
	{"nearA2", "bcdefghijabcdefghija"},   // the same 10 trigrams as nearA
	{"over", "abcdefghijklmnopqrstu"},    // 19 distinct > TrigramMax
	{"large", strings.Repeat("ab ", 20)}, // 60 bytes > SizeMax 48
	{"bin", "abc\x00defghijklmnop"},
	{"tiny", "a"},
	{"empty", ""},
}

func c09SeqRun(dir string, seq []int) (map[string]string, error) {
	opts := Options{IndexDir: dir, RepositoryDescription: c09BaseRepo("seq/repo", 13, 1), SizeMax: 48, TrigramMax: 10, Parallelism: 1, DisableCTags: true}
	b, err := NewBuilder(opts)
	if err != nil {
		return nil, fmt.Errorf("NewBuilder: %w", err)
	}
	for pos, k := range seq {
		a := c09SeqAlphabet[k]
		if err := b.Add(Document{Name: fmt.Sprintf("p%d-%s.txt", pos, a.kind), Content: []byte(a.content), Branches: []string{"b0"}}); err != nil {
			return nil, fmt.Errorf("Add(%s at %d): %w", a.kind, pos, err)
		}
	}
	if err := b.Finish(); err != nil {
		return nil, fmt.Errorf("Finish: %w", err)
	}
	out := map[string]string{}
	files, _ := filepath.Glob(filepath.Join(dir, "*.zoekt"))
	sort.Strings(files)
	for _, fn := range files {
		f, err := os.Open(fn)
		if err != nil {
			return nil, err
		}
		inf, err := NewIndexFile(f)
		if err != nil {
			f.Close()
			return nil, err
		}
		s, err := NewSearcher(inf)
		if err != nil {
			inf.Close()
			return nil, err
		}
		res, err := s.Search(context.Background(), &query.Const{Value: true}, &zoekt.SearchOptions{Whole: true, ShardMaxMatchCount: c09Big, TotalMaxMatchCount: c09Big})
		if err != nil {
			s.Close()
			return nil, err
		}
		for _, fm := range res.Files {
			if _, dup := out[fm.FileName]; dup {
				s.Close()
				return nil, fmt.Errorf("document %s stored twice", fm.FileName)
			}
			out[fm.FileName] = fmt.Sprintf("content=%q branches=%v", fm.Content, fm.Branches) // before Close: Content may point into the mapping
		}
		s.Close()
	}
	return out, nil
}

func c09BuilderSeq(r *mc.Report) {
	base := "/dev/shm"
	if st, err := os.Stat(base); err != nil || !st.IsDir() {
		base = os.TempDir()
	}
	root, err := os.MkdirTemp(base, "verif-c09seq-")
	if err != nil {
		r.Violation("TOOL: scratch dir", err.Error(), nil)
		return
	}
	defer os.RemoveAll(root)
	n := len(c09SeqAlphabet)
	alone := make([]string, n)
	for k := range c09SeqAlphabet {
		d := filepath.Join(root, fmt.Sprintf("alone%d", k))
		got, err := c09SeqRun(d, []int{k})
		os.RemoveAll(d)
		if err != nil {
			r.Violation("builder-seq: single document "+c09SeqAlphabet[k].kind+" cannot be indexed", err.Error(), map[string]any{"case": "seq|" + fmt.Sprint([]int{k})})
			return
		}
		alone[k] = got["p0-"+c09SeqAlphabet[k].kind+".txt"]
		if alone[k] == "" {
			r.Violation("builder-seq: single document "+c09SeqAlphabet[k].kind+" is missing from its index", fmt.Sprint(got), map[string]any{"case": "seq|" + fmt.Sprint([]int{k})})
			return
		}
	}
	depth := 2
	if r.Thorough() {
		depth = 3
	}
	var seqs [][]int
	var rec func(p []int)
	rec = func(p []int) {
		if len(p) >= 2 {
			seqs = append(seqs, append([]int{}, p...))
		}
		if len(p) == depth {
			return
		}
		for k := 0; k < n; k++ {
			rec(append(p, k))
		}
	}
	rec(nil)
	stored := map[string]int{}
	for k := range alone {
		if strings.Contains(alone[k], "NOT-INDEXED") {
			stored["skipped"]++
		} else {
			stored["verbatim"]++
		}
	}
	r.Set("builder_seq", fmt.Sprintf("%d sequences of length 2..%d over %d document kinds (alone: %v)", len(seqs), depth, n, stored))
	// Builders allocate fresh 16 MB trigram tables: a few at a time only
	sem := make(chan struct{}, 4)
	mc.ParallelFor(len(seqs), func(i int) {
		seq := seqs[i]
		caseID := "seq|" + fmt.Sprint(seq)
		if !r.Want(caseID) {
			return
		}
		if r.Expired() {
			r.Incomplete("builder-seq: budget exhausted")
			return
		}
		sem <- struct{}{}
		defer func() { <-sem }()
		d := filepath.Join(root, fmt.Sprintf("s%d", i))
		got, err := c09SeqRun(d, seq)
		os.RemoveAll(d)
		r.Eval(1)
		var kinds []string
		for _, k := range seq {
			kinds = append(kinds, c09SeqAlphabet[k].kind)
		}
		if err != nil {
			r.Violation(fmt.Sprintf("builder-seq %v: indexing fails", kinds), err.Error(), map[string]any{"case": caseID})
			return
		}
		r.Nontrivial(caseID)
		for pos, k := range seq {
			name := fmt.Sprintf("p%d-%s.txt", pos, c09SeqAlphabet[k].kind)
			if got[name] != alone[k] {
				r.Violation(fmt.Sprintf("builder-seq: document kind %s stored differently after %v", c09SeqAlphabet[k].kind, kinds[:pos]),
					fmt.Sprintf("sequence %v through one Builder (SizeMax=48 TrigramMax=10)\ndocument #%d %s content %q\n  indexed alone:   %s\n  in the sequence: %s", kinds, pos, name, c09SeqAlphabet[k].content, alone[k], got[name]), map[string]any{"case": caseID})
			}
		}
		if len(got) != len(seq) {
			r.Violation(fmt.Sprintf("builder-seq %v: %d documents stored, %d added", kinds, len(got), len(seq)), fmt.Sprint(got), map[string]any{"case": caseID})
		}
	})
}
