//go:build verif

package index_test

import (
	"context"
	"fmt"
	"math/big"
	"os"
	"os/exec"
	"path/filepath"
	"sort"
	"strings"
	"testing"

	"github.com/sourcegraph/zoekt"
	"github.com/sourcegraph/zoekt/index"
	"github.com/sourcegraph/zoekt/internal/verifshim/gen"
	"github.com/sourcegraph/zoekt/internal/verifshim/mc"
	"github.com/sourcegraph/zoekt/internal/verifshim/vos"
	"github.com/sourcegraph/zoekt/query"
	"github.com/sourcegraph/zoekt/search"
)

// C12: crash-point enumeration of index.Builder runs that replace an existing index.

type c12Build struct {
	n       int    // number of documents (= number of shards with ShardMax 10)
	tag     string // content tag / version
	delta   bool
	changed []int // delta: indexes of changed documents (re-added with the new tag)
	removed []int // delta: indexes of removed documents
	merging bool
}

type c12Scenario struct {
	name string
	olds []c12Build
	new  c12Build
}

func c12Opts(dir string, b c12Build) index.Options {
	o := index.Options{
		IndexDir:    dir,
		ShardMax:    10,
		Parallelism: 1,
		IsDelta:     b.delta,
		RepositoryDescription: zoekt.Repository{
			Name: "repo/r", ID: 7,
			Branches: []zoekt.RepositoryBranch{{Name: "HEAD", Version: "ver-" + b.tag}},
		},
		DisableCTags: true,
		ShardMerging: b.merging,
	}
	o.SetDefaults()
	return o
}

func c12DocName(i int) string { return fmt.Sprintf("dir/file%d.txt", i) }

// c12Run performs one build; errors are returned but a crash run ignores them.
func c12Run(dir string, b c12Build) (err error) {
	defer func() {
		if p := recover(); p != nil {
			err = fmt.Errorf("panic: %v", p)
		}
	}()
	opts := c12Opts(dir, b)
	bld, err := index.NewBuilder(opts)
	if err != nil {
		return err
	}
	var addErr error
	if b.delta {
		for _, i := range b.changed {
			bld.MarkFileAsChangedOrRemoved(c12DocName(i))
			if e := bld.Add(index.Document{Name: c12DocName(i), Content: []byte(fmt.Sprintf("content %s of file %d marker%s", b.tag, i, b.tag)), Branches: []string{"HEAD"}}); e != nil && addErr == nil {
				addErr = e
			}
		}
		for _, i := range b.removed {
			bld.MarkFileAsChangedOrRemoved(c12DocName(i))
		}
	} else {
		for i := 0; i < b.n; i++ {
			if e := bld.Add(index.Document{Name: c12DocName(i), Content: []byte(fmt.Sprintf("content %s of file %d marker%s", b.tag, i, b.tag)), Branches: []string{"HEAD"}}); e != nil && addErr == nil {
				addErr = e
			}
		}
	}
	ferr := bld.Finish()
	if addErr != nil {
		return addErr
	}
	return ferr
}

// c12Observe loads the directory with the real loader and returns, per repository, everything a
// searcher can see of it.
func c12Observe(dir string) (map[string]string, error) {
	ss, err := search.NewDirectorySearcher(dir)
	if err != nil {
		return nil, err
	}
	defer ss.Close()
	out := map[string]string{}
	rl, err := ss.List(context.Background(), &query.Const{Value: true}, &zoekt.ListOptions{Field: zoekt.RepoListFieldRepos})
	if err != nil {
		return nil, err
	}
	listed := map[string][]string{}
	for _, e := range rl.Repos {
		listed[e.Repository.Name] = append(listed[e.Repository.Name], fmt.Sprintf("branches=%v docs=%d", e.Repository.Branches, e.Stats.Documents))
	}
	opts := zoekt.SearchOptions{Whole: true, ShardMaxMatchCount: 1 << 30, TotalMaxMatchCount: 1 << 30}
	res, err := ss.Search(context.Background(), &query.Const{Value: true}, &opts)
	if err != nil {
		return nil, err
	}
	files := map[string][]string{}
	for _, f := range res.Files {
		files[f.Repository] = append(files[f.Repository], fmt.Sprintf("%s@%s=%q", f.FileName, f.Version, f.Content))
	}
	names := map[string]bool{}
	for k := range listed {
		names[k] = true
	}
	for k := range files {
		names[k] = true
	}
	for n := range names {
		sort.Strings(files[n])
		l := listed[n]
		sort.Strings(l)
		// the list entry is summarised by the branch versions (one entry per shard)
		vs := map[string]bool{}
		for _, x := range l {
			vs[x[:strings.Index(x, " docs=")]] = true
		}
		out[n] = fmt.Sprintf("listed=%v files=%v", gen.SortedNames(vs), files[n])
	}
	return out, nil
}

func c12CopyDir(src, dst string) {
	if out, err := exec.Command("cp", "-a", src+"/.", dst).CombinedOutput(); err != nil {
		panic(fmt.Sprintf("cp: %v %s", err, out))
	}
}

func c12Binom(n, k int) int {
	return int(new(big.Int).Binomial(int64(n), int64(k)).Int64())
}

func TestVerifC12(t *testing.T) {
	r := mc.NewReport("C12")
	root, clean := gen.Scratch("c12")
	defer clean()
	full := func(n int, tag string) c12Build { return c12Build{n: n, tag: tag} }
	scen := []c12Scenario{
		{"0->1", nil, full(1, "B")},
		{"1->1", []c12Build{full(1, "A")}, full(1, "B")},
		{"2->1", []c12Build{full(2, "A")}, full(1, "B")},
		{"1->2", []c12Build{full(1, "A")}, full(2, "B")},
		{"2->2", []c12Build{full(2, "A")}, full(2, "B")},
		{"3->2", []c12Build{full(3, "A")}, full(2, "B")},
		{"1->delta", []c12Build{full(1, "A")}, c12Build{tag: "B", delta: true, changed: []int{0}}},
		{"2->delta", []c12Build{full(2, "A")}, c12Build{tag: "B", delta: true, changed: []int{1}, removed: []int{0}}},
		{"delta->delta", []c12Build{full(2, "A"), {tag: "B", delta: true, changed: []int{0}}}, c12Build{tag: "C", delta: true, changed: []int{1}}},
		{"1+delta->full", []c12Build{full(2, "A"), {tag: "B", delta: true, changed: []int{0}}}, full(2, "C")},
	}
	if r.Thorough() {
		scen = append(scen,
			c12Scenario{"3->3", []c12Build{full(3, "A")}, full(3, "B")},
			c12Scenario{"4->2", []c12Build{full(4, "A")}, full(2, "B")},
			c12Scenario{"2->4", []c12Build{full(2, "A")}, full(4, "B")},
			c12Scenario{"3->delta2", []c12Build{full(3, "A")}, c12Build{tag: "B", delta: true, changed: []int{0, 2}, removed: []int{1}}},
		)
	}
	states, transitions := 0, 0
	for _, sc := range scen {
		if r.Expired() {
			r.Incomplete("budget exhausted before scenario %s", sc.name)
			break
		}
		// old state template (with an unrelated healthy repository next to it)
		tmpl := filepath.Join(root, "tmpl-"+sc.name)
		os.MkdirAll(tmpl, 0o755)
		other := gen.CompoundCorpus()[1]
		if _, err := gen.WriteSimple(tmpl, other); err != nil {
			t.Fatal(err)
		}
		for _, b := range sc.olds {
			if err := c12Run(tmpl, b); err != nil {
				t.Fatalf("%s: old build: %v", sc.name, err)
			}
		}
		oldObs, err := c12Observe(tmpl)
		if err != nil {
			t.Fatal(err)
		}
		// reference new state + mutation log shape
		refDir := filepath.Join(root, "ref-"+sc.name)
		os.MkdirAll(refDir, 0o755)
		c12CopyDir(tmpl, refDir)
		s := vos.Begin(vos.Record, 0)
		err = c12Run(refDir, sc.new)
		log := append([]vos.Mutation{}, s.Log...)
		total := s.Mutations()
		vos.End()
		if err != nil {
			r.Violation("TOOL: reference run failed "+sc.name, err.Error(), nil)
			continue
		}
		newObs, err := c12Observe(refDir)
		if err != nil {
			t.Fatal(err)
		}
		if newObs["repo/r"] == oldObs["repo/r"] || newObs["repo/r"] == "" {
			r.Violation("TOOL: scenario vacuous "+sc.name, fmt.Sprintf("old=%s new=%s", oldObs["repo/r"], newObs["repo/r"]), nil)
			continue
		}
		nRen, nRem := 0, 0
		for _, m := range log {
			if m.Op == "rename" {
				nRen++
			}
			if m.Op == "remove" {
				nRem++
			}
		}
		// ---- crash before every mutation ----
		crashStates := map[string]bool{}
		judge := func(kind string, k int, dir string, sess *vos.Session) {
			obs, err := c12Observe(dir)
			transitions++
			if err != nil {
				r.Violation(fmt.Sprintf("%s %s: directory cannot be loaded", sc.name, kind), err.Error(), map[string]any{"case": sc.name})
				return
			}
			var done []string
			for _, m := range sess.Log {
				if m.Done && (m.Op == "rename" || m.Op == "remove") {
					p := m.Path
					if m.Op == "rename" {
						p = m.Path2
					}
					done = append(done, m.Op+":"+filepath.Base(p))
				}
			}
			sort.Strings(done)
			sig := strings.Join(done, ",")
			if !crashStates[kind+sig+fmt.Sprint(k)] {
				crashStates[kind+sig+fmt.Sprint(k)] = true
				states++
			}
			for name, want := range oldObs {
				if name == "repo/r" {
					continue
				}
				if obs[name] != want {
					r.Violation(fmt.Sprintf("%s %s: unrelated repository %s changed", sc.name, kind, name), fmt.Sprintf("k=%d\nwant %s\ngot  %s", k, want, obs[name]), map[string]any{"case": sc.name})
				}
			}
			got := obs["repo/r"]
			if got == oldObs["repo/r"] || got == newObs["repo/r"] {
				return
			}
			// classify: is every shard under a final name intact, and are we inside the install phase
			// (after the first rename of Finish)? Only that family is the known non-atomic install.
			what := "mixture of intact old and new shards"
			if got == "" {
				what = "repository missing"
			} else if strings.Contains(got, "listed=[]") {
				what = "files without a listed repository"
			}
			shardFiles, _ := filepath.Glob(filepath.Join(dir, "*.zoekt"))
			for _, sf := range shardFiles {
				if srch, err := gen.Open(sf); err != nil {
					what = "corrupt shard under a final name (" + filepath.Base(sf) + ": " + err.Error() + ")"
				} else {
					srch.Close()
				}
			}
			// Finish installs by renaming every new file and only then removing the superseded
			// ones. Only crash states consistent with that order belong to the known family.
			perfRen, perfRem := 0, 0
			for _, m := range sess.Log {
				if m.Done && m.Op == "rename" {
					perfRen++
				}
				if m.Done && m.Op == "remove" {
					perfRem++
				}
			}
			switch {
			case sig == "":
				kind += " before the install phase"
			case perfRem > 0 && perfRen < nRen:
				kind += " with a superseded file removed before all new files were installed"
			default:
				kind += " in the install phase"
			}
			r.Violation(fmt.Sprintf("%s %s: %s after [%s]", sc.name, kind, what, sig),
				fmt.Sprintf("scenario %s, %s before mutation %d of %d (%v)\nperformed renames/removals: %s\nold index: %s\nnew index: %s\nobserved:  %s",
					sc.name, kind, k, total, mutAt(log, k), sig, oldObs["repo/r"], newObs["repo/r"], got), map[string]any{"case": sc.name, "k": k})
		}
		if !r.Want(sc.name) {
			continue
		}
		renSeen := map[int]map[string]bool{}
		for k := 1; k <= total+1; k++ {
			// map-order fan-out inside the rename / remove loops: repeat until every subset of that size was seen
			need, phaseN, j := 1, 0, 0
			if k <= total {
				prevRen, prevRem := 0, 0
				for _, m := range log[:indexOfSeq(log, k)] {
					if m.Op == "rename" {
						prevRen++
					}
					if m.Op == "remove" {
						prevRem++
					}
				}
				op := mutAt(log, k).Op
				if op == "rename" && prevRen > 0 {
					phaseN, j = nRen, prevRen
				} else if op == "remove" && prevRem > 0 {
					phaseN, j = nRem, prevRem
				} else if op == "remove" && prevRen > 0 {
					phaseN, j = nRen, nRen
				}
				if phaseN > 0 {
					// Go iterates a small map (one group, <= 8 entries) as a rotation of its insertion
					// order from a random start, so a loop over n entries has about n reachable
					// prefixes of length j rather than all C(n,j) subsets: repeat the crash point
					// until min(C(n,j), n) distinct prefixes have been seen (at most 60 times).
					need = c12Binom(phaseN, j)
					if need > phaseN {
						need = phaseN
					}
				}
			}
			if renSeen[k] == nil {
				renSeen[k] = map[string]bool{}
			}
			for rep := 0; rep < 60 && len(renSeen[k]) < need; rep++ {
				dir := filepath.Join(root, fmt.Sprintf("run-%s-%d-%d", sc.name, k, rep))
				os.MkdirAll(dir, 0o755)
				c12CopyDir(tmpl, dir)
				sess := vos.Begin(vos.Crash, k)
				_ = c12Run(dir, sc.new)
				vos.End()
				r.Eval(1)
				var done []string
				for _, m := range sess.Log {
					if m.Done && (m.Op == "rename" || m.Op == "remove") {
						p := m.Path
						if m.Op == "rename" {
							p = m.Path2
						}
						done = append(done, m.Op+":"+filepath.Base(p))
					}
				}
				sort.Strings(done)
				renSeen[k][strings.Join(done, ",")] = true
				judge("crash", k, dir, sess)
				os.RemoveAll(dir)
			}
			if len(renSeen[k]) < need {
				r.Incomplete("%s: crash point %d: saw %d of %d orders of the map-ordered rename/remove loop", sc.name, k, len(renSeen[k]), need)
			}
		}
		// ---- every single failing mutation: success => new index installed ----
		for k := 1; k <= total; k++ {
			dir := filepath.Join(root, fmt.Sprintf("fail-%s-%d", sc.name, k))
			os.MkdirAll(dir, 0o755)
			c12CopyDir(tmpl, dir)
			sess := vos.Begin(vos.Fail, k)
			err := c12Run(dir, sc.new)
			vos.End()
			r.Eval(1)
			transitions++
			if err == nil && sess.Failed != nil {
				obs, oerr := c12Observe(dir)
				if oerr != nil || obs["repo/r"] != newObs["repo/r"] {
					r.Violation(fmt.Sprintf("%s fail: build reported success although %s failed and the new index is not installed", sc.name, sess.Failed.Op),
						fmt.Sprintf("scenario %s: mutation %v failed with EIO, Finish returned nil\nnew index: %s\nobserved:  %s (load error %v)", sc.name, sess.Failed, newObs["repo/r"], obs["repo/r"], oerr), map[string]any{"case": sc.name, "k": k})
				}
			}
			os.RemoveAll(dir)
		}
		r.Nontrivial(sc.name)
		r.Sample(map[string]any{"scenario": sc.name, "mutations": total, "renames": nRen, "removes": nRem, "log_head": fmt.Sprint(log[:min(6, len(log))])})
		os.RemoveAll(tmpl)
		os.RemoveAll(refDir)
	}
	r.Add("states", states)
	r.Add("transitions", transitions)
	r.Add("traces_validated_against_impl", int(r.Evals()))
	r.Assume("kill model: a killed process leaves exactly the effects of the mutations it already issued (no fsync/power-loss reordering); writes are torn at half-buffer granularity")
	r.Assume("Parallelism=1 so the mutation log is a total order; map-ordered rename/remove loops are covered by repeating a crash point until min(C(n,j), n) distinct prefixes of the loop have occurred (small Go maps iterate as rotations of their insertion order); unseen orders are reported as exhaustive:false")
	r.Finish("case = scenario (old shard set -> new build, full or delta); for each: crash before every filesystem mutation of the real Builder (vos shim) and every single failing mutation; states = distinct (crash point, set of performed renames/removals); oracle: directory loaded with the real directory searcher shows the repository exactly as before or exactly as after, unrelated repository unchanged, success => new")
}

func indexOfSeq(log []vos.Mutation, k int) int {
	for i, m := range log {
		if m.Seq == k && m.Op != "close" {
			return i
		}
	}
	return len(log)
}

func mutAt(log []vos.Mutation, k int) vos.Mutation {
	i := indexOfSeq(log, k)
	if i < len(log) {
		return log[i]
	}
	return vos.Mutation{Op: "end"}
}
