//go:build verif

package index_test

import (
	"bytes"
	"context"
	"crypto/sha1"
	"encoding/json"
	"fmt"
	"net/url"
	"os"
	"os/exec"
	"path/filepath"
	"regexp/syntax"
	"runtime"
	"runtime/debug"
	"sort"
	"strconv"
	"strings"
	"sync"
	"testing"
	"time"

	"github.com/sourcegraph/zoekt"
	"github.com/sourcegraph/zoekt/index"
	"github.com/sourcegraph/zoekt/internal/verifshim/gen"
	"github.com/sourcegraph/zoekt/internal/verifshim/mc"
	"github.com/sourcegraph/zoekt/query"
	"github.com/sourcegraph/zoekt/search"
)

// C16: explicit-state breadth-first search over histories of merge / explode /
// tombstone operations on REAL shard directories.
//
// Initial states: every set of 1..3 repositories out of a small alphabet (see
// c16Defs: priorities, 1/2/33/64 branches with documents on branch indexes 31,
// 32, 40 and 63, symbols with kinds and parents, explicit languages, a binary
// (skipped) document, a sub-repository, repository metadata, an empty
// repository), each as one simple shard built with the real ShardBuilder.
// Operations out of a state: index.Merge of every non-empty subset of the shard
// files (in both argument orders) followed by the input removal and rename that
// zoekt-merge-index performs; index.Explode of every compound shard;
// index.SetTombstone of every live member of every compound shard. Depth 3
// (quick tier: depth 2 for histories that start from three repositories; reverse
// argument order and a sixth repository only in the thorough tier).
// States are deduplicated by their shard structure (which repositories are in
// which simple / compound shard, with tombstone flags).
// Oracle after every operation: (1) the shard structure read back with
// index.ReadMetadataPath equals the structure predicted by the specification
// (merge and explode keep exactly the live repositories that have a document,
// drop tombstoned ones); (2) 13 queries in line and chunk mode with whole file
// contents plus List (both field modes) over search.NewDirectorySearcher(dir)
// return, per repository, exactly what they return over that repository's
// original simple shard alone (files, contents, branches, versions, languages,
// sub-repository, matches with symbol information; repository name, id,
// branches+versions, RawConfig, Metadata, URL templates, sub-repositories ...;
// not compared: scores, Rank/priority, index time, shard id, statistics).

// ---- repository alphabet ------------------------------------------------------------------

type c16Def struct {
	Letter string
	Repo   zoekt.Repository
	Docs   []index.Document
}

func (d *c16Def) empty() bool { return len(d.Docs) == 0 }

func c16Sym(content, word, kind, parent, parentKind string) (index.DocumentSection, *zoekt.Symbol) {
	i := strings.Index(content, word)
	if i < 0 {
		panic("symbol " + word + " not in content")
	}
	return index.DocumentSection{Start: uint32(i), End: uint32(i + len(word))}, &zoekt.Symbol{Sym: word, Kind: kind, Parent: parent, ParentKind: parentKind}
}

func c16Doc(name, content, lang string, branches []string, syms ...[4]string) index.Document {
	d := index.Document{Name: name, Content: []byte(content), Language: lang, Branches: branches}
	for _, s := range syms {
		sec, md := c16Sym(content, s[0], s[1], s[2], s[3])
		d.Symbols = append(d.Symbols, sec)
		d.SymbolsMetaData = append(d.SymbolsMetaData, md)
	}
	return d
}

func c16Branches(prefix string, n int) (names []string, bs []zoekt.RepositoryBranch) {
	for i := 0; i < n; i++ {
		nm := fmt.Sprintf("%s%d", prefix, i)
		names = append(names, nm)
		bs = append(bs, zoekt.RepositoryBranch{Name: nm, Version: fmt.Sprintf("v-%s", nm)})
	}
	return
}

func c16Defs(thorough bool) []*c16Def {
	mk := func(letter, name string, id uint32, branches []zoekt.RepositoryBranch, rc, md map[string]string) *c16Def {
		return &c16Def{Letter: letter, Repo: zoekt.Repository{
			ID: id, Name: name, Branches: branches, RawConfig: rc, Metadata: md,
			URL:                  "https://example.com/" + name,
			FileURLTemplate:      "https://example.com/" + name + "/blob/{{.Version}}/{{.Path}}",
			LineFragmentTemplate: "#L{{.LineNumber}}",
			CommitURLTemplate:    "https://example.com/" + name + "/commit/{{.Version}}",
			Source:               "/src/" + name,
			IndexOptions:         "opts-" + letter,
			LatestCommitDate:     time.Unix(1_600_000_000+int64(id)*86400, 0).UTC(),
		}}
	}
	var defs []*c16Def

	// A: two branches, symbols, languages (one explicit language that contradicts the extension),
	// a binary document, repository metadata, highest priority
	a := mk("A", "alpha/a", 1, []zoekt.RepositoryBranch{{Name: "HEAD", Version: "a-head"}, {Name: "dev", Version: "a-dev"}},
		map[string]string{"priority": "10", "public": "1", "repoid": "1"}, map[string]string{"team": "red", "tier": "1"})
	a.Repo.HasSymbols = true
	both := []string{"HEAD", "dev"}
	goSrc := "package main\n\ntype Widget struct{}\n\nfunc (w *Widget) FooBar() {}\n// needle alpha\n"
	pySrc := "class Widget:\n    def foo_bar(self):\n        return 'needle'\n"
	a.Docs = []index.Document{
		c16Doc("main.go", goSrc, "Go", both, [4]string{"Widget", "struct", "main", "package"}, [4]string{"FooBar", "method", "Widget", "struct"}),
		c16Doc("lib/util.py", pySrc, "Python", []string{"dev"}, [4]string{"Widget", "class", "", ""}, [4]string{"foo_bar", "member", "Widget", "class"}),
		c16Doc("bin/blob.bin", "needle\x00\x01\x02binary", "", []string{"HEAD"}),
		c16Doc("README.md", "foobar fooobar\nneedle in readme\n", "Markdown", []string{"HEAD"}),
		c16Doc("notes.txt", "func FooBar is described here, needle\n", "Go", both), // language set by the indexer, not derivable from the name
	}
	defs = append(defs, a)

	// B: 33 branches, documents on branch indexes 0, 31 and 32
	bn, bb := c16Branches("b", 33)
	b := mk("B", "beta/b", 2, bb, map[string]string{"priority": "5", "fork": "1"}, nil)
	b.Docs = []index.Document{
		c16Doc("x32.go", "package x\n// needle b32\nfunc OnlyThirtyTwo() {}\n", "Go", []string{bn[32]}, [4]string{"OnlyThirtyTwo", "function", "x", "package"}),
		c16Doc("x0-32.go", "package x\n// needle both\n", "Go", []string{bn[0], bn[32]}),
		c16Doc("x0.go", "package x\n// needle b0 foobar\n", "Go", []string{bn[0]}),
		c16Doc("x31.txt", "needle b31\n", "Text", []string{bn[31]}),
	}
	defs = append(defs, b)

	// C: 64 branches, documents on branch indexes 0, 40, 63 and on all of them; no priority
	cn, cb := c16Branches("c", 64)
	c := mk("C", "gamma/c", 3, cb, nil, map[string]string{"team": "blue"})
	c.Docs = []index.Document{
		c16Doc("y63.txt", "needle c63\n", "Text", []string{cn[63]}),
		c16Doc("y40-63.py", "def foo_bar():\n    pass  # needle\n", "Python", []string{cn[40], cn[63]}, [4]string{"foo_bar", "function", "", ""}),
		c16Doc("y0.txt", "only on c0, fooobar\n", "Text", []string{cn[0]}),
		c16Doc("yall.go", "package y\n// needle everywhere\n", "Go", cn),
	}
	defs = append(defs, c)

	// D: one branch that is not called HEAD, a sub-repository, symbols
	d := mk("D", "delta/d", 4, []zoekt.RepositoryBranch{{Name: "main", Version: "d-main"}}, map[string]string{"priority": "7.5", "archived": "1"}, map[string]string{"team": "red"})
	d.Repo.SubRepoMap = map[string]*zoekt.Repository{"vendor/sub": {
		Name: "sub/repo", URL: "https://example.com/sub/repo",
		FileURLTemplate: "https://example.com/sub/repo/blob/{{.Version}}/{{.Path}}", LineFragmentTemplate: "#L{{.LineNumber}}", CommitURLTemplate: "https://example.com/sub/repo/commit/{{.Version}}",
		Branches: []zoekt.RepositoryBranch{{Name: "main", Version: "sub-main"}},
	}}
	subDoc := c16Doc("vendor/sub/s.go", "package sub\n\nfunc FooBar() {} // needle sub\n", "Go", []string{"main"}, [4]string{"FooBar", "function", "sub", "package"})
	subDoc.SubRepositoryPath = "vendor/sub"
	d.Docs = []index.Document{
		c16Doc("top.go", "package top\n\nvar Needle = 1 // needle top\n", "Go", []string{"main"}, [4]string{"Needle", "variable", "top", "package"}),
		subDoc,
		c16Doc("doc/é.md", "éab Éab needle\n", "Markdown", []string{"main"}),
	}
	defs = append(defs, d)

	// E: an empty repository (no priority: ties with C in merge's sort)
	e := mk("E", "eps/e", 5, []zoekt.RepositoryBranch{{Name: "HEAD", Version: "e-head"}}, map[string]string{"public": "0"}, nil)
	defs = append(defs, e)

	if thorough {
		// F: second repository without priority (tie with C), first branch is not HEAD
		f := mk("F", "zeta/f", 6, []zoekt.RepositoryBranch{{Name: "release", Version: "f-rel"}, {Name: "HEAD", Version: "f-head"}}, nil, nil)
		f.Docs = []index.Document{
			c16Doc("f.go", "package f\n// needle zeta\nfunc Zeta() {}\n", "Go", []string{"release", "HEAD"}, [4]string{"Zeta", "function", "f", "package"}),
			c16Doc("only-head.txt", "needle head only\n", "Text", []string{"HEAD"}),
		}
		defs = append(defs, f)
	}
	return defs
}

func c16ShardFile(name string) string {
	return fmt.Sprintf("%s_v%d.%05d.zoekt", url.QueryEscape(name), index.IndexFormatVersion, 0)
}

func c16BuildSimple(d *c16Def) ([]byte, error) {
	repo := d.Repo
	b, err := index.NewShardBuilder(&repo)
	if err != nil {
		return nil, err
	}
	for _, doc := range d.Docs {
		if err := b.Add(doc); err != nil {
			return nil, fmt.Errorf("%s: add %s: %w", d.Repo.Name, doc.Name, err)
		}
	}
	var buf bytes.Buffer
	if err := b.Write(&buf); err != nil {
		return nil, err
	}
	return buf.Bytes(), nil
}

// ---- queries and observation --------------------------------------------------------------

func c16Queries() []query.Q {
	br := query.NewSingleBranchesRepos("b32", 2)
	br.List = append(br.List, query.NewSingleBranchesRepos("c40", 3).List...)
	br.List = append(br.List, query.NewSingleBranchesRepos("dev", 1).List...)
	br.List = append(br.List, query.NewSingleBranchesRepos("main", 4, 6).List...)
	return []query.Q{
		&query.Const{Value: true},
		&query.Substring{Pattern: "needle", Content: true},
		&query.Substring{Pattern: ".go", FileName: true, CaseSensitive: true},
		&query.Regexp{Regexp: c16Syntax(`fo+_?bar`), Content: true},
		&query.Branch{Pattern: "b32", Exact: true},
		&query.And{Children: []query.Q{&query.Branch{Pattern: "c63", Exact: true}, &query.Substring{Pattern: "needle", Content: true}}},
		&query.Or{Children: []query.Q{&query.Branch{Pattern: "dev"}, &query.Branch{Pattern: "b31"}, &query.Branch{Pattern: "c40", Exact: true}}},
		&query.Symbol{Expr: &query.Substring{Pattern: "foo"}},
		&query.Symbol{Expr: &query.Regexp{Regexp: c16Syntax(`^[A-Z]\w+$`), CaseSensitive: true}},
		&query.Language{Language: "Go"},
		&query.And{Children: []query.Q{&query.Language{Language: "Python"}, &query.Not{Child: &query.Substring{Pattern: "zzz"}}}},
		br,
		&query.Or{Children: []query.Q{&query.Meta{Field: "team", Value: mustRe("^red$")}, &query.Repo{Regexp: mustRe("gamma|eps")}}},
	}
}

func c16Syntax(s string) *syntax.Regexp {
	re, err := syntax.Parse(s, syntax.Perl)
	if err != nil {
		panic(err)
	}
	return re
}

func c16CanonFile(f *zoekt.FileMatch) string {
	var sb strings.Builder
	fmt.Fprintf(&sb, "%s#%d|%s|sub=%s@%s|ver=%s|lang=%s|br=%v|sum=%x|content=%q|", f.Repository, f.RepositoryID, f.FileName, f.SubRepositoryName, f.SubRepositoryPath, f.Version, f.Language, f.Branches, f.Checksum, f.Content)
	symStr := func(s *zoekt.Symbol) string {
		if s == nil {
			return "-"
		}
		return fmt.Sprintf("{%s %s %s %s}", s.Sym, s.Kind, s.Parent, s.ParentKind)
	}
	var ms []string
	for _, m := range f.LineMatches {
		s := fmt.Sprintf("L%d[%d,%d)name=%v %q:", m.LineNumber, m.LineStart, m.LineEnd, m.FileName, m.Line)
		for _, fr := range m.LineFragments {
			s += fmt.Sprintf("%d/%d+%d%s,", fr.Offset, fr.LineOffset, fr.MatchLength, symStr(fr.SymbolInfo))
		}
		ms = append(ms, s)
	}
	for _, m := range f.ChunkMatches {
		s := fmt.Sprintf("C%d:%d name=%v %q:", m.ContentStart.ByteOffset, m.ContentStart.LineNumber, m.FileName, m.Content)
		for i, rg := range m.Ranges {
			var si *zoekt.Symbol
			if i < len(m.SymbolInfo) {
				si = m.SymbolInfo[i]
			}
			s += fmt.Sprintf("%d-%d%s,", rg.Start.ByteOffset, rg.End.ByteOffset, symStr(si))
		}
		ms = append(ms, s)
	}
	sort.Strings(ms) // matches of a file are ordered by score
	sb.WriteString(strings.Join(ms, ";"))
	return sb.String()
}

func c16NormRepo(r *zoekt.Repository) *zoekt.Repository {
	c := *r
	c.Rank = 0 // derived from RawConfig when the shard is read
	if len(c.Metadata) == 0 {
		c.Metadata = nil
	}
	if len(c.RawConfig) == 0 {
		c.RawConfig = nil
	}
	if len(c.FileTombstones) == 0 {
		c.FileTombstones = nil
	}
	if len(c.SubRepoMap) == 0 {
		c.SubRepoMap = nil
	} else {
		m := map[string]*zoekt.Repository{}
		for k, v := range c.SubRepoMap {
			if v != nil {
				v = c16NormRepo(v)
			}
			m[k] = v
		}
		c.SubRepoMap = m
	}
	return &c
}

func c16CanonRepo(r *zoekt.Repository) string {
	b, err := json.Marshal(c16NormRepo(r))
	if err != nil {
		return "marshal error: " + err.Error()
	}
	return string(b)
}

// c16Observe returns, per repository name, everything the directory searcher says about it.
func c16Observe(dir string, qs []query.Q, idName map[uint32]string) (obs map[string][]string, err error) {
	defer func() {
		if p := recover(); p != nil {
			err = fmt.Errorf("panic while searching: %v\n%s", p, debug.Stack())
		}
	}()
	ds, err := search.NewDirectorySearcher(dir)
	if err != nil {
		return nil, err
	}
	defer ds.Close()
	obs = map[string][]string{}
	ctx := context.Background()
	for qi, q := range qs {
		for _, chunk := range []bool{false, true} {
			opts := unlimited()
			opts.Whole = true
			opts.ChunkMatches = chunk
			res, err := ds.Search(ctx, q, &opts)
			if err != nil {
				return nil, fmt.Errorf("search %s: %w", q, err)
			}
			if res.Stats.Crashes > 0 {
				return nil, fmt.Errorf("search %s: %d shard crashes", q, res.Stats.Crashes)
			}
			for i := range res.Files {
				f := &res.Files[i]
				obs[f.Repository] = append(obs[f.Repository], fmt.Sprintf("q%d chunk=%v: %s", qi, chunk, c16CanonFile(f)))
			}
		}
	}
	for li, lq := range []query.Q{&query.Const{Value: true}, &query.Repo{Regexp: mustRe("a")}} {
		rl, err := ds.List(ctx, lq, &zoekt.ListOptions{Field: zoekt.RepoListFieldRepos})
		if err != nil {
			return nil, fmt.Errorf("list: %w", err)
		}
		if rl.Crashes > 0 {
			return nil, fmt.Errorf("list: %d shard crashes", rl.Crashes)
		}
		for _, e := range rl.Repos {
			obs[e.Repository.Name] = append(obs[e.Repository.Name], fmt.Sprintf("list%d: %s", li, c16CanonRepo(&e.Repository)))
		}
		rm, err := ds.List(ctx, lq, &zoekt.ListOptions{Field: zoekt.RepoListFieldReposMap})
		if err != nil {
			return nil, fmt.Errorf("list(map): %w", err)
		}
		for id, e := range rm.ReposMap {
			nm, ok := idName[id]
			if !ok {
				nm = fmt.Sprintf("unknown-id-%d", id)
			}
			obs[nm] = append(obs[nm], fmt.Sprintf("listmap%d: id=%d symbols=%v branches=%v", li, id, e.HasSymbols, e.Branches))
		}
	}
	for k := range obs {
		sort.Strings(obs[k])
	}
	return obs, nil
}

// ---- shard structure, operations, specification -------------------------------------------

type c16Member struct {
	Name string
	ID   uint32
	Tomb bool
}

type c16Shard struct {
	File     string
	Compound bool
	Members  []c16Member
	Err      string
}

func (s c16Shard) String() string {
	var ms []string
	for _, m := range s.Members {
		t := ""
		if m.Tomb {
			t = "(tombstoned)"
		}
		ms = append(ms, m.Name+t)
	}
	sort.Strings(ms)
	k := "S"
	if s.Compound {
		k = "C"
	}
	e := ""
	if s.Err != "" {
		e = "!" + s.Err
	}
	return k + "{" + strings.Join(ms, ",") + "}" + e
}

func c16Structure(dir string) []c16Shard {
	files, _ := filepath.Glob(filepath.Join(dir, "*.zoekt"))
	sort.Strings(files)
	var out []c16Shard
	for _, f := range files {
		s := c16Shard{File: filepath.Base(f), Compound: strings.HasPrefix(filepath.Base(f), "compound-")}
		repos, _, err := index.ReadMetadataPath(f)
		if err != nil {
			s.Err = err.Error()
		}
		for _, r := range repos {
			s.Members = append(s.Members, c16Member{r.Name, r.ID, r.Tombstone})
		}
		out = append(out, s)
	}
	return out
}

func c16Key(shards []c16Shard) string {
	var ss []string
	for _, s := range shards {
		ss = append(ss, s.String())
	}
	sort.Strings(ss)
	return strings.Join(ss, " ")
}

// c16Extra lists directory entries that are neither shards nor their sidecars (leftovers).
func c16Extra(dir string) []string {
	ents, _ := os.ReadDir(dir)
	var out []string
	for _, e := range ents {
		n := e.Name()
		if strings.HasSuffix(n, ".zoekt") {
			continue
		}
		if strings.HasSuffix(n, ".zoekt.meta") {
			if _, err := os.Stat(filepath.Join(dir, strings.TrimSuffix(n, ".meta"))); err == nil {
				continue
			}
		}
		out = append(out, n)
	}
	return out
}

type c16Op struct {
	Kind  byte // 'M' merge, 'X' explode, 'T' tombstone
	Files []int
	Rev   bool
	ID    uint32
}

func (o c16Op) String() string {
	var fs []string
	for _, f := range o.Files {
		fs = append(fs, strconv.Itoa(f))
	}
	switch o.Kind {
	case 'M':
		if o.Rev {
			return "Mr(" + strings.Join(fs, ".") + ")"
		}
		return "M(" + strings.Join(fs, ".") + ")"
	case 'X':
		return "X(" + fs[0] + ")"
	}
	return fmt.Sprintf("T(%s.#%d)", fs[0], o.ID)
}

func c16ParseOp(s string) (c16Op, error) {
	var o c16Op
	i := strings.Index(s, "(")
	if i < 0 || !strings.HasSuffix(s, ")") {
		return o, fmt.Errorf("bad op %q", s)
	}
	head, args := s[:i], strings.Split(s[i+1:len(s)-1], ".")
	switch head {
	case "M", "Mr":
		o.Kind, o.Rev = 'M', head == "Mr"
	case "X":
		o.Kind = 'X'
	case "T":
		o.Kind = 'T'
	default:
		return o, fmt.Errorf("bad op %q", s)
	}
	for _, a := range args {
		if strings.HasPrefix(a, "#") {
			v, err := strconv.Atoi(a[1:])
			if err != nil {
				return o, err
			}
			o.ID = uint32(v)
			continue
		}
		v, err := strconv.Atoi(a)
		if err != nil {
			return o, err
		}
		o.Files = append(o.Files, v)
	}
	if len(o.Files) == 0 {
		return o, fmt.Errorf("bad op %q", s)
	}
	return o, nil
}

// describe renders the operation with the shard descriptions it applies to (stable across runs).
func (o c16Op) describe(shards []c16Shard) string {
	var in []string
	for _, f := range o.Files {
		if f < len(shards) {
			in = append(in, shards[f].String())
		} else {
			in = append(in, "?")
		}
	}
	switch o.Kind {
	case 'M':
		if o.Rev {
			for i, j := 0, len(in)-1; i < j; i, j = i+1, j-1 {
				in[i], in[j] = in[j], in[i]
			}
		}
		return "merge[" + strings.Join(in, " + ") + "]"
	case 'X':
		return "explode[" + in[0] + "]"
	}
	nm := fmt.Sprintf("#%d", o.ID)
	if o.Files[0] < len(shards) {
		for _, m := range shards[o.Files[0]].Members {
			if m.ID == o.ID {
				nm = m.Name
			}
		}
	}
	return "tombstone[" + in[0] + ", " + nm + "]"
}

type c16World struct {
	bothOrders bool // also merge with the inputs in reverse argument order
	defs       []*c16Def
	byName     map[string]*c16Def
	idName     map[uint32]string
}

func c16NewWorld(thorough bool) *c16World {
	w := &c16World{bothOrders: thorough, defs: c16Defs(thorough), byName: map[string]*c16Def{}, idName: map[uint32]string{}}
	for _, d := range w.defs {
		w.byName[d.Repo.Name] = d
		w.idName[d.Repo.ID] = d.Repo.Name
	}
	return w
}

// kept reports whether merge / explode must carry the member over.
func (w *c16World) kept(m c16Member) bool {
	d := w.byName[m.Name]
	return !m.Tomb && d != nil && !d.empty()
}

func (w *c16World) ops(shards []c16Shard) []c16Op {
	var ops []c16Op
	n := len(shards)
	for mask := 1; mask < 1<<n; mask++ {
		var files []int
		keep := 0
		for i := 0; i < n; i++ {
			if mask&(1<<i) != 0 {
				files = append(files, i)
				for _, m := range shards[i].Members {
					if w.kept(m) {
						keep++
					}
				}
			}
		}
		if keep == 0 {
			continue // nothing to preserve: the property says nothing about such a merge
		}
		ops = append(ops, c16Op{Kind: 'M', Files: files})
		if len(files) > 1 && w.bothOrders {
			ops = append(ops, c16Op{Kind: 'M', Files: files, Rev: true})
		}
	}
	for i, s := range shards {
		if !s.Compound {
			continue
		}
		ops = append(ops, c16Op{Kind: 'X', Files: []int{i}})
		for _, m := range s.Members {
			if !m.Tomb {
				ops = append(ops, c16Op{Kind: 'T', Files: []int{i}, ID: m.ID})
			}
		}
	}
	return ops
}

// predict is the specification: the shard structure after the operation.
func (w *c16World) predict(shards []c16Shard, o c16Op) []c16Shard {
	in := map[int]bool{}
	for _, f := range o.Files {
		in[f] = true
	}
	var out []c16Shard
	switch o.Kind {
	case 'M':
		comp := c16Shard{Compound: true}
		for i, s := range shards {
			if !in[i] {
				out = append(out, s)
				continue
			}
			for _, m := range s.Members {
				if w.kept(m) {
					comp.Members = append(comp.Members, m)
				}
			}
		}
		out = append(out, comp)
	case 'X':
		for i, s := range shards {
			if !in[i] {
				out = append(out, s)
				continue
			}
			for _, m := range s.Members {
				if w.kept(m) {
					out = append(out, c16Shard{Members: []c16Member{m}})
				}
			}
		}
	case 'T':
		for i, s := range shards {
			if in[i] {
				c := s
				c.Members = append([]c16Member{}, s.Members...)
				for j := range c.Members {
					if c.Members[j].ID == o.ID {
						c.Members[j].Tomb = true
					}
				}
				s = c
			}
			out = append(out, s)
		}
	}
	return out
}

// c16Apply runs the operation on the directory the way the zoekt tools do.
func c16Apply(dir string, shards []c16Shard, o c16Op) (err error) {
	defer func() {
		if p := recover(); p != nil {
			err = fmt.Errorf("panic: %v\n%s", p, debug.Stack())
		}
	}()
	for _, f := range o.Files {
		if f >= len(shards) {
			return fmt.Errorf("TOOL: operation %s refers to shard %d of %d", o, f, len(shards))
		}
	}
	switch o.Kind {
	case 'M':
		// mirrors merge() of cmd/zoekt-merge-index: Merge, remove the inputs, rename
		var names []string
		for _, f := range o.Files {
			names = append(names, filepath.Join(dir, shards[f].File))
		}
		if o.Rev {
			for i, j := 0, len(names)-1; i < j; i, j = i+1, j-1 {
				names[i], names[j] = names[j], names[i]
			}
		}
		var files []index.IndexFile
		for _, fn := range names {
			f, err := os.Open(fn)
			if err != nil {
				return err
			}
			defer f.Close()
			inf, err := index.NewIndexFile(f)
			if err != nil {
				return err
			}
			defer inf.Close()
			files = append(files, inf)
		}
		tmpName, dstName, err := index.Merge(dir, files...)
		if err != nil {
			return err
		}
		for _, fn := range names {
			paths, err := index.IndexFilePaths(fn)
			if err != nil {
				return err
			}
			for _, p := range paths {
				if err := os.Remove(p); err != nil {
					return err
				}
			}
		}
		return os.Rename(tmpName, dstName)
	case 'X':
		return index.Explode(dir, filepath.Join(dir, shards[o.Files[0]].File))
	case 'T':
		return index.SetTombstone(filepath.Join(dir, shards[o.Files[0]].File), o.ID)
	}
	return fmt.Errorf("TOOL: unknown operation")
}

// ---- nodes --------------------------------------------------------------------------------

type c16Node struct {
	Set string // letters of the initial repositories
	Ops []c16Op
}

func (n c16Node) id() string {
	var os []string
	for _, o := range n.Ops {
		os = append(os, o.String())
	}
	return "set=" + n.Set + " ops=" + strings.Join(os, ";")
}

func c16ParseNode(s string) (c16Node, error) {
	var n c16Node
	f := strings.Fields(s)
	if len(f) != 2 || !strings.HasPrefix(f[0], "set=") || !strings.HasPrefix(f[1], "ops=") {
		return n, fmt.Errorf("bad case id %q", s)
	}
	n.Set = f[0][4:]
	for _, p := range strings.Split(f[1][4:], ";") {
		if p == "" {
			continue
		}
		o, err := c16ParseOp(p)
		if err != nil {
			return n, err
		}
		n.Ops = append(n.Ops, o)
	}
	return n, nil
}

func c16Hash(s string) string { return fmt.Sprintf("%x", sha1.Sum([]byte(s)))[:24] }

func c16IsDir(p string) bool {
	st, err := os.Stat(p)
	return err == nil && st.IsDir()
}

func c16Less(a, b string) bool { return len(a) < len(b) || (len(a) == len(b) && a < b) }

func c16CopyShards(src, dst string) error {
	if err := os.MkdirAll(dst, 0o755); err != nil {
		return err
	}
	ents, err := os.ReadDir(src)
	if err != nil {
		return err
	}
	for _, e := range ents {
		if e.IsDir() {
			continue
		}
		b, err := os.ReadFile(filepath.Join(src, e.Name()))
		if err != nil {
			return err
		}
		if err := os.WriteFile(filepath.Join(dst, e.Name()), b, 0o644); err != nil {
			return err
		}
	}
	return nil
}

// ---- worker -------------------------------------------------------------------------------

type c16Finding struct {
	Clause, Situation, CaseID, Detail string
}

type c16Succ struct {
	Key   string
	Node  string
	Saved bool // this worker's directory became the stored copy of the state
}

type c16Job struct {
	LibDir   string
	StateDir string // directories of already reached states, by hash of their structure key
	Root     string
	Thorough bool
	Nodes    []string
	Seen     map[string]bool // structure keys reached before this level
	Baseline map[string][]string
	Deadline time.Time
}

type c16Result struct {
	Succ        []c16Succ
	Pre         []string
	Findings    []c16Finding
	Transitions int
	OpCount     map[string]int
	Nontrivial  []string
	Samples     []map[string]any
	Cut         bool
}

func c16Diff(want, got []string) string {
	ws, gs := map[string]bool{}, map[string]bool{}
	for _, s := range want {
		ws[s] = true
	}
	for _, s := range got {
		gs[s] = true
	}
	var sb strings.Builder
	n := 0
	for _, s := range want {
		if !gs[s] && n < 4 {
			fmt.Fprintf(&sb, "  missing: %.700s\n", s)
			n++
		}
	}
	n = 0
	for _, s := range got {
		if !ws[s] && n < 4 {
			fmt.Fprintf(&sb, "  unexpected: %.700s\n", s)
			n++
		}
	}
	if sb.Len() == 0 {
		fmt.Fprintf(&sb, "  same entries with different multiplicity: want %d, got %d\n", len(want), len(got))
	}
	return sb.String()
}

// c16Materialise builds the directory of a node: the initial simple shards, then its history.
func c16Materialise(w *c16World, libDir, stateDir, dir string, n c16Node) error {
	if stateDir != "" && len(n.Ops) > 0 {
		// the directory produced when this very history was first executed
		if src := filepath.Join(stateDir, c16Hash(n.id())); c16IsDir(src) {
			return c16CopyShards(src, dir)
		}
	}
	if err := os.MkdirAll(dir, 0o755); err != nil {
		return err
	}
	for _, d := range w.defs {
		if !strings.Contains(n.Set, d.Letter) {
			continue
		}
		b, err := os.ReadFile(filepath.Join(libDir, d.Letter+".zoekt"))
		if err != nil {
			return err
		}
		if err := os.WriteFile(filepath.Join(dir, c16ShardFile(d.Repo.Name)), b, 0o644); err != nil {
			return err
		}
	}
	for _, o := range n.Ops {
		if err := c16Apply(dir, c16Structure(dir), o); err != nil {
			return fmt.Errorf("replaying %s: %w", o, err)
		}
	}
	return nil
}

func c16RunChunk(w *c16World, job *c16Job, nodes []c16Node, only *c16Op) *c16Result {
	res := &c16Result{OpCount: map[string]int{}}
	qs := c16Queries()
	findings := map[string]*c16Finding{}
	seq := 0
	for ni, n := range nodes {
		if !job.Deadline.IsZero() && time.Now().After(job.Deadline) {
			res.Cut = true
			break
		}
		seq++
		pdir := filepath.Join(job.Root, fmt.Sprintf("p%d", seq))
		if err := c16Materialise(w, job.LibDir, job.StateDir, pdir, n); err != nil {
			findings["TOOL: cannot rebuild state"] = &c16Finding{"TOOL: cannot rebuild state", "", n.id(), err.Error()}
			os.RemoveAll(pdir)
			continue
		}
		pre := c16Structure(pdir)
		preKey := c16Key(pre)
		res.Pre = append(res.Pre, preKey)
		ops := w.ops(pre)
		if only != nil {
			ops = []c16Op{*only}
		}
		for oi, o := range ops {
			if !job.Deadline.IsZero() && time.Now().After(job.Deadline) {
				res.Cut = true
				break
			}
			child := c16Node{n.Set, append(append([]c16Op{}, n.Ops...), o)}
			caseID := child.id()
			opDesc := o.describe(pre)
			opKind := map[byte]string{'M': "merge", 'X': "explode", 'T': "tombstone"}[o.Kind]
			report := func(clause, what, detail string) {
				// findings are grouped by (clause, kind of operation, repository or error); the smallest
				// history of each group is the one reported
				k := clause + " after " + opKind + what
				if f := findings[k]; f == nil || c16Less(caseID, f.CaseID) {
					findings[k] = &c16Finding{clause, "after " + opKind + what, caseID,
						fmt.Sprintf("initial simple shards: %s; history: %s\nstate before: %s\noperation: %s\n%s", n.Set, caseID, preKey, opDesc, detail)}
				}
			}
			seq++
			dir := filepath.Join(job.Root, fmt.Sprintf("t%d", seq))
			if err := c16CopyShards(pdir, dir); err != nil {
				panic(err)
			}
			err := c16Apply(dir, pre, o)
			res.Transitions++
			res.OpCount[string(o.Kind)]++
			want := w.predict(pre, o)
			wantKey := c16Key(want)
			if err != nil {
				// every generated operation has something to preserve and must succeed
				msg := err.Error()
				if i := strings.Index(msg, "\n"); i > 0 {
					msg = msg[:i]
				}
				if len(msg) > 120 {
					msg = msg[:120]
				}
				report("operation failed", ": "+msg, err.Error())
				os.RemoveAll(dir)
				continue
			}
			got := c16Structure(dir)
			gotKey := c16Key(got)
			if gotKey != wantKey {
				report("wrong shard structure", "", fmt.Sprintf("want: %s\ngot:  %s", wantKey, gotKey))
			}
			if extra := c16Extra(dir); len(extra) > 0 {
				report("leftover files", "", fmt.Sprint(extra))
			}
			obs, err := c16Observe(dir, qs, w.idName)
			if err != nil {
				report("directory not searchable", "", err.Error())
			} else {
				visible := map[string]bool{}
				for _, s := range want {
					for _, m := range s.Members {
						if !m.Tomb {
							visible[m.Name] = true
						}
					}
				}
				var names []string
				for k := range obs {
					names = append(names, k)
				}
				for k := range visible {
					if _, ok := obs[k]; !ok {
						names = append(names, k)
					}
				}
				sort.Strings(names)
				for _, nm := range names {
					if !visible[nm] {
						report("dropped or unknown repository visible", ": "+nm, strings.Join(obs[nm], "\n"))
						continue
					}
					base := job.Baseline[nm]
					if strings.Join(base, "\n") != strings.Join(obs[nm], "\n") {
						report("search/list results differ from the original simple shard", ": "+nm, fmt.Sprintf("structure after: %s\nrepository %s:\n%s", gotKey, nm, c16Diff(base, obs[nm])))
					}
				}
			}
			if gotKey != preKey {
				res.Nontrivial = append(res.Nontrivial, preKey+" | "+o.String())
			}
			saved := false
			if job.StateDir != "" && !job.Seen[gotKey] {
				// claim the state: the first worker to create the marker keeps its directory, stored under
				// its own history, so that expanding the state later starts from exactly this directory
				marker := filepath.Join(job.StateDir, "claim-"+c16Hash(gotKey))
				if f, err := os.OpenFile(marker, os.O_CREATE|os.O_EXCL|os.O_WRONLY, 0o644); err == nil {
					f.Close()
					if err := os.Rename(dir, filepath.Join(job.StateDir, c16Hash(caseID))); err == nil {
						saved = true
					}
				}
			}
			res.Succ = append(res.Succ, c16Succ{gotKey, caseID, saved})
			if (ni+oi)%7 == 0 && len(res.Samples) < 4 {
				res.Samples = append(res.Samples, map[string]any{"history": caseID, "before": preKey, "operation": opDesc, "after": gotKey})
			}
			os.RemoveAll(dir)
		}
		os.RemoveAll(pdir)
	}
	for _, f := range findings {
		res.Findings = append(res.Findings, *f)
	}
	return res
}

// TestVerifC16Child is the worker process of TestVerifC16 (one chunk of one BFS level).
func TestVerifC16Child(t *testing.T) {
	jp := os.Getenv("VERIF_C16_JOB")
	if jp == "" {
		t.Skip("worker of TestVerifC16")
	}
	b, err := os.ReadFile(jp)
	if err != nil {
		t.Fatal(err)
	}
	var job c16Job
	if err := json.Unmarshal(b, &job); err != nil {
		t.Fatal(err)
	}
	var nodes []c16Node
	for _, s := range job.Nodes {
		n, err := c16ParseNode(s)
		if err != nil {
			t.Fatal(err)
		}
		nodes = append(nodes, n)
	}
	if err := os.MkdirAll(job.Root, 0o755); err != nil {
		t.Fatal(err)
	}
	res := c16RunChunk(c16NewWorld(job.Thorough), &job, nodes, nil)
	out, err := json.Marshal(res)
	if err != nil {
		t.Fatal(err)
	}
	if err := os.WriteFile(jp+".out", out, 0o644); err != nil {
		t.Fatal(err)
	}
}

func TestVerifC16(t *testing.T) {
	r := mc.NewReport("C16")
	budget := 100.0
	if r.Thorough() {
		budget = 900
	}
	if b, err := strconv.ParseFloat(os.Getenv("VERIF_BUDGET_S"), 64); err == nil && b > 0 {
		budget = b
	}
	deadline := time.Now().Add(time.Duration(budget * float64(time.Second)))
	root, clean := gen.Scratch("c16")
	defer clean()
	w := c16NewWorld(r.Thorough())
	maxDepth := 3
	if v, err := strconv.Atoi(os.Getenv("VERIF_C16_DEPTH")); err == nil && v > 0 {
		maxDepth = v
	}

	// library of simple shards and per-repository baselines (each original shard alone)
	libDir := filepath.Join(root, "lib")
	os.MkdirAll(libDir, 0o755)
	baseline := map[string][]string{}
	qs := c16Queries()
	for _, d := range w.defs {
		data, err := c16BuildSimple(d)
		if err == nil {
			err = os.WriteFile(filepath.Join(libDir, d.Letter+".zoekt"), data, 0o644)
		}
		if err != nil {
			r.Violation("TOOL: cannot build input shard "+d.Repo.Name, err.Error(), nil)
			r.Finish("library construction failed")
			t.Fatal(err)
		}
		bdir := filepath.Join(root, "base-"+d.Letter)
		os.MkdirAll(bdir, 0o755)
		os.WriteFile(filepath.Join(bdir, c16ShardFile(d.Repo.Name)), data, 0o644)
		obs, err := c16Observe(bdir, qs, w.idName)
		if err != nil {
			r.Violation("TOOL: cannot search input shard "+d.Repo.Name, err.Error(), nil)
			r.Finish("library construction failed")
			t.Fatal(err)
		}
		for k := range obs {
			if k != d.Repo.Name {
				t.Fatalf("baseline of %s mentions %s", d.Repo.Name, k)
			}
		}
		baseline[d.Repo.Name] = obs[d.Repo.Name]
		if !d.empty() {
			// every non-empty repository must be hit by most queries, or the oracle is blind
			hit := map[string]bool{}
			for _, l := range obs[d.Repo.Name] {
				hit[strings.SplitN(l, " ", 2)[0]] = true
			}
			r.Set("baseline_entries_"+d.Letter, len(obs[d.Repo.Name]))
			r.Set("baseline_queries_hit_"+d.Letter, len(hit))
		}
	}

	findings := map[string]*c16Finding{}
	transitions := 0
	opCount := map[string]int{}
	merge := func(res *c16Result) {
		for i := range res.Findings {
			f := res.Findings[i]
			k := f.Clause + " " + f.Situation
			if old := findings[k]; old == nil || c16Less(f.CaseID, old.CaseID) {
				findings[k] = &f
			}
		}
		transitions += res.Transitions
		r.Eval(res.Transitions)
		for k, v := range res.OpCount {
			opCount[k] += v
		}
		for _, k := range res.Nontrivial {
			r.Nontrivial(k)
		}
		for _, s := range res.Samples {
			r.Sample(s)
		}
	}

	if r.Replaying() {
		n, err := c16ParseNode(os.Getenv("VERIF_REPLAY_CASE"))
		if err != nil || len(n.Ops) == 0 {
			r.Violation("TOOL: cannot parse replay case", fmt.Sprint(err), nil)
		} else {
			last := n.Ops[len(n.Ops)-1]
			n.Ops = n.Ops[:len(n.Ops)-1]
			job := &c16Job{LibDir: libDir, Root: filepath.Join(root, "replay"), Thorough: r.Thorough(), Baseline: baseline}
			os.MkdirAll(job.Root, 0o755)
			merge(c16RunChunk(w, job, []c16Node{n}, &last))
		}
	} else {
		// initial states: every set of 1..3 repositories
		var frontier []c16Node
		nd := len(w.defs)
		for mask := 1; mask < 1<<nd; mask++ {
			set := ""
			for i, d := range w.defs {
				if mask&(1<<i) != 0 {
					set += d.Letter
				}
			}
			if len(set) <= 3 {
				frontier = append(frontier, c16Node{Set: set})
			}
		}
		sort.Slice(frontier, func(i, j int) bool { return c16Less(frontier[i].Set, frontier[j].Set) })
		r.Set("initial_states", len(frontier))
		procs := runtime.NumCPU()
		if v, err := strconv.Atoi(os.Getenv("VERIF_PROCS")); err == nil && v > 0 {
			procs = v
		}
		// quick tier: histories that start from three repositories are explored one step less deep
		depthLimit := func(n c16Node) int {
			if !r.Thorough() && len(n.Set) == 3 {
				return maxDepth - 1
			}
			return maxDepth
		}
		notExpanded := 0
		seen := map[string]bool{}
		for _, n := range frontier {
			// structure key of an initial state: one simple shard per repository
			var ss []c16Shard
			for _, d := range w.defs {
				if strings.Contains(n.Set, d.Letter) {
					ss = append(ss, c16Shard{Members: []c16Member{{Name: d.Repo.Name, ID: d.Repo.ID}}})
				}
			}
			seen[c16Key(ss)] = true
		}
		stateDir := filepath.Join(root, "states")
		os.MkdirAll(stateDir, 0o755)
		depthReached := 0
		for depth := 1; depth <= maxDepth && len(frontier) > 0; depth++ {
			if r.Expired() {
				r.Incomplete("budget exhausted before depth %d (%d frontier states)", depth, len(frontier))
				break
			}
			// Every merge / explode allocates a fresh shard builder (tens of megabytes) and maps the
			// shards into memory; in one address space that does not scale, so each level is spread
			// over worker processes.
			p := procs
			if p > len(frontier) {
				p = len(frontier)
			}
			results := make([]*c16Result, p)
			errs := make([]error, p)
			var wg sync.WaitGroup
			for wi := 0; wi < p; wi++ {
				job := c16Job{LibDir: libDir, StateDir: stateDir, Seen: seen, Root: filepath.Join(root, fmt.Sprintf("w%d-%d", depth, wi)), Thorough: r.Thorough(), Baseline: baseline, Deadline: deadline}
				for i := wi; i < len(frontier); i += p {
					job.Nodes = append(job.Nodes, frontier[i].id())
				}
				jp := filepath.Join(root, fmt.Sprintf("job-%d-%d.json", depth, wi))
				jb, _ := json.Marshal(job)
				if err := os.WriteFile(jp, jb, 0o644); err != nil {
					t.Fatal(err)
				}
				wg.Add(1)
				go func(wi int) {
					defer wg.Done()
					cmd := exec.Command(os.Args[0], "-test.run=^TestVerifC16Child$", "-test.timeout=0")
					cmd.Env = append(os.Environ(), "VERIF_C16_JOB="+jp, "GOMAXPROCS=2", "GOGC=400", "VERIF_OUT=")
					out, err := cmd.CombinedOutput()
					if err != nil {
						if len(out) > 4000 {
							out = out[len(out)-4000:]
						}
						errs[wi] = fmt.Errorf("worker %d: %v\n%s", wi, err, out)
						return
					}
					b, err := os.ReadFile(jp + ".out")
					if err != nil {
						errs[wi] = fmt.Errorf("worker %d wrote no result: %v", wi, err)
						return
					}
					res := &c16Result{}
					if err := json.Unmarshal(b, res); err != nil {
						errs[wi] = err
						return
					}
					results[wi] = res
				}(wi)
			}
			wg.Wait()
			cut := false
			for wi := 0; wi < p; wi++ {
				if errs[wi] != nil {
					r.Violation("TOOL: worker process failed", errs[wi].Error(), nil)
					cut = true
					continue
				}
				merge(results[wi])
				cut = cut || results[wi].Cut
				if depth == 1 {
					for _, k := range results[wi].Pre {
						seen[k] = true
					}
				}
			}
			levelNew := map[string]string{}
			levelSaved := map[string]bool{}
			for wi := 0; wi < p; wi++ {
				if results[wi] == nil {
					continue
				}
				for _, s := range results[wi].Succ {
					if seen[s.Key] {
						continue
					}
					// the representative history is the one whose directory was stored; without a stored
					// copy (should not happen) the shortest, then smallest, history is replayed instead
					// (histories with the larger remaining depth first: see depthLimit)
					better := func(old string) bool {
						on, _ := c16ParseNode(old)
						sn, _ := c16ParseNode(s.Node)
						if a, b := depthLimit(sn)-len(sn.Ops), depthLimit(on)-len(on.Ops); a != b {
							return a > b
						}
						if s.Saved != levelSaved[s.Key] {
							return s.Saved
						}
						return c16Less(s.Node, old)
					}
					if old, ok := levelNew[s.Key]; !ok || better(old) {
						levelNew[s.Key] = s.Node
						levelSaved[s.Key] = s.Saved
					}
				}
			}
			var ks []string
			for k := range levelNew {
				ks = append(ks, k)
				seen[k] = true
			}
			sort.Strings(ks)
			if cut {
				r.Incomplete("budget exhausted at depth %d (%d frontier states)", depth, len(frontier))
				break
			}
			depthReached = depth
			frontier = frontier[:0]
			for _, k := range ks {
				n, err := c16ParseNode(levelNew[k])
				if err != nil {
					t.Fatal(err)
				}
				if len(n.Ops) >= depthLimit(n) && depth < maxDepth {
					notExpanded++
					continue
				}
				frontier = append(frontier, n)
			}
			r.Set(fmt.Sprintf("new_states_depth_%d", depth), len(ks))
		}
		if len(frontier) > 0 && depthReached == maxDepth {
			r.Note("%d states first reached at depth %d are not expanded (depth bound)", len(frontier), maxDepth)
		}
		if notExpanded > 0 {
			r.Note("%d states reached from three initial repositories at depth %d are not expanded (quick-tier depth bound %d for those)", notExpanded, maxDepth-1, maxDepth-1)
		}
		r.Set("states", len(seen))
		r.Set("max_depth", depthReached)
	}

	var fkeys []string
	for k := range findings {
		fkeys = append(fkeys, k)
	}
	sort.Strings(fkeys)
	for _, k := range fkeys {
		f := findings[k]
		r.Violation("C16 "+f.Clause+" "+f.Situation+"; smallest case: "+f.CaseID, f.Detail, map[string]any{"case": f.CaseID})
	}
	r.Set("transitions", transitions)
	r.Set("traces_validated_against_impl", transitions)
	r.Set("operations", map[string]int{"merge": opCount["M"], "explode": opCount["X"], "tombstone": opCount["T"]})
	r.Set("queries_per_observation", fmt.Sprintf("%d queries x {line, chunk} with whole contents + 2 list queries x 2 field modes", len(qs)))
	bound := fmt.Sprintf("%d repositories, initial sets of 1..3 simple shards, depth %d", len(w.defs), maxDepth)
	if !r.Thorough() {
		bound += fmt.Sprintf(" (depth %d for histories starting from 3 repositories)", maxDepth-1)
	}
	r.Set("bound", bound)
	r.Assume("two directories with the same shard structure (repositories per simple/compound shard, tombstone flags; member order ignored) have the same futures")
	r.Assume("merge operations whose inputs contain no live repository with a document are not generated (nothing to preserve)")
	r.Assume("the per-repository answer over a directory is independent of the other shards (all queries are per-document predicates; scores are not compared)")
	r.Finish("BFS: one case = one merge / explode / tombstone operation applied to a real directory reached by a history; states deduplicated by shard structure; non-trivial = the operation changed the structure (distinct (state, operation) pairs)")
}
