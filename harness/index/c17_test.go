//go:build verif

package index_test

import (
	"context"
	"fmt"
	"os"
	"path/filepath"
	"sort"
	"strings"
	"testing"

	"github.com/sourcegraph/zoekt"
	"github.com/sourcegraph/zoekt/index"
	"github.com/sourcegraph/zoekt/internal/verifshim/gen"
	"github.com/sourcegraph/zoekt/internal/verifshim/mc"
	"github.com/sourcegraph/zoekt/internal/verifshim/vos"
	"github.com/sourcegraph/zoekt/query"
)

// C17: explicit-state search over tombstone vectors of a 3-repository compound shard.
// Transitions are the real SetTombstone/UnsetTombstone (over the vos shim, with every single
// failing filesystem mutation as a variant); after every transition the shard is reloaded
// with the real loader and 12 queries + both list modes are checked.

type c17Obs struct {
	perRepo map[string]string // canonical results per repository (files of all queries + list entry)
	urls    []string          // repository names in RepoURLs / LineFragments of any query
}

func c17Observe(path string, qs []query.Q) (*c17Obs, error) {
	s, err := gen.Open(path)
	if err != nil {
		return nil, err
	}
	defer s.Close()
	o := &c17Obs{perRepo: map[string]string{}}
	urls := map[string]bool{}
	acc := map[string][]string{}
	for qi, q := range qs {
		for _, chunk := range []bool{false, true} {
			opts := unlimited()
			opts.ChunkMatches = chunk
			res, err := s.Search(context.Background(), q, &opts)
			if err != nil {
				return nil, fmt.Errorf("search %v: %w", q, err)
			}
			one := &zoekt.SearchResult{}
			for _, f := range res.Files {
				one.Files = []zoekt.FileMatch{f}
				acc[f.Repository] = append(acc[f.Repository], fmt.Sprintf("q%d/%v:%s", qi, chunk, canonResult(one)))
			}
			for k := range res.RepoURLs {
				urls[k] = true
			}
			for k := range res.LineFragments {
				urls[k] = true
			}
		}
		for _, field := range []zoekt.RepoListField{zoekt.RepoListFieldRepos, zoekt.RepoListFieldReposMap} {
			rl, err := s.List(context.Background(), q, &zoekt.ListOptions{Field: field})
			if err != nil {
				return nil, fmt.Errorf("list %v: %w", q, err)
			}
			for _, e := range rl.Repos {
				acc[e.Repository.Name] = append(acc[e.Repository.Name], fmt.Sprintf("q%d/list:%v", qi, e.Repository.Branches))
			}
			for id := range rl.ReposMap {
				nm := fmt.Sprintf("id:%d", id)
				acc[nm] = append(acc[nm], fmt.Sprintf("q%d/listmap", qi))
			}
		}
	}
	for k, v := range acc {
		sort.Strings(v)
		o.perRepo[k] = strings.Join(v, "\n")
	}
	o.urls = gen.SortedNames(urls)
	return o, nil
}

func TestVerifC17(t *testing.T) {
	r := mc.NewReport("C17")
	root, clean := gen.Scratch("c17")
	defer clean()
	corpus := gen.CompoundCorpus()
	names := map[uint32]string{1: "alpha/one", 2: "beta/two", 3: "alpha/three"}
	tmpl := filepath.Join(root, "tmpl")
	os.MkdirAll(tmpl, 0o755)
	shard, err := gen.WriteCompound(tmpl, corpus...)
	if err != nil {
		t.Fatal(err)
	}
	base := filepath.Base(shard)
	text := gen.SubstringAtoms([]string{"ab", "f1"}, [][2]bool{{false, false}})
	qs := []query.Q{&query.Const{Value: true}, text[0], text[2], &query.Substring{Pattern: "abc", Content: true},
		&query.Repo{Regexp: mustRe("alpha")}, query.NewRepoIDs(1, 2, 3), query.NewSingleBranchesRepos("HEAD", 1, 3), &query.Branch{Pattern: "main"},
		&query.Not{Child: &query.Substring{Pattern: "zzz"}}, &query.Language{Language: "Go"}, query.NewFileNameSet("db/f1.py", "da/f0.go"), &query.Meta{Field: "team", Value: mustRe(".")}}
	all, err := c17Observe(shard, qs)
	if err != nil {
		t.Fatal(err)
	}
	// file tombstone of alpha/three must hide db/f1.py from the start
	if strings.Contains(all.perRepo["alpha/three"], "db/f1.py") {
		r.Violation("file tombstone ignored: alpha/three db/f1.py", all.perRepo["alpha/three"], nil)
	}
	type state struct {
		tomb [4]bool // index by repo id 1..3
		meta bool    // sidecar exists
	}
	key := func(s state) string { return fmt.Sprintf("%v/%v", s.tomb, s.meta) }
	type opT struct {
		set bool
		id  uint32
	}
	var ops []opT
	for _, id := range []uint32{1, 2, 3, 99} {
		ops = append(ops, opT{true, id}, opT{false, id})
	}
	apply := func(dir string, o opT) error {
		p := filepath.Join(dir, base)
		if o.set {
			return index.SetTombstone(p, o.id)
		}
		return index.UnsetTombstone(p, o.id)
	}
	// materialise a state directory by replaying its shortest op list
	type node struct {
		st   state
		path []opT
	}
	mk := func(n node, dir string) {
		os.MkdirAll(dir, 0o755)
		c12CopyDir(tmpl, dir)
		for _, o := range n.path {
			if err := apply(dir, o); err != nil {
				panic(err)
			}
		}
	}
	readState := func(dir string) (state, error) {
		var st state
		repos, _, err := index.ReadMetadataPath(filepath.Join(dir, base))
		if err != nil {
			return st, err
		}
		for _, rp := range repos {
			if rp.ID <= 3 {
				st.tomb[rp.ID] = rp.Tombstone
			}
		}
		_, err = os.Stat(filepath.Join(dir, base+".meta"))
		st.meta = err == nil
		return st, nil
	}
	check := func(caseID string, dir string, st state) {
		obs, err := c17Observe(filepath.Join(dir, base), qs)
		if err != nil {
			r.Violation("reload/search failed: "+caseID, err.Error(), map[string]any{"case": caseID})
			return
		}
		for id := uint32(1); id <= 3; id++ {
			nm := names[id]
			idk := fmt.Sprintf("id:%d", id)
			if st.tomb[id] {
				if obs.perRepo[nm] != "" || obs.perRepo[idk] != "" {
					r.Violation(fmt.Sprintf("tombstoned repository %s appears in results/listings (tombstones=%v)", nm, st.tomb[1:]), caseID+"\n"+obs.perRepo[nm]+obs.perRepo[idk], map[string]any{"case": caseID})
				}
				for _, u := range obs.urls {
					if u == nm {
						r.Violation(fmt.Sprintf("tombstoned repository %s appears in RepoURLs/LineFragments of a search result", nm), fmt.Sprintf("%s\ntombstones=%v RepoURLs keys=%v", caseID, st.tomb[1:], obs.urls), map[string]any{"case": caseID})
					}
				}
			} else {
				if obs.perRepo[nm] != all.perRepo[nm] || obs.perRepo[idk] != all.perRepo[idk] {
					r.Violation(fmt.Sprintf("results of live repository %s changed by tombstones=%v", nm, st.tomb[1:]), fmt.Sprintf("%s\nwant:\n%s\ngot:\n%s", caseID, all.perRepo[nm], obs.perRepo[nm]), map[string]any{"case": caseID})
				}
			}
		}
	}
	seen := map[string]bool{}
	start := node{}
	seen[key(start.st)] = true
	frontier := []node{start}
	states, transitions := 1, 0
	depth := 0
	for len(frontier) > 0 {
		depth++
		var next []node
		for _, n := range frontier {
			for _, o := range ops {
				caseID := fmt.Sprintf("%v then %v", n.path, o)
				if !r.Want(caseID) {
					continue
				}
				// number of mutations of this transition
				d0 := filepath.Join(root, "probe")
				mk(n, d0)
				s := vos.Begin(vos.Record, 0)
				err := apply(d0, o)
				total := s.Mutations()
				vos.End()
				os.RemoveAll(d0)
				if err != nil {
					r.Violation("tombstone operation failed without fault: "+caseID, err.Error(), map[string]any{"case": caseID})
					continue
				}
				for k := 0; k <= total; k++ { // k=0: no fault
					dir := filepath.Join(root, fmt.Sprintf("s-%d", k))
					mk(n, dir)
					var sess *vos.Session
					if k > 0 {
						sess = vos.Begin(vos.Fail, k)
					}
					err := apply(dir, o)
					if k > 0 {
						vos.End()
					}
					r.Eval(1)
					transitions++
					got, rerr := readState(dir)
					if rerr != nil {
						r.Violation("shard unreadable after: "+caseID, rerr.Error(), map[string]any{"case": caseID})
						os.RemoveAll(dir)
						continue
					}
					want := n.st
					if o.id <= 3 {
						want.tomb[o.id] = o.set
					}
					if err == nil {
						// reported success => the change is visible after reload
						if got.tomb != want.tomb {
							fm := ""
							if sess != nil && sess.Failed != nil {
								fm = fmt.Sprintf(" although %s failed", sess.Failed.Op)
							}
							r.Violation(fmt.Sprintf("tombstone operation reported success%s but did not take effect", fm),
								fmt.Sprintf("%s fault@%d: state before %v, want %v, after reload %v; failed mutation: %v", caseID, k, n.st.tomb[1:], want.tomb[1:], got.tomb[1:], sess.Failed), map[string]any{"case": caseID})
						}
					} else if got.tomb != want.tomb && got.tomb != n.st.tomb {
						r.Violation("failed tombstone operation left a third state: "+caseID, fmt.Sprintf("before %v after %v", n.st.tomb, got.tomb), map[string]any{"case": caseID})
					}
					check(fmt.Sprintf("%s fault@%d", caseID, k), dir, got)
					if k == 0 {
						// idempotence: the same operation again changes nothing
						before, _ := c17Observe(filepath.Join(dir, base), qs)
						if err2 := apply(dir, o); err2 != nil {
							r.Violation("repeated tombstone operation failed: "+caseID, err2.Error(), map[string]any{"case": caseID})
						}
						again, _ := readState(dir)
						after, _ := c17Observe(filepath.Join(dir, base), qs)
						if again.tomb != got.tomb || fmt.Sprint(before) != fmt.Sprint(after) {
							r.Violation("tombstone operation not idempotent: "+caseID, fmt.Sprintf("%v vs %v", got, again), map[string]any{"case": caseID})
						}
						if !seen[key(got)] {
							seen[key(got)] = true
							states++
							next = append(next, node{got, append(append([]opT{}, n.path...), o)})
							r.Sample(map[string]any{"history": fmt.Sprint(append(append([]opT{}, n.path...), o)), "tombstones": got.tomb[1:], "sidecar": got.meta})
						}
						r.Nontrivial(key(n.st) + fmt.Sprint(o))
					}
					os.RemoveAll(dir)
				}
			}
		}
		frontier = next
	}
	r.Add("states", states)
	r.Add("transitions", transitions)
	r.Add("traces_validated_against_impl", transitions)
	r.Set("max_depth", depth)
	r.Assume("state = (tombstone bit per repository, sidecar present); two histories reaching the same bits have the same futures because the sidecar content is a function of the bits")
	r.Finish("BFS over tombstone vectors of a 3-repository compound shard; transitions = Set/Unset × id in {1,2,3,99} × {no fault, each single failing filesystem mutation}; after each transition the shard is reloaded and 12 queries (line+chunk) and both list modes are compared with the untombstoned baseline restricted to live repositories")
}

func mustRe(s string) *regexpT { return regexpMust(s) }
