//go:build verif

package index_test

import (
	"context"
	"fmt"
	"os"
	"path/filepath"
	"reflect"
	"strings"
	"sync"
	"testing"

	"github.com/sourcegraph/zoekt"
	"github.com/sourcegraph/zoekt/internal/tenant/systemtenant"
	"github.com/sourcegraph/zoekt/internal/tenant/tenanttest"
	"github.com/sourcegraph/zoekt/internal/verifshim/gen"
	"github.com/sourcegraph/zoekt/internal/verifshim/mc"
	"github.com/sourcegraph/zoekt/internal/verifshim/ref"
	"github.com/sourcegraph/zoekt/query"
	"github.com/sourcegraph/zoekt/search"
)

// C23: every repository carries a unique marker token in its name, URL templates, file
// names and contents; every query × context × API is run in strict mode and the whole result
// value is walked by reflection: no marker of a repository owned by another tenant may occur
// in any string or byte slice of it.

func c23Strings(v reflect.Value, out *[]string, depth int) {
	if depth > 12 {
		return
	}
	switch v.Kind() {
	case reflect.String:
		*out = append(*out, v.String())
	case reflect.Slice, reflect.Array:
		if v.Kind() == reflect.Slice && v.Type().Elem().Kind() == reflect.Uint8 {
			*out = append(*out, string(v.Bytes()))
			return
		}
		for i := 0; i < v.Len(); i++ {
			c23Strings(v.Index(i), out, depth+1)
		}
	case reflect.Map:
		for _, k := range v.MapKeys() {
			c23Strings(k, out, depth+1)
			c23Strings(v.MapIndex(k), out, depth+1)
		}
	case reflect.Ptr, reflect.Interface:
		if !v.IsNil() {
			c23Strings(v.Elem(), out, depth+1)
		}
	case reflect.Struct:
		for i := 0; i < v.NumField(); i++ {
			if v.Type().Field(i).IsExported() {
				c23Strings(v.Field(i), out, depth+1)
			}
		}
	}
}

func c23Corpus() []*ref.Repo {
	mk := func(name string, id uint32, tenant int, mark string) *ref.Repo {
		r := &ref.Repo{Name: mark + "-" + name, ID: id, TenantID: tenant, Branches: []string{"HEAD", "dev"}, Metadata: map[string]string{"team": mark}, RawConfig: map[string]string{"public": "1"}}
		for i, c := range []string{"abc shared text", "other line\nabc again", "nothing"} {
			br := []string{"HEAD"}
			if i == 1 {
				br = []string{"HEAD", "dev"}
			}
			r.Docs = append(r.Docs, &ref.Doc{Name: fmt.Sprintf("%s/f%d.go", mark, i), Content: []byte(c + " " + mark + "content"), Branches: br, Language: "Go"})
		}
		return r
	}
	out := []*ref.Repo{
		mk("one", 1, 1, "MARKA"), mk("two", 2, 2, "MARKB"), mk("three", 3, 1, "MARKC"), mk("four", 4, 0, "MARKD"), mk("five", 5, 2, "MARKE"),
	}
	// two tenants own a repository with the SAME name: only ids, versions, file names and
	// contents tell them apart (anything keyed by repository name may mix them up)
	for i, m := range []string{"MARKF", "MARKG"} {
		r := mk("x", uint32(6+i), 1+i, m)
		r.Name = "shared/name"
		r.Versions = []string{m + "-version-head", m + "-version-dev"}
		out = append(out, r)
	}
	return out
}

// c23Mark returns the marker token of a repository of c23Corpus.
func c23Mark(r *ref.Repo) string {
	if r.Name == "shared/name" {
		return r.Versions[0][:5]
	}
	return r.Name[:5]
}

func TestVerifC23(t *testing.T) {
	r := mc.NewReport("C23")
	tenanttest.MockEnforce(t)
	tenanttest.ResetTestTenants()
	ctxs := []struct {
		name   string
		ctx    context.Context
		tenant int // -1 = system, -2 = none
	}{
		{"tenant1", tenanttest.NewTestContext(), 1},
		{"tenant2", tenanttest.NewTestContext(), 2},
		{"none", context.Background(), -2},
		{"system", systemtenant.WithUnsafeContext(context.Background()), -1},
	}
	corpus := c23Corpus()
	root, clean := gen.Scratch("c23")
	defer clean()
	// index level: one compound shard mixing all tenants
	cdir := filepath.Join(root, "compound")
	os.MkdirAll(cdir, 0o755)
	cpath, err := gen.WriteCompound(cdir, corpus...)
	if err != nil {
		t.Fatal(err)
	}
	compound, err := gen.Open(cpath)
	if err != nil {
		t.Fatal(err)
	}
	// directory level: compound of three + two simple shards
	ddir := filepath.Join(root, "dir")
	os.MkdirAll(ddir, 0o755)
	if _, err := gen.WriteCompound(ddir, corpus[:3]...); err != nil {
		t.Fatal(err)
	}
	for _, rp := range corpus[3:5] {
		if _, err := gen.WriteSimple(ddir, rp); err != nil {
			t.Fatal(err)
		}
	}
	if _, err := gen.WriteCompound(ddir, corpus[5:]...); err != nil {
		t.Fatal(err)
	}
	ds, err := search.NewDirectorySearcher(ddir)
	if err != nil {
		t.Fatal(err)
	}
	defer ds.Close()

	atoms := []query.Q{
		&query.Const{Value: true}, &query.Substring{Pattern: "abc"}, &query.Substring{Pattern: "content", Content: true}, &query.Substring{Pattern: "f1", FileName: true},
		&query.Substring{Pattern: "MARKA"}, &query.Substring{Pattern: "MARKB"}, &query.Substring{Pattern: "MARKD"},
		&query.Repo{Regexp: mustRe("MARK")}, &query.Repo{Regexp: mustRe("MARKB")}, &query.RepoRegexp{Regexp: mustRe("one|two|four")},
		query.NewRepoSet("MARKA-one", "MARKB-two", "MARKD-four", "shared/name"), query.NewRepoIDs(1, 2, 3, 4, 5, 6, 7), &query.Repo{Regexp: mustRe("shared")}, query.NewSingleBranchesRepos("dev", 1, 2, 4), query.NewSingleBranchesRepos("HEAD", 2),
		&query.Branch{Pattern: "dev"}, &query.Language{Language: "Go"}, query.RcOnlyPublic, &query.Meta{Field: "team", Value: mustRe("MARK[AB]")},
		query.NewFileNameSet("MARKA/f0.go", "MARKB/f0.go", "MARKD/f0.go"),
		&query.Symbol{Expr: &query.Substring{Pattern: "abc", Content: true}},
	}
	if re, err := gen.Regexp("a.c|MARK[A-E]content", true, false, false); err == nil {
		atoms = append(atoms, re)
	}
	var qs []query.Q
	qs = append(qs, atoms...)
	for _, a := range atoms {
		qs = append(qs, &query.Not{Child: a}, &query.Type{Type: query.TypeRepo, Child: a}, &query.Type{Type: query.TypeFileName, Child: a},
			&query.And{Children: []query.Q{a, &query.Substring{Pattern: "abc"}}}, &query.Or{Children: []query.Q{a, &query.Substring{Pattern: "zzz"}}},
			&query.And{Children: []query.Q{&query.Type{Type: query.TypeRepo, Child: a}, &query.Substring{Pattern: "abc"}}})
	}
	if r.Thorough() {
		for _, a := range atoms {
			for _, b := range atoms {
				qs = append(qs, &query.And{Children: []query.Q{a, b}}, &query.Or{Children: []query.Q{a, &query.Not{Child: b}}})
			}
		}
	}
	type api struct {
		name string
		dir  bool
		run  func(ctx context.Context, s zoekt.Streamer, q query.Q) (any, error)
	}
	searchOpts := func(chunk bool) *zoekt.SearchOptions {
		o := unlimited()
		o.ChunkMatches = chunk
		o.Whole = true
		o.DebugScore = true
		return &o
	}
	apis := []api{
		{"Search/line", false, func(ctx context.Context, s zoekt.Streamer, q query.Q) (any, error) { return s.Search(ctx, q, searchOpts(false)) }},
		{"Search/chunk", false, func(ctx context.Context, s zoekt.Streamer, q query.Q) (any, error) { return s.Search(ctx, q, searchOpts(true)) }},
		{"List/repos", false, func(ctx context.Context, s zoekt.Streamer, q query.Q) (any, error) {
			return s.List(ctx, q, &zoekt.ListOptions{Field: zoekt.RepoListFieldRepos})
		}},
		{"List/map", false, func(ctx context.Context, s zoekt.Streamer, q query.Q) (any, error) {
			return s.List(ctx, q, &zoekt.ListOptions{Field: zoekt.RepoListFieldReposMap})
		}},
		{"StreamSearch", true, func(ctx context.Context, s zoekt.Streamer, q query.Q) (any, error) {
			var mu sync.Mutex
			var all []*zoekt.SearchResult
			err := s.StreamSearch(ctx, q, searchOpts(false), zoekt.SenderFunc(func(e *zoekt.SearchResult) {
				mu.Lock()
				all = append(all, e)
				mu.Unlock()
			}))
			return all, err
		}},
	}
	type level struct {
		name string
		s    zoekt.Streamer
		dir  bool
	}
	levels := []level{{"index", &streamerOnly{compound}, false}, {"directory", ds, true}}
	idOwner := map[uint32]int{}
	for _, rp := range corpus {
		idOwner[rp.ID] = rp.TenantID
	}
	for _, lv := range levels {
		mc.ParallelFor(len(qs), func(i int) {
			q := qs[i]
			if !lv.dir {
				// type:repo is evaluated by the sharded searcher only
				hasTypeRepo := false
				query.VisitAtoms(q, func(query.Q) {})
				query.Map(q, func(x query.Q) query.Q {
					if t, ok := x.(*query.Type); ok && t.Type == query.TypeRepo {
						hasTypeRepo = true
					}
					return x
				})
				if hasTypeRepo {
					return
				}
			}
			for _, a := range apis {
				if a.dir && !lv.dir {
					continue
				}
				for _, c := range ctxs {
					caseID := fmt.Sprintf("%s|%s|%s|%s", lv.name, a.name, c.name, gen.Key(q))
					if !r.Want(caseID) {
						continue
					}
					var res any
					var err error
					func() {
						defer func() {
							if p := recover(); p != nil {
								err = fmt.Errorf("panic: %v", p)
							}
						}()
						res, err = a.run(c.ctx, lv.s, q)
					}()
					r.Eval(1)
					if err != nil {
						if strings.HasPrefix(err.Error(), "panic") {
							r.Violation("panic: "+caseID, err.Error(), map[string]any{"case": caseID})
						}
						continue
					}
					var strs []string
					c23Strings(reflect.ValueOf(res), &strs, 0)
					joined := strings.Join(strs, "\x00")
					seesOwn := false
					for _, rp := range corpus {
						mark := c23Mark(rp)
						if c.tenant == -1 || rp.TenantID == c.tenant {
							if strings.Contains(joined, mark) {
								seesOwn = true
							}
							continue
						}
						if strings.Contains(joined, mark) {
							where := ""
							for _, s := range strs {
								if strings.Contains(s, mark) {
									where = s
									break
								}
							}
							if len(where) > 120 {
								where = where[:120]
							}
							r.Violation(fmt.Sprintf("leak: %s %s as %s sees %s (tenant %d) for %s", lv.name, a.name, c.name, rp.Name, rp.TenantID, gen.Key(q)),
								fmt.Sprintf("%s\nquery %s\nthe result contains %q, e.g. in %q", caseID, q, mark, where), map[string]any{"case": caseID})
						}
					}
					if rl, ok := res.(*zoekt.RepoList); ok {
						for id := range rl.ReposMap {
							if c.tenant != -1 && idOwner[id] != c.tenant {
								r.Violation(fmt.Sprintf("leak: %s %s as %s lists repository id %d for %s", lv.name, a.name, c.name, id, gen.Key(q)), caseID, map[string]any{"case": caseID})
							}
						}
					}
					if seesOwn && c.tenant != -1 {
						r.Nontrivial(caseID)
					}
					if i == 1 && a.name == "Search/line" {
						r.Sample(map[string]any{"case": caseID, "strings_in_result": len(strs), "sees_own": seesOwn})
					}
				}
			}
		})
	}
	// non-vacuity: every tenant sees its own repositories for TRUE
	for _, c := range ctxs[:2] {
		res, err := compound.Search(c.ctx, &query.Const{Value: true}, searchOpts(false))
		if err != nil || len(res.Files) == 0 {
			r.Violation("TOOL: tenant sees nothing "+c.name, fmt.Sprint(err), nil)
		}
	}
	r.Assume("strict enforcement mode set through tenanttest.MockEnforce; repositories with TenantID 0 are owned by nobody and visible to the system context only")
	r.Finish("case = (level index|directory, API Search line/chunk | StreamSearch | List repos/map, context tenant1|tenant2|none|system, query) over 21 atom kinds × {plain, Not, type:repo, type:filename, And, Or, And(type:repo)} (thorough: all pairs); oracle: reflection walk over the complete result value finds no marker token of a repository owned by another tenant; non-trivial = the caller's own repositories do appear")
}

// streamerOnly lifts a zoekt.Searcher to a Streamer for the shared driver.
type streamerOnly struct{ zoekt.Searcher }

func (s *streamerOnly) StreamSearch(ctx context.Context, q query.Q, opts *zoekt.SearchOptions, sender zoekt.Sender) error {
	res, err := s.Search(ctx, q, opts)
	if err != nil {
		return err
	}
	sender.Send(res)
	return nil
}
