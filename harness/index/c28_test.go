//go:build verif

package index_test

import (
	"bufio"
	"context"
	"crypto/sha256"
	"encoding/hex"
	"fmt"
	"os"
	"os/exec"
	"regexp/syntax"
	"sort"
	"strconv"
	"strings"
	"sync"
	"sync/atomic"
	"testing"
	"time"
	"unicode/utf8"

	"github.com/sourcegraph/zoekt"
	"github.com/sourcegraph/zoekt/index"
	"github.com/sourcegraph/zoekt/internal/verifshim/gen"
	"github.com/sourcegraph/zoekt/internal/verifshim/mc"
)

// C28: the files and match ranges of regular-expression searches do not depend on
// ZOEKT_RE2_THRESHOLD_BYTES.
//
// The threshold is read from the environment by internal/hybridre2 the first time a content
// regexp is compiled in a process (sync.OnceValue), so every setting needs its own process.
// The parent (TestVerifC28) re-executes the test binary as TestVerifC28Child once per
// (threshold, chunk of expressions); a child builds the G-docs shard, runs every
// (expression, case-sensitivity) of its chunk through the real Search and writes one line per
// case with a SHA-256 of the canonical serialisation of all files and ranges. The parent
// compares the lines of the four settings; for cases that differ it re-runs the case in "detail"
// children that write the full serialisation, and reports the first differing file.
//
// Enumerated: c28Patterns (gen.RegexpPatterns(1) plus every 40th of level 2 quick, all of
// gen.RegexpPatterns(2) thorough, plus engine-sensitive atoms) ×
// {case-sensitive, case-insensitive} × thresholds {-1, 0, 3, 1000000} × all documents over
// {a,b,A,\n,é} up to length 4 (781 documents; with threshold 3 the documents shorter than 3
// bytes are evaluated by grafana/regexp and the others by RE2 within one search).

var c28Thresholds = []string{"-1", "0", "3", "1000000"}

const (
	c28EnvChild = "VERIF_C28_CHILD" // "<lo>:<hi>" or "detail"
	c28EnvOut   = "VERIF_C28_OUT"
	c28EnvCases = "VERIF_C28_CASES" // detail mode: "idx:cs,idx:cs,…"
	c28EnvThr   = "ZOEKT_RE2_THRESHOLD_BYTES"
	c28EnvStop  = "VERIF_C28_STOP_UNIX" // workers stop cleanly after this time (budget of the parent)
)

func c28Patterns(thorough bool) []string {
	depth := 1
	if thorough {
		depth = 2
	}
	seen := map[string]bool{}
	var out []string
	add := func(s string) {
		if seen[s] {
			return
		}
		if _, err := syntax.Parse(s, gen.ReFlags); err != nil {
			return
		}
		seen[s] = true
		out = append(out, s)
	}
	// engine-sensitive atoms first (they are the cheapest to read in a report): empty matches next
	// to multi-byte runes, folding, classes, Unicode tables, anchors, laziness, counted repeats.
	atoms := []string{
		`a*`, `b*`, `é*`, `(?:)`, `\b`, `\B`, `^`, `$`, `\A`, `\z`, `(?-m:$)`, `(?-m:^)`, `a*?`, `a??`, `a|`, `|a`, `(?:a|)`, `(?:|a)*`, `(?:a*)*`, `(?:a*)+`, `[^a]*`, `\n*`, `.*`, `(?s:.*)`, `.*?`, `.?`, `^.*$`, `^$`, `(?s:^.*$)`,
		`é`, `É`, `(?i:é)`, `[é]`, `[^é]`, `[à-ÿ]`, `\pL`, `\PL`, `\p{Lu}`, `\p{Ll}`, `\pL+`, `[\pL]*`, `\w`, `\W`, `\w+`, `\W+`, `\s`, `\S+`, `\d*`, `[[:alpha:]]+`, `[[:^alpha:]]`, `[[:upper:]]`, `\x{e9}`, `\x{c9}`, `\xe9`, `\x{10FFFF}`, `\x00`, `[\x00-\x{10FFFF}]`, `[^\x00-\x{10FFFF}]`, `[^\n]`, `[^\na]`,
		`A`, `(?i:a)`, `(?i:A)`, `(?i)ab`, `(?i:a)b`, `a(?i:b)`, `[aA]`, `[a-b]`, `[A-a]`, `(?i:[a-b])`, `(?i:[^a])`, `(?i:k)`, `(?i:s)`, `A.|(?i:a)`, `(A.)|(?i:a)`,
		`a+`, `a+?`, `a{2}`, `a{2,}`, `a{1,2}`, `a{1,2}?`, `a{0}`, `a{0,1}`, `(?:ab)+`, `(?:ab)*`, `(?:a|b)+`, `(?:a|ab)(?:b|)`, `a|ab`, `ab|a`, `(a|ab)(b*)`, `(a*)(a*)`, `(a*)+`, `(a|b)*?b`, `(?U)a+`, `(?U:a+?)`, `(?U)a*b`,
		`a.b`, `a\nb`, `a.*b`, `a(?s:.)b`, `a(?s:.*)b`, `a$`, `^a`, `a\z`, `\Aa`, `a$\n`, `\n^a`, `(?m:^a$)`, `(?-m:^a$)`, `\ba\b`, `\Ba\B`, `\bé`, `é\b`, `\Bé`, `a\b.`, `^\b`, `\b$`, `\B$`, `^\B`, `\Ba*`, `a*\B`, `\B|a`, `é\B`, `\B.`, `\B\n`, `\B*`, `(?:\B|\b)`, `\B$|^a`,
	}
	for _, a := range atoms {
		add(a)
	}
	for _, s := range gen.RegexpPatterns(depth) {
		add(s)
	}
	if !thorough {
		// quick: additionally every 40th expression of the next composition level
		for i, s := range gen.RegexpPatterns(depth + 1) {
			if i%40 == 0 {
				add(s)
			}
		}
	}
	return out
}

func c28Corpus() ([]string, zoekt.Searcher, error) {
	sigma := []string{"a", "b", "A", "\n", "é"}
	repo := gen.DocsCorpus("docs/c28", 28, sigma, 4, 0)
	data, err := gen.BuildSimple(repo)
	if err != nil {
		return nil, nil, err
	}
	s, err := index.NewSearcher(&gen.MemFile{Data: data, Nm: "c28.zoekt"})
	if err != nil {
		return nil, nil, err
	}
	return sigma, s, nil
}

type c28File struct {
	name, content, ranges string
}

// c28Run executes one case with the real Search and returns the canonical serialisation.
func c28Run(s zoekt.Searcher, pattern string, cs, whole bool) (files []c28File, considered int, err error) {
	defer func() {
		if p := recover(); p != nil {
			err = fmt.Errorf("panic: %v", p)
		}
	}()
	q, err := gen.Regexp(pattern, cs, false, true)
	if err != nil {
		return nil, 0, fmt.Errorf("harness: %v", err)
	}
	opts := zoekt.SearchOptions{ShardMaxMatchCount: 1 << 30, TotalMaxMatchCount: 1 << 30, ChunkMatches: true, Whole: whole}
	res, err := s.Search(context.Background(), q, &opts)
	if err != nil {
		return nil, 0, err
	}
	for i := range res.Files {
		f := &res.Files[i]
		var sb strings.Builder
		for _, cm := range f.ChunkMatches {
			for _, rg := range cm.Ranges {
				ch := "c"
				if cm.FileName {
					ch = "n"
				}
				fmt.Fprintf(&sb, "%s[%d,%d;%d:%d-%d:%d]", ch, rg.Start.ByteOffset, rg.End.ByteOffset, rg.Start.LineNumber, rg.Start.Column, rg.End.LineNumber, rg.End.Column)
			}
		}
		files = append(files, c28File{name: f.Repository + "/" + f.FileName, content: string(f.Content), ranges: sb.String()})
	}
	sort.Slice(files, func(i, j int) bool { return files[i].name < files[j].name })
	return files, res.Stats.RegexpsConsidered, nil
}

// TestVerifC28Child is the worker; it does nothing unless started by TestVerifC28.
func TestVerifC28Child(t *testing.T) {
	mode := os.Getenv(c28EnvChild)
	if mode == "" {
		t.Skip("worker of TestVerifC28")
	}
	out, err := os.OpenFile(os.Getenv(c28EnvOut), os.O_WRONLY|os.O_CREATE|os.O_APPEND, 0o644)
	if err != nil {
		t.Fatal(err)
	}
	defer out.Close()
	patterns := c28Patterns(os.Getenv("VERIF_TIER") == "thorough")
	_, s, err := c28Corpus()
	if err != nil {
		fmt.Fprintf(out, "FATAL %q\n", err.Error())
		return
	}
	defer s.Close()
	type cse struct {
		idx int
		cs  bool
	}
	var cases []cse
	detail := mode == "detail"
	if detail {
		for _, c := range strings.Split(os.Getenv(c28EnvCases), ",") {
			p := strings.Split(c, ":")
			i, _ := strconv.Atoi(p[0])
			cases = append(cases, cse{i, p[1] == "1"})
		}
	} else {
		var lo, hi int
		fmt.Sscanf(mode, "%d:%d", &lo, &hi)
		for i := lo; i < hi && i < len(patterns); i++ {
			cases = append(cases, cse{i, true}, cse{i, false})
		}
	}
	w := bufio.NewWriter(out)
	stop, _ := strconv.ParseInt(os.Getenv(c28EnvStop), 10, 64)
	for _, c := range cases {
		if stop > 0 && !detail && time.Now().Unix() > stop {
			fmt.Fprintf(w, "X %d\n", c.idx)
			break
		}
		csn := 0
		if c.cs {
			csn = 1
		}
		// announce the case in flight so that a dying process is attributed to one input
		fmt.Fprintf(w, "B %d %d\n", c.idx, csn)
		w.Flush()
		files, considered, err := c28Run(s, patterns[c.idx], c.cs, detail)
		if err != nil {
			fmt.Fprintf(w, "E %d %d %q\n", c.idx, csn, err.Error())
			continue
		}
		h := sha256.New()
		nr := 0
		for _, f := range files {
			fmt.Fprintf(h, "%q %s\n", f.name, f.ranges)
			nr += strings.Count(f.ranges, "[")
			if detail {
				fmt.Fprintf(w, "D %d %d %q %q %q\n", c.idx, csn, f.name, f.content, f.ranges)
			}
		}
		fmt.Fprintf(w, "R %d %d %d %d %d %s\n", c.idx, csn, len(files), nr, considered, hex.EncodeToString(h.Sum(nil)))
	}
	w.Flush()
}

// c28MidRune reports whether a serialised range list has a boundary that is not at the start of
// a UTF-8 sequence of content.
func c28MidRune(content, ranges string) bool {
	for _, part := range strings.Split(ranges, "]") {
		var ch string
		var s, e int
		if i := strings.Index(part, "["); i >= 0 {
			ch = part[:i]
			if _, err := fmt.Sscanf(part[i+1:], "%d,%d;", &s, &e); err != nil || ch != "c" {
				continue
			}
			for _, off := range []int{s, e} {
				if off < len(content) && !utf8.RuneStart(content[off]) {
					return true
				}
			}
		}
	}
	return false
}

type c28Result struct {
	done       bool
	err        string
	files      int
	ranges     int
	considered int
	hash       string
}

func (a c28Result) same(b c28Result) bool {
	return a.done == b.done && a.err == b.err && a.hash == b.hash && a.files == b.files && a.ranges == b.ranges
}

func (a c28Result) String() string {
	if !a.done {
		return "no result (worker died)"
	}
	if a.err != "" {
		return "error: " + a.err
	}
	return fmt.Sprintf("%d files, %d ranges, sha256 %s", a.files, a.ranges, a.hash[:12])
}

var c28StopAt atomic.Int64

type c28Key struct {
	idx int
	cs  bool
}

// c28Spawn runs one worker and parses its output file. died = the case in flight when the
// process ended without finishing it (idx -1 if none).
func c28Spawn(dir, thr, mode, cases string, deadline time.Duration) (res map[c28Key]c28Result, details map[c28Key]map[string][2]string, died *c28Key, cutAt int, log string) {
	cutAt = -1
	f, err := os.CreateTemp(dir, "w-*.out")
	if err != nil {
		return nil, nil, nil, -1, err.Error()
	}
	f.Close()
	defer os.Remove(f.Name())
	ctx, cancel := context.WithTimeout(context.Background(), deadline)
	defer cancel()
	cmd := exec.CommandContext(ctx, os.Args[0], "-test.run=^TestVerifC28Child$", "-test.count=1", "-test.timeout=0")
	env := []string{}
	for _, e := range os.Environ() {
		if strings.HasPrefix(e, c28EnvThr+"=") || strings.HasPrefix(e, "VERIF_OUT=") || strings.HasPrefix(e, "GOMAXPROCS=") {
			continue
		}
		env = append(env, e)
	}
	env = append(env, c28EnvStop+"="+strconv.FormatInt(c28StopAt.Load(), 10), c28EnvThr+"="+thr, c28EnvChild+"="+mode, c28EnvOut+"="+f.Name(), c28EnvCases+"="+cases, "GOMAXPROCS=1")
	cmd.Env = env
	outb, runErr := cmd.CombinedOutput()
	res = map[c28Key]c28Result{}
	details = map[c28Key]map[string][2]string{}
	data, _ := os.ReadFile(f.Name())
	var inflight *c28Key
	for _, line := range strings.Split(string(data), "\n") {
		if line == "" {
			continue
		}
		var idx, csn int
		switch line[0] {
		case 'B':
			fmt.Sscanf(line, "B %d %d", &idx, &csn)
			inflight = &c28Key{idx, csn == 1}
		case 'E':
			var msg string
			fmt.Sscanf(line, "E %d %d %q", &idx, &csn, &msg)
			res[c28Key{idx, csn == 1}] = c28Result{done: true, err: msg}
			inflight = nil
		case 'R':
			var r c28Result
			fmt.Sscanf(line, "R %d %d %d %d %d %s", &idx, &csn, &r.files, &r.ranges, &r.considered, &r.hash)
			r.done = true
			res[c28Key{idx, csn == 1}] = r
			inflight = nil
		case 'D':
			var name, content, ranges string
			fmt.Sscanf(line, "D %d %d %q %q %q", &idx, &csn, &name, &content, &ranges)
			k := c28Key{idx, csn == 1}
			if details[k] == nil {
				details[k] = map[string][2]string{}
			}
			details[k][name] = [2]string{content, ranges}
		case 'X':
			fmt.Sscanf(line, "X %d", &idx)
			cutAt = idx
		case 'F':
			log += line + "\n"
		}
	}
	if runErr != nil || inflight != nil {
		died = inflight
		tail := string(outb)
		if len(tail) > 1500 {
			tail = tail[len(tail)-1500:]
		}
		log += fmt.Sprintf("worker thr=%s mode=%s: %v\n%s", thr, mode, runErr, tail)
	}
	return
}

func TestVerifC28(t *testing.T) {
	r := mc.NewReport("C28")
	patterns := c28Patterns(r.Thorough())
	sigma, s, err := c28Corpus()
	if err != nil {
		r.Violation("TOOL: corpus construction failed", err.Error(), nil)
		r.Finish("")
		return
	}
	s.Close()
	dir, clean := gen.Scratch("c28")
	defer clean()
	// workers stop by themselves when the parent's budget is used up
	budget := 100.0
	if r.Thorough() {
		budget = 900
	}
	if b, err := strconv.ParseFloat(os.Getenv("VERIF_BUDGET_S"), 64); err == nil && b > 0 {
		budget = b
	}
	c28StopAt.Store(time.Now().Unix() + int64(budget*0.93))

	lo, hi := 0, len(patterns)
	if r.Replaying() {
		lo, hi = -1, -1
		for i, p := range patterns {
			if r.Want(fmt.Sprintf("re:%q cs=true", p)) || r.Want(fmt.Sprintf("re:%q cs=false", p)) {
				lo, hi = i, i+1
			}
		}
		if lo < 0 {
			r.Violation("TOOL: replay case not in the enumerated family", os.Getenv("VERIF_REPLAY_CASE"), nil)
			r.Finish("")
			return
		}
	}
	// chunks: at most 1000 expressions (2000 compiled patterns) per worker, at least 8 chunks
	chunk := (hi - lo + 7) / 8
	if chunk > 1000 {
		chunk = 1000
	}
	if chunk < 1 {
		chunk = 1
	}
	type job struct {
		thr    string
		lo, hi int
	}
	var jobs []job
	for a := lo; a < hi; a += chunk {
		b := a + chunk
		if b > hi {
			b = hi
		}
		for _, thr := range c28Thresholds {
			jobs = append(jobs, job{thr, a, b})
		}
	}
	results := map[string]map[c28Key]c28Result{}
	for _, thr := range c28Thresholds {
		results[thr] = map[c28Key]c28Result{}
	}
	var mu sync.Mutex
	var toolErrs []string
	workers := 0
	mc.ParallelFor(len(jobs), func(i int) {
		j := jobs[i]
		a := j.lo
		for a < j.hi {
			if r.Expired() {
				r.Incomplete("budget expired: expressions %d..%d not run for threshold %s", a, j.hi, j.thr)
				return
			}
			res, _, died, cutAt, log := c28Spawn(dir, j.thr, fmt.Sprintf("%d:%d", a, j.hi), "", 20*time.Minute)
			if cutAt >= 0 {
				r.Incomplete("budget expired: expressions %d..%d not run for threshold %s", cutAt, j.hi, j.thr)
			}
			mu.Lock()
			workers++
			for k, v := range res {
				results[j.thr][k] = v
			}
			next := j.hi
			if died != nil {
				// the case in flight killed the worker: record it (and its twin) as "no result"
				// and resume with the next expression
				for _, cs := range []bool{true, false} {
					k := c28Key{died.idx, cs}
					if _, ok := res[k]; !ok {
						results[j.thr][k] = c28Result{done: false, err: "worker died: " + log}
					}
				}
				next = died.idx + 1
			} else if log != "" {
				toolErrs = append(toolErrs, log)
			}
			mu.Unlock()
			a = next
		}
	})
	r.Set("worker_processes", workers)
	for i, e := range toolErrs {
		if i < 3 {
			r.Violation(fmt.Sprintf("TOOL: worker failure %d", i), e, nil)
		}
	}

	// compare
	base := c28Thresholds[0]
	var diffs []c28Key
	complete := 0
	for i := lo; i < hi; i++ {
		for _, cs := range []bool{true, false} {
			k := c28Key{i, cs}
			if !r.Want(fmt.Sprintf("re:%q cs=%v", patterns[i], cs)) {
				continue
			}
			b, ok := results[base][k]
			if !ok {
				continue // budget cut
			}
			all := true
			differs := false
			for _, thr := range c28Thresholds[1:] {
				v, ok := results[thr][k]
				if !ok {
					all = false
					continue
				}
				if !v.same(b) {
					differs = true
				}
			}
			if all {
				complete++
				r.Eval(1)
				z := results["0"][k]
				if z.done && z.err == "" && z.considered > 0 && z.files > 0 && z.files < 781 {
					r.Nontrivial(fmt.Sprintf("%d/%v", i, cs))
				}
				if (i*2)%977 == 3 && cs {
					r.Sample(map[string]any{"pattern": patterns[i], "case_sensitive": cs, "files": b.files, "ranges": b.ranges, "regexps_considered_threshold0": z.considered, "sha256_all_thresholds": b.hash})
				}
			}
			if differs {
				diffs = append(diffs, k)
			}
		}
	}
	sort.Slice(diffs, func(i, j int) bool {
		a, b := patterns[diffs[i].idx], patterns[diffs[j].idx]
		if len(a) != len(b) {
			return len(a) < len(b)
		}
		if a != b {
			return a < b
		}
		return diffs[i].cs && !diffs[j].cs
	})
	r.Set("cases_with_differences", len(diffs))
	r.Set("expressions", hi-lo)
	r.Set("documents", 781)
	r.Set("thresholds", strings.Join(c28Thresholds, ","))
	r.Set("bound", fmt.Sprintf("c28Patterns(thorough=%v) × {case-sensitive, case-insensitive} × thresholds {%s} × all documents over %q up to length 4", r.Thorough(), strings.Join(c28Thresholds, ","), sigma))

	// detail pass for the shortest differing cases
	report := diffs
	if len(report) > 40 {
		report = report[:40]
	}
	if len(report) > 0 {
		var cl []string
		for _, k := range report {
			csn := 0
			if k.cs {
				csn = 1
			}
			cl = append(cl, fmt.Sprintf("%d:%d", k.idx, csn))
		}
		dets := map[string]map[c28Key]map[string][2]string{}
		dres := map[string]map[c28Key]c28Result{}
		mc.ParallelFor(len(c28Thresholds), func(i int) {
			thr := c28Thresholds[i]
			res, d, _, _, _ := c28Spawn(dir, thr, "detail", strings.Join(cl, ","), 10*time.Minute)
			mu.Lock()
			dets[thr] = d
			dres[thr] = res
			mu.Unlock()
		})
		for _, k := range report {
			p := patterns[k.idx]
			caseID := fmt.Sprintf("re:%q cs=%v", p, k.cs)
			var sb strings.Builder
			fmt.Fprintf(&sb, "content regexp %q case_sensitive=%v on the shard of all %d documents over %q up to length 4\n", p, k.cs, 781, sigma)
			stable := true
			for _, thr := range c28Thresholds {
				fmt.Fprintf(&sb, "  %s=%s: %s\n", c28EnvThr, thr, results[thr][k])
				if dr, ok := dres[thr][k]; !ok || !dr.same(results[thr][k]) {
					stable = false
				}
			}
			if !stable {
				r.Violation("TOOL: result not reproducible in detail worker: "+caseID, sb.String(), map[string]any{"case": caseID})
				continue
			}
			// first differing file against the baseline
			shown := 0
			tag := "other"
			for _, thr := range c28Thresholds[1:] {
				if results[thr][k].same(results[base][k]) || shown >= 2 {
					continue
				}
				names := map[string]bool{}
				for n := range dets[base][k] {
					names[n] = true
				}
				for n := range dets[thr][k] {
					names[n] = true
				}
				var nl []string
				for n := range names {
					nl = append(nl, n)
				}
				sort.Slice(nl, func(i, j int) bool {
					ci := dets[base][k][nl[i]][0] + dets[thr][k][nl[i]][0]
					cj := dets[base][k][nl[j]][0] + dets[thr][k][nl[j]][0]
					if len(ci) != len(cj) {
						return len(ci) < len(cj)
					}
					return nl[i] < nl[j]
				})
				for _, n := range nl {
					a, aok := dets[base][k][n]
					b, bok := dets[thr][k][n]
					if aok == bok && a[1] == b[1] {
						continue
					}
					content := a[0]
					if !aok {
						content = b[0]
					}
					show := func(ok bool, v [2]string) string {
						if !ok {
							return "file not returned"
						}
						if v[1] == "" {
							return "file returned, no ranges"
						}
						return v[1]
					}
					for _, v := range [][2]string{a, b} {
						if c28MidRune(content, v[1]) {
							tag = "range inside a UTF-8 sequence"
						}
					}
					fmt.Fprintf(&sb, "  first difference (threshold %s vs %s): document %s content %q\n    threshold %s: %s\n    threshold %s: %s\n", base, thr, n, content, base, show(aok, a), thr, show(bok, b))
					shown++
					break
				}
			}
			kind := "results"
			for _, thr := range c28Thresholds {
				if v := results[thr][k]; !v.done || v.err != "" {
					kind = "error status"
					tag = "error"
				}
			}
			r.Violation(fmt.Sprintf("RE2 threshold changes %s [%s]: pattern=%q case_sensitive=%v", kind, tag, p, k.cs), sb.String(), map[string]any{"case": caseID, "pattern": p, "case_sensitive": k.cs})
		}
	}
	r.Assume("threshold is process-global (read once from the environment), so every setting runs in its own worker process; workers are deterministic (results of a differing case are re-derived in a second worker before being reported)")
	r.Assume("documents are valid UTF-8; query atoms are content-only regexps built as the query layer holds them (parsed with ClassNL|PerlX|UnicodeGroups, no OptimizeRegexp)")
	r.Finish("case = (expression, case sensitivity) searched with the real Search (ChunkMatches) on the G-docs shard under each threshold in its own process; canonical serialisation = sorted files with every range (byte offsets, line:column); all four must be identical (results or error); non-trivial = with threshold 0 the regexp engine was consulted (Stats.RegexpsConsidered>0) and the result is neither empty nor all documents")
}
