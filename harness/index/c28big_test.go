//go:build verif

package index_test

// C28 (second part): documents that are large in the sense of the engine hand-over, i.e. larger
// than anything an implementation might process in pieces (64 KiB, 128 KiB windows): 192 000 bytes
// of 64-byte lines (a newline on every 64th byte, hence on every power-of-two boundary), the same
// shifted by 1 and by 63 bytes, a 150 000-byte document without any newline with a marker across
// byte 65 536, and 80 000 bytes of two-byte runes. A fixed list of expressions whose matches
// contain newlines, are anchored to the text ends, or straddle those boundaries is searched under
// thresholds {-1 (never RE2), 0 (always), 70000 (RE2 for some of the documents), 1000000}; each
// threshold in its own process (the threshold is read once per process); all must return the
// same files with the same ranges.

import (
	"context"
	"crypto/sha256"
	"fmt"
	"os"
	"os/exec"
	"sort"
	"strings"
	"testing"

	"github.com/sourcegraph/zoekt"
	"github.com/sourcegraph/zoekt/index"
	"github.com/sourcegraph/zoekt/internal/verifshim/gen"
	"github.com/sourcegraph/zoekt/internal/verifshim/mc"
	"github.com/sourcegraph/zoekt/internal/verifshim/ref"
)

var c28BigThresholds = []string{"-1", "0", "70000", "1000000"}

var c28BigPatterns = []string{
	`x\ny`, `x\s+y`, `x\n+y`, `(?s)x.y`, `x$\n^y`, `ax\nya`, `x\ny(?:a|b)`, `(?s)ax.{1,3}a`, `x$`, `^y`, `(?m)^ya*x$`, `y[^\n]*x\ny`, `\ny`, `x\n`, `\n`, `\Ay`, `\Az`, `x\n\z`, `x\z`, `a\z`,
	`needle`, `n.{3}le`, `ab(needle)ab`, `.*needle.*`, `(?s).*needle`, `needle(?s:.*)`, `b+a+needle`, `(?:ab)+needle(?:ab)+`, `\bneedle\b`, `[^ab]+`,
	`é{5}M`, `Mé{5}`, `éMé`, `[^é\n]`, `M`, `(?s)M.*M`, `é+M`, `\pL+M`, `(?i)m`, `[é]{3}M[é]{3}`,
	`z\ny`, `q{63}\ny`, `(?s)\A.{70}`, `(?s).{70}\z`,
}

func c28BigDocs() *ref.Repo {
	rp := &ref.Repo{Name: "docs/c28big", ID: 29, Branches: []string{"HEAD"}}
	line := "y" + strings.Repeat("a", 61) + "x\n" // 64 bytes
	l64 := strings.Repeat(line, 3000)             // 192000 bytes
	long := []byte(strings.Repeat("ab", 75000))   // 150000 bytes, no newline
	copy(long[65530:], "needle")                  // straddles byte 65536
	copy(long[131070:], "needle")                 // straddles byte 131072
	runes := []rune(strings.Repeat("é", 40000))   // 80000 bytes; M at rune 32767/32768: bytes 65534.. and 65537..
	runes[32767], runes[32769] = 'M', 'M'
	add := func(name, content string) {
		rp.Docs = append(rp.Docs, &ref.Doc{Name: name, Content: []byte(content), Branches: []string{"HEAD"}, Language: "Text"})
	}
	add("l64.txt", l64)
	add("l64-shift1.txt", "z"+l64)                           // every line start moved by one byte
	add("l64-shift64.txt", strings.Repeat("q", 63)+"\n"+l64) // one extra 64-byte line in front
	add("long.txt", string(long))
	add("runes.txt", string(runes))
	add("small.txt", "yax\nyax\nneedle éMé\n")
	return rp
}

func c28BigCanon(s zoekt.Searcher, pattern string, cs bool) (string, error) {
	q, err := gen.Regexp(pattern, cs, false, true)
	if err != nil {
		return "", err
	}
	opts := zoekt.SearchOptions{ShardMaxMatchCount: 1 << 30, TotalMaxMatchCount: 1 << 30, ChunkMatches: true}
	res, err := s.Search(context.Background(), q, &opts)
	if err != nil {
		return "error: " + err.Error(), nil
	}
	var fs []string
	for _, f := range res.Files {
		var rs []string
		for _, cm := range f.ChunkMatches {
			for _, rg := range cm.Ranges {
				rs = append(rs, fmt.Sprintf("%d-%d", rg.Start.ByteOffset, rg.End.ByteOffset))
			}
		}
		sort.Strings(rs)
		fs = append(fs, f.FileName+":"+strings.Join(rs, ","))
	}
	sort.Strings(fs)
	return strings.Join(fs, ";"), nil
}

// TestVerifC28BigChild prints one line per (expression, case sensitivity): hash and a short form.
func TestVerifC28BigChild(t *testing.T) {
	if os.Getenv("VERIF_C28BIG_CHILD") == "" {
		t.Skip("worker of TestVerifC28Big")
	}
	data, err := gen.BuildSimple(c28BigDocs())
	if err != nil {
		t.Fatal(err)
	}
	s, err := index.NewSearcher(&gen.MemFile{Data: data, Nm: "c28big.zoekt"})
	if err != nil {
		t.Fatal(err)
	}
	defer s.Close()
	full := os.Getenv("VERIF_C28BIG_CHILD") == "full"
	for i, p := range c28BigPatterns {
		for _, cs := range []bool{true, false} {
			c, err := func() (c string, err error) {
				defer func() {
					if x := recover(); x != nil {
						c, err = fmt.Sprintf("panic: %v", x), nil
					}
				}()
				return c28BigCanon(s, p, cs)
			}()
			if err != nil {
				fmt.Printf("C28BIG %d %v ERR %q\n", i, cs, err.Error())
				continue
			}
			h := sha256.Sum256([]byte(c))
			if full {
				fmt.Printf("C28BIG %d %v %x %q\n", i, cs, h[:8], c)
			} else {
				fmt.Printf("C28BIG %d %v %x %d\n", i, cs, h[:8], strings.Count(c, "-"))
			}
		}
	}
	fmt.Println("C28BIG END")
}

func c28BigRun(thr, mode string) (map[string][2]string, string, error) {
	cmd := exec.Command(os.Args[0], "-test.run=^TestVerifC28BigChild$", "-test.count=1", "-test.timeout=0")
	cmd.Env = append(os.Environ(), "VERIF_C28BIG_CHILD="+mode, "ZOEKT_RE2_THRESHOLD_BYTES="+thr, "VERIF_OUT=")
	out, err := cmd.CombinedOutput()
	res := map[string][2]string{}
	done := false
	for _, l := range strings.Split(string(out), "\n") {
		if l == "C28BIG END" {
			done = true
		}
		f := strings.SplitN(l, " ", 5)
		if len(f) == 5 && f[0] == "C28BIG" {
			res[f[1]+" "+f[2]] = [2]string{f[3], f[4]}
		}
	}
	if err != nil || !done {
		tail := string(out)
		if len(tail) > 2000 {
			tail = tail[len(tail)-2000:]
		}
		return res, tail, fmt.Errorf("worker for threshold %s did not finish: %v", thr, err)
	}
	return res, "", nil
}

func TestVerifC28Big(t *testing.T) {
	r := mc.NewReport("C28")
	results := make([]map[string][2]string, len(c28BigThresholds))
	mc.ParallelFor(len(c28BigThresholds), func(i int) {
		res, tail, err := c28BigRun(c28BigThresholds[i], "hash")
		if err != nil {
			r.Violation(fmt.Sprintf("big documents: searching under threshold %s kills or stalls the process", c28BigThresholds[i]), err.Error()+"\n"+tail, map[string]any{"case": "big"})
		}
		results[i] = res
	})
	var differing []string
	for i, p := range c28BigPatterns {
		for _, cs := range []bool{true, false} {
			k := fmt.Sprintf("%d %v", i, cs)
			base, ok := results[0][k]
			if !ok {
				continue
			}
			r.Eval(len(c28BigThresholds))
			same := true
			for ti := 1; ti < len(c28BigThresholds); ti++ {
				if got, ok := results[ti][k]; ok && got[0] != base[0] {
					same = false
				}
			}
			if base[1] != "0" {
				r.Nontrivial("big:" + k)
			}
			if !same {
				differing = append(differing, k)
			}
			_ = p
		}
	}
	if len(differing) > 0 {
		// fetch the full canonical results once per threshold to describe the differences
		fulls := make([]map[string][2]string, len(c28BigThresholds))
		for i, thr := range c28BigThresholds {
			fulls[i], _, _ = c28BigRun(thr, "full")
		}
		for _, k := range differing {
			var idx int
			var cs bool
			fmt.Sscanf(k, "%d %v", &idx, &cs)
			var sb strings.Builder
			for i, thr := range c28BigThresholds {
				c := fulls[i][k][1]
				if len(c) > 600 {
					c = c[:300] + " ... " + c[len(c)-300:]
				}
				fmt.Fprintf(&sb, "threshold %s: %s %s\n", thr, fulls[i][k][0], c)
			}
			r.Violation(fmt.Sprintf("RE2 threshold changes the result on large documents: pattern=%q case_sensitive=%v", c28BigPatterns[idx], cs),
				fmt.Sprintf("pattern %q case_sensitive=%v on documents of 192000/150000/80000 bytes (file:ranges per threshold)\n%s", c28BigPatterns[idx], cs, sb.String()), map[string]any{"case": "big"})
		}
	}
	r.Set("big_documents", "l64 (3000 lines of 64 bytes), l64 shifted by 1 and by 64 bytes, 150000 bytes without newline, 40000 two-byte runes, one small document")
	r.Finish(fmt.Sprintf("%d expressions x {case-sensitive, case-insensitive} x thresholds %v on 6 documents up to 192000 bytes, one process per threshold; canonical result = files with all range byte offsets; all thresholds must agree; non-trivial = the expression has matches", len(c28BigPatterns), c28BigThresholds))
}
