//go:build verif

package index

import (
	"fmt"
	"os"
	"runtime"
	"strconv"
	"strings"
	"sync"
	"sync/atomic"
	"testing"

	"github.com/sourcegraph/zoekt"
	"github.com/sourcegraph/zoekt/internal/ctags"
	"github.com/sourcegraph/zoekt/internal/verifshim/mc"
)

// C37: symbol information derived from ctags output is always accepted by the shard builder.
//
// The real tagsToSections.Convert is driven with every entry list of a bounded alphabet on every
// content of a bounded alphabet; the derived (sections, metadata) are judged against the property
// statement read literally and then handed to the real ShardBuilder.Add.
//
// Case identifiers (replayable):
//   seq|<content index>|<e0>,<e1>,...      entry list over the entry alphabet (index = name*len(lines)+line)
//   tie|<content index>|<n>|<pat>|<p>|<q>  tie family: n entries, pattern pat, special positions p,q

var c37Lines = []string{"foo bar", "barfoo", "", "é foo"}
var c37Names = []string{"foo", "bar", "oo", "", "foo bar", "o b"}
var c37LineNos = []int{-1, 0, 1, 2, 3, 4, 99}

type c37Content struct {
	data      []byte
	lineStart []int // per 1-based line L: lineStart[L-1]
	lineEnd   []int // position of the terminating '\n' or len(data)
}

func c37MakeContent(s string) *c37Content {
	c := &c37Content{data: []byte(s)}
	st := 0
	for i := 0; i <= len(s); i++ {
		if i == len(s) || s[i] == '\n' {
			c.lineStart = append(c.lineStart, st)
			c.lineEnd = append(c.lineEnd, i)
			st = i + 1
		}
	}
	return c
}

// c37Contents: every sequence of <= 3 lines from c37Lines, with and without a final newline.
func c37Contents() []*c37Content {
	seen := map[string]bool{}
	var out []*c37Content
	add := func(s string) {
		if !seen[s] {
			seen[s] = true
			out = append(out, c37MakeContent(s))
		}
	}
	add("")
	var rec func(prefix []string)
	rec = func(prefix []string) {
		if len(prefix) > 0 {
			j := strings.Join(prefix, "\n")
			add(j)
			add(j + "\n")
		}
		if len(prefix) == 3 {
			return
		}
		for _, l := range c37Lines {
			rec(append(append([]string{}, prefix...), l))
		}
	}
	rec(nil)
	return out
}

type c37Worker struct {
	conv       tagsToSections
	sb         *ShardBuilder
	wb         *wbPool
	adds       int
	keyBuf     []byte
	nontrivial int64
	outputs    map[string]struct{}
}

// c37EntryTable pre-builds the entries [position][alphabet index]; Kind identifies the position.
// Convert only reads entries, so the table is shared by all workers.
func c37EntryTable(maxLen int, alphabet [][2]int) [][]*ctags.Entry {
	var tab [][]*ctags.Entry
	for pos := 0; pos < maxLen; pos++ {
		var row []*ctags.Entry
		for _, a := range alphabet {
			row = append(row, c37Entry(pos, c37Names[a[0]], c37LineNos[a[1]]))
		}
		tab = append(tab, row)
	}
	return tab
}

func c37Entry(pos int, name string, line int) *ctags.Entry {
	return &ctags.Entry{Name: name, Line: line, Kind: "k" + strconv.Itoa(pos), Parent: "p" + strconv.Itoa(pos), ParentKind: "pk" + strconv.Itoa(pos), Path: "f.go", Language: "Go"}
}

func c37Describe(tags []*ctags.Entry) string {
	var sb strings.Builder
	for i, t := range tags {
		if i > 0 {
			sb.WriteByte(' ')
		}
		fmt.Fprintf(&sb, "%q@%d", t.Name, t.Line)
	}
	return sb.String()
}

// c37Check runs one case and returns "" or a description of what is wrong (what, detail).
func (w *c37Worker) check(c *c37Content, tags []*ctags.Entry) (what, detail string) {
	var secs []DocumentSection
	var meta []*zoekt.Symbol
	var err error
	func() {
		defer func() {
			if p := recover(); p != nil {
				what, detail = "Convert panics", fmt.Sprint(p)
			}
		}()
		secs, meta, err = w.conv.Convert(c.data, tags)
	}()
	if what != "" {
		return
	}
	if err != nil {
		return "Convert fails", err.Error()
	}
	if len(secs) != len(meta) {
		return "metadata not aligned", fmt.Sprintf("%d sections, %d symbols", len(secs), len(meta))
	}
	var used [192]bool
	for i, s := range secs {
		if s.Start > s.End || int(s.End) > len(c.data) {
			return "section outside file", fmt.Sprintf("section %d = [%d,%d) in a file of %d bytes", i, s.Start, s.End, len(c.data))
		}
		if i > 0 && secs[i-1].End > s.Start {
			if secs[i-1].Start > s.Start {
				return "sections not sorted", fmt.Sprintf("sections %v", secs)
			}
			return "sections overlap", fmt.Sprintf("sections %v", secs)
		}
		m := meta[i]
		if m == nil {
			return "metadata not aligned", fmt.Sprintf("nil symbol for section %d", i)
		}
		if string(c.data[s.Start:s.End]) != m.Sym {
			return "section does not cover the name", fmt.Sprintf("section %d = [%d,%d) covers %q, symbol is %q", i, s.Start, s.End, c.data[s.Start:s.End], m.Sym)
		}
		j := -1
		if len(m.Kind) > 1 && m.Kind[0] == 'k' {
			if v, e := strconv.Atoi(m.Kind[1:]); e == nil && v < len(tags) {
				j = v
			}
		}
		if j < 0 {
			return "metadata not aligned", fmt.Sprintf("symbol %d has kind %q which no entry carries", i, m.Kind)
		}
		t := tags[j]
		if j < len(used) {
			if used[j] {
				return "entry placed twice", fmt.Sprintf("entry %d (%q@%d)", j, t.Name, t.Line)
			}
			used[j] = true
		}
		if m.Sym != t.Name || m.Parent != t.Parent || m.ParentKind != t.ParentKind {
			return "metadata not aligned", fmt.Sprintf("section %d [%d,%d): symbol %+v, but entry %d is %+v", i, s.Start, s.End, *m, j, *t)
		}
		if t.Line < 1 || t.Line > len(c.lineStart) {
			return "entry with impossible line was placed", fmt.Sprintf("entry %d (%q@%d), file has %d lines", j, t.Name, t.Line, len(c.lineStart))
		}
		if int(s.Start) < c.lineStart[t.Line-1] || int(s.End) > c.lineEnd[t.Line-1] {
			return "section not on the reported line", fmt.Sprintf("entry %d (%q@%d): section [%d,%d), line spans [%d,%d]", j, t.Name, t.Line, s.Start, s.End, c.lineStart[t.Line-1], c.lineEnd[t.Line-1])
		}
	}
	if len(secs) >= 2 || (len(secs) >= 1 && len(secs) < len(tags)) {
		w.nontrivial++
		if len(w.outputs) < 1<<16 {
			k := append(w.keyBuf[:0], c.data...)
			for i, s := range secs {
				k = append(k, '|')
				k = strconv.AppendUint(k, uint64(s.Start), 10)
				k = append(k, '-')
				k = strconv.AppendUint(k, uint64(s.End), 10)
				k = append(k, ':')
				k = append(k, meta[i].Sym...)
			}
			w.keyBuf = k
			if _, ok := w.outputs[string(k)]; !ok {
				w.outputs[string(k)] = struct{}{}
			}
		}
	}

	// acceptance by the real shard builder (Category and Language are pre-computed, as Builder.Add does)
	if w.sb == nil || w.adds >= 8192 {
		// same buffer reuse as Builder.getPostingsBuilder: reset the pooled postings builders
		if w.wb == nil {
			w.wb = wbNewPool()
		}
		var err error
		if w.sb, err = w.wb.newBuilder(&zoekt.Repository{Name: "c37"}); err != nil {
			return "TOOL: setRepository", err.Error()
		}
		w.adds = 0
	}
	w.adds++
	before := append([]DocumentSection{}, secs...)
	func() {
		defer func() {
			if p := recover(); p != nil {
				what, detail = "ShardBuilder.Add panics", fmt.Sprint(p)
				w.sb = nil
			}
		}()
		err = w.sb.Add(Document{Name: "f.go", Content: c.data, Language: "Go", Category: FileCategoryDefault, Symbols: secs, SymbolsMetaData: meta})
	}()
	if what != "" {
		return
	}
	if err != nil {
		w.sb = nil // the builder may be half-updated
		return "ShardBuilder.Add rejects the derived symbols", fmt.Sprintf("%v; sections %v", err, before)
	}
	// Add sorts in place; what it stored must still be aligned
	for i, s := range secs {
		if string(c.data[s.Start:s.End]) != meta[i].Sym {
			return "metadata not aligned after Add", fmt.Sprintf("section %d = [%d,%d) covers %q, symbol is %q", i, s.Start, s.End, c.data[s.Start:s.End], meta[i].Sym)
		}
	}
	return "", ""
}

// c37TieTags builds the tie family: n entries which (mostly) land on the same start offset.
//
//	pat 0: all names "" on line L=1, except position p which is the first word of the line
//	pat 1: like 0, and position q carries the second word
//	pat 2: names "" cycling over all lines of the file, position p first word of line 1
//	pat 3: all entries are the same non-empty name on the same line (all but one must be dropped)
//	pat 4: names "" on the last line of the file (section at end of file when that line is empty), p = first word of line 1
func c37TieTags(c *c37Content, n, pat, p, q int) []*ctags.Entry {
	first, second := "", ""
	if f := strings.Fields(string(c.data[c.lineStart[0]:c.lineEnd[0]])); len(f) > 0 {
		first = f[0]
		if len(f) > 1 {
			second = f[1]
		}
	}
	tags := make([]*ctags.Entry, n)
	for i := 0; i < n; i++ {
		name, line := "", 1
		switch pat {
		case 0, 1:
			if i == p {
				name = first
			}
			if pat == 1 && i == q {
				name = second
			}
		case 2:
			line = 1 + i%len(c.lineStart)
			if i == p {
				name, line = first, 1
			}
		case 3:
			name = first
		case 4:
			line = len(c.lineStart)
			if i == p {
				name, line = first, 1
			}
		}
		tags[i] = c37Entry(i, name, line)
	}
	return tags
}

func TestVerifC37(t *testing.T) {
	r := mc.NewReport("C37")
	contents := c37Contents()

	// entry alphabets: full = names × line numbers
	var full, mid, inner [][2]int
	for ni := range c37Names {
		for li, ln := range c37LineNos {
			full = append(full, [2]int{ni, li})
			if ln >= 0 && ln <= 4 {
				mid = append(mid, [2]int{ni, li})
			}
			if ln >= 1 && ln <= 3 {
				inner = append(inner, [2]int{ni, li})
			}
		}
	}
	alphabets := map[string][][2]int{"full": full, "mid": mid, "inner": inner}
	type family struct {
		name     string // alphabet
		length   int
		maxLines int // only contents with at most this many lines (0 = all)
	}
	var fams []family
	if r.Thorough() {
		fams = []family{{"full", 0, 0}, {"full", 1, 0}, {"full", 2, 0}, {"full", 3, 0}, {"mid", 4, 0}, {"inner", 5, 2}}
	} else {
		fams = []family{{"full", 0, 0}, {"full", 1, 0}, {"full", 2, 0}, {"full", 3, 0}, {"inner", 4, 2}}
	}

	var nontrivial atomic.Int64
	var mu sync.Mutex
	samples := 0
	report := func(caseID string, c *c37Content, tags []*ctags.Entry, what, detail string) {
		key := fmt.Sprintf("%s: content=%q entries=[%s]", what, c.data, c37Describe(tags))
		if len(key) > 300 {
			key = key[:300]
		}
		r.Violation(key, fmt.Sprintf("%s\ncase %s\ncontent %q\nentries (name@line) %s\n%s", what, caseID, c.data, c37Describe(tags), detail), map[string]any{"case": caseID})
	}
	// one worker (converter + pooled postings builders) per CPU, shared by all families
	pool := make(chan *c37Worker, runtime.NumCPU()+1)
	if !r.Replaying() {
		for i := 0; i < cap(pool); i++ {
			// allocated one after the other: touching 16 MB tables from all CPUs at once is very slow
			pool <- &c37Worker{outputs: map[string]struct{}{}, wb: wbNewPool()}
		}
	}

	seqID := func(fam string, ci int, idx []int) string {
		s := make([]string, len(idx))
		for i, v := range idx {
			s[i] = strconv.Itoa(v)
		}
		return fmt.Sprintf("seq|%s|%d|%s", fam, ci, strings.Join(s, ","))
	}

	// ---- replay of a single case
	if r.Replaying() {
		id := os.Getenv("VERIF_REPLAY_CASE")
		parts := strings.Split(id, "|")
		var c *c37Content
		var tags []*ctags.Entry
		ok := false
		if len(parts) == 4 && parts[0] == "seq" {
			ci, _ := strconv.Atoi(parts[2])
			alphabet := alphabets[parts[1]]
			if ci < len(contents) && alphabet != nil {
				c = contents[ci]
				ok = true
				if parts[3] != "" {
					for pos, f := range strings.Split(parts[3], ",") {
						v, err := strconv.Atoi(f)
						if err != nil || v < 0 || v >= len(alphabet) {
							ok = false
							break
						}
						tags = append(tags, c37Entry(pos, c37Names[alphabet[v][0]], c37LineNos[alphabet[v][1]]))
					}
				}
			}
		} else if len(parts) == 6 && parts[0] == "tie" {
			ci, _ := strconv.Atoi(parts[1])
			n, _ := strconv.Atoi(parts[2])
			pat, _ := strconv.Atoi(parts[3])
			p, _ := strconv.Atoi(parts[4])
			q, _ := strconv.Atoi(parts[5])
			if ci < len(contents) && n > 0 {
				c = contents[ci]
				tags = c37TieTags(c, n, pat, p, q)
				ok = true
			}
		}
		if !ok {
			r.Violation("TOOL: unparsable replay case "+id, id, nil)
		} else {
			w := &c37Worker{outputs: map[string]struct{}{}}
			// the conversion buffer is reused between files in production; warm it with another file first
			w.conv.Convert(contents[len(contents)-1].data, nil)
			what, detail := w.check(c, tags)
			r.Eval(1)
			if what != "" {
				report(id, c, tags, what, detail)
			}
		}
		r.Finish("replay of one case")
		return
	}

	// ---- family 1: all entry sequences
	for _, fam := range fams {
		fam := fam
		if r.Expired() {
			r.Incomplete("budget exhausted before sequences of length %d over the %s alphabet", fam.length, fam.name)
			continue
		}
		alphabet := alphabets[fam.name]
		A := len(alphabet)
		// unit of parallel work: (content, first entry)
		var famContents []int
		for ci, c := range contents {
			if fam.maxLines == 0 || len(c.lineStart) <= fam.maxLines {
				famContents = append(famContents, ci)
			}
		}
		units := len(famContents)
		if fam.length >= 1 {
			units *= A
		}
		var cut atomic.Bool
		table := c37EntryTable(fam.length, alphabet)
		mc.ParallelFor(units, func(u int) {
			if cut.Load() {
				return
			}
			if r.Expired() {
				cut.Store(true)
				return
			}
			w := <-pool
			defer func() { pool <- w }()
			ci, e0 := famContents[u%len(famContents)], 0
			if fam.length >= 1 {
				ci, e0 = famContents[u/A], u%A
			}
			c := contents[ci]
			idx := make([]int, fam.length)
			tags := make([]*ctags.Entry, fam.length)
			if fam.length >= 1 {
				idx[0] = e0
				tags[0] = table[0][e0]
			}
			n := 0
			for {
				for pos := 1; pos < fam.length; pos++ {
					tags[pos] = table[pos][idx[pos]]
				}
				n++
				if what, detail := w.check(c, tags); what != "" {
					report(seqID(fam.name, ci, idx), c, tags, what, detail)
				} else if n == 1 && e0 == 9 && ci%40 == 7 {
					mu.Lock()
					if samples < 4 {
						samples++
						r.Sample(map[string]any{"case": seqID(fam.name, ci, idx), "content": string(c.data), "entries": c37Describe(tags)})
					}
					mu.Unlock()
				}
				// next sequence (positions 1.. vary)
				pos := fam.length - 1
				for ; pos >= 1; pos-- {
					idx[pos]++
					if idx[pos] < A {
						break
					}
					idx[pos] = 0
				}
				if pos < 1 {
					break
				}
			}
			r.Eval(n)
		})
		if cut.Load() {
			r.Incomplete("budget exhausted inside sequences of length %d over the %s alphabet", fam.length, fam.name)
		}
	}

	// ---- family 2: ties (more entries than the insertion-sort range of sort.Sort, equal start offsets)
	maxN := 40
	if r.Thorough() {
		maxN = 130
	}
	var tieContents []int
	for ci, c := range contents {
		s := string(c.data)
		if s == "foo bar" || s == "foo bar\n" || s == "foo bar\n\n" || s == "é foo\nbarfoo\n" || s == "barfoo\nfoo bar\n" || s == "foo bar\nbarfoo\n\n" {
			tieContents = append(tieContents, ci)
		}
	}
	type tieUnit struct{ ci, n, pat int }
	var tus []tieUnit
	for _, ci := range tieContents {
		for n := 2; n <= maxN; n++ {
			for pat := 0; pat <= 4; pat++ {
				tus = append(tus, tieUnit{ci, n, pat})
			}
		}
	}
	var tieCut atomic.Bool
	mc.ParallelFor(len(tus), func(i int) {
		if tieCut.Load() {
			return
		}
		if r.Expired() {
			tieCut.Store(true)
			return
		}
		u := tus[i]
		c := contents[u.ci]
		w := <-pool
		defer func() { pool <- w }()
		cnt := 0
		run := func(p, q int) {
			tags := c37TieTags(c, u.n, u.pat, p, q)
			cnt++
			if what, detail := w.check(c, tags); what != "" {
				report(fmt.Sprintf("tie|%d|%d|%d|%d|%d", u.ci, u.n, u.pat, p, q), c, tags, what, detail)
			}
		}
		switch u.pat {
		case 3:
			run(0, 0)
		case 1:
			for p := 0; p < u.n; p++ {
				for q := 0; q < u.n; q++ {
					if p != q {
						run(p, q)
					}
				}
			}
		default:
			for p := 0; p < u.n; p++ {
				run(p, 0)
			}
		}
		r.Eval(cnt)
		if u.n == 16 && u.pat == 1 && u.ci == tieContents[0] {
			r.Sample(map[string]any{"case": fmt.Sprintf("tie|%d|16|1|3|9", u.ci), "content": string(c.data), "entries": c37Describe(c37TieTags(c, 16, 1, 3, 9))})
		}
	})
	if tieCut.Load() {
		r.Incomplete("budget exhausted inside the tie family")
	}
	close(pool)
	for w := range pool {
		nontrivial.Add(w.nontrivial)
		for k := range w.outputs {
			r.Nontrivial(k)
		}
	}

	r.Set("contents", len(contents))
	r.Set("entry_alphabet", len(full))
	r.Set("cases_with_two_or_more_sections_or_partial_placement", nontrivial.Load())
	r.Set("tie_family_max_entries", maxN)
	r.Assume("ctags entry names are valid UTF-8 (go-ctags decodes them from JSON); a name that is a fragment of a multi-byte rune is outside the input space")
	r.Assume("Document.Category and Language are pre-computed (as Builder.Add does) so that ShardBuilder.Add does not run go-enry on every case")
	r.Finish("case = (file content, ctags entry list): contents are all sequences of <=3 lines over {\"foo bar\",\"barfoo\",\"\",\"é foo\"} with/without final newline; entry lists are ALL sequences over names {foo,bar,oo,\"\",\"foo bar\",\"o b\"} (contained, suffix, empty, whole-line and partially overlapping names) × lines {-1,0,1,2,3,4,99}: quick = length <=3 over the full alphabet + length 4 over lines {1,2,3} on contents of <=2 lines; thorough = length <=3 full + length 4 over lines {0..4} + length 5 over lines {1,2,3} on contents of <=2 lines; plus the tie family (2..N entries landing on equal start offsets, every position of the non-empty names, N=40 quick / 130 thorough); each case runs the real tagsToSections.Convert (one converter reused across files) and the real ShardBuilder.Add; distinct_nontrivial counts distinct (content, derived section list) with >=2 sections or with some entries placed and some dropped (capped at 65536 per worker)")
}
