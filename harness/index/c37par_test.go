//go:build verif

package index

// C37 (second part): the Builder's own symbol path, parseSymbols -> tagsToSections.Convert ->
// ShardBuilder.Add, fed by a stand-in for universal-ctags (this test binary re-executed by go-ctags,
// speaking the interactive JSON protocol: one tag per line "func NAME() {}").
//
// (1) exhaustive: every document of up to 4 lines over {func a() {}, func bb() {}, "// x", ""} with and
//     without a final newline goes through one real Builder (Parallelism 1, several shards); the
//     stored sections must be exactly the names on the reported lines.
// (2) the same corpus with Parallelism 4 and shards small enough that several are built at once:
//     same oracle. This run is also the body of the auxiliary -race pass (TestVerifC37Race):
//     state shared between the shard goroutines without synchronisation is reported there whatever
//     the timing.

import (
	"bufio"
	"bytes"
	"encoding/json"
	"fmt"
	"io"
	"os"
	"path/filepath"
	"runtime/debug"
	"sort"
	"strings"
	"testing"

	"github.com/sourcegraph/zoekt"
	"github.com/sourcegraph/zoekt/internal/verifshim/mc"
)

const c37FakeEnv = "VERIF_C37_FAKE_CTAGS"

func init() {
	if os.Getenv(c37FakeEnv) != "1" {
		return
	}
	for _, a := range os.Args[1:] {
		if a == "--help" || strings.HasPrefix(a, "--list") || a == "--version" {
			fmt.Println("Universal Ctags stand-in  +interactive")
			os.Exit(0)
		}
	}
	in := bufio.NewReaderSize(os.Stdin, 1<<16)
	out := bufio.NewWriterSize(os.Stdout, 1<<16)
	fmt.Fprintln(out, `{"_type":"program","name":"verif stand-in","version":"0"}`)
	out.Flush()
	for {
		line, err := in.ReadBytes('\n')
		if err != nil {
			os.Exit(0)
		}
		var req struct {
			Command  string `json:"command"`
			Filename string `json:"filename"`
			Size     int    `json:"size"`
		}
		if json.Unmarshal(line, &req) != nil {
			os.Exit(0)
		}
		content := make([]byte, req.Size)
		if _, err := io.ReadFull(in, content); err != nil {
			os.Exit(0)
		}
		for i, l := range bytes.Split(content, []byte("\n")) {
			if !bytes.HasPrefix(l, []byte("func ")) {
				continue
			}
			name := l[len("func "):]
			if j := bytes.IndexByte(name, '('); j >= 0 {
				name = name[:j]
			}
			fmt.Fprintf(out, `{"_type":"tag","name":%q,"path":%q,"line":%d,"kind":"function","language":"Go"}`+"\n", name, req.Filename, i+1)
		}
		fmt.Fprintln(out, `{"_type":"completed","command":"generate-tags"}`)
		out.Flush()
	}
}

func c37ParDocs() []Document {
	lines := []string{"func a() {}", "func bb() {}", "// x", ""}
	var docs []Document
	var rec func(cur []string)
	rec = func(cur []string) {
		if len(cur) > 0 {
			for _, nl := range []string{"", "\n"} {
				content := strings.Join(cur, "\n") + nl
				// pad so that documents have different layouts and the limits are met (>= 3 bytes)
				docs = append(docs, Document{Name: fmt.Sprintf("d%04d.go", len(docs)), Content: []byte(content + strings.Repeat("// pad\n", len(docs)%5))})
			}
		}
		if len(cur) == 4 {
			return
		}
		for _, l := range lines {
			rec(append(append([]string{}, cur...), l))
		}
	}
	rec(nil)
	return docs
}

func c37ParWant(content []byte) []DocumentSection {
	var want []DocumentSection
	off := 0
	for _, l := range bytes.SplitAfter(content, []byte("\n")) {
		if bytes.HasPrefix(l, []byte("func ")) {
			want = append(want, DocumentSection{Start: uint32(off + 5), End: uint32(off + bytes.IndexByte(l, '('))})
		}
		off += len(l)
	}
	return want
}

// c37ParRun builds the corpus with the given parallelism and returns the problems found.
func c37ParRun(parallelism int) (problems []string, nDocs, nShards int, err error) {
	defer func() {
		// a panic on the calling goroutine (Builder.Add -> flush -> buildShard with Parallelism 1)
		if p := recover(); p != nil {
			problems, err = append(problems, fmt.Sprintf("the build panics: %v\n%s", p, debug.Stack())), nil
		}
	}()
	os.Setenv(c37FakeEnv, "1")
	defer os.Unsetenv(c37FakeEnv)
	base := "/dev/shm"
	if st, e := os.Stat(base); e != nil || !st.IsDir() {
		base = os.TempDir()
	}
	dir, err := os.MkdirTemp(base, "verif-c37par-")
	if err != nil {
		return nil, 0, 0, err
	}
	defer os.RemoveAll(dir)
	opts := Options{IndexDir: dir, RepositoryDescription: zoekt.Repository{Name: "c37par"}, CTagsPath: os.Args[0], CTagsMustSucceed: true, Parallelism: parallelism, ShardMax: 3000}
	opts.SetDefaults()
	b, err := NewBuilder(opts)
	if err != nil {
		return nil, 0, 0, fmt.Errorf("NewBuilder: %w", err)
	}
	docs := c37ParDocs()
	for _, d := range docs {
		if err := b.Add(Document{Name: d.Name, Content: append([]byte{}, d.Content...)}); err != nil {
			return nil, 0, 0, fmt.Errorf("Add: %w", err)
		}
	}
	if err := b.Finish(); err != nil {
		return []string{"the build fails: " + err.Error()}, len(docs), 0, nil
	}
	shards, _ := filepath.Glob(filepath.Join(dir, "*.zoekt"))
	sort.Strings(shards)
	seen := 0
	for _, fn := range shards {
		f, err := os.Open(fn)
		if err != nil {
			return nil, 0, 0, err
		}
		inf, err := NewIndexFile(f)
		if err != nil {
			return nil, 0, 0, err
		}
		s, err := NewSearcher(inf)
		if err != nil {
			return nil, 0, 0, err
		}
		d := s.(*indexData)
		for i := uint32(0); i < uint32(len(d.fileBranchMasks)); i++ {
			seen++
			content, err := d.readContents(i)
			if err != nil {
				return nil, 0, 0, err
			}
			got, _, err := d.readDocSections(i, nil)
			if err != nil {
				return nil, 0, 0, err
			}
			want := c37ParWant(content)
			if fmt.Sprint(got) != fmt.Sprint(want) && !(len(got) == 0 && len(want) == 0) {
				problems = append(problems, fmt.Sprintf("%s content %q: stored sections %v, names reported by ctags are at %v", d.fileName(i), content, got, want))
			}
		}
		s.Close()
	}
	if seen != len(docs) {
		problems = append(problems, fmt.Sprintf("index holds %d documents, %d were added", seen, len(docs)))
	}
	return problems, len(docs), len(shards), nil
}

func TestVerifC37Par(t *testing.T) {
	r := mc.NewReport("C37")
	for _, par := range []int{1, 4} {
		caseID := fmt.Sprintf("builder|parallelism=%d", par)
		if !r.Want(caseID) {
			continue
		}
		probs, nd, ns, err := c37ParRun(par)
		if err != nil {
			r.Violation("TOOL: builder run failed", err.Error(), nil)
			continue
		}
		r.Eval(nd)
		r.Set(fmt.Sprintf("builder_parallelism_%d", par), fmt.Sprintf("%d documents in %d shards", nd, ns))
		if ns < 4 {
			r.Violation("TOOL: builder part needs several shards", fmt.Sprint(ns), nil)
		}
		for i, p := range probs {
			if i >= 5 {
				break
			}
			r.Violation(fmt.Sprintf("Builder with ctags, Parallelism=%d: stored symbol sections are not the reported names (%d documents)", par, len(probs)), p, map[string]any{"case": caseID})
		}
		r.Nontrivial(caseID)
	}
	r.Assume("the ctags binary is a stand-in that reports exactly the names of lines 'func NAME() {}' with their line numbers (interactive JSON protocol of universal-ctags)")
	r.Finish("every document of <= 4 lines over {func a() {}, func bb() {}, // x, empty} with/without final newline through the real Builder with a ctags stand-in, Parallelism 1 and 4, ShardMax 3000 (several shards); stored sections = reported names")
}

// TestVerifC37Race is the body of the -race pass: the parallel build only.
func TestVerifC37Race(t *testing.T) {
	probs, _, _, err := c37ParRun(4)
	if err != nil {
		t.Fatal(err)
	}
	if len(probs) > 0 {
		t.Fatalf("%d documents with wrong sections, first: %s", len(probs), probs[0])
	}
}
