//go:build verif

package index_test

import (
	"context"
	"encoding/json"
	"fmt"
	"io"
	"log"
	"os"
	"path/filepath"
	"runtime"
	"runtime/debug"
	"sort"
	"strings"
	"sync"
	"sync/atomic"
	"testing"
	"time"

	"github.com/sourcegraph/zoekt"
	"github.com/sourcegraph/zoekt/index"
	"github.com/sourcegraph/zoekt/internal/ctags"
	"github.com/sourcegraph/zoekt/internal/verifshim/mc"
	"github.com/sourcegraph/zoekt/query"
	"github.com/sourcegraph/zoekt/search"
)

// C38: incremental indexing skips only up-to-date repositories.
//
// Depth-2 histories over configurations: (1) index the corpus with option set A through
// index.NewBuilder, (2) ask Options.IndexState() under option set B against that index
// directory, (3) when the answer is "meta-mismatch", apply the metadata update the way the
// callers do (cmd/zoekt-sourcegraph-indexserver/meta.go mergeMeta: Repository.MergeMutable +
// .meta sidecar) and observe the stored state again. Every pair (A,B) with A within d1
// dimensions of a base configuration and B within 2 dimensions of A is executed.
//
// Oracle (differential): B is also built fresh in another directory. Searchable content, skip
// explanations, branches or the symbol-extraction configuration differ between the A index
// and the fresh B index  =>  the state must be neither "equal" nor "meta-mismatch". Only
// repository metadata differs  =>  the state must not be "equal", and after a "meta-mismatch"
// update the stored metadata must equal B's. Nothing differs  =>  anything is allowed.
//
// There is no ctags binary in the build environment, so physical builds always run with
// ctags disabled. Options that only influence symbol extraction (DisableCTags, CTagsPath,
// ScipCTagsPath, CTagsMustSucceed, LanguageMap) are checked for hash sensitivity only: the
// option hash is the only channel through which they reach IndexState, so an index "built
// under A" is the physical build plus a .meta sidecar carrying A.GetHash(), and whether two
// option sets extract different symbols is decided by a small model of
// Builder.buildShard/parseSymbols/NewParserBinMap (c38SymEff).

const (
	c38SizeMax = iota
	c38TrigramMax
	c38LargeFiles
	c38DisableCTags
	c38CTagsPath
	c38ScipCTagsPath
	c38CTagsMustSucceed
	c38LanguageMap
	c38ShardMax
	c38Parallelism
	c38BranchVersions
	c38BranchNames
	c38RawConfig
	c38URL
	c38Templates
	c38Metadata
	c38Rank
	c38LatestCommitDate
	c38BranchCount // second value: a third branch appended to the list, the first two unchanged
	c38NDims
)

var c38DimNames = [c38NDims]string{"SizeMax", "TrigramMax", "LargeFiles", "DisableCTags", "CTagsPath", "ScipCTagsPath", "CTagsMustSucceed", "LanguageMap", "ShardMax", "Parallelism", "BranchVersions", "BranchNames", "RawConfig", "URL", "Templates", "Metadata", "Rank", "LatestCommitDate", "BranchCount"}

// symbol-only dimensions (never part of a physical build)
var c38SymDims = []int{c38DisableCTags, c38CTagsPath, c38ScipCTagsPath, c38CTagsMustSucceed, c38LanguageMap}

// dimensions that decide which content is indexed / from which commit
var c38ContentDims = []int{c38SizeMax, c38TrigramMax, c38LargeFiles, c38BranchVersions, c38BranchNames, c38BranchCount}

// c38Cfg holds the value index (0 or 1) of every dimension.
type c38Cfg [c38NDims]uint8

func (c c38Cfg) String() string {
	var sb strings.Builder
	for _, v := range c {
		sb.WriteByte('0' + v)
	}
	return sb.String()
}

func (c c38Cfg) describe() string {
	var on []string
	for d, v := range c {
		if v == 1 {
			on = append(on, c38DimNames[d])
		} else if v > 1 {
			on = append(on, fmt.Sprintf("%s#%d", c38DimNames[d], v+1))
		}
	}
	if len(on) == 0 {
		return "{all first values}"
	}
	return "{second value of: " + strings.Join(on, ",") + "}"
}

func (c c38Cfg) physical() c38Cfg {
	for _, d := range c38SymDims {
		c[d] = 0
	}
	return c
}

func c38Diff(a, b c38Cfg, among []int) []string {
	var out []string
	for d := 0; d < c38NDims; d++ {
		if a[d] == b[d] {
			continue
		}
		if among != nil {
			ok := false
			for _, x := range among {
				if x == d {
					ok = true
				}
			}
			if !ok {
				continue
			}
		}
		out = append(out, c38DimNames[d])
	}
	return out
}

var (
	c38T1 = time.Date(2024, 3, 1, 10, 0, 0, 0, time.UTC)
	c38T2 = time.Date(2025, 6, 2, 11, 0, 0, 0, time.UTC)
)

const c38RepoName = "c38repo"

// c38Options turns a configuration into the build options a caller would pass.
func c38Options(c c38Cfg, dir string) index.Options {
	pick := func(d int, a, b any) any {
		if c[d] == 0 {
			return a
		}
		return b
	}
	names := pick(c38BranchNames, []string{"main", "dev"}, []string{"main", "rel"}).([]string)
	versions := pick(c38BranchVersions, []string{"1111111111111111111111111111111111111111", "2222222222222222222222222222222222222222"},
		[]string{"3333333333333333333333333333333333333333", "2222222222222222222222222222222222222222"}).([]string)
	o := index.Options{
		IndexDir:         dir,
		SizeMax:          pick(c38SizeMax, 1000, 100).(int),
		TrigramMax:       pick(c38TrigramMax, 20000, 20).(int),
		DisableCTags:     pick(c38DisableCTags, true, false).(bool),
		CTagsPath:        pick(c38CTagsPath, "", "/usr/local/bin/universal-ctags").(string),
		ScipCTagsPath:    pick(c38ScipCTagsPath, "", "/usr/local/bin/scip-ctags").(string),
		CTagsMustSucceed: pick(c38CTagsMustSucceed, false, true).(bool),
		ShardMax:         pick(c38ShardMax, 1<<20, 120).(int),
		Parallelism:      pick(c38Parallelism, 4, 1).(int),
	}
	switch c[c38LargeFiles] {
	case 1:
		// the last matching pattern wins: large.txt is allowed
		o.LargeFiles = []string{"!large.txt", "large.*"}
	case 2:
		// the same patterns in the other order: large.txt is NOT allowed
		o.LargeFiles = []string{"large.*", "!large.txt"}
	}
	if c[c38LanguageMap] != 0 {
		o.LanguageMap = ctags.LanguageMap{"go": ctags.ScipCTags}
	}
	o.RepositoryDescription = zoekt.Repository{
		ID:   7,
		Name: c38RepoName,
		URL:  pick(c38URL, "https://example.com/c38repo", "https://example.org/moved/c38repo").(string),
		Branches: []zoekt.RepositoryBranch{
			{Name: names[0], Version: versions[0]},
			{Name: names[1], Version: versions[1]},
		},
		Rank:             uint16(pick(c38Rank, 100, 200).(int)),
		LatestCommitDate: pick(c38LatestCommitDate, c38T1, c38T2).(time.Time),
	}
	if c[c38BranchCount] != 0 {
		o.RepositoryDescription.Branches = append(o.RepositoryDescription.Branches, zoekt.RepositoryBranch{Name: "extra", Version: "v-extra"})
	}
	if c[c38RawConfig] == 0 {
		o.RepositoryDescription.RawConfig = map[string]string{"public": "1", "k": "v"}
	} else {
		o.RepositoryDescription.RawConfig = map[string]string{"public": "1", "k": "v2", "extra": "x"}
	}
	if c[c38Metadata] == 0 {
		o.RepositoryDescription.Metadata = map[string]string{"team": "a"}
	} else {
		o.RepositoryDescription.Metadata = map[string]string{"team": "b", "tier": "1"}
	}
	if c[c38Templates] == 0 {
		o.RepositoryDescription.CommitURLTemplate = "{{.URL}}/commit/{{.Version}}"
		o.RepositoryDescription.FileURLTemplate = "{{.URL}}/blob/{{.Version}}/{{.Path}}"
		o.RepositoryDescription.LineFragmentTemplate = "#L{{.LineNumber}}"
	} else {
		o.RepositoryDescription.CommitURLTemplate = "{{.URL}}/-/commit/{{.Version}}"
		o.RepositoryDescription.FileURLTemplate = "{{.URL}}/-/blob/{{.Version}}/{{.Path}}"
		o.RepositoryDescription.LineFragmentTemplate = "?L{{.LineNumber}}"
	}
	return o
}

// c38Docs is the corpus: every content option changes what is indexed.
func c38Docs(o *index.Options) []index.Document {
	b0 := o.RepositoryDescription.Branches[0].Name
	b1 := o.RepositoryDescription.Branches[1].Name
	docs := c38BaseDocs(b0, b1)
	if len(o.RepositoryDescription.Branches) > 2 {
		docs = append(docs, index.Document{Name: "extra.txt", Content: []byte("only on the third branch\n"), Branches: []string{o.RepositoryDescription.Branches[2].Name}})
	}
	return docs
}

func c38BaseDocs(b0, b1 string) []index.Document {
	return []index.Document{
		{Name: "a.txt", Content: []byte("hello world foo\n"), Branches: []string{b0, b1}},
		{Name: "b.go", Content: []byte("package b\n"), Branches: []string{b0}},
		// 200 bytes, two distinct trigrams: above the small SizeMax (100) only
		{Name: "big.txt", Content: []byte(strings.Repeat("ab", 100)), Branches: []string{b0}},
		// 62 bytes, 60 distinct trigrams: above the small TrigramMax (20) only
		{Name: "tri.txt", Content: []byte("abcdefghijklmnopqrstuvwxyzABCDEFGHIJKLMNOPQRSTUVWXYZ0123456789"), Branches: []string{b0, b1}},
		// 1500 bytes: above both SizeMax values, indexed only when LargeFiles matches it
		{Name: "large.txt", Content: []byte(strings.Repeat("xyz ", 375)), Branches: []string{b1}},
	}
}

// c38SymEff models which symbol extraction a build under o would perform on the corpus
// (languages: "go" for b.go, "text" for the rest): per language the parser type and binary,
// after Builder.buildShard / parseSymbols / ctags.NewParserBinMap / CTagsParser.newParserProcess.
func c38SymEff(o index.Options) string {
	o.SetDefaults()
	if o.DisableCTags || (o.CTagsPath == "" && o.ScipCTagsPath == "") {
		return "none"
	}
	bins := map[ctags.CTagsParserType]string{ctags.UniversalCTags: o.CTagsPath}
	for _, t := range o.LanguageMap {
		if t == ctags.ScipCTags {
			bins[ctags.ScipCTags] = o.ScipCTagsPath
		}
	}
	var parts []string
	for _, lang := range []string{"go", "text"} {
		t := o.LanguageMap[lang]
		if t == ctags.NoCTags {
			continue
		}
		if t == ctags.UnknownCTags {
			t = ctags.UniversalCTags
		}
		if bins[t] == "" {
			continue
		}
		parts = append(parts, fmt.Sprintf("%s:%s:%s", lang, ctags.ParserToString(t), bins[t]))
	}
	if len(parts) == 0 {
		return "none"
	}
	return strings.Join(parts, ";") + fmt.Sprintf(";mustSucceed=%v", o.CTagsMustSucceed)
}

// c38Obs is what a user of the index can observe.
type c38Obs struct {
	content string            // documents (name, branches, content or skip explanation) + repository branches
	meta    map[string]string // mutable repository metadata, field -> canonical value
	hash    string            // recorded option hash
	shards  int
	err     string
}

func c38CanonMap(m map[string]string) string {
	var ks []string
	for k := range m {
		ks = append(ks, k)
	}
	sort.Strings(ks)
	var sb strings.Builder
	for _, k := range ks {
		fmt.Fprintf(&sb, "%q=%q,", k, m[k])
	}
	return sb.String()
}

func c38MetaOf(r *zoekt.Repository) map[string]string {
	return map[string]string{
		"Name":                 r.Name,
		"ID":                   fmt.Sprint(r.ID),
		"URL":                  r.URL,
		"CommitURLTemplate":    r.CommitURLTemplate,
		"FileURLTemplate":      r.FileURLTemplate,
		"LineFragmentTemplate": r.LineFragmentTemplate,
		"RawConfig":            c38CanonMap(r.RawConfig),
		"Metadata":             c38CanonMap(r.Metadata),
		"Rank":                 fmt.Sprint(r.Rank),
		"LatestCommitDate":     r.LatestCommitDate.UTC().Format(time.RFC3339Nano),
	}
}

func c38MetaDiff(a, b map[string]string) []string {
	var out []string
	for k, v := range a {
		if b[k] != v {
			out = append(out, k)
		}
	}
	for k := range b {
		if _, ok := a[k]; !ok {
			out = append(out, k)
		}
	}
	sort.Strings(out)
	return out
}

func c38Observe(dir string) *c38Obs {
	obs := &c38Obs{}
	o := index.Options{IndexDir: dir}
	o.RepositoryDescription.Name = c38RepoName
	shards := o.FindAllShards()
	obs.shards = len(shards)
	if len(shards) == 0 {
		obs.err = "no shard"
		return obs
	}
	var branches string
	for i, fn := range shards {
		repos, _, err := index.ReadMetadataPath(fn)
		if err != nil {
			obs.err = err.Error()
			return obs
		}
		var repo *zoekt.Repository
		for _, cand := range repos {
			if cand.Name == c38RepoName {
				repo = cand
			}
		}
		if repo == nil {
			obs.err = "repository missing in " + fn
			return obs
		}
		m := c38MetaOf(repo)
		br := fmt.Sprintf("%v", repo.Branches)
		if i == 0 {
			obs.meta, obs.hash, branches = m, repo.IndexOptions, br
			continue
		}
		if d := c38MetaDiff(obs.meta, m); len(d) > 0 {
			obs.meta["INCONSISTENT-SHARDS"] = fmt.Sprintf("shard %d differs from shard 0 in %v", i, d)
		}
		if br != branches {
			branches += fmt.Sprintf(" / shard %d: %s", i, br)
		}
	}
	ss, err := search.NewDirectorySearcher(dir)
	if err != nil {
		obs.err = err.Error()
		return obs
	}
	defer ss.Close()
	res, err := ss.Search(context.Background(), &query.Const{Value: true}, &zoekt.SearchOptions{Whole: true})
	if err != nil {
		obs.err = err.Error()
		return obs
	}
	var fs []string
	for _, f := range res.Files {
		fs = append(fs, fmt.Sprintf("%s|%v|%s|%q", f.FileName, f.Branches, f.Version, f.Content))
	}
	sort.Strings(fs)
	obs.content = "branches=" + branches + "\n" + strings.Join(fs, "\n")
	return obs
}

// c38Build indexes the corpus under the physical part of c (ctags disabled).
func c38Build(c c38Cfg, dir string) error {
	o := c38Options(c.physical(), dir)
	b, err := index.NewBuilder(o)
	if err != nil {
		return err
	}
	for _, d := range c38Docs(&o) {
		if err := b.Add(d); err != nil {
			b.Finish()
			return err
		}
	}
	return b.Finish()
}

// c38StampHash makes the index in dir look like one built under the full option set c: the
// recorded option hash (and HasSymbols) are the ones Builder.newShardBuilder would have stored.
func c38StampHash(c c38Cfg, dir string) error {
	o := c38Options(c, dir)
	o.SetDefaults()
	for _, fn := range o.FindAllShards() {
		repos, md, err := index.ReadMetadataPath(fn)
		if err != nil {
			return err
		}
		var repo *zoekt.Repository
		for _, r := range repos {
			if r.Name == c38RepoName {
				r.IndexOptions = o.GetHash()
				r.HasSymbols = !o.DisableCTags && o.CTagsPath != ""
				repo = r
			}
		}
		if repo == nil {
			return fmt.Errorf("repository missing in %s", fn)
		}
		var v any = repos
		if md.IndexFormatVersion < 17 {
			v = repo // <= v16 expects a single repository, not a list
		}
		b, err := json.Marshal(v)
		if err != nil {
			return err
		}
		if err := os.WriteFile(fn+".meta", b, 0o644); err != nil {
			return err
		}
	}
	return nil
}

// c38MergeMeta is cmd/zoekt-sourcegraph-indexserver/meta.go mergeMeta (package main there,
// so it cannot be imported): what the only caller of IndexStateMeta does.
func c38MergeMeta(o *index.Options) error {
	todo := map[string]string{}
	for _, fn := range o.FindAllShards() {
		repos, md, err := index.ReadMetadataPath(fn)
		if err != nil {
			return err
		}
		var repo *zoekt.Repository
		for _, cand := range repos {
			if cand.Name == o.RepositoryDescription.Name {
				repo = cand
				break
			}
		}
		if repo == nil {
			return fmt.Errorf("mergeMeta: could not find repo %s in shard %s", o.RepositoryDescription.Name, fn)
		}
		if updated, err := repo.MergeMutable(&o.RepositoryDescription); err != nil {
			return err
		} else if !updated {
			continue
		}
		var merged any
		if md.IndexFormatVersion >= 17 {
			merged = repos
		} else {
			merged = repo
		}
		b, err := json.Marshal(merged)
		if err != nil {
			return err
		}
		dst := fn + ".meta"
		tmp := dst + ".c38.tmp"
		if err := os.WriteFile(tmp, b, 0o644); err != nil {
			return err
		}
		todo[tmp] = dst
	}
	var renameErr error
	for tmp, dst := range todo {
		if err := os.Rename(tmp, dst); err != nil {
			renameErr = err
		}
	}
	return renameErr
}

func c38CopyDir(src, dst string) error {
	if err := os.MkdirAll(dst, 0o755); err != nil {
		return err
	}
	ents, err := os.ReadDir(src)
	if err != nil {
		return err
	}
	for _, e := range ents {
		b, err := os.ReadFile(filepath.Join(src, e.Name()))
		if err != nil {
			return err
		}
		if err := os.WriteFile(filepath.Join(dst, e.Name()), b, 0o644); err != nil {
			return err
		}
	}
	return nil
}

// c38Arity is the number of values of a dimension: two, except LargeFiles, which also has a
// third value that is a permutation of the second with a different meaning (order matters).
func c38Arity(d int) uint8 {
	if d == c38LargeFiles {
		return 3
	}
	return 2
}

// c38Neighbours returns every configuration that differs from c in at most k dimensions.
func c38Neighbours(c c38Cfg, k int) []c38Cfg {
	out := []c38Cfg{c}
	var rec func(start int, cur c38Cfg, left int)
	rec = func(start int, cur c38Cfg, left int) {
		if left == 0 {
			return
		}
		for d := start; d < c38NDims; d++ {
			for v := uint8(0); v < c38Arity(d); v++ {
				if v == cur[d] {
					continue
				}
				n := cur
				n[d] = v
				out = append(out, n)
				rec(d+1, n, left-1)
			}
		}
	}
	rec(0, c, k)
	return out
}

type c38Built struct {
	once sync.Once
	dir  string
	obs  *c38Obs
	err  error
}

func TestVerifC38(t *testing.T) {
	r := mc.NewReport("C38")
	log.SetOutput(io.Discard)
	defer log.SetOutput(os.Stderr)
	// Every index.Builder allocates ~70 MB of posting tables and first-touch page faults are
	// expensive: no automatic collections, an explicit one after every few builds re-uses the pages.
	defer debug.SetGCPercent(debug.SetGCPercent(-1))
	defer debug.SetMemoryLimit(debug.SetMemoryLimit(16 << 30)) // ceiling in case the explicit collections are not enough

	scratchBase := os.Getenv("VERIF_SCRATCH")
	if scratchBase == "" {
		scratchBase = os.TempDir()
		if st, err := os.Stat("/dev/shm"); err == nil && st.IsDir() {
			scratchBase = "/dev/shm"
		}
	}
	root, err := os.MkdirTemp(scratchBase, "verif-c38-")
	if err != nil {
		t.Fatal(err)
	}
	defer os.RemoveAll(root)

	// two base configurations: ctags disabled (what the physical builds use) and ctags
	// enabled with universal + scip binaries and a language map (reachable through the hash only)
	var base0, base1 c38Cfg
	for _, d := range []int{c38DisableCTags, c38CTagsPath, c38ScipCTagsPath, c38LanguageMap} {
		base1[d] = 1
	}
	bases := []c38Cfg{base0, base1}
	d1 := 1
	if r.Thorough() {
		d1 = 2
	}

	// ---- builds: physical index per configuration, built at most once
	const builders = 4
	sem := make(chan struct{}, builders)
	var nBuilds atomic.Int64
	var bmu sync.Mutex
	fresh := map[c38Cfg]*c38Built{} // keyed by physical configuration
	getFresh := func(c c38Cfg) *c38Built {
		p := c.physical()
		bmu.Lock()
		b := fresh[p]
		if b == nil {
			b = &c38Built{}
			fresh[p] = b
		}
		bmu.Unlock()
		b.once.Do(func() {
			sem <- struct{}{}
			defer func() { <-sem }()
			b.dir = filepath.Join(root, "fresh-"+p.String())
			if b.err = c38Build(p, b.dir); b.err != nil {
				return
			}
			if n := nBuilds.Add(1); n%builders == 0 {
				runtime.GC()
			}
			b.obs = c38Observe(b.dir)
			want := c38Options(p, b.dir)
			want.SetDefaults()
			if b.obs.err == "" && b.obs.hash != want.GetHash() {
				b.err = fmt.Errorf("builder recorded option hash %s, GetHash() of its options is %s", b.obs.hash, want.GetHash())
			}
		})
		return b
	}
	// the index "built under A" = copy of the physical build + stamped hash when A has symbol options
	indexed := map[c38Cfg]*c38Built{}
	getIndexed := func(a c38Cfg) *c38Built {
		bmu.Lock()
		b := indexed[a]
		if b == nil {
			b = &c38Built{}
			indexed[a] = b
		}
		bmu.Unlock()
		b.once.Do(func() {
			f := getFresh(a)
			if f.err != nil {
				b.err = f.err
				return
			}
			if a == a.physical() {
				b.dir, b.obs = f.dir, f.obs
				return
			}
			b.dir = filepath.Join(root, "indexed-"+a.String())
			if b.err = c38CopyDir(f.dir, b.dir); b.err != nil {
				return
			}
			if b.err = c38StampHash(a, b.dir); b.err != nil {
				return
			}
			b.obs = c38Observe(b.dir)
		})
		return b
	}

	// ---- pairs
	type pair struct {
		base int
		a, b c38Cfg
	}
	var pairs []pair
	seenPair := map[[2]c38Cfg]bool{}
	for bi, base := range bases {
		for _, a := range c38Neighbours(base, d1) {
			for _, b := range c38Neighbours(a, 2) {
				k := [2]c38Cfg{a, b}
				if seenPair[k] {
					continue // reachable from both bases
				}
				seenPair[k] = true
				pairs = append(pairs, pair{bi, a, b})
			}
		}
	}
	// simplest histories first: a violation is reported with the smallest pair that shows it
	sort.SliceStable(pairs, func(i, j int) bool {
		wi := len(c38Diff(bases[pairs[i].base], pairs[i].a, nil)) + len(c38Diff(pairs[i].a, pairs[i].b, nil))
		wj := len(c38Diff(bases[pairs[j].base], pairs[j].a, nil)) + len(c38Diff(pairs[j].a, pairs[j].b, nil))
		return wi < wj
	})
	r.Set("bound", fmt.Sprintf("%d dimensions x 2 values; 2 base configurations (ctags disabled / ctags enabled); A within %d dimension(s) of a base, B within 2 dimensions of A: %d distinct pairs", c38NDims, d1, len(pairs)))

	var done, metaApplied, cutN atomic.Int64
	var privSeq atomic.Int64
	states := map[string]int{}
	var smu sync.Mutex
	// violations are collected per key and the one with the smallest pair index is reported, so
	// that detail and replay case do not depend on goroutine scheduling
	type c38Viol struct {
		idx    int
		detail string
		replay any
	}
	viols := map[string]c38Viol{}
	var vmu sync.Mutex
	viol := func(idx int, key, detail string, replay any) {
		vmu.Lock()
		if old, ok := viols[key]; !ok || idx < old.idx {
			viols[key] = c38Viol{idx, detail, replay}
		}
		vmu.Unlock()
	}
	mc.ParallelFor(len(pairs), func(i int) {
		p := pairs[i]
		id := fmt.Sprintf("A=%s/B=%s", p.a, p.b)
		if !r.Want(id) {
			return
		}
		if r.Expired() {
			cutN.Add(1)
			return
		}
		replay := map[string]any{"case": id}
		desc := fmt.Sprintf("indexed under A=%s, IndexState asked under B=%s (B differs from A in %v)", p.a.describe(), p.b.describe(), c38Diff(p.a, p.b, nil))
		ia := getIndexed(p.a)
		fb := getFresh(p.b)
		if ia.err != nil || fb.err != nil || ia.obs.err != "" || fb.obs.err != "" {
			viol(i, "TOOL: build or observation failed "+id, fmt.Sprintf("%s: A: %v %s; B: %v %s", desc, ia.err, c38ObsErr(ia.obs), fb.err, c38ObsErr(fb.obs)), replay)
			return
		}
		ob := c38Options(p.b, ia.dir)
		ob.SetDefaults() // the callers do this before asking
		st, _ := ob.IndexState()
		skip := ob.IncrementalSkipIndexing()
		r.Eval(1)
		done.Add(1)
		smu.Lock()
		states[string(st)]++
		smu.Unlock()

		contentDiff := ia.obs.content != fb.obs.content
		symA, symB := c38SymEff(c38Options(p.a, "")), c38SymEff(c38Options(p.b, ""))
		symDiff := symA != symB
		metaFields := c38MetaDiff(ia.obs.meta, fb.obs.meta)
		if p.a != p.b && (contentDiff || symDiff || len(metaFields) > 0) {
			r.Nontrivial(id)
		}
		if i%1013 == 3 {
			r.Sample(map[string]any{"case": id, "A": p.a.describe(), "B": p.b.describe(), "state": string(st), "content_differs": contentDiff, "symbols_differ": symDiff, "metadata_fields_differing": metaFields})
		}
		if skip != (st == index.IndexStateEqual) {
			viol(i, "IncrementalSkipIndexing disagrees with IndexState", fmt.Sprintf("%s: IndexState=%s, IncrementalSkipIndexing=%v", desc, st, skip), replay)
		}

		if contentDiff || symDiff {
			if st == index.IndexStateEqual || st == index.IndexStateMeta {
				var what []string
				var dims []string
				if contentDiff {
					what = append(what, "indexed content")
					dims = append(dims, c38Diff(p.a, p.b, c38ContentDims)...)
				}
				if symDiff {
					what = append(what, "symbol extraction")
					dims = append(dims, c38Diff(p.a, p.b, c38SymDims)...)
				}
				detail := fmt.Sprintf("%s\nIndexState = %q, so no re-index happens, but a fresh index under B differs in %s.\n", desc, st, strings.Join(what, " and "))
				if contentDiff {
					detail += "--- existing index:\n" + ia.obs.content + "\n--- fresh index under B:\n" + fb.obs.content + "\n"
				}
				if symDiff {
					detail += fmt.Sprintf("symbol extraction under A: %s\nsymbol extraction under B: %s\nrecorded hash %s == B.GetHash() %s\n", symA, symB, ia.obs.hash, ob.GetHash())
				}
				// one key per option that takes part in the unnoticed difference
				for _, d := range dims {
					viol(i, "stale index skipped: a change of "+d+" does not cause a re-index", detail, replay)
				}
			}
			return
		}
		if len(metaFields) == 0 && st != index.IndexStateMeta {
			return // nothing differs: any answer is fine
		}
		switch st {
		case index.IndexStateEqual:
			for _, f := range metaFields {
				viol(i, "metadata-only change of "+f+" is not applied without a re-index", fmt.Sprintf("%s\nIndexState = \"equal\": the repository is skipped, but the stored metadata differs from B in %v\nstored: %v\nB:      %v", desc, metaFields, c38Pick(ia.obs.meta, metaFields), c38Pick(fb.obs.meta, metaFields)), replay)
			}
		case index.IndexStateMeta:
			priv := filepath.Join(root, fmt.Sprintf("priv-%d", privSeq.Add(1)))
			defer os.RemoveAll(priv)
			if err := c38CopyDir(ia.dir, priv); err != nil {
				viol(i, "TOOL: copy "+id, err.Error(), replay)
				return
			}
			om := c38Options(p.b, priv)
			om.SetDefaults()
			if err := c38MergeMeta(&om); err != nil {
				return // the caller falls back to a full re-index
			}
			metaApplied.Add(1)
			after := c38Observe(priv)
			if after.err != "" {
				viol(i, "index unreadable after the metadata update: "+id, desc+"\n"+after.err, replay)
				return
			}
			if after.content != ia.obs.content {
				viol(i, "metadata update changed the searchable content: "+id, desc+"\n--- before:\n"+ia.obs.content+"\n--- after:\n"+after.content, replay)
			}
			if still := c38MetaDiff(after.meta, fb.obs.meta); len(still) > 0 {
				for _, f := range still {
					viol(i, "metadata-only change of "+f+" is not applied without a re-index", fmt.Sprintf("%s\nIndexState = \"meta-mismatch\"; after MergeMutable + .meta sidecar the stored metadata differs from B in %v\nstored: %v\nB:      %v", desc, still, c38Pick(after.meta, still), c38Pick(fb.obs.meta, still)), replay)
				}
			}
		}
	})

	// ---- three-step histories: index under A, metadata-only update to B (writes .meta sidecars),
	// full re-index under C (a content dimension of B changed). The result must be the index a fresh
	// build under C gives, and IndexState(C) must be "equal" (a sidecar left over from step 2 must
	// not shadow the metadata of the new shards).
	{
		var base c38Cfg
		hists := 0
		for _, md := range []int{c38RawConfig, c38URL, c38Templates, c38Metadata} {
			for _, cd := range []int{c38BranchVersions, c38BranchNames, c38SizeMax, c38BranchCount} {
				id := fmt.Sprintf("history A=base, meta update %s, full re-index with %s changed", c38DimNames[md], c38DimNames[cd])
				if !r.Want(id) || r.Expired() {
					continue
				}
				replay := map[string]any{"case": id}
				b, c := base, base
				b[md] = 1
				c[md], c[cd] = 1, 1
				fa, fc := getFresh(base), getFresh(c)
				if fa.err != nil || fc.err != nil {
					viol(len(pairs)+hists, "TOOL: build failed "+id, fmt.Sprint(fa.err, fc.err), replay)
					continue
				}
				priv := filepath.Join(root, fmt.Sprintf("hist-%d", privSeq.Add(1)))
				if err := c38CopyDir(fa.dir, priv); err != nil {
					viol(len(pairs)+hists, "TOOL: copy "+id, err.Error(), replay)
					continue
				}
				om := c38Options(b, priv)
				om.SetDefaults()
				if err := c38MergeMeta(&om); err != nil {
					os.RemoveAll(priv)
					continue // no metadata-only path for this dimension: nothing to test
				}
				if err := c38Build(c, priv); err != nil {
					viol(len(pairs)+hists, "full re-index after a metadata update fails: "+id, err.Error(), replay)
					os.RemoveAll(priv)
					continue
				}
				hists++
				r.Eval(1)
				r.Nontrivial(id)
				after := c38Observe(priv)
				oc := c38Options(c, priv)
				oc.SetDefaults()
				st, _ := oc.IndexState()
				var probs []string
				if after.err != "" {
					probs = append(probs, "index unreadable: "+after.err)
				} else {
					if after.content != fc.obs.content {
						probs = append(probs, "searchable content differs from a fresh build under C:\n--- history:\n"+after.content+"\n--- fresh:\n"+fc.obs.content)
					}
					if d := c38MetaDiff(after.meta, fc.obs.meta); len(d) > 0 {
						probs = append(probs, fmt.Sprintf("stored metadata differs from a fresh build under C in %v: %v vs %v", d, c38Pick(after.meta, d), c38Pick(fc.obs.meta, d)))
					}
				}
				if st != index.IndexStateEqual {
					probs = append(probs, fmt.Sprintf("IndexState under C right after indexing under C = %q, want equal", st))
				}
				if len(probs) > 0 {
					viol(len(pairs)+hists, "index after [index A; metadata update; full re-index C] is not the index of C: "+id, strings.Join(probs, "\n"), replay)
				}
				os.RemoveAll(priv)
			}
		}
		r.Set("three_step_histories", hists)
	}

	{
		var keys []string
		for k := range viols {
			keys = append(keys, k)
		}
		sort.Strings(keys)
		for _, k := range keys {
			r.Violation(k, viols[k].detail, viols[k].replay)
		}
	}
	if n := cutN.Load(); n > 0 {
		r.Incomplete("budget used up: %d of %d pairs not executed", n, len(pairs))
	}
	nFresh, nIndexed := 0, 0
	for _, b := range fresh {
		if b.obs != nil {
			nFresh++
		}
	}
	for _, b := range indexed {
		if b.obs != nil {
			nIndexed++
		}
	}
	r.Set("states", nFresh+len(indexed))
	r.Set("physical_builds", nFresh)
	r.Set("indexed_configurations", nIndexed)
	r.Set("transitions", int(done.Load()+metaApplied.Load()))
	r.Set("traces_validated_against_impl", int(done.Load()))
	r.Set("meta_updates_applied", int(metaApplied.Load()))
	r.Set("index_state_answers", states)
	r.Assume("physical builds run with ctags disabled (no ctags binary); an index built under symbol options is the physical build with the option hash of the full option set stamped through the .meta sidecar, and whether two option sets extract different symbols is decided by a model of buildShard/parseSymbols/NewParserBinMap (hash sensitivity only)")
	r.Assume("the metadata update is a copy of cmd/zoekt-sourcegraph-indexserver mergeMeta (MergeMutable + .meta sidecar for every shard)")
	r.Assume("one fixed five-document corpus; a change of branch versions stands for different content")
	r.Finish("every pair (A,B) of configurations over 19 two-valued dimensions with A within 1 (thorough 2) dimensions of one of two bases and B within 2 dimensions of A: index under A, IndexState under B, differential comparison with a fresh index under B; a pair is non-trivial when A != B and content, symbol extraction or metadata of the two indexes differ")
}

func c38ObsErr(o *c38Obs) string {
	if o == nil {
		return ""
	}
	return o.err
}

func c38Pick(m map[string]string, ks []string) string {
	var out []string
	for _, k := range ks {
		out = append(out, fmt.Sprintf("%s=%s", k, m[k]))
	}
	return strings.Join(out, " ")
}
