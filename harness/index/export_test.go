//go:build verif

package index

import (
	"fmt"
	"sort"
	"strings"

	"github.com/sourcegraph/zoekt"
	"github.com/sourcegraph/zoekt/query"
)

// Exports for the external-package /verif harnesses (package index_test).

// VerifSetDocMatchTreeCache replaces the shard's match-tree cache (size 0 = disabled,
// -1 = construct from the environment as the loader does).
func VerifSetDocMatchTreeCache(s zoekt.Searcher, n int) {
	d := s.(*indexData)
	if n < 0 {
		d.docMatchTreeCache = newDocMatchTreeCache(0)
		return
	}
	c := newDocMatchTreeCache(1)
	c.maxEntries = n
	d.docMatchTreeCache = c
}

// VerifCacheCanon is the canonical projection of the cache: sorted keys with each cached
// node's iteration cursor — exactly the state that can leak between searches.
func VerifCacheCanon(s zoekt.Searcher) string {
	d := s.(*indexData)
	var ks []string
	for k, v := range d.docMatchTreeCache.cache {
		ks = append(ks, fmt.Sprintf("%s=%s:%v:%d", k.field, k.value, v.firstDone, v.docID))
	}
	sort.Strings(ks)
	return strings.Join(ks, ";")
}

// VerifCacheLen returns the number of cached trees.
func VerifCacheLen(s zoekt.Searcher) int { return len(s.(*indexData).docMatchTreeCache.cache) }

// VerifSimplify is indexData.simplify.
func VerifSimplify(s zoekt.Searcher, q query.Q) query.Q { return s.(*indexData).simplify(q) }

// VerifRepos returns the shard's repository metadata.
func VerifRepos(s zoekt.Searcher) []zoekt.Repository { return s.(*indexData).repoMetaData }
