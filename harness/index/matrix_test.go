//go:build verif

package index_test

import (
	"bytes"
	"context"
	"fmt"
	"sort"
	"strings"
	"sync"
	"unicode"
	"unicode/utf8"

	gregexp "github.com/grafana/regexp"

	"github.com/sourcegraph/zoekt"
	"github.com/sourcegraph/zoekt/index"
	"github.com/sourcegraph/zoekt/internal/verifshim/gen"
	"github.com/sourcegraph/zoekt/internal/verifshim/mc"
	"github.com/sourcegraph/zoekt/internal/verifshim/ref"
	"github.com/sourcegraph/zoekt/query"
)

// shardCase is one loaded shard with its description.
type shardCase struct {
	name     string
	searcher zoekt.Searcher
	repos    []*ref.Repo
	byKey    map[string]*docRef
	queries  []query.Q // set for generated families that carry their own queries
}

type docRef struct {
	repo *ref.Repo
	doc  *ref.Doc
}

func unlimited() zoekt.SearchOptions {
	return zoekt.SearchOptions{ShardMaxMatchCount: 1 << 30, TotalMaxMatchCount: 1 << 30}
}

func newShardCase(name string, path string, repos ...*ref.Repo) (*shardCase, error) {
	s, err := gen.Open(path)
	if err != nil {
		return nil, err
	}
	sc := &shardCase{name: name, searcher: s, repos: repos, byKey: map[string]*docRef{}}
	for _, r := range repos {
		for _, d := range r.Docs {
			k := r.Name + "\x00" + d.Name
			if sc.byKey[k] != nil {
				return nil, fmt.Errorf("duplicate document %q in %s", k, name)
			}
			sc.byKey[k] = &docRef{r, d}
		}
	}
	// skipped documents: the stored content is the explanation; read it back for the model
	opts := unlimited()
	opts.Whole = true
	res, err := s.Search(context.Background(), &query.Const{Value: true}, &opts)
	if err != nil {
		return nil, err
	}
	for _, f := range res.Files {
		dr := sc.byKey[f.Repository+"\x00"+f.FileName]
		if dr != nil && dr.doc.Skipped {
			if !bytes.HasPrefix(f.Content, []byte("NOT-INDEXED: ")) {
				return nil, fmt.Errorf("skipped document %s lacks the NOT-INDEXED explanation: %q", f.FileName, f.Content)
			}
			dr.doc.Content = append([]byte{}, f.Content...)
			dr.doc.Symbols = nil
		}
	}
	return sc, nil
}

var (
	matrixOnce   sync.Once
	matrixShards []*shardCase
	matrixErr    error
	matrixClean  func()
)

// matrixCorpora builds the G-shards family once per process.
// nearMissAlts returns the runes that replace r in the near-miss documents.
func nearMissAlts(r rune) []rune {
	var out []rune
	add := func(x rune) {
		if x == r || x == 0 || !utf8.ValidRune(x) {
			return
		}
		for _, o := range out {
			if o == x {
				return
			}
		}
		out = append(out, x)
	}
	if r < 0x80 {
		add(r ^ 0x20) // other case for letters; for everything else a different character that must not match
	}
	for f := unicode.SimpleFold(r); f != r; f = unicode.SimpleFold(f) {
		add(f)
	}
	add('#')
	add(r + 1)
	return out
}

// first members of the ASCII pairs (x, x|0x20) that are not letters
var matrixPunctPairs = []byte{'@', '[', '\\', ']', '^', '_', '\n', 0x10}

func matrixCorpora(thorough bool) ([]*shardCase, error) {
	matrixOnce.Do(func() {
		dir, clean := gen.Scratch("matrix")
		matrixClean = clean
		add := func(name string, compound bool, repos ...*ref.Repo) {
			if matrixErr != nil {
				return
			}
			var p string
			var err error
			if compound {
				p, err = gen.WriteCompound(dir, repos...)
			} else {
				p, err = gen.WriteSimple(dir, repos[0])
			}
			if err != nil {
				matrixErr = fmt.Errorf("%s: %w", name, err)
				return
			}
			sc, err := newShardCase(name, p, repos...)
			if err != nil {
				matrixErr = fmt.Errorf("%s: %w", name, err)
				return
			}
			matrixShards = append(matrixShards, sc)
		}
		sigma := []string{"a", "b", "A", " ", "\n", "é"}
		L := 4
		if thorough {
			L = 5
		}
		add("docs-lex", false, gen.DocsCorpus("docs/lex", 11, sigma, L, 0))
		add("docs-rev", false, gen.DocsCorpus("docs/rev", 12, sigma, L, 1))
		wl := 6
		if thorough {
			wl = 7
		}
		add("words", false, gen.DocsCorpus("docs/words", 13, []string{"a", "-", "x", " ", "\n"}, wl, 0))
		add("words-case", false, gen.DocsCorpus("docs/wordscase", 15, []string{"a", "A", "x", " ", "X"}, wl-1, 0))
		// token documents: every sequence of up to 5 (6) tokens over {abc, abd, newline, space, xyz}
		// puts two literals of >= 3 runes on the same / adjacent / distant lines (pre-filters that
		// combine several trigram iterators, the same-line optimisation)
		tl := 5
		if thorough {
			tl = 6
		}
		tok := &ref.Repo{Name: "docs/tokens", ID: 14, Branches: []string{"HEAD"}}
		for i, s := range gen.AllStrings([]string{"abc", "abd", "\n", " ", "xyz"}, tl) {
			tok.Docs = append(tok.Docs, &ref.Doc{Name: gen.NameOf(i), Content: []byte(s), Branches: []string{"HEAD"}, Language: "Text"})
		}
		add("tokens", false, tok)
		add("compound", true, gen.CompoundCorpus()...)
		add("symbols", false, gen.SymbolCorpus())
		// tombstoned repository inside a compound shard + skipped documents
		tc := gen.CompoundCorpus()
		tc[1].Docs[0].Skipped = true
		tc[0].Docs[2].Skipped = true
		for _, r := range tc {
			r.Name = "t-" + r.Name
			r.ID += 100
		}
		pth, err := gen.WriteCompound(dir, tc...)
		if err == nil {
			err = index.SetTombstone(pth, tc[2].ID)
		}
		if err != nil {
			matrixErr = err
			return
		}
		tc[2].Tombstone = true
		sc, err := newShardCase("compound-tombstone", pth, tc...)
		if err != nil {
			matrixErr = err
			return
		}
		matrixShards = append(matrixShards, sc)
		// the same compound corpus with the FIRST repository tombstoned (live repositories follow it)
		tf := gen.CompoundCorpus()
		for _, r := range tf {
			r.Name = "u-" + r.Name
			r.ID += 200
		}
		if pth, err = gen.WriteCompound(dir, tf...); err == nil {
			err = index.SetTombstone(pth, tf[0].ID)
		}
		if err != nil {
			matrixErr = err
			return
		}
		tf[0].Tombstone = true
		if sc, err = newShardCase("compound-tombstone-first", pth, tf...); err != nil {
			matrixErr = err
			return
		}
		matrixShards = append(matrixShards, sc)
		// degenerate shards: only empty documents, a single document, a single empty document
		degen := func(name string, id uint32, contents ...string) {
			rp := &ref.Repo{Name: "degen/" + name, ID: id, Branches: []string{"HEAD"}}
			for i, c := range contents {
				rp.Docs = append(rp.Docs, &ref.Doc{Name: fmt.Sprintf("ab/abc%d.txt", i), Content: []byte(c), Branches: []string{"HEAD"}, Language: "Text"})
			}
			add("degen-"+name, false, rp)
		}
		// pure-ASCII contents under non-ASCII file names (the shard-wide "plain ASCII" shortcut of the
		// offset mapping must consider names as well)
		an := &ref.Repo{Name: "degen/ascii-content", ID: 35, Branches: []string{"HEAD"}}
		for i, n := range []string{"日本語_abc.txt", "é/abc1.txt", "abcé.txt", "ab/abc2é.txt", "plain/abc3.txt"} {
			an.Docs = append(an.Docs, &ref.Doc{Name: n, Content: []byte(fmt.Sprintf("ab a\nbA abc%d\n", i)), Branches: []string{"HEAD"}, Language: "Text"})
		}
		add("degen-ascii-content", false, an)
		degen("all-empty", 31, "", "", "")
		degen("one-empty", 32, "")
		degen("one", 33, "ab a\nbA")
		degen("empty-and-not", 34, "", "abab", "", "é a\n")
		// long documents: prefixes of 98..202 runes mixing 1/2/3-byte runes so that match offsets
		// cross the 100-rune offset samples
		long := &ref.Repo{Name: "long/repo", ID: 21, Branches: []string{"HEAD"}}
		pad := []string{"x", "é", "€", "y\n"}
		for n := 97; n <= 203; n += 1 {
			if !thorough && n%7 != 0 && n != 99 && n != 100 && n != 101 && n != 199 && n != 200 && n != 201 {
				continue
			}
			for pi, tail := range []string{"abc", "éab Éab", "abcabc\nabd"} {
				var sb strings.Builder
				for i := 0; i < n; i++ {
					sb.WriteString(pad[(i+pi)%len(pad)])
				}
				sb.WriteString(tail)
				sb.WriteString(" tail")
				long.Docs = append(long.Docs, &ref.Doc{Name: fmt.Sprintf("éé%d-%d/abc.txt", n, pi), Content: []byte(sb.String()), Branches: []string{"HEAD"}, Language: "Text"})
			}
			// the same with four-byte runes (the widest encoding: 100 runes span up to 400 bytes)
			for pi, pad4 := range [][]string{{"😀"}, {"😀", "😀", "😀", "x"}, {"x", "😀", "€", "😀"}} {
				var sb strings.Builder
				for i := 0; i < n; i++ {
					sb.WriteString(pad4[i%len(pad4)])
				}
				sb.WriteString([]string{"abc", "éab Éab", "abcabc\nabd"}[pi])
				sb.WriteString(" tail")
				long.Docs = append(long.Docs, &ref.Doc{Name: fmt.Sprintf("😀é%d-%d/abd.txt", n, pi), Content: []byte(sb.String()), Branches: []string{"HEAD"}, Language: "Text"})
			}
		}
		add("long", false, long)
		// ASCII pairs that differ only in bit 0x20 but are not letters ('[' / '{', '\\' / '|', newline / '*', ...):
		// case folding must not identify them. Patterns of >= 7 runes leave positions that no selected trigram covers.
		punct := &ref.Repo{Name: "punct/repo", ID: 22, Branches: []string{"HEAD"}}
		for i, x := range matrixPunctPairs {
			for j, c := range []byte{x, x | 0x20} {
				for k, form := range []string{"abc%sdefg", "foo%sbar%sbaz", "%sabcdefg%s"} {
					content := strings.ReplaceAll(form, "%s", string(c))
					punct.Docs = append(punct.Docs, &ref.Doc{Name: fmt.Sprintf("p%d-%d-%d.txt", i, j, k), Content: []byte(content + "\n"), Branches: []string{"HEAD"}, Language: "Text"})
				}
			}
		}
		add("punct", false, punct)
		// near-miss family: candidate verification must look at EVERY rune of a literal. For a pattern P
		// and each rune position i one shard holds P, the documents that differ from P only at i (other
		// case, the byte with bit 0x20 flipped, an unrelated rune) and a filler that makes the trigrams
		// covering position i frequent, so that the (rarest) trigrams the iterator selects do not cover i.
		nid := uint32(40)
		for pi, pat := range []string{"foo{bar}baz", `qux|quux\corge`, "ab[cd]ef^gh`ij", "héllo{wörld}x", "AbC_dEf@Ghi"} {
			P := []rune(pat)
			for i := range P {
				nid++
				rp := &ref.Repo{Name: fmt.Sprintf("nearmiss/p%d-%d", pi, i), ID: nid, Branches: []string{"HEAD"}}
				variants := []string{pat}
				for _, alt := range nearMissAlts(P[i]) {
					v := append([]rune{}, P...)
					v[i] = alt
					variants = append(variants, string(v))
				}
				for vi, v := range variants {
					rp.Docs = append(rp.Docs, &ref.Doc{Name: fmt.Sprintf("v%d.txt", vi), Content: []byte("call " + v + " now\n"), Branches: []string{"HEAD"}, Language: "Text"})
				}
				lo, hi := i-2, i+3
				if lo < 0 {
					lo = 0
				}
				if hi > len(P) {
					hi = len(P)
				}
				var fill strings.Builder
				for _, v := range variants {
					fill.WriteString(strings.Repeat(string([]rune(v)[lo:hi])+" ", 60))
					fill.WriteString("\n")
				}
				rp.Docs = append(rp.Docs, &ref.Doc{Name: "filler.txt", Content: []byte(fill.String()), Branches: []string{"HEAD"}, Language: "Text"})
				add(fmt.Sprintf("nearmiss-p%d-%d", pi, i), false, rp)
				if matrixErr != nil {
					return
				}
				sc := matrixShards[len(matrixShards)-1]
				sc.queries = append(sc.queries, gen.SubstringAtoms(variants, [][2]bool{{false, true}, {false, false}})...)
				var res []string
				for _, v := range variants {
					res = append(res, gregexp.QuoteMeta(v))
				}
				sc.queries = append(sc.queries, gen.RegexpAtoms(res, [][2]bool{{false, true}})...)
			}
		}
	})
	return matrixShards, matrixErr
}

// matrixQueries returns the G-query family for a shard.
func matrixQueries(sc *shardCase, thorough bool) []query.Q {
	var qs []query.Q
	if sc.queries != nil {
		return sc.queries
	}
	switch {
	case sc.name == "tokens":
		res := []string{"abc.*abd", "abc(?s:.*)abd", "(?s)abc.*abd", "abd(?s:.*)abc", "abc[^x]*abd", "abc\\s+abd", "abc\nabd", "abc(?:\n| )abd", "abc.*xyz.*abd", "abc(?s:.*)xyz(?s:.*)abd",
			"(abc|abd)xyz", "abc(abd)?xyz", "(?:abc){2}", "(?:abc ){2,}", "abc$", "^abd", "(?m:^abc$)", "abcabd|abdabc", "abc.abd", "abc(?s:.)abd", "(?i)ABC.*abd", "abc.*", ".*abd", "(?s:.*)abd", "abc\\b.*\\babd", "[a-c]{3} [a-d]{3}"}
		qs = append(qs, gen.RegexpAtoms(res, [][2]bool{{false, true}})...)
		qs = append(qs, gen.SubstringAtoms([]string{"abc", "abcabd", "abc abd", "abc\nabd", "abd\nabc", "c\na", "abc xyz abd", "bcab", "cxyza"}, [][2]bool{{false, true}})...)
		two := gen.SubstringAtoms([]string{"abc", "abd", "xyz"}, [][2]bool{{false, true}})
		two = append(two, gen.RegexpAtoms([]string{"abc.*abd", "abd(?s:.*)abc"}, [][2]bool{{false, true}})...)
		qs = append(qs, gen.Combine(two, 1)...)
	case sc.name == "words" || sc.name == "words-case":
		qs = append(qs, gen.RegexpAtoms([]string{`\ba\b`, `\baa\b`, `\ba-a\b`, `\b-a\b`, `\ba-\b`, `\bxa\b`, `\b-\b`, `\ba a\b`, `\bax\b`, `\baxa\b`, `\b--\b`, `\ba-a-a\b`, `\bxax\b`, `\ba\na\b`, `\Ba\B`, `\ba`, `a\b`,
			// a case-insensitive group inside a case-sensitive query (the word fast path must not take it for a plain word)
			`\b(?i:a)\b`, `\b(?i:xa)\b`, `\b(?i:axa)\b`, `\b(?i:A)\b`, `(?i:\bxax\b)`, `\b(?i:a-a)\b`}, [][2]bool{{false, true}})...)
		qs = append(qs, gen.SubstringAtoms([]string{"a-a", "a-a-a", "xax", "-a-", "aaa", "a a"}, [][2]bool{{false, true}})...)
	case strings.HasPrefix(sc.name, "docs-"):
		pats := gen.AllStrings([]string{"a", "b", "A", " ", "\n", "é"}, 3)[1:]
		pats = append(pats, "abab", "aaaa", "abAb", "a b\na", "ababab", "aaaaaaa", "abababa", "éaéa", "bbbbbb")
		qs = append(qs, gen.SubstringAtoms(pats, [][2]bool{{false, true}, {false, false}})...)
		qs = append(qs, gen.SubstringAtoms([]string{"n", "na", "nab", "nA", "né/", "a.", "nb/."}, [][2]bool{{true, false}})...)
		depth := 1
		if thorough {
			depth = 2
		}
		qs = append(qs, gen.RegexpAtoms(gen.RegexpPatterns(depth), [][2]bool{{false, true}})...)
		small := gen.SubstringAtoms([]string{"ab", "aba", "a\nb", "é"}, [][2]bool{{false, true}})
		small = append(small, gen.RegexpAtoms([]string{"a.b", "ab|ba", `\bab\b`, "^a", "(?:ab){2}", "b*"}, [][2]bool{{false, true}})...)
		small = append(small, gen.SubstringAtoms([]string{"nab"}, [][2]bool{{true, false}})...)
		qs = append(qs, gen.Combine(small, 1)...)
	case strings.HasPrefix(sc.name, "compound"):
		text := gen.SubstringAtoms([]string{"abc", "ab", "ABC", "éab", "f1", ".go", "da/"}, gen.FieldModes)
		text = append(text, gen.RegexpAtoms([]string{"abc|abd", "ab.", "^a$", `f[0-3]\.`, "bca.*abc"}, gen.FieldModes)...)
		filters := gen.FilterAtoms()
		qs = append(qs, text...)
		qs = append(qs, filters...)
		for _, f := range filters {
			qs = append(qs, &query.Not{Child: f})
			for _, t := range text[:12] {
				qs = append(qs, &query.And{Children: []query.Q{f, t}}, &query.Or{Children: []query.Q{f, t}})
			}
		}
		if thorough {
			qs = append(qs, gen.Combine(append(append([]query.Q{}, text[:8]...), filters...), 1)...)
		}
	case sc.name == "symbols":
		syms := gen.SymbolAtoms()
		qs = append(qs, syms...)
		text := gen.SubstringAtoms([]string{"abc", "var"}, [][2]bool{{false, true}})
		for _, s := range syms {
			qs = append(qs, &query.Not{Child: s})
			for _, t := range text {
				qs = append(qs, &query.And{Children: []query.Q{s, t}}, &query.Or{Children: []query.Q{s, t}})
			}
		}
	case strings.HasPrefix(sc.name, "degen-"):
		qs = append(qs, gen.SubstringAtoms([]string{"a", "ab", "abc", "bA", "é", "txt", "abc1", "_abc", "abc2é", "/abc", "語_a", "c.txt"}, gen.FieldModes)...)
		qs = append(qs, gen.RegexpAtoms([]string{"a.", "^$", "a*", `\bab\b`, "(?s).*", "^", "$", "b|é", "abc[0-9]"}, gen.FieldModes)...)
		qs = append(qs, &query.Const{Value: true}, &query.Not{Child: &query.Substring{Pattern: "ab"}}, &query.Branch{Pattern: "HEAD"}, &query.Language{Language: "Text"})
	case sc.name == "punct":
		var pats []string
		for _, x := range matrixPunctPairs {
			for _, c := range []byte{x, x | 0x20} {
				for _, form := range []string{"abc%sdefg", "foo%sbar%sbaz", "%sabcdefg", "abcdefg%s", "c%sd"} {
					pats = append(pats, strings.ReplaceAll(form, "%s", string(c)))
				}
			}
		}
		qs = append(qs, gen.SubstringAtoms(pats, [][2]bool{{false, true}, {false, false}})...)
		var res []string
		for _, p := range pats {
			res = append(res, gregexp.QuoteMeta(p))
		}
		qs = append(qs, gen.RegexpAtoms(res, [][2]bool{{false, true}})...)
	case sc.name == "long":
		qs = append(qs, gen.SubstringAtoms([]string{"abc", "éab", "abcabc", "abd", "x", "é", "€y", "c t", "yxé€", "y\nx", "abc tail", "b Éab", "😀", "😀abc", "😀x😀"}, gen.FieldModes)...)
		qs = append(qs, gen.RegexpAtoms([]string{"abc|abd", "a.c", `\babc\b`, "é€", "tail$", "^xé", "(?:abc){2}", "€y\n", "abc(?s:.*)abd", "abcabc(?s:.)abd", "abc.*abd", "é(?s:.*)tail", "😀+abc", "[😀x]{3}a"}, [][2]bool{{false, true}})...)
	}
	return qs
}

// expectedDocs computes the model's answer.
func expectedDocs(sc *shardCase, q query.Q) map[string]bool {
	exp := map[string]bool{}
	for _, r := range sc.repos {
		for _, d := range r.Docs {
			if ref.Live(r, d) && ref.Eval(q, r, d) {
				exp[r.Name+"\x00"+d.Name] = true
			}
		}
	}
	return exp
}

type matrixOracle func(sc *shardCase, q query.Q, caseID string, res *zoekt.SearchResult, opts *zoekt.SearchOptions, exp map[string]bool)

// runMatrix drives every (shard, query, option) case through the oracle.
func runMatrix(r *mc.Report, optsList []zoekt.SearchOptions, oracle matrixOracle) {
	shards, err := matrixCorpora(r.Thorough())
	if err != nil {
		r.Violation("TOOL: corpus construction failed", err.Error(), nil)
		return
	}
	defer matrixClean()
	for _, sc := range shards {
		qs := matrixQueries(sc, r.Thorough())
		mc.ParallelFor(len(qs), func(i int) {
			q := qs[i]
			qk := gen.Key(q)
			if r.Expired() {
				r.Incomplete("budget exhausted in shard %s", sc.name)
				return
			}
			var exp map[string]bool
			for oi := range optsList {
				opts := optsList[oi]
				caseID := fmt.Sprintf("%s|%s|chunk=%v ctx=%d", sc.name, qk, opts.ChunkMatches, opts.NumContextLines)
				if !r.Want(caseID) {
					continue
				}
				if exp == nil {
					func() {
						defer func() {
							if p := recover(); p != nil {
								if _, ok := p.(ref.Unsupported); ok {
									exp = nil
									return
								}
								panic(p)
							}
						}()
						exp = expectedDocs(sc, q)
					}()
					if exp == nil {
						return
					}
				}
				var res *zoekt.SearchResult
				var serr error
				func() {
					defer func() {
						if p := recover(); p != nil {
							serr = fmt.Errorf("panic: %v", p)
						}
					}()
					res, serr = sc.searcher.Search(context.Background(), q, &opts)
				}()
				r.Eval(1)
				if serr != nil {
					r.Violation(fmt.Sprintf("search failed: %s", caseID), serr.Error(), map[string]any{"case": caseID})
					continue
				}
				if n := len(exp); n > 0 && n < len(sc.byKey) {
					r.Nontrivial(caseID)
				}
				if i%997 == 0 {
					r.Sample(map[string]any{"case": caseID, "expected_docs": len(exp), "returned_files": len(res.Files)})
				}
				oracle(sc, q, caseID, res, &opts, exp)
			}
		})
	}
}

// fileRanges extracts the reported ranges of a file, per channel.
type repRange struct {
	s, e int
	name bool
}

func fileRanges(f *zoekt.FileMatch) []repRange {
	var out []repRange
	for _, lm := range f.LineMatches {
		for _, fr := range lm.LineFragments {
			out = append(out, repRange{int(fr.Offset), int(fr.Offset) + fr.MatchLength, lm.FileName})
		}
	}
	for _, cm := range f.ChunkMatches {
		for _, rg := range cm.Ranges {
			out = append(out, repRange{int(rg.Start.ByteOffset), int(rg.End.ByteOffset), cm.FileName})
		}
	}
	return out
}

// lineStartOf returns the byte offset where 1-based line n starts (clamped to len).
func lineStartOf(content []byte, n int) int {
	if n <= 1 {
		return 0
	}
	seen := 1
	for i, b := range content {
		if b == '\n' {
			seen++
			if seen == n {
				return i + 1
			}
		}
	}
	return len(content)
}

// lineOfOffset: 1 + number of newline bytes strictly before off.
func lineOfOffset(content []byte, off int) int {
	return 1 + bytes.Count(content[:off], []byte{'\n'})
}

func columnOf(content []byte, lineStart, off int) int {
	return utf8.RuneCount(content[lineStart:off]) + 1
}

func sortRanges(rs []repRange) {
	sort.Slice(rs, func(i, j int) bool {
		if rs[i].name != rs[j].name {
			return rs[i].name
		}
		if rs[i].s != rs[j].s {
			return rs[i].s < rs[j].s
		}
		return rs[i].e < rs[j].e
	})
}

func sortedInts(m map[int]bool) []int {
	var out []int
	for k := range m {
		out = append(out, k)
	}
	sort.Ints(out)
	return out
}

type regexpT = gregexp.Regexp

func regexpMust(s string) *regexpT { return gregexp.MustCompile(s) }
