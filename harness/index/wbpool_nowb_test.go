//go:build verif && !verif_wb

package index

// Fallback for wbpool_test.go: the same helpers through the ordinary entry points only.

import (
	"sync"

	"github.com/sourcegraph/zoekt"
)

const wbEnabled = false

type wbPool struct{}

// allocating fresh 16 MB trigram tables from all CPUs at once is pathologically slow: one at a time
var wbAllocMu sync.Mutex

func wbNewPool() *wbPool { return &wbPool{} }

func (p *wbPool) newBuilder(desc *zoekt.Repository) (*ShardBuilder, error) {
	wbAllocMu.Lock()
	defer wbAllocMu.Unlock()
	return NewShardBuilder(desc)
}

func (p *wbPool) mergeSimple(ds []*indexData) (*ShardBuilder, error) {
	wbAllocMu.Lock()
	defer wbAllocMu.Unlock()
	return merge(ds...)
}
