//go:build verif && verif_wb

package index

// White-box fast paths (build tag verif_wb, on by default). They reuse postings builders the way
// Builder.getPostingsBuilder does, which needs unexported constructors. check.py retries the build
// without verif_wb when this file no longer compiles against the tree (a refactor of these
// internals); wbpool_nowb_test.go then provides the same functions through the ordinary entry
// points only (slower, same coverage).

import (
	"fmt"

	"github.com/sourcegraph/zoekt"
)

const wbEnabled = true

type wbPool struct{ content, name *postingsBuilder }

func wbNewPool() *wbPool {
	return &wbPool{content: newPostingsBuilder(1 << 20), name: newPostingsBuilder(1 << 20)}
}

// newBuilder is NewShardBuilder(desc) on reused postings builders.
func (p *wbPool) newBuilder(desc *zoekt.Repository) (*ShardBuilder, error) {
	p.content.reset()
	p.name.reset()
	b := newShardBuilderWithPostings(p.content, p.name)
	if err := b.setRepository(desc); err != nil {
		return nil, fmt.Errorf("setRepository: %w", err)
	}
	return b, nil
}

// mergeSimple is merge(ds...) for simple input shards on reused postings builders (merge itself
// allocates two fresh 16 MB tables per call): merge's loop with the real addDocument.
func (p *wbPool) mergeSimple(ds []*indexData) (*ShardBuilder, error) {
	p.content.reset()
	p.name.reset()
	sb := newShardBuilderWithPostings(p.content, p.name)
	sb.indexFormatVersion = NextIndexFormatVersion
	for _, d := range ds {
		for docID := uint32(0); int(docID) < len(d.fileBranchMasks); docID++ {
			if docID == 0 {
				if err := sb.setRepository(&d.repoMetaData[0]); err != nil {
					return nil, err
				}
			}
			if err := addDocument(d, sb, 0, docID); err != nil {
				return nil, err
			}
		}
	}
	return sb, nil
}
