//go:build verif

package query_test

// C06: query strings mean what doc/query_syntax.md says.
//
// The harness GENERATES (abstract syntax tree, string) pairs from the EBNF of
// doc/query_syntax.md. Every tree knows its intended meaning by construction: it is
// turned directly into a query.Q (fields select the documented filter, '-' negates,
// juxtaposition is conjunction, 'or' is the lower-precedence disjunction, case:/type:
// directives apply to the group they are written in, nested groups inherit the case
// mode unless they carry their own directive, case:auto is case sensitive iff the
// pattern text has an upper-case letter, a pattern built from a literal by escaping
// the regexp meta characters is a literal). There is no second parser: the only
// parser involved is query.Parse, which is the code under test.
//
// Oracle: ref.EvalCorpus(query.Parse(string)) == ref.EvalCorpus(intended tree) on
// every document of a three-repository corpus whose names, contents, branches,
// languages, metadata and symbols distinguish the lexicon.

import (
	"fmt"
	"regexp/syntax"
	"runtime/debug"
	"sort"
	"strings"
	"sync"
	"sync/atomic"
	"testing"
	"unicode"

	"github.com/grafana/regexp"

	"github.com/sourcegraph/zoekt/internal/verifshim/gen"
	"github.com/sourcegraph/zoekt/internal/verifshim/mc"
	"github.com/sourcegraph/zoekt/internal/verifshim/ref"
	"github.com/sourcegraph/zoekt/query"
)

// ---------------------------------------------------------------------------
// corpus

func c06Doc(name, lang string, branches []string, content string, syms ...string) *ref.Doc {
	d := &ref.Doc{Name: name, Content: []byte(content), Branches: branches, Language: lang}
	for _, s := range syms {
		// "2:main" = second occurrence of "main"
		nth := 1
		if len(s) > 2 && s[1] == ':' && s[0] >= '1' && s[0] <= '9' {
			nth = int(s[0] - '0')
			s = s[2:]
		}
		off := -1
		from := 0
		for i := 0; i < nth; i++ {
			j := strings.Index(content[from:], s)
			if j < 0 {
				panic("c06: symbol " + s + " not in " + name)
			}
			off = from + j
			from = off + 1
		}
		d.Symbols = append(d.Symbols, [2]int{off, off + len(s)})
	}
	sort.Slice(d.Symbols, func(i, j int) bool { return d.Symbols[i][0] < d.Symbols[j][0] })
	return d
}

func c06Corpus() []*ref.Repo {
	hd := []string{"HEAD", "dev"}
	r1 := &ref.Repo{Name: "alpha/one", ID: 1, Branches: hd,
		RawConfig: map[string]string{"public": "1", "fork": "0"},
		Metadata:  map[string]string{"team": "red", "tier": "1"}}
	r1.Docs = []*ref.Doc{
		c06Doc("src/main.go", "Go", hd, "package main\n\nfunc main() {\n\tfoo bar\n}\n", "2:main"),
		c06Doc("lib/foo.py", "Python", hd[:1], "def Foo(x):\n    return x and (x)\n", "Foo"),
		c06Doc("lib/Foo.go", "Go", hd[1:], "var zoo = FOO\n// fox for order\n", "zoo"),
		c06Doc("docs/my file.txt", "Text", hd, "foo  bar foobar\nfoo.go\n"),
		c06Doc("docs/order.md", "Markdown", hd[:1], "foo or bar\nlang:go\n"),
		c06Doc("x/qux.txt", "Text", hd[1:], "qux\nfoo123bar\n"),
		c06Doc("x/esc.txt", "Text", hd, "a\\b a+b foo\"bar\n"),
		c06Doc("x/empty", "Text", hd[:1], ""),
	}
	mn := []string{"main"}
	r2 := &ref.Repo{Name: "beta/two", ID: 2, Branches: mn,
		RawConfig: map[string]string{"public": "0", "fork": "1", "archived": "1"},
		Metadata:  map[string]string{"team": "blue"}}
	r2.Docs = []*ref.Doc{
		c06Doc("src/main.go.bak", "Text", mn, "main\nfooxgo\nfoo\nbar\n"),
		c06Doc("lib/util.py", "Python", mn, "import os\nx = aab + ab\nZoo\n", "aab"),
		c06Doc("cmd/tool.go", "Go", mn, "func Tool() { fo. }\n", "Tool"),
		c06Doc("README", "Text", mn, "éab only lower\n"),
		c06Doc("NOTES", "Text", mn, "Éab upper\nfoo-bar\n"),
		c06Doc("java/App.java", "Java", mn, "class App { void FOO() {} }\n", "App", "FOO"),
	}
	dr := []string{"dev", "rel"}
	r3 := &ref.Repo{Name: "alpha/three", ID: 3, Branches: dr,
		Metadata: map[string]string{"tier": "2"}}
	r3.Docs = []*ref.Doc{
		c06Doc("a/foo", "Text", dr, "nothing here\n"),
		c06Doc("a/b.go", "Go", dr[:1], "FOO BAR\nx\n", "FOO"),
		c06Doc("a/c.py", "Python", dr[1:], "(x) main( and\n"),
		c06Doc("a/zoo.txt", "Text", dr, "zoo\n"),
		c06Doc("a/go.mod", "Text", dr[:1], "module Bar\n"),
	}
	return []*ref.Repo{r1, r2, r3}
}

// ---------------------------------------------------------------------------
// AST

// c06Atom is one leaf expression: a rendering and its intended meaning under each case mode.
type c06Atom struct {
	s    string
	q    [3]query.Q // intended meaning under case mode yes / no / auto
	v    [3]uint64  // documents selected by q[mode] (filled by c06Eval.prime)
	text bool       // a pattern atom (its meaning depends on the case mode)
}

const (
	c06Yes = iota
	c06No
	c06Auto
)

var c06CaseNames = [3]string{"yes", "no", "auto"}

type c06Expr struct {
	neg   bool
	atom  *c06Atom
	group *c06Group
}

// c06Item is one element of a conjunction: an expression, a case: directive or a type: directive.
type c06Item struct {
	expr    *c06Expr
	dirCase int8 // -1 or c06Yes..c06Auto
	dirType int8 // -1 or query.TypeFileMatch..TypeRepo
	dirText string
}

type c06Group struct {
	clauses [][]c06Item // or-separated conjunctions
}

func c06E(a *c06Atom) c06Item { return c06Item{expr: &c06Expr{atom: a}, dirCase: -1, dirType: -1} }
func c06N(a *c06Atom) c06Item {
	return c06Item{expr: &c06Expr{atom: a, neg: true}, dirCase: -1, dirType: -1}
}
func c06Gr(g *c06Group) c06Item { return c06Item{expr: &c06Expr{group: g}, dirCase: -1, dirType: -1} }
func c06NGr(g *c06Group) c06Item {
	return c06Item{expr: &c06Expr{group: g, neg: true}, dirCase: -1, dirType: -1}
}
func c06Case(mode int) c06Item {
	return c06Item{dirCase: int8(mode), dirType: -1, dirText: "case:" + c06CaseNames[mode]}
}
func c06Type(text string) c06Item {
	v := text[strings.Index(text, ":")+1:]
	t := map[string]uint8{"filematch": query.TypeFileMatch, "filename": query.TypeFileName, "file": query.TypeFileName, "repo": query.TypeRepo}[v]
	return c06Item{dirCase: -1, dirType: int8(t), dirText: text}
}

// c06And is a one-clause group, c06Or2 a two-clause group.
func c06And(items ...c06Item) *c06Group { return &c06Group{clauses: [][]c06Item{items}} }
func c06Or2(a, b []c06Item) *c06Group   { return &c06Group{clauses: [][]c06Item{a, b}} }
func c06L(items ...c06Item) []c06Item   { return items }

func (g *c06Group) render(sb *strings.Builder) {
	for ci, cl := range g.clauses {
		if ci > 0 {
			sb.WriteString(" or ")
		}
		for ii, it := range cl {
			if ii > 0 {
				sb.WriteByte(' ')
			}
			if it.expr == nil {
				sb.WriteString(it.dirText)
				continue
			}
			if it.expr.neg {
				sb.WriteByte('-')
			}
			if it.expr.atom != nil {
				sb.WriteString(it.expr.atom.s)
			} else {
				sb.WriteByte('(')
				it.expr.group.render(sb)
				sb.WriteByte(')')
			}
		}
	}
}

func (g *c06Group) String() string {
	var sb strings.Builder
	g.render(&sb)
	return sb.String()
}

// meaning builds the intended query tree. inherit is the case mode of the enclosing group.
func (g *c06Group) meaning(inherit int) query.Q {
	mode := inherit
	typ := -1
	for _, cl := range g.clauses {
		for _, it := range cl {
			if it.expr != nil {
				continue
			}
			if it.dirCase >= 0 {
				mode = int(it.dirCase)
			}
			if it.dirType >= 0 {
				typ = int(it.dirType)
			}
		}
	}
	or := &query.Or{}
	for _, cl := range g.clauses {
		and := &query.And{}
		for _, it := range cl {
			if it.expr == nil {
				continue
			}
			var q query.Q
			if it.expr.atom != nil {
				q = it.expr.atom.q[mode]
			} else {
				q = it.expr.group.meaning(mode)
			}
			if it.expr.neg {
				q = &query.Not{Child: q}
			}
			and.Children = append(and.Children, q)
		}
		or.Children = append(or.Children, and)
	}
	var q query.Q = or
	if typ >= 0 {
		q = &query.Type{Type: uint8(typ), Child: q}
	}
	return q
}

// vec computes the documents selected by meaning(inherit) directly on bit vectors (same rules as
// meaning; the two are compared against each other on a sample of the cases).
func (g *c06Group) vec(e *c06Eval, inherit int) uint64 {
	mode := inherit
	typ := -1
	for _, cl := range g.clauses {
		for _, it := range cl {
			if it.expr != nil {
				continue
			}
			if it.dirCase >= 0 {
				mode = int(it.dirCase)
			}
			if it.dirType >= 0 {
				typ = int(it.dirType)
			}
		}
	}
	var or uint64
	for _, cl := range g.clauses {
		and := e.full
		for _, it := range cl {
			if it.expr == nil {
				continue
			}
			var v uint64
			if it.expr.atom != nil {
				v = it.expr.atom.v[mode]
			} else {
				v = it.expr.group.vec(e, mode)
			}
			if it.expr.neg {
				v = ^v & e.full
			}
			and &= v
		}
		or |= and
	}
	if typ == int(query.TypeRepo) {
		or = e.repoLift(or)
	}
	return or
}

// ---------------------------------------------------------------------------
// lexicon

// c06Pattern is a pattern value: src is the regular expression text the field receives
// (after the query-level unquoting). If isLit, src was obtained from lit by escaping
// every regexp meta character, so the documented meaning is the literal string lit.
type c06Pattern struct {
	src   string
	isLit bool
	lit   string
	names bool // meant for file-name fields only (uses ^/$)
}

func c06Lit(lit string) c06Pattern {
	var sb strings.Builder
	for _, c := range lit {
		if strings.ContainsRune(`\.+*?()|[]{}^$`, c) {
			sb.WriteByte('\\')
		}
		sb.WriteRune(c)
	}
	return c06Pattern{src: sb.String(), isLit: true, lit: lit}
}

func c06Re(src string) c06Pattern { return c06Pattern{src: src} }

func c06HasUpper(s string) bool {
	for _, c := range s {
		if unicode.IsUpper(c) {
			return true
		}
	}
	return false
}

// c06Quote renders a value as a quoted text: a backslash escapes the next character.
func c06Quote(v string) string {
	v = strings.ReplaceAll(v, `\`, `\\`)
	v = strings.ReplaceAll(v, `"`, `\"`)
	return `"` + v + `"`
}

// c06Renderings returns the ways a value is written after a field prefix (or bare when prefix == "").
func c06Renderings(prefix, v string, extra bool) []string {
	var out []string
	unquotedOK := !strings.ContainsAny(v, " \"\t:") && !strings.HasPrefix(v, "-") && !(prefix == "" && v == "or")
	if unquotedOK {
		out = append(out, prefix+v)
	}
	out = append(out, prefix+c06Quote(v))
	if extra && len(v) > 0 && (v[0] >= 'a' && v[0] <= 'z' || v[0] >= 'A' && v[0] <= 'Z') {
		// inside quotes a backslash escapes the next character, whatever it is
		q := c06Quote(v)
		out = append(out, prefix+`"\`+q[1:])
	}
	return out
}

func (p c06Pattern) atomQ(prefix string, mode int) query.Q {
	cs := mode == c06Yes || (mode == c06Auto && c06HasUpper(p.src))
	file := prefix == "file:" || prefix == "f:"
	content := prefix == "content:" || prefix == "c:"
	var q query.Q
	if p.isLit {
		q = &query.Substring{Pattern: p.lit, CaseSensitive: cs, FileName: file, Content: content}
	} else {
		re, err := syntax.Parse(p.src, gen.ReFlags)
		if err != nil {
			panic("c06 lexicon: " + p.src + ": " + err.Error())
		}
		q = &query.Regexp{Regexp: re, CaseSensitive: cs, FileName: file, Content: content}
	}
	if prefix == "sym:" {
		q = &query.Symbol{Expr: q}
	}
	return q
}

func c06TextAtoms(prefix string, p c06Pattern, extra bool) []*c06Atom {
	var out []*c06Atom
	for _, s := range c06Renderings(prefix, p.src, extra) {
		a := &c06Atom{s: s, text: true}
		for m := 0; m < 3; m++ {
			a.q[m] = p.atomQ(prefix, m)
		}
		out = append(out, a)
	}
	return out
}

func c06Const(s string, q query.Q) *c06Atom { return &c06Atom{s: s, q: [3]query.Q{q, q, q}} }

func c06Patterns() []c06Pattern {
	return []c06Pattern{
		c06Lit("foo"), c06Lit("Foo"), c06Lit("FOO"), c06Lit("Bar"), c06Lit("Zoo"),
		c06Lit("foo bar"), // needs quotes
		c06Lit("or"),      // the reserved word as a value
		c06Lit("and"),     // not an operator
		c06Lit("order"), c06Lit("for"),
		c06Lit("foo.go"),      // foo\.go
		c06Lit("main("),       // main\(
		c06Lit("(x)"),         // \(x\)
		c06Lit(`foo"bar`),     // the documented example
		c06Lit(`a\b`),         // a\\b: the regexp itself needs a backslash
		c06Lit("a+b"),         // a\+b
		c06Lit("foo-bar"),     // inner hyphen is not a negation
		c06Lit("lang:go"),     // looks like a field; as a value it needs quotes
		c06Lit("src/main"),    // slashes are literal
		c06Re("fo."),          // regexp operator: not a literal
		c06Re("a+b"),          //
		c06Re("foo.*bar"),     // documented example
		c06Re("(foo|qux)"),    // parentheses inside a pattern
		c06Re("f(o|x)o"),      //
		c06Re("(foo or bar)"), // quoted parentheses, the word or and spaces
		c06Re("[A-Z]oo"),      // upper-case letters in a class: case:auto is sensitive
		c06Re("[a-z]oo"),
		c06Re("fo+ +bar"),
		// every regexp operator as the ONLY operator of a value (a value is a literal only when it has none)
		c06Re("fo{2}"), c06Re("o{1,2} b"), c06Re("fo?o"), c06Re("f[o]o"), c06Re("fo*"), c06Re("(?i)FOO"),
		c06Lit("x{2}"), c06Lit("{y}"), // braces as text
	}
}

func c06NamePatterns() []c06Pattern {
	a := c06Re(`main\.go$`)
	b := c06Re(`\.py$`)
	c := c06Re(`^lib/`)
	d := c06Lit("my file")
	e := c06Re(`^a/[a-z]+$`)
	a.names, b.names, c.names, d.names, e.names = true, true, true, true, true
	return []c06Pattern{a, b, c, d, e}
}

func c06MustRe(s string) *regexp.Regexp { return regexp.MustCompile(s) }

// c06FilterAtoms are the fields whose value is not a searched pattern.
func c06FilterAtoms() []*c06Atom {
	var out []*c06Atom
	add := func(s string, q query.Q) { out = append(out, c06Const(s, q)) }
	add("archived:yes", query.RcOnlyArchived)
	add("archived:no", query.RcNoArchived)
	add("fork:yes", query.RcOnlyForks)
	add("fork:no", query.RcNoForks)
	add("public:yes", query.RcOnlyPublic)
	add("public:no", query.RcOnlyPrivate)
	for _, l := range [][2]string{{"go", "Go"}, {"python", "Python"}, {"java", "Java"}, {"markdown", "Markdown"}, {"nosuchlanguage", "nosuchlanguage"}} {
		for _, s := range c06Renderings("lang:", l[0], false) {
			add(s, &query.Language{Language: l[1]})
		}
	}
	for _, pref := range []string{"repo:", "r:"} {
		for _, v := range []string{"alpha", "two$", "alpha/one", "^beta", "a/t", "alpha/(one|three)$", "nosuch"} {
			for _, s := range c06Renderings(pref, v, false) {
				add(s, &query.Repo{Regexp: c06MustRe(v)})
			}
		}
	}
	for _, pref := range []string{"branch:", "b:"} {
		for _, v := range []string{"dev", "HEAD", "main", "ai", "e", "nosuch"} {
			for _, s := range c06Renderings(pref, v, false) {
				add(s, &query.Branch{Pattern: v})
			}
		}
	}
	for _, m := range [][2]string{{"team", "red"}, {"team", "r.d"}, {"team", "blue|red"}, {"team", "e"}, {"tier", "1"}, {"tier", "^[12]$"}, {"nope", "x"}, {"nope", ".*"}} {
		for _, s := range c06Renderings("meta."+m[0]+":", m[1], false) {
			add(s, &query.Meta{Field: m[0], Value: c06MustRe(m[1])})
		}
	}
	return out
}

// c06Lexicon is every atom string of family A.
func c06Lexicon(corpus []*ref.Repo) []*c06Atom {
	var out []*c06Atom
	matchesAName := func(p c06Pattern) bool {
		q := p.atomQ("file:", c06No)
		for _, r := range corpus {
			for _, d := range r.Docs {
				if ref.Eval(q, r, d) {
					return true
				}
			}
		}
		return false
	}
	for _, p := range c06Patterns() {
		for _, pref := range []string{"", "content:", "c:", "file:", "f:", "sym:", "regex:"} {
			if pref == "regex:" && matchesAName(p) {
				// The documentation says regex: "matches content"; the implementation also
				// searches file names. Only values that match no file name of the corpus are
				// generated, so that both readings coincide.
				continue
			}
			out = append(out, c06TextAtoms(pref, p, pref == "" || pref == "content:")...)
		}
	}
	for _, p := range c06NamePatterns() {
		for _, pref := range []string{"file:", "f:"} {
			out = append(out, c06TextAtoms(pref, p, false)...)
		}
	}
	out = append(out, c06FilterAtoms()...)
	return out
}

// ---------------------------------------------------------------------------
// family A: every lexicon atom in every context

var c06TypeTexts = []string{"type:repo", "t:repo", "type:filematch", "t:filematch", "type:filename", "t:filename", "type:file", "t:file"}

func c06Contexts(x *c06Atom, core []*c06Atom, emit func(*c06Group)) {
	X, NX := c06E(x), c06N(x)
	emit(c06And(X))
	emit(c06And(NX))
	for m := 0; m < 3; m++ {
		emit(c06And(c06Case(m), X))
		emit(c06And(X, c06Case(m)))
		emit(c06And(c06Case(m), NX))
	}
	for _, t := range c06TypeTexts {
		emit(c06And(c06Type(t), X))
		emit(c06And(X, c06Type(t)))
	}
	for i, y := range core {
		Y := c06E(y)
		Z := c06E(core[(i+1)%len(core)])
		emit(c06And(X, Y))
		emit(c06And(Y, X))
		emit(c06Or2(c06L(X), c06L(Y)))
		emit(c06Or2(c06L(Y), c06L(X)))
		emit(c06And(NX, Y))
		emit(c06And(Y, NX))
		emit(c06Or2(c06L(NX), c06L(Y)))
		emit(c06Or2(c06L(Y), c06L(NX)))
		// precedence of or
		emit(c06Or2(c06L(X, Y), c06L(Z)))
		emit(c06Or2(c06L(Z), c06L(Y, X)))
		// grouping
		emit(c06And(c06Gr(c06And(X, Y)), Z))
		emit(c06And(Z, c06Gr(c06And(Y, X))))
		emit(c06And(c06NGr(c06And(X, Y))))
		emit(c06And(Z, c06NGr(c06And(Y, X))))
		emit(c06And(c06Gr(c06Or2(c06L(X), c06L(Y))), Z))
		emit(c06And(Z, c06Gr(c06Or2(c06L(Y), c06L(X)))))
		emit(c06And(Z, c06NGr(c06Or2(c06L(Y), c06L(X)))))
		emit(c06Or2(c06L(Z), c06L(c06Gr(c06And(X, Y)))))
		emit(c06And(c06Gr(c06And(Z, c06Gr(c06Or2(c06L(X), c06L(Y))))), Y))
		// case scopes
		for m := 0; m < 3; m++ {
			C := c06Case(m)
			emit(c06And(C, c06Gr(c06And(X, Y))))
			emit(c06And(c06Gr(c06And(C, X)), Y))
			emit(c06And(Y, c06Gr(c06And(X, C))))
			emit(c06Or2(c06L(Y), c06L(X, C)))
			emit(c06Or2(c06L(C, Y), c06L(X)))
			emit(c06And(c06NGr(c06And(C, X)), Y))
			emit(c06And(C, c06NGr(c06Or2(c06L(Y), c06L(X)))))
			for m2 := 0; m2 < 3; m2++ {
				if m2 == m {
					continue
				}
				C2 := c06Case(m2)
				emit(c06And(C, c06Gr(c06And(C2, X, Y)), Z))
				emit(c06And(c06Gr(c06And(X, C2)), Y, C))
				emit(c06Or2(c06L(c06Gr(c06And(C2, Y, X))), c06L(Z, C)))
			}
		}
		// type scopes
		for _, t := range []string{"type:repo", "t:repo", "type:file"} {
			T := c06Type(t)
			emit(c06Or2(c06L(T, X), c06L(Y)))
			emit(c06Or2(c06L(Y), c06L(X, T)))
			emit(c06Or2(c06L(c06Gr(c06And(T, X))), c06L(Y)))
			emit(c06And(c06Gr(c06And(T, X)), Y))
			emit(c06And(Y, c06NGr(c06And(X, T))))
			emit(c06And(T, c06Gr(c06And(X, Y))))
			emit(c06And(T, c06Gr(c06Or2(c06L(X), c06L(Y))), Z))
			emit(c06And(c06Case(c06Yes), T, X, Y))
			emit(c06And(c06Gr(c06And(T, c06Case(c06No), X)), Y))
		}
	}
}

// ---------------------------------------------------------------------------
// family B: every tree up to a size bound over a core alphabet

type c06Bounds struct {
	atoms        []*c06Atom
	maxAtoms     int // atom occurrences in the whole string
	maxDirs      int // case:/type: directives in the whole string
	maxSize      int // atoms + directives in the whole string
	maxClauses   int // or-clauses per group
	maxPerClause int // expressions per conjunction
	depth        int // nesting of groups
	neg          bool
	caseTop      []int    // case directive values offered in the top-level group
	caseNested   []int    // ... in nested groups
	typeTop      []string // type directive texts offered at top level
	typeNested   []string
	stop         func() bool // budget exhausted: stop enumerating
}

type c06Sized struct {
	g     *c06Group
	atoms int
	dirs  int
}

// bodies enumerates the groups at nesting level `depth` that have no directive of their own,
// using at most maxAtoms atoms and maxDirs directives (inside nested groups).
func (b *c06Bounds) bodies(depth int, memo map[int][]c06Sized) []c06Sized {
	if v, ok := memo[depth]; ok {
		return v
	}
	var out []c06Sized
	b.eachBody(depth, memo, func(s c06Sized) { out = append(out, s) })
	memo[depth] = out
	return out
}

// eachBody streams what bodies collects.
func (b *c06Bounds) eachBody(depth int, memo map[int][]c06Sized, emit func(c06Sized)) {
	// expressions indexed by the number of atoms and directives they use
	pool := make([][][]c06Item, b.maxAtoms+1)
	for i := range pool {
		pool[i] = make([][]c06Item, b.maxDirs+1)
	}
	for _, a := range b.atoms {
		pool[1][0] = append(pool[1][0], c06E(a))
		if b.neg {
			pool[1][0] = append(pool[1][0], c06N(a))
		}
	}
	if depth > 0 {
		b.eachWithDirectives(b.bodies(depth-1, memo), true, func(sub c06Sized) {
			pool[sub.atoms][sub.dirs] = append(pool[sub.atoms][sub.dirs], c06Gr(sub.g))
			if b.neg {
				pool[sub.atoms][sub.dirs] = append(pool[sub.atoms][sub.dirs], c06NGr(sub.g))
			}
		})
	}
	var rec func(done [][]c06Item, cur []c06Item, leftA, leftD int)
	rec = func(done [][]c06Item, cur []c06Item, leftA, leftD int) {
		if b.stop != nil && b.stop() {
			return
		}
		if len(cur) > 0 {
			// close the group here
			cl := append(append([][]c06Item{}, done...), append([]c06Item{}, cur...))
			emit(c06Sized{&c06Group{clauses: cl}, b.maxAtoms - leftA, b.maxDirs - leftD})
			// start another clause
			if len(done)+1 < b.maxClauses {
				rec(cl, nil, leftA, leftD)
			}
		}
		if len(cur) < b.maxPerClause {
			for ua := 1; ua <= leftA; ua++ {
				for ud := 0; ud <= leftD; ud++ {
					if (b.maxAtoms-leftA+ua)+(b.maxDirs-leftD+ud) > b.maxSize {
						continue
					}
					for _, e := range pool[ua][ud] {
						rec(done, append(cur[:len(cur):len(cur)], e), leftA-ua, leftD-ud)
					}
				}
			}
		}
	}
	rec(nil, nil, b.maxAtoms, b.maxDirs)
}

func c06Insert(g *c06Group, ci, pos int, it c06Item) *c06Group {
	n := &c06Group{clauses: make([][]c06Item, len(g.clauses))}
	copy(n.clauses, g.clauses)
	cl := g.clauses[ci]
	ncl := make([]c06Item, 0, len(cl)+1)
	ncl = append(ncl, cl[:pos]...)
	ncl = append(ncl, it)
	ncl = append(ncl, cl[pos:]...)
	n.clauses[ci] = ncl
	return n
}

// eachWithDirectives emits, for every body, every way of writing at most one case: and at most
// one type: directive (within the directive budget) at every position of the group: before and
// after every expression of every clause, in both relative orders.
// Nested groups always have at least two items so that the opening parenthesis is followed by a
// space-separated list (a one-element group "(x)" is also a regexp and therefore ambiguous).
func (b *c06Bounds) eachWithDirectives(bodies []c06Sized, nested bool, emit func(c06Sized)) {
	cases, types := b.caseTop, b.typeTop
	if nested {
		cases, types = b.caseNested, b.typeNested
	}
	for _, body := range bodies {
		items := 0
		for _, cl := range body.g.clauses {
			items += len(cl)
		}
		if !nested || items >= 2 {
			emit(body)
		}
		room := b.maxDirs - body.dirs
		if r2 := b.maxSize - body.atoms - body.dirs; r2 < room {
			room = r2
		}
		if room < 1 {
			continue
		}
		var withCase []*c06Group
		for _, m := range cases {
			for ci, cl := range body.g.clauses {
				for pos := 0; pos <= len(cl); pos++ {
					g := c06Insert(body.g, ci, pos, c06Case(m))
					withCase = append(withCase, g)
					emit(c06Sized{g, body.atoms, body.dirs + 1})
				}
			}
		}
		for _, t := range types {
			for bi, base := range append([]*c06Group{body.g}, withCase...) {
				nd := 1
				if bi > 0 {
					nd = 2
				}
				if nd > room {
					break
				}
				for ci, cl := range base.clauses {
					for pos := 0; pos <= len(cl); pos++ {
						emit(c06Sized{c06Insert(base, ci, pos, c06Type(t)), body.atoms, body.dirs + nd})
					}
				}
			}
		}
	}
}

// ---------------------------------------------------------------------------
// the check

type c06Job struct {
	fam string
	g   *c06Group
}

func c06Docs(corpus []*ref.Repo) (rs []*ref.Repo, ds []*ref.Doc) {
	for _, r := range corpus {
		for _, d := range r.Docs {
			if ref.Live(r, d) {
				rs = append(rs, r)
				ds = append(ds, d)
			}
		}
	}
	return
}

func c06Parse(s string) (q query.Q, err error, pan any) {
	defer func() {
		if p := recover(); p != nil {
			pan = p
		}
	}()
	q, err = query.Parse(s)
	return
}

// c06Vector evaluates q on every document; bit i = document i.
func c06Vector(q query.Q, corpus, rs []*ref.Repo, ds []*ref.Doc) (v uint64, pan any) {
	defer func() {
		if p := recover(); p != nil {
			pan = p
		}
	}()
	for i := range ds {
		if ref.EvalCorpus(q, corpus, rs[i], ds[i]) {
			v |= 1 << uint(i)
		}
	}
	return
}

// c06Eval evaluates query trees on the whole corpus as bit vectors: leaves are decided by ref.Eval
// per document (memoised by gen.Key), And/Or/Not/Type by the obvious bit operations (type:repo
// lifts a vector to every document of each repository that has a selected document, which is
// what ref.EvalCorpus defines). Every 101st case and every violation is recomputed with
// ref.EvalCorpus itself.
type c06Eval struct {
	corpus   []*ref.Repo
	rs       []*ref.Repo
	ds       []*ref.Doc
	full     uint64
	repoMask []uint64
	leaves   sync.Map
}

func c06NewEval(corpus []*ref.Repo) *c06Eval {
	e := &c06Eval{corpus: corpus}
	e.rs, e.ds = c06Docs(corpus)
	e.full = uint64(1)<<uint(len(e.ds)) - 1
	for _, r := range corpus {
		var m uint64
		for i := range e.ds {
			if e.rs[i] == r {
				m |= 1 << uint(i)
			}
		}
		e.repoMask = append(e.repoMask, m)
	}
	return e
}

func (e *c06Eval) repoLift(v uint64) uint64 {
	var out uint64
	for _, m := range e.repoMask {
		if v&m != 0 {
			out |= m
		}
	}
	return out
}

func (e *c06Eval) vec(q query.Q) uint64 {
	switch s := q.(type) {
	case *query.And:
		v := e.full
		for _, c := range s.Children {
			v &= e.vec(c)
		}
		return v
	case *query.Or:
		var v uint64
		for _, c := range s.Children {
			v |= e.vec(c)
		}
		return v
	case *query.Not:
		return ^e.vec(s.Child) & e.full
	case *query.Type:
		v := e.vec(s.Child)
		if s.Type == query.TypeRepo {
			return e.repoLift(v)
		}
		return v
	case *query.Const:
		if s.Value {
			return e.full
		}
		return 0
	}
	k := gen.Key(q)
	if v, ok := e.leaves.Load(k); ok {
		return v.(uint64)
	}
	var v uint64
	for i := range e.ds {
		if ref.Eval(q, e.rs[i], e.ds[i]) {
			v |= 1 << uint(i)
		}
	}
	e.leaves.Store(k, v)
	return v
}

func (e *c06Eval) safeVec(q query.Q) (v uint64, pan any) {
	defer func() {
		if p := recover(); p != nil {
			pan = p
		}
	}()
	return e.vec(q), nil
}

func (e *c06Eval) prime(a *c06Atom) {
	for m := 0; m < 3; m++ {
		a.v[m] = e.vec(a.q[m])
	}
}

func c06Describe(v uint64, rs []*ref.Repo, ds []*ref.Doc) string {
	var out []string
	for i := range ds {
		if v&(1<<uint(i)) != 0 {
			out = append(out, rs[i].Name+":"+ds[i].Name)
		}
	}
	return "[" + strings.Join(out, " ") + "]"
}

func TestVerifC06(t *testing.T) {
	r := mc.NewReport("C06")
	defer debug.SetGCPercent(debug.SetGCPercent(400)) // query.Parse allocates a lot; the live heap is small
	corpus := c06Corpus()
	ev := c06NewEval(corpus)
	rs, ds := ev.rs, ev.ds
	if len(ds) > 64 {
		t.Fatal("corpus too large for the bit vectors")
	}
	full := ev.full

	var famCount sync.Map // family -> *atomic.Int64
	count := func(fam string) int64 {
		c, _ := famCount.LoadOrStore(fam, new(atomic.Int64))
		return c.(*atomic.Int64).Add(1)
	}
	var crossChecked atomic.Int64

	check := func(fam string, g *c06Group, known string) {
		s := g.String()
		if !r.Want(s) {
			return
		}
		r.Eval(1)
		n := count(fam)
		replay := map[string]any{"case": s}
		wv := g.vec(ev, c06Auto)
		key := fmt.Sprintf("query string %q", s)
		if known != "" {
			key = known + ": " + key
		}
		got, err, pan := c06Parse(s)
		if pan != nil {
			r.Violation(key+" panics", fmt.Sprintf("query.Parse(%q) panicked: %v", s, pan), replay)
			return
		}
		if err != nil {
			r.Violation(key+" rejected", fmt.Sprintf("query.Parse(%q) failed: %v\nthe string is in the documented grammar; intended meaning %s selects %s", s, err, g.meaning(c06Auto), c06Describe(wv, rs, ds)), replay)
			return
		}
		gv, gp := ev.safeVec(got)
		if gp != nil {
			r.Violation(key+" not evaluable", fmt.Sprintf("query.Parse(%q) = %s: reference evaluation failed: %v", s, got, gp), replay)
			return
		}
		if gv != wv || n%101 == 0 || r.Replaying() {
			// recompute both sides with ref.EvalCorpus on the explicit trees
			want := g.meaning(c06Auto)
			wv2, wp := c06Vector(want, corpus, rs, ds)
			gv2, gp2 := c06Vector(got, corpus, rs, ds)
			crossChecked.Add(1)
			if wp != nil || gp2 != nil || wv2 != wv || gv2 != gv {
				r.Violation("TOOL: bit-vector evaluation disagrees with ref.EvalCorpus for "+s,
					fmt.Sprintf("intended %s: %x vs %x (%v)\nparsed %s: %x vs %x (%v)", want, wv, wv2, wp, got, gv, gv2, gp2), replay)
				return
			}
			if gv != wv {
				r.Violation(key+" selects other documents", fmt.Sprintf("family %s\nquery.Parse(%q) = %s\nintended (doc/query_syntax.md) = %s\nparsed selects   %s\nintended selects %s\ndiffering documents %s",
					fam, s, got, want, c06Describe(gv, rs, ds), c06Describe(wv, rs, ds), c06Describe(gv^wv, rs, ds)), replay)
			}
		}
		if wv != 0 && wv != full {
			r.Nontrivial(s)
		}
	}

	// workers
	jobs := make(chan []c06Job, 64)
	var wg sync.WaitGroup
	var samples atomic.Int64
	for w := 0; w < 16; w++ {
		wg.Add(1)
		go func() {
			defer wg.Done()
			for batch := range jobs {
				for _, j := range batch {
					check(j.fam, j.g, "")
				}
				if samples.Add(1)%97 == 1 && len(batch) > 0 {
					j := batch[len(batch)/2]
					r.Sample(map[string]any{"family": j.fam, "string": j.g.String(), "intended": j.g.meaning(c06Auto).String()})
				}
			}
		}()
	}
	var batch []c06Job
	stopped := false
	emitted := 0
	send := func(fam string, g *c06Group) {
		if stopped {
			return
		}
		emitted++
		batch = append(batch, c06Job{fam, g})
		if len(batch) >= 256 {
			if r.Expired() {
				stopped = true
				r.Incomplete("budget exhausted in family %s after %d strings", fam, emitted)
				batch = nil
				return
			}
			jobs <- batch
			batch = nil
		}
	}

	// ---- family A
	lex := c06Lexicon(corpus)
	byS := map[string]*c06Atom{}
	for _, a := range lex {
		ev.prime(a)
		if _, dup := byS[a.s]; dup {
			t.Fatalf("duplicate lexicon atom %q", a.s)
		}
		byS[a.s] = a
	}
	need := func(s string) *c06Atom {
		a := byS[s]
		if a == nil {
			t.Fatalf("core atom %q is not in the lexicon", s)
		}
		return a
	}
	coreA := []*c06Atom{need("foo"), need("Bar"), need(`"or"`), need("lang:go"), need("f:Foo"), need("r:alpha")}
	if !r.Thorough() {
		coreA = coreA[:3]
	}
	r.Set("lexicon_atoms", len(lex))
	for _, a := range lex {
		c06Contexts(a, coreA, func(g *c06Group) { send("A", g) })
	}

	// ---- family B
	core := []*c06Atom{need("foo"), need("Bar"), need(`"or"`), need("lang:go")}
	std := c06Bounds{maxClauses: 2, maxPerClause: 3, neg: true,
		caseTop: []int{c06Yes, c06No}, caseNested: []int{c06Yes, c06No, c06Auto},
		typeTop: []string{"type:repo"}, typeNested: []string{"t:repo"}}
	std.stop = func() bool { return stopped }
	mk := func(k, atoms, dirs, size, depth int) *c06Bounds {
		b := std
		b.atoms, b.maxAtoms, b.maxDirs, b.maxSize, b.depth = core[:k], atoms, dirs, size, depth
		return &b
	}
	runs := []*c06Bounds{mk(3, 3, 2, 4, 1)}
	if r.Thorough() {
		runs = []*c06Bounds{mk(4, 3, 2, 4, 2), mk(4, 3, 2, 5, 1), mk(3, 4, 1, 5, 1)}
	}
	nbodies := 0
	var boundTexts []string
	for _, b := range runs {
		memo := map[int][]c06Sized{}
		b.eachBody(b.depth, memo, func(body c06Sized) {
			if stopped {
				return
			}
			nbodies++
			b.eachWithDirectives([]c06Sized{body}, false, func(s c06Sized) { send("B", s.g) })
		})
		boundTexts = append(boundTexts, fmt.Sprintf("%d core atoms, atoms<=%d, directives<=%d, atoms+directives<=%d, nesting<=%d", len(b.atoms), b.maxAtoms, b.maxDirs, b.maxSize, b.depth))
	}
	r.Set("familyB_bodies", nbodies)

	if len(batch) > 0 && !stopped {
		jobs <- batch
	}
	close(jobs)
	wg.Wait()

	// ---- family C: constructs where the implementation is suspected to deviate from the letter
	// of the documentation; a handful of strings each, keyed by cause.
	{
		p := c06Lit("Éab")
		for _, pref := range []string{"", "content:"} {
			for _, a := range c06TextAtoms(pref, p, false) {
				ev.prime(a)
				check("C", c06And(c06E(a)), "case:auto with a non-ASCII upper-case letter")
			}
		}
	}

	// ---- observations (not alarms): constructs that are not generated because the documentation
	// is ambiguous about them; what the implementation does is recorded in the evidence notes.
	if !r.Replaying() {
		observe := func(s string, reading string, q query.Q) {
			got, err, pan := c06Parse(s)
			switch {
			case pan != nil:
				r.Note("observation: %s panics: %v", s, pan)
			case err != nil:
				r.Note("observation: %s is rejected (%v); reading %q would be %s", s, err, reading, q)
			default:
				gv, _ := ev.safeVec(got)
				wv, _ := ev.safeVec(q)
				r.Note("observation: %s parses to %s; under the reading %q (%s) it would select %s, the parsed query selects %s", s, got, reading, q, c06Describe(wv, rs, ds), c06Describe(gv, rs, ds))
			}
		}
		observe("regex:order", "regex: matches content", &query.Substring{Pattern: "order", Content: true})
		observe("(lang:go)", "a group containing the field lang:go", &query.Language{Language: "Go"})
		observe("foo (-bar)", "foo and a group containing -bar", query.NewAnd(&query.Substring{Pattern: "foo"}, &query.Not{Child: &query.Substring{Pattern: "bar"}}))
		observe(`"(" foo ")"`, `three patterns, the first and last being the invalid regexps "(" and ")"`, &query.Const{Value: false})
		observe(`"("`, `the invalid regexp "("`, &query.Const{Value: false})
	}

	famCount.Range(func(k, v any) bool {
		r.Set("family_"+k.(string), v.(*atomic.Int64).Load())
		return true
	})
	r.Set("documents", len(ds))
	r.Set("cross_checked_with_EvalCorpus", crossChecked.Load())
	r.Set("bound", "family B (<=2 or-clauses per group, <=3 expressions per conjunction, '-' optional on every expression): "+strings.Join(boundTexts, " ; "))
	r.Assume("ref.EvalCorpus is the meaning of a query tree; regexp/syntax (stdlib) parses the pattern values on the intended side with the flags zoekt documents (Go regexp syntax)")
	r.Assume("a bare pattern searches file names and content (the documentation does not name the channel); anchors ^ $ are generated only for file:/repo:/meta values because the documentation does not say whether they are line or text anchors")
	r.Finish("Family A: every lexicon atom (pattern values x {bare, content:, c:, file:, f:, sym:, regex:} x {unquoted, quoted, quoted with a gratuitous backslash}, boolean fields, lang:, repo:/r:, branch:/b:, meta.<field>:) in every context (alone, negated, case:yes/no/auto before/after, every type:/t: value before/after, and/or with each core atom in both orders, or-precedence, grouping, negated groups, nested case scopes incl. inner overrides, type scopes). " +
		"Family B: every tree up to the stated bound over the core alphabet with optional '-' on every expression and at most one case: and one type: directive per group at every position. " +
		"Family C: non-ASCII upper-case patterns under case:auto. " +
		"Oracle: parsed query and intended tree select the same documents of the " + fmt.Sprint(len(ds)) + "-document / 3-repository corpus (ref.EvalCorpus). " +
		"A case is non-trivial (key = the string) when its intended meaning selects some but not all documents. " +
		"Not generated because the documentation is silent or ambiguous: one-element groups such as (lang:go) or (-foo) (also derivable as an unquoted regexp; the implementation reads them as text), several case: or several type: directives in one group, negated directives, or-clauses consisting only of directives, empty values, language aliases, upper-case values for lang:/repo:/branch:/meta other than the documented branch:HEAD (no documented interaction with case:), regex: values that match a file name (documented as content-only, implemented as name-or-content), escape classes with upper-case letters such as \\S under case:auto, ^/$ in content patterns, a quoted lone parenthesis \"(\" (its documented meaning is the invalid regexp '(' ).")
}
