//go:build verif

package query

import "sort"

// C07Prefixes returns the field prefixes the tokenizer knows, read from the parser's own
// table so that a prefix added later is enumerated without touching the harness.
func C07Prefixes() []string {
	var out []string
	for p := range prefixes {
		out = append(out, p)
	}
	sort.Strings(out)
	return out
}

// C07ReservedWords returns the reserved words of the tokenizer ("or").
func C07ReservedWords() []string {
	var out []string
	for w := range reservedWords {
		out = append(out, w)
	}
	sort.Strings(out)
	return out
}
