//go:build verif

package query_test

// C07: query parsing and JSON API decoding never crash; every query that parsing yields can
// be searched, listed, printed and converted to the wire format without panicking.
//
// Shape I (exhaustive input enumeration), run inside a guarded child process:
//
//   (a1) every byte string over Σp up to length L,
//   (a2) every sequence of <= k tokens (field prefixes read from the parser's own table ×
//        values, "or", parentheses, "-", quoted strings, dangling escapes, regexp fragments)
//        joined with every choice of {"", " "} separators,
//        -> query.Parse; every successfully parsed query (deduplicated by String(), smallest
//        input kept as representative) is printed, converted with QToProto, searched and
//        listed on two real index-level searchers and on a real directory searcher.
//   (b)  JSON bodies for /api/search and /api/list through the real handlers (web.NewMux):
//        every truncation of valid bodies plus a grammar of wrongly typed / null / negative /
//        overflowing values for every field.
//
// Oracle: no panic (each call is wrapped in recover), no shard crash reported by the sharded
// searcher (Stats.Crashes / RepoList.Crashes, which is how it reports a recovered panic), and
// the process survives (the parent attributes a death or stall to the inputs in flight and
// re-runs them alone before reporting).

import (
	"bytes"
	"context"
	"encoding/hex"
	"encoding/json"
	"fmt"
	"io"
	"log"
	"net/http"
	"net/http/httptest"
	"os"
	"os/exec"
	"regexp"
	"runtime"
	"sort"
	"strconv"
	"strings"
	"sync"
	"sync/atomic"
	"syscall"
	"testing"
	"time"

	"github.com/sourcegraph/zoekt"
	"github.com/sourcegraph/zoekt/index"
	"github.com/sourcegraph/zoekt/internal/verifshim/gen"
	"github.com/sourcegraph/zoekt/internal/verifshim/mc"
	"github.com/sourcegraph/zoekt/query"
	"github.com/sourcegraph/zoekt/search"
	"github.com/sourcegraph/zoekt/web"
)

const (
	c07EnvSpec  = "VERIF_C07_CHILD_SPEC"
	c07SlotSize = 2048
)

// ---------------------------------------------------------------- protocol parent <-> child

type c07Spec struct {
	Tier       string   `json:"tier"`
	DeadlineMs int64    `json:"deadline_ms"` // unix ms: the child stops enumerating after this
	SlotFile   string   `json:"slot_file"`
	OutFile    string   `json:"out_file"`
	Procs      int      `json:"procs"`
	Cases      []string `json:"cases"` // non-empty: run exactly these case ids, nothing else
	Skip       []string `json:"skip"`  // case ids known to kill the process
}

type c07Viol struct {
	Key    string `json:"key"`
	Detail string `json:"detail"`
	Case   string `json:"case"`
}

type c07Out struct {
	Evals      int64          `json:"evals"`
	Counts     map[string]int `json:"counts"`
	Nontrivial int            `json:"nontrivial"`
	Samples    []any          `json:"samples"`
	Viol       []c07Viol      `json:"viol"`
	Incomplete []string       `json:"incomplete"`
	Notes      []string       `json:"notes"`
}

// ---------------------------------------------------------------- alphabets

// Σp of DESIGN.md §5 C07.
var c07Sigma = []string{"a", "(", ")", "\"", "\\", " ", "-", ":", "o", "r", "c", "\n", "\xff", "*", "["}

// c07PrefixValues gives the values combined with a field prefix; chosen per prefix so that
// every branch of parseExpr's switch for that token type is taken (valid, invalid, empty).
func c07PrefixValues(prefix string) (full []string, core []string) {
	switch prefix {
	case "archived:", "fork:", "public:":
		return []string{"", "yes", "no", "a"}, []string{"yes"}
	case "case:":
		return []string{"", "yes", "no", "auto", "a"}, []string{"yes"}
	case "t:":
		return []string{"repo", "filematch"}, nil
	case "type:":
		return []string{"", "filematch", "filename", "file", "repo", "a"}, []string{"filematch", "filename", "repo"}
	case "lang:":
		return []string{"", "go", "a", "\"C++\""}, []string{"go"}
	case "sym:":
		return []string{"", "a", "(", "a.*b", "\"\""}, []string{"a"}
	case "b:":
		return []string{"", "a", "HEAD"}, []string{"HEAD"}
	case "branch:":
		return []string{"a"}, nil
	case "r:":
		return []string{"", "a", "(", "alpha"}, []string{"a"}
	case "repo:":
		return []string{"a"}, nil
	case "f:":
		return []string{"", "a", "a.*b", "(", "["}, []string{"a"}
	case "file:":
		return []string{"a"}, nil
	case "c:":
		return []string{"", "a", "a.*b", "("}, []string{"a"}
	case "content:":
		return []string{"a"}, nil
	case "regex:":
		return []string{"", "a", "a.*b", "(", "["}, []string{"a.*b"}
	case "meta.":
		return []string{"", "a", "k:v", "team:red", "k:(", ":", "k:"}, []string{"team:red"}
	default:
		// a prefix this harness does not know yet: generic values
		return []string{"", "a", "yes", "(", "k:v"}, []string{"a"}
	}
}

// c07Tokens returns the full token set (short sequences), the core set (one or two values per
// prefix plus the structural tokens) and the tiny set (longest sequences).
func c07Tokens() (full, core, tiny []string) {
	for _, p := range query.C07Prefixes() {
		f, c := c07PrefixValues(p)
		for _, v := range f {
			full = append(full, p+v)
		}
		for _, v := range c {
			core = append(core, p+v)
		}
	}
	for _, w := range query.C07ReservedWords() {
		full = append(full, w)
		core = append(core, w)
		tiny = append(tiny, w)
	}
	full = append(full,
		"(", ")", "-", "\"", "\"a b\"", "\"a", "a\"", "\\", "\\(", "a\\", "a", "ab", "a.*b", "(a|b)", "[a", "a*", "*",
		"\xff", ":", "a:", "or:", "\"(\"", "\")\"", "\"or\"", "\\ ", "(a", "a)", "()", "\n", "\t", "OR", "\"\"", "a{2}", "\\b")
	core = append(core, "(", ")", "-", "a", "\"a b\"", "\\", "a.*b", "\"\"")
	tiny = append(tiny, "(", ")", "-", "a", "type:repo", "type:filename", "case:yes", "sym:a", "r:a", "meta.team:red", "\"\"")
	return full, core, tiny
}

// c07Plan describes the (a) enumeration as consecutive index ranges.
type c07Segment struct {
	name   string
	tokens []string // nil: byte strings over c07Sigma
	k      int      // exact length (bytes or tokens)
	masks  []int    // separator masks used for token sequences (bit i set = " " after token i)
	n      int64
}

func c07Pow(b, e int) int64 {
	r := int64(1)
	for i := 0; i < e; i++ {
		r *= int64(b)
	}
	return r
}

func c07AllMasks(k int) []int {
	var m []int
	for i := 0; i < 1<<(k-1); i++ {
		m = append(m, i)
	}
	return m
}

func c07Plan(thorough bool) []c07Segment {
	full, core, tiny := c07Tokens()
	var segs []c07Segment
	tok := func(name string, set []string, k int, masks []int) {
		segs = append(segs, c07Segment{name: fmt.Sprintf("%s-tokens%d", name, k), tokens: set, k: k, masks: masks, n: c07Pow(len(set), k) * int64(len(masks))})
	}
	L := 5
	if thorough {
		L = 6
	}
	for l := 0; l <= L; l++ {
		segs = append(segs, c07Segment{name: fmt.Sprintf("bytes%d", l), k: l, n: c07Pow(len(c07Sigma), l)})
	}
	tok("full", full, 1, c07AllMasks(1))
	tok("full", full, 2, c07AllMasks(2))
	if thorough {
		tok("full", full, 3, c07AllMasks(3))
		tok("core", core, 4, c07AllMasks(4))
		tok("tiny", tiny, 5, c07AllMasks(5))
		tok("core", core, 5, []int{15}) // all spaced
	} else {
		tok("core", core, 3, c07AllMasks(3))
		tok("tiny", tiny, 4, c07AllMasks(4))
	}
	// nano set: the structural tokens and the two kinds of directives, long enough for a
	// directive next to a parenthesised group that carries another directive
	// (`type:filename ( case:yes a )`), space separated
	nano := []string{"(", ")", "a", "-", "or", "type:repo", "type:filename", "case:yes"}
	tok("nano", nano, 5, []int{15})
	tok("nano", nano, 6, []int{31})
	if thorough {
		tok("nano", nano, 7, []int{63})
	}
	return segs
}

// input materialises element i of a segment.
func (s *c07Segment) input(i int64, buf []byte) []byte {
	buf = buf[:0]
	if s.tokens == nil {
		var idx [16]int
		for p := s.k - 1; p >= 0; p-- {
			idx[p] = int(i % int64(len(c07Sigma)))
			i /= int64(len(c07Sigma))
		}
		for p := 0; p < s.k; p++ {
			buf = append(buf, c07Sigma[idx[p]]...)
		}
		return buf
	}
	mask := s.masks[int(i%int64(len(s.masks)))]
	i /= int64(len(s.masks))
	var idx [8]int
	for p := s.k - 1; p >= 0; p-- {
		idx[p] = int(i % int64(len(s.tokens)))
		i /= int64(len(s.tokens))
	}
	for p := 0; p < s.k; p++ {
		buf = append(buf, s.tokens[idx[p]]...)
		if p < s.k-1 && mask&(1<<p) != 0 {
			buf = append(buf, ' ')
		}
	}
	return buf
}

// ---------------------------------------------------------------- child: in-flight slots

type c07Slots struct {
	mem []byte
	n   int
}

func c07OpenSlots(path string, n int) (*c07Slots, error) {
	f, err := os.OpenFile(path, os.O_RDWR|os.O_CREATE, 0o644)
	if err != nil {
		return nil, err
	}
	defer f.Close()
	if err := f.Truncate(int64(n * c07SlotSize)); err != nil {
		return nil, err
	}
	mem, err := syscall.Mmap(int(f.Fd()), 0, n*c07SlotSize, syscall.PROT_READ|syscall.PROT_WRITE, syscall.MAP_SHARED)
	if err != nil {
		return nil, err
	}
	return &c07Slots{mem: mem, n: n}, nil
}

// set publishes the case in flight for worker w (kind 0 = idle). Layout of a slot:
// [0] busy flag, [1..2] payload length, [3] kind, [4..] payload. A torn read by the parent is
// harmless: suspects are always re-run alone before anything is reported.
func (s *c07Slots) set(w int, kind byte, payload []byte) {
	if s == nil {
		return
	}
	o := w * c07SlotSize
	s.mem[o] = 0
	if kind == 0 {
		return
	}
	n := len(payload)
	if n > c07SlotSize-4 {
		n = c07SlotSize - 4
	}
	s.mem[o+1], s.mem[o+2], s.mem[o+3] = byte(n>>8), byte(n), kind
	copy(s.mem[o+4:], payload[:n])
	s.mem[o] = 1
}

// c07ReadSlots decodes the slot file into case ids ("" = idle worker).
func c07ReadSlots(path string) []string {
	data, err := os.ReadFile(path)
	if err != nil {
		return nil
	}
	var out []string
	for o := 0; o+c07SlotSize <= len(data); o += c07SlotSize {
		if data[o] == 0 {
			out = append(out, "")
			continue
		}
		n := int(data[o+1])<<8 | int(data[o+2])
		if n > c07SlotSize-4 {
			n = c07SlotSize - 4
		}
		out = append(out, c07CaseID(data[o+3], data[o+4:o+4+n]))
	}
	return out
}

// case ids: "q:<hex input>", "js:<hex body>" (POST /api/search), "jl:<hex body>" (POST /api/list),
// "jm:<METHOD> <path>" (other methods).
func c07CaseID(kind byte, payload []byte) string {
	switch kind {
	case 'q':
		return "q:" + hex.EncodeToString(payload)
	case 's':
		return "js:" + hex.EncodeToString(payload)
	case 'l':
		return "jl:" + hex.EncodeToString(payload)
	}
	return string(kind) + ":" + hex.EncodeToString(payload)
}

func c07ParseCaseID(id string) (kind byte, payload []byte, ok bool) {
	i := strings.IndexByte(id, ':')
	if i < 0 {
		return 0, nil, false
	}
	p, err := hex.DecodeString(id[i+1:])
	if err != nil {
		return 0, nil, false
	}
	switch id[:i] {
	case "q":
		return 'q', p, true
	case "js":
		return 's', p, true
	case "jl":
		return 'l', p, true
	}
	return 0, nil, false
}

func c07ParallelFor(procs int, n int64, chunk int64, expired func() bool, f func(worker int, lo, hi int64)) (complete bool) {
	var next atomic.Int64
	var cut atomic.Bool
	var wg sync.WaitGroup
	for w := 0; w < procs; w++ {
		wg.Add(1)
		go func(w int) {
			defer wg.Done()
			for {
				lo := next.Add(chunk) - chunk
				if lo >= n {
					return
				}
				if expired() {
					cut.Store(true)
					return
				}
				hi := lo + chunk
				if hi > n {
					hi = n
				}
				f(w, lo, hi)
			}
		}(w)
	}
	wg.Wait()
	return !cut.Load()
}

// ---------------------------------------------------------------- child: environment under test

type c07Env struct {
	spec     *c07Spec
	slots    *c07Slots
	shards   []zoekt.Searcher // index level
	dir      zoekt.Streamer   // directory level (sharded searcher + typeRepoSearcher)
	api      http.Handler     // web.NewMux with RPC: /api/search, /api/list
	mu       sync.Mutex
	classes  map[string]*c07Class
	counts   map[string]int
	evals    atomic.Int64
	samples  []any
	deadline time.Time
	skip     map[string]bool
}

type c07Class struct {
	where, kind  string
	stages       map[string]int // stage -> number of failing cases
	example      *c07Viol       // the smallest failing input of the class
	exampleInput string
	total        int
}

func (e *c07Env) expired() bool { return time.Now().After(e.deadline) }

func (e *c07Env) count(k string, n int) {
	e.mu.Lock()
	e.counts[k] += n
	e.mu.Unlock()
}

// c07Panic describes one recovered panic. The stack is kept as program counters and only
// rendered for the examples that are reported (rendering costs far more than the case itself).
type c07Panic struct {
	val   string
	crash bool // not a Go panic in our goroutine: the sharded searcher reported a recovered shard crash
	pcs   []uintptr
}

func (p *c07Panic) frames() []runtime.Frame {
	var out []runtime.Frame
	if len(p.pcs) == 0 {
		return nil
	}
	fr := runtime.CallersFrames(p.pcs)
	seenPanic := false
	for {
		f, more := fr.Next()
		if seenPanic {
			out = append(out, f)
		} else if f.Function == "runtime.gopanic" {
			seenPanic = true
		}
		if !more || len(out) >= 14 {
			break
		}
	}
	return out
}

// where is the innermost function that is not part of the runtime / log / fmt plumbing.
func (p *c07Panic) where() string {
	if p.crash {
		return "a shard (recovered by shardedSearcher)"
	}
	for _, f := range p.frames() {
		fn := f.Function
		if strings.HasPrefix(fn, "runtime.") || strings.HasPrefix(fn, "log.") || strings.HasPrefix(fn, "fmt.") || strings.HasPrefix(fn, "runtime/") {
			continue
		}
		return strings.TrimPrefix(fn, "github.com/sourcegraph/zoekt/")
	}
	return "unknown"
}

func (p *c07Panic) stack() string {
	var sb strings.Builder
	for _, f := range p.frames() {
		if strings.Contains(f.Function, "/query_test.") {
			break
		}
		fmt.Fprintf(&sb, "  %s\n      %s:%d\n", f.Function, f.File, f.Line)
	}
	return sb.String()
}

// c07Protect runs f and returns a description of the panic, if any.
func c07Protect(f func()) (p *c07Panic) {
	defer func() {
		if r := recover(); r != nil {
			if c, ok := r.(c07Crash); ok {
				p = &c07Panic{val: c.what, crash: true}
				return
			}
			val := fmt.Sprint(r)
			if len(val) > 300 {
				val = val[:300] + "…"
			}
			pcs := make([]uintptr, 48)
			n := runtime.Callers(1, pcs)
			p = &c07Panic{val: val, pcs: pcs[:n]}
		}
	}()
	f()
	return nil
}

type c07Stage struct {
	name string
	run  func(e *c07Env, q query.Q) // may panic
}

type c07Crash struct{ what string }

var c07Stages = []c07Stage{
	{"String", func(e *c07Env, q query.Q) { _ = q.String() }},
	{"QToProto", func(e *c07Env, q query.Q) { _ = query.QToProto(q) }},
	{"index.Search", func(e *c07Env, q query.Q) {
		for _, s := range e.shards {
			_, _ = s.Search(context.Background(), q, &zoekt.SearchOptions{})
		}
	}},
	{"index.Search(chunks)", func(e *c07Env, q query.Q) {
		for _, s := range e.shards {
			_, _ = s.Search(context.Background(), q, &zoekt.SearchOptions{ChunkMatches: true, NumContextLines: 1, DebugScore: true})
		}
	}},
	{"index.List", func(e *c07Env, q query.Q) {
		for _, s := range e.shards {
			_, _ = s.List(context.Background(), q, nil)
			_, _ = s.List(context.Background(), q, &zoekt.ListOptions{Field: zoekt.RepoListFieldReposMap})
		}
	}},
	{"dir.Search", func(e *c07Env, q query.Q) {
		res, err := e.dir.Search(context.Background(), q, &zoekt.SearchOptions{})
		if err == nil && res != nil && res.Stats.Crashes > 0 {
			panic(c07Crash{fmt.Sprintf("sharded searcher reports Stats.Crashes=%d (a shard search panicked and was recovered)", res.Stats.Crashes)})
		}
	}},
	{"dir.List", func(e *c07Env, q query.Q) {
		res, err := e.dir.List(context.Background(), q, nil)
		if err == nil && res != nil && res.Crashes > 0 {
			panic(c07Crash{fmt.Sprintf("sharded searcher reports RepoList.Crashes=%d (a shard list panicked and was recovered)", res.Crashes)})
		}
	}},
}

func c07Children(q query.Q) []query.Q {
	switch s := q.(type) {
	case *query.And:
		return s.Children
	case *query.Or:
		return s.Children
	case *query.Not:
		return []query.Q{s.Child}
	case *query.Type:
		return []query.Q{s.Child}
	case *query.Boost:
		return []query.Q{s.Child}
	case *query.Symbol:
		return []query.Q{s.Expr}
	}
	return nil
}

func c07Kind(q query.Q) string {
	switch s := q.(type) {
	case nil:
		return "<nil>"
	case *query.Type:
		k := "UNKNOWN"
		switch s.Type {
		case query.TypeFileMatch:
			k = "filematch"
		case query.TypeFileName:
			k = "filename"
		case query.TypeRepo:
			k = "repo"
		}
		if s.Child == nil {
			return "*query.Type(" + k + ",nil child)"
		}
		return "*query.Type(" + k + ")"
	case *query.Not:
		if s.Child == nil {
			return "*query.Not(nil child)"
		}
	}
	return fmt.Sprintf("%T", q)
}

// c07Culprit descends to the smallest sub-query that still panics in the given stage.
func c07Culprit(e *c07Env, st *c07Stage, q query.Q) query.Q {
	for depth := 0; depth < 12; depth++ {
		next := query.Q(nil)
		found := false
		for _, c := range c07Children(q) {
			c := c
			if c == nil {
				continue
			}
			if p := c07Protect(func() { st.run(e, c) }); p != nil {
				next, found = c, true
				break
			}
		}
		if !found {
			return q
		}
		q = next
	}
	return q
}

// addViol records one failing case in its class; only the smallest input of a class is kept
// (detail is rendered lazily for it).
func (e *c07Env) addViol(stage, where, kind string, caseID, input string, detail func() string) {
	e.mu.Lock()
	defer e.mu.Unlock()
	ck := where + "\x00" + kind
	c := e.classes[ck]
	if c == nil {
		c = &c07Class{where: where, kind: kind, stages: map[string]int{}}
		e.classes[ck] = c
	}
	c.total++
	c.stages[stage]++
	if c.example != nil && !c07Less(input, c.exampleInput) {
		return
	}
	c.exampleInput = input
	c.example = &c07Viol{
		Key:    fmt.Sprintf("C07 panic in %s on %s: input=%s", where, kind, strconv.QuoteToASCII(input)),
		Detail: detail(),
		Case:   caseID,
	}
}

// evalQuery runs every stage on a parsed query.
func (e *c07Env) evalQuery(input string, q query.Q) {
	caseID := "q:" + hex.EncodeToString([]byte(input))
	for i := range c07Stages {
		st := &c07Stages[i]
		p := c07Protect(func() { st.run(e, q) })
		if p == nil {
			continue
		}
		kind := c07Kind(c07Culprit(e, st, q))
		e.addViol(st.name, p.where(), kind, caseID, input, func() string {
			qs := "<String() panics>"
			c07Protect(func() { qs = q.String() })
			return fmt.Sprintf("query.Parse(%q) = %s\n%s panicked: %s\nsmallest panicking sub-query kind: %s\n%s", input, qs, st.name, p.val, kind, p.stack())
		})
	}
}

// parseOne parses one input; reports a Parse panic; returns the query and its dedup key.
func (e *c07Env) parseOne(input string) (q query.Q, key string, ok bool) {
	var err error
	p := c07Protect(func() { q, err = query.Parse(input) })
	if p != nil {
		e.addViol("query.Parse", p.where(), "input", "q:"+hex.EncodeToString([]byte(input)), input, func() string {
			return fmt.Sprintf("query.Parse(%q) panicked: %s\n%s", input, p.val, p.stack())
		})
		return nil, "", false
	}
	if err != nil || q == nil {
		return nil, "", false
	}
	key = "\x00unprintable:" + input
	c07Protect(func() { key = q.String() })
	return q, key, true
}

// c07Less orders inputs: shorter first, then fewer punctuation / non-printable bytes, then bytewise.
func c07Less(a, b string) bool {
	if len(a) != len(b) {
		return len(a) < len(b)
	}
	na, nb := c07Odd(a), c07Odd(b)
	if na != nb {
		return na < nb
	}
	return a < b
}

func c07Odd(s string) int {
	n := 0
	for i := 0; i < len(s); i++ {
		c := s[i]
		switch {
		case c < 0x20 || c > 0x7e:
			n += 10
		case c >= 'a' && c <= 'z', c >= 'A' && c <= 'Z', c >= '0' && c <= '9', c == ' ':
		default:
			n++
		}
	}
	return n
}

// ---------------------------------------------------------------- (b) JSON bodies

const c07SearchBody = `{"Q":"abc","RepoIDs":[1,7],"Opts":{"EstimateDocCount":false,"Whole":true,"ShardMaxMatchCount":10,"TotalMaxMatchCount":20,"ShardRepoMaxMatchCount":5,"MaxWallTime":1000000000,"FlushWallTime":1000,"MaxDocDisplayCount":3,"MaxMatchDisplayCount":4,"NumContextLines":1,"ChunkMatches":true,"UseBM25Scoring":false,"Trace":false,"DebugScore":true,"SpanContext":{"a":"b"}}}`
const c07ListBody = `{"Q":"r:alpha","Opts":{"Field":2}}`

var c07WrongValues = []string{
	`null`, `true`, `false`, `0`, `-1`, `1`, `2`, `-0`, `1.5`, `1e2`, `1e99`, `-1e99`, `2147483648`, `4294967296`, `9223372036854775807`,
	`-9223372036854775808`, `9223372036854775808`, `-9223372036854775809`, `123456789012345678901234567890`,
	`""`, `"x"`, `"1"`, `"\ud800"`, `"\u0000"`, `[]`, `[null]`, `[-1]`, `[1,1]`, `[4294967295]`, `[4294967296]`, `["1"]`, `[[1]]`,
	`{}`, `{"a":1}`, `{"a":null}`, `{"Q":"a"}`,
}

var c07SearchOptFields = []string{"EstimateDocCount", "Whole", "ShardMaxMatchCount", "TotalMaxMatchCount", "ShardRepoMaxMatchCount",
	"MaxWallTime", "FlushWallTime", "MaxDocDisplayCount", "MaxMatchDisplayCount", "NumContextLines", "ChunkMatches", "UseBM25Scoring",
	"Trace", "DebugScore", "SpanContext"}

var c07IntValues = []string{`-9223372036854775808`, `-2`, `-1`, `0`, `1`, `2`, `9223372036854775807`}

var c07JSONQueries = []string{``, `a`, `abc`, `(`, `r:alpha`, `type:repo a`, `type:file a`, `sym:abc`, `-a`, `a or b`, `"`, `\`, "\xff", `lang:go`, `b:HEAD a`, `case:yes A`, `a.*b`, `f:go c:a`}

type c07JSONCase struct {
	kind byte // 's' search, 'l' list
	body string
}

func c07JSONCases(thorough bool) []c07JSONCase {
	var out []c07JSONCase
	seen := map[string]bool{}
	add := func(kind byte, body string) {
		k := string(kind) + body
		if !seen[k] {
			seen[k] = true
			out = append(out, c07JSONCase{kind, body})
		}
	}
	for _, kb := range []struct {
		kind byte
		body string
	}{{'s', c07SearchBody}, {'l', c07ListBody}, {'s', c07ListBody}, {'l', c07SearchBody}} {
		for i := 0; i <= len(kb.body); i++ {
			add(kb.kind, kb.body[:i]) // every truncation
		}
		if kb.kind == 's' && kb.body == c07SearchBody || kb.kind == 'l' && kb.body == c07ListBody {
			for i := 0; i < len(kb.body); i++ {
				add(kb.kind, kb.body[:i]+kb.body[i+1:]) // every single-byte deletion
			}
		}
	}
	// top-level shapes
	for _, kind := range []byte{'s', 'l'} {
		for _, b := range []string{``, ` `, `null`, `[]`, `"x"`, `1`, `{}`, `{"Q":null}`, `{"q":"a"}`, `{"Q":"a","Q":"b"}`, `{"Q":"a"} {"Q":"b"}`, `{"Q":"a"}x`,
			`{"Unknown":1,"Q":"a"}`, `{"Q":"a","Opts":null}`, `{"Q":"a","Opts":{}}`, "\xef\xbb\xbf{\"Q\":\"a\"}", `{"Q":"a","RepoIDs":null}`, `{"Q":"a","RepoIDs":[]}`,
			strings.Repeat("[", 10001), strings.Repeat(`{"Opts":`, 5000), `{"Q":"` + strings.Repeat("a", 70000) + `"}`, `{"Q":"a","Opts":{"SpanContext":{"a":"b","a":"c"}}}`,
		} {
			add(kind, b)
		}
		for _, q := range c07JSONQueries {
			qb, _ := json.Marshal(q)
			add(kind, `{"Q":`+string(qb)+`}`)
			add(kind, `{"Q":`+string(qb)+`,"Opts":{"MaxDocDisplayCount":5,"NumContextLines":2,"ChunkMatches":true,"Field":2}}`)
			add(kind, "{\"Q\":\""+q+"\"}") // raw bytes, not escaped: invalid JSON strings among them
		}
		// every top-level field × every wrong value
		for _, f := range []string{"Q", "RepoIDs", "Opts"} {
			for _, v := range c07WrongValues {
				switch f {
				case "Q":
					add(kind, `{"Q":`+v+`}`)
				default:
					add(kind, `{"Q":"abc","`+f+`":`+v+`}`)
				}
			}
		}
	}
	// every search option × every wrong value, with chunk and line matches
	for _, f := range c07SearchOptFields {
		for _, v := range c07WrongValues {
			add('s', `{"Q":"abc","Opts":{"`+f+`":`+v+`}}`)
			add('s', `{"Q":"abc","Opts":{"ChunkMatches":true,"`+f+`":`+v+`}}`)
		}
	}
	for _, v := range c07WrongValues {
		add('l', `{"Q":"r:alpha","Opts":{"Field":`+v+`}}`)
		add('l', `{"Q":"abc","Opts":{"Field":`+v+`}}`)
	}
	// every pair of integer options × extreme values (search really runs with them)
	ints := []string{"ShardMaxMatchCount", "TotalMaxMatchCount", "ShardRepoMaxMatchCount", "MaxWallTime", "FlushWallTime", "MaxDocDisplayCount", "MaxMatchDisplayCount", "NumContextLines"}
	for _, q := range []string{"abc", "a or b", "f:go"} {
		qb, _ := json.Marshal(q)
		for i, f1 := range ints {
			for _, f2 := range ints[i+1:] {
				for _, v1 := range c07IntValues {
					for _, v2 := range c07IntValues {
						for _, extra := range []string{``, `,"ChunkMatches":true`, `,"Whole":true`} {
							if !thorough && (q != "abc" || extra == `,"Whole":true`) {
								continue
							}
							add('s', `{"Q":`+string(qb)+`,"Opts":{"`+f1+`":`+v1+`,"`+f2+`":`+v2+extra+`}}`)
						}
					}
				}
			}
		}
	}
	return out
}

func (e *c07Env) evalJSON(c c07JSONCase) {
	path := "/api/search"
	if c.kind == 'l' {
		path = "/api/list"
	}
	caseID := c07CaseID(c.kind, []byte(c.body))
	var rec *httptest.ResponseRecorder
	p := c07Protect(func() {
		req := httptest.NewRequest("POST", path, strings.NewReader(c.body))
		rec = httptest.NewRecorder()
		e.api.ServeHTTP(rec, req)
	})
	show := c.body
	if len(show) > 200 {
		show = show[:200] + fmt.Sprintf("…(%d bytes)", len(c.body))
	}
	if p != nil {
		e.addViol("POST "+path, p.where(), "body", caseID, show, func() string {
			return fmt.Sprintf("POST %s with body %q: handler panicked: %s\n%s", path, show, p.val, p.stack())
		})
		return
	}
	e.count("json_status_"+strconv.Itoa(rec.Code), 1)
	if rec.Code == 200 {
		var reply struct {
			Result *struct{ Stats struct{ Crashes int } }
			List   *struct{ Crashes int }
		}
		body := rec.Body.Bytes()
		if err := json.Unmarshal(body, &reply); err != nil {
			e.addViol("POST "+path, "reply", "body", caseID, show, func() string {
				return fmt.Sprintf("POST %s with body %q: status 200 but the reply is not JSON: %v", path, show, err)
			})
			return
		}
		cr := 0
		if reply.Result != nil {
			cr += reply.Result.Stats.Crashes
		}
		if reply.List != nil {
			cr += reply.List.Crashes
		}
		if cr > 0 {
			e.addViol("POST "+path, "a shard (recovered by shardedSearcher)", "body", caseID, show, func() string {
				return fmt.Sprintf("POST %s with body %q: reply reports %d crashed shard(s): a shard search panicked and was recovered", path, show, cr)
			})
		}
	}
}

// ---------------------------------------------------------------- child main

func c07Setup(spec *c07Spec) (*c07Env, func(), error) {
	e := &c07Env{spec: spec, classes: map[string]*c07Class{}, counts: map[string]int{}, skip: map[string]bool{}}
	for _, s := range spec.Skip {
		e.skip[s] = true
	}
	e.deadline = time.UnixMilli(spec.DeadlineMs)
	if spec.SlotFile != "" {
		sl, err := c07OpenSlots(spec.SlotFile, spec.Procs)
		if err != nil {
			return nil, nil, err
		}
		e.slots = sl
	}
	repos := gen.CompoundCorpus()
	dir, clean := gen.Scratch("c07")
	r0, r1 := repos[0], gen.SymbolCorpus()
	d0, err := gen.BuildSimple(r0)
	if err != nil {
		clean()
		return nil, nil, err
	}
	d1, err := gen.BuildSimple(r1)
	if err != nil {
		clean()
		return nil, nil, err
	}
	for i, d := range [][]byte{d0, d1} {
		s, err := index.NewSearcher(&gen.MemFile{Data: d, Nm: fmt.Sprintf("mem%d", i)})
		if err != nil {
			clean()
			return nil, nil, err
		}
		e.shards = append(e.shards, s)
	}
	if _, err := gen.WriteSimple(dir, r0); err != nil {
		clean()
		return nil, nil, err
	}
	if _, err := gen.WriteSimple(dir, r1); err != nil {
		clean()
		return nil, nil, err
	}
	ds, err := search.NewDirectorySearcher(dir)
	if err != nil {
		clean()
		return nil, nil, err
	}
	e.dir = ds
	mux, err := web.NewMux(&web.Server{Searcher: ds, RPC: true, Top: web.Top})
	if err != nil {
		ds.Close()
		clean()
		return nil, nil, err
	}
	e.api = mux
	return e, func() { ds.Close(); clean() }, nil
}

func c07ChildMain(spec *c07Spec) (*c07Out, error) {
	log.SetOutput(io.Discard)
	e, cleanup, err := c07Setup(spec)
	if err != nil {
		return nil, err
	}
	defer cleanup()
	out := &c07Out{Counts: map[string]int{}}
	thorough := spec.Tier == "thorough"

	if len(spec.Cases) > 0 {
		for _, id := range spec.Cases {
			kind, payload, ok := c07ParseCaseID(id)
			if !ok {
				out.Notes = append(out.Notes, "unknown case id "+id)
				continue
			}
			e.slots.set(0, kind, payload)
			e.evals.Add(1)
			if kind == 'q' {
				if q, _, ok := e.parseOne(string(payload)); ok {
					e.evalQuery(string(payload), q)
				}
			} else {
				e.evalJSON(c07JSONCase{kind, string(payload)})
			}
			e.slots.set(0, 0, nil)
		}
		e.finish(out)
		return out, nil
	}

	// phase 1: parse everything, keep the smallest input per distinct String()
	const nShard = 64
	type shardMap struct {
		mu sync.Mutex
		m  map[string]string
	}
	var distinct [nShard]shardMap
	for i := range distinct {
		distinct[i].m = map[string]string{}
	}
	hash := func(s string) int {
		h := uint32(2166136261)
		for i := 0; i < len(s); i++ {
			h = (h ^ uint32(s[i])) * 16777619
		}
		return int(h % nShard)
	}
	for _, seg := range c07Plan(thorough) {
		seg := seg
		var parsed atomic.Int64
		complete := c07ParallelFor(spec.Procs, seg.n, 8192, e.expired, func(w int, lo, hi int64) {
			var buf []byte
			loc := map[string]string{}
			for i := lo; i < hi; i++ {
				buf = seg.input(i, buf)
				e.slots.set(w, 'q', buf)
				in := string(buf)
				if e.skip["q:"+hex.EncodeToString(buf)] {
					continue
				}
				_, key, ok := e.parseOne(in)
				if !ok {
					continue
				}
				parsed.Add(1)
				if old, ok := loc[key]; !ok || c07Less(in, old) {
					loc[key] = in
				}
			}
			e.slots.set(w, 0, nil)
			e.evals.Add(hi - lo)
			for k, v := range loc {
				sm := &distinct[hash(k)]
				sm.mu.Lock()
				if old, ok := sm.m[k]; !ok || c07Less(v, old) {
					sm.m[k] = v
				}
				sm.mu.Unlock()
			}
		})
		out.Counts["inputs_"+seg.name] = int(seg.n)
		out.Counts["parsed_"+seg.name] = int(parsed.Load())
		if !complete {
			out.Incomplete = append(out.Incomplete, fmt.Sprintf("budget used up while parsing segment %s (%d inputs)", seg.name, seg.n))
			break
		}
	}
	var reps []string
	for i := range distinct {
		for _, v := range distinct[i].m {
			reps = append(reps, v)
		}
		distinct[i].m = nil
	}
	sort.Slice(reps, func(i, j int) bool { return c07Less(reps[i], reps[j]) })
	out.Counts["distinct_parsed_queries"] = len(reps)

	// phase 2: every distinct parsed query through every stage
	var nontrivial atomic.Int64
	var done atomic.Int64
	complete := c07ParallelFor(spec.Procs, int64(len(reps)), 64, e.expired, func(w int, lo, hi int64) {
		for i := lo; i < hi; i++ {
			in := reps[i]
			e.slots.set(w, 'q', []byte(in))
			q, _, ok := e.parseOne(in)
			if !ok {
				continue
			}
			if _, isConst := q.(*query.Const); !isConst {
				nontrivial.Add(1)
			}
			e.evalQuery(in, q)
			done.Add(1)
		}
		e.slots.set(w, 0, nil)
	})
	e.evals.Add(done.Load())
	out.Counts["queries_evaluated"] = int(done.Load())
	if !complete {
		out.Incomplete = append(out.Incomplete, fmt.Sprintf("budget used up after evaluating %d of %d distinct parsed queries (shortest first)", done.Load(), len(reps)))
	}
	for i := 0; i < len(reps) && len(e.samples) < 3; i += len(reps)/3 + 1 {
		q, _, ok := e.parseOne(reps[i])
		if ok {
			e.samples = append(e.samples, map[string]any{"input": reps[i], "parsed": q.String()})
		}
	}

	// (b) JSON bodies
	cases := c07JSONCases(thorough)
	var jdone atomic.Int64
	complete = c07ParallelFor(spec.Procs, int64(len(cases)), 16, e.expired, func(w int, lo, hi int64) {
		for i := lo; i < hi; i++ {
			c := cases[i]
			if e.skip[c07CaseID(c.kind, []byte(c.body))] {
				continue
			}
			e.slots.set(w, c.kind, []byte(c.body))
			e.evalJSON(c)
			jdone.Add(1)
		}
		e.slots.set(w, 0, nil)
	})
	e.evals.Add(jdone.Load())
	out.Counts["json_bodies"] = int(jdone.Load())
	if !complete {
		out.Incomplete = append(out.Incomplete, fmt.Sprintf("budget used up after %d of %d JSON bodies", jdone.Load(), len(cases)))
	}
	// other methods
	for _, m := range []string{"GET", "PUT", "DELETE", "HEAD"} {
		for _, p := range []string{"/api/search", "/api/list"} {
			pn := c07Protect(func() {
				rec := httptest.NewRecorder()
				e.api.ServeHTTP(rec, httptest.NewRequest(m, p, strings.NewReader(c07SearchBody)))
			})
			e.evals.Add(1)
			if pn != nil {
				e.addViol(m+" "+p, pn.where(), "method", "", m+" "+p, func() string {
					return fmt.Sprintf("%s %s panicked: %s\n%s", m, p, pn.val, pn.stack())
				})
			}
		}
	}
	if len(cases) > 0 {
		e.samples = append(e.samples, map[string]any{"POST": "/api/search", "body": cases[len(cases)/2].body})
	}
	out.Nontrivial = int(nontrivial.Load()) + e.counts["json_status_200"]
	e.finish(out)
	return out, nil
}

func (e *c07Env) finish(out *c07Out) {
	out.Evals = e.evals.Load()
	for k, v := range e.counts {
		out.Counts[k] = v
	}
	out.Samples = e.samples
	var keys []string
	for k := range e.classes {
		keys = append(keys, k)
	}
	sort.Strings(keys)
	for _, k := range keys {
		c := e.classes[k]
		v := *c.example
		var st []string
		for name, n := range c.stages {
			st = append(st, fmt.Sprintf("%s ×%d", name, n))
		}
		sort.Strings(st)
		v.Detail += fmt.Sprintf("\nfailure class: panic in %s on %s; failing calls of this run by stage: %s; the smallest input is reported", c.where, c.kind, strings.Join(st, ", "))
		out.Viol = append(out.Viol, v)
	}
}

// TestVerifC07Child is the guarded worker; it does nothing unless started by TestVerifC07.
func TestVerifC07Child(t *testing.T) {
	p := os.Getenv(c07EnvSpec)
	if p == "" {
		t.Skip("only runs as a child of TestVerifC07")
	}
	data, err := os.ReadFile(p)
	if err != nil {
		t.Fatal(err)
	}
	var spec c07Spec
	if err := json.Unmarshal(data, &spec); err != nil {
		t.Fatal(err)
	}
	out, err := c07ChildMain(&spec)
	if err != nil {
		t.Fatal(err)
	}
	b, err := json.Marshal(out)
	if err != nil {
		t.Fatal(err)
	}
	if err := os.WriteFile(spec.OutFile+".tmp", b, 0o644); err != nil {
		t.Fatal(err)
	}
	if err := os.Rename(spec.OutFile+".tmp", spec.OutFile); err != nil {
		t.Fatal(err)
	}
}

// ---------------------------------------------------------------- parent

type c07Run struct {
	out      *c07Out
	died     bool
	stalled  bool
	suspects []string // case ids in flight when the child died / stalled
	tail     string
}

// c07RunChild starts one guarded child and watches its in-flight slots.
func c07RunChild(dir string, spec c07Spec, hardLimit time.Duration, stallLimit time.Duration) c07Run {
	n := time.Now().UnixNano()
	spec.SlotFile = fmt.Sprintf("%s/slots-%d", dir, n)
	spec.OutFile = fmt.Sprintf("%s/out-%d.json", dir, n)
	specFile := fmt.Sprintf("%s/spec-%d.json", dir, n)
	b, _ := json.Marshal(spec)
	if err := os.WriteFile(specFile, b, 0o644); err != nil {
		return c07Run{died: true, tail: err.Error()}
	}
	defer os.Remove(specFile)
	defer os.Remove(spec.SlotFile)
	defer os.Remove(spec.OutFile)
	// address-space limit (KiB): generous, but stops a runaway allocation from taking the machine
	sh := `ulimit -v 33554432 2>/dev/null; exec "$0" "$@"`
	cmd := exec.Command("sh", "-c", sh, os.Args[0], "-test.run=^TestVerifC07Child$", "-test.timeout=0")
	// the child's scratch directories live inside the parent's, which is removed even if the child is killed
	cmd.Env = append(os.Environ(), c07EnvSpec+"="+specFile, "VERIF_SCRATCH="+dir)
	var tail c07Tail
	cmd.Stdout = &tail
	cmd.Stderr = &tail
	if err := cmd.Start(); err != nil {
		return c07Run{died: true, tail: err.Error()}
	}
	doneCh := make(chan error, 1)
	go func() { doneCh <- cmd.Wait() }()
	start := time.Now()
	var last []string
	var lastChange []time.Time
	res := c07Run{}
	tick := time.NewTicker(500 * time.Millisecond)
	defer tick.Stop()
loop:
	for {
		select {
		case <-doneCh:
			break loop
		case <-tick.C:
			cur := c07ReadSlots(spec.SlotFile)
			now := time.Now()
			if len(cur) != len(last) {
				last = cur
				lastChange = make([]time.Time, len(cur))
				for i := range lastChange {
					lastChange[i] = now
				}
				continue
			}
			for i := range cur {
				if cur[i] != last[i] {
					last[i] = cur[i]
					lastChange[i] = now
				} else if cur[i] != "" && now.Sub(lastChange[i]) > stallLimit {
					res.stalled = true
				}
			}
			if res.stalled || now.Sub(start) > hardLimit {
				res.stalled = true
				for i := range cur {
					if cur[i] != "" && now.Sub(lastChange[i]) > stallLimit/2 {
						res.suspects = append(res.suspects, cur[i])
					}
				}
				_ = cmd.Process.Kill()
				<-doneCh
				break loop
			}
		}
	}
	res.tail = tail.String()
	data, err := os.ReadFile(spec.OutFile)
	if err == nil {
		var out c07Out
		if json.Unmarshal(data, &out) == nil {
			res.out = &out
			return res
		}
	}
	if !res.stalled {
		res.died = true
		for _, s := range c07ReadSlots(spec.SlotFile) {
			if s != "" {
				res.suspects = append(res.suspects, s)
			}
		}
	}
	return res
}

// c07Tail keeps the first 4 KiB and the last 8 KiB of the child's output (a fatal error is
// announced at the start of a possibly very long goroutine dump).
type c07Tail struct {
	mu   sync.Mutex
	head []byte
	buf  bytes.Buffer
}

func (t *c07Tail) Write(p []byte) (int, error) {
	t.mu.Lock()
	defer t.mu.Unlock()
	if len(t.head) < 4<<10 {
		n := 4<<10 - len(t.head)
		if n > len(p) {
			n = len(p)
		}
		t.head = append(t.head, p[:n]...)
	}
	t.buf.Write(p)
	if t.buf.Len() > 1<<16 {
		b := t.buf.Bytes()
		keep := append([]byte{}, b[len(b)-(8<<10):]...)
		t.buf.Reset()
		t.buf.Write(keep)
	}
	return len(p), nil
}

func (t *c07Tail) String() string {
	t.mu.Lock()
	defer t.mu.Unlock()
	b := t.buf.Bytes()
	if len(b) > 8<<10 {
		b = b[len(b)-(8<<10):]
	}
	return string(t.head) + "\n[...]\n" + string(b)
}

var c07FatalLine = regexp.MustCompile(`(?m)^(fatal error: .*|panic: .*|runtime: .*|signal: .*|SIG[A-Z]+: .*)$`)

func c07DeathSignature(tail string) string {
	if m := c07FatalLine.FindString(tail); m != "" {
		if len(m) > 120 {
			m = m[:120]
		}
		return m
	}
	return "process died"
}

func c07DescribeCase(id string) string {
	kind, payload, ok := c07ParseCaseID(id)
	if !ok {
		return id
	}
	s := string(payload)
	if len(s) > 200 {
		s = s[:200] + "…"
	}
	switch kind {
	case 'q':
		return "input=" + strconv.QuoteToASCII(s)
	case 's':
		return "POST /api/search body=" + strconv.QuoteToASCII(s)
	default:
		return "POST /api/list body=" + strconv.QuoteToASCII(s)
	}
}

func TestVerifC07(t *testing.T) {
	r := mc.NewReport("C07")
	dir, clean := gen.Scratch("c07p")
	defer clean()
	procs := runtime.NumCPU()
	if v, err := strconv.Atoi(os.Getenv("VERIF_PROCS")); err == nil && v > 0 {
		procs = v
	}
	budget := 100.0
	if r.Thorough() {
		budget = 900
	}
	if b, err := strconv.ParseFloat(os.Getenv("VERIF_BUDGET_S"), 64); err == nil && b > 0 {
		budget = b
	}
	start := time.Now()
	// the child stops enumerating at 80% of the budget; the rest is for reporting / re-runs
	deadline := start.Add(time.Duration(budget * 0.8 * float64(time.Second)))
	stall := 30 * time.Second
	spec := c07Spec{Tier: r.Tier, DeadlineMs: deadline.UnixMilli(), Procs: procs}
	if os.Getenv("VERIF_REPLAY_CASE") != "" {
		spec.Cases = []string{os.Getenv("VERIF_REPLAY_CASE")}
		spec.Procs = 1
	}

	var final *c07Out
	var killers []string
	for attempt := 0; attempt < 4; attempt++ {
		spec.Skip = killers
		run := c07RunChild(dir, spec, time.Until(deadline)+90*time.Second, stall)
		if run.out != nil {
			final = run.out
			break
		}
		// the child died or stalled: attribute it to the inputs in flight. They are first run one
		// after the other in a single worker; an input during which that worker dies is then
		// run alone twice more, and reported only if it kills the worker every time.
		confirmed := 0
		remaining := append([]string{}, run.suspects...)
		sort.Strings(remaining)
		for len(remaining) > 0 {
			batch := c07Spec{Tier: r.Tier, DeadlineMs: time.Now().Add(120 * time.Second).UnixMilli(), Procs: 1, Cases: remaining}
			br := c07RunChild(dir, batch, 120*time.Second, stall)
			if br.out != nil {
				break // none of the remaining suspects kills the worker
			}
			at := -1
			for i, id := range remaining {
				for _, s := range br.suspects {
					if s == id && at < 0 {
						at = i
					}
				}
			}
			if at < 0 {
				break
			}
			id := remaining[at]
			remaining = remaining[at+1:]
			deaths := 1
			sig := c07DeathSignature(br.tail)
			if br.stalled {
				sig = fmt.Sprintf("no progress for %s", stall)
			}
			for rep := 0; rep < 2; rep++ {
				single := c07Spec{Tier: r.Tier, DeadlineMs: time.Now().Add(60 * time.Second).UnixMilli(), Procs: 1, Cases: []string{id}}
				sr := c07RunChild(dir, single, 60*time.Second, stall)
				if sr.out == nil {
					deaths++
				}
			}
			if deaths == 3 {
				confirmed++
				killers = append(killers, id)
				r.Violation(fmt.Sprintf("C07 process killed (%s): %s", sig, c07DescribeCase(id)),
					fmt.Sprintf("the worker process died/stalled 3 times out of 3 when running this case: %s\n%s", c07DescribeCase(id), sig),
					map[string]any{"case": id})
			}
		}
		if confirmed == 0 {
			what := "died"
			if run.stalled {
				what = "stalled"
			}
			r.Violation("TOOL: C07 worker "+what+" and no single input in flight reproduces it",
				fmt.Sprintf("suspects=%v\noutput tail:\n%s", run.suspects, run.tail), nil)
			break
		}
		if r.Expired() {
			r.Incomplete("budget used up while restarting the worker after a killed run")
			break
		}
	}
	if final == nil {
		r.Incomplete("no complete worker run")
		r.Finish("see DESIGN.md C07")
		return
	}
	r.Eval(int(final.Evals))
	for k, v := range final.Counts {
		r.Set(k, v)
	}
	for i := 0; i < final.Nontrivial; i++ {
		r.Nontrivial(strconv.Itoa(i))
	}
	for _, s := range final.Samples {
		r.Sample(s)
	}
	for _, n := range final.Incomplete {
		r.Incomplete("%s", n)
	}
	for _, n := range final.Notes {
		r.Note("%s", n)
	}
	for _, v := range final.Viol {
		r.Violation(v.Key, v.Detail, map[string]any{"case": v.Case})
	}
	full, core, tiny := c07Tokens()
	r.Set("alphabet_bytes", len(c07Sigma))
	r.Set("tokens_full", len(full))
	r.Set("tokens_core", len(core))
	r.Set("tokens_tiny", len(tiny))
	r.Assume("index-level searchers are index.NewSearcher over two in-memory simple shards (8 and 6 documents); the directory level is search.NewDirectorySearcher over the same two shards; the JSON API is web.NewMux(RPC) over that directory searcher")
	r.Assume("a panic recovered by the sharded searcher and reported as Stats.Crashes / RepoList.Crashes counts as a panic")
	r.Assume("only the smallest input is reported per failure class (panicking function, kind of the smallest panicking sub-query); the stages that fail are listed in the detail")
	r.Finish("cases = every byte string over the 15-symbol alphabet up to length L (5 quick / 6 thorough) + every sequence of <= 2 (3 thorough) tokens of the full token set, of 3 (4 thorough) tokens of the core set and of 4 (5 thorough) tokens of the tiny set, with every {glued, spaced} separator choice, plus (thorough) space-separated sequences of 5 core tokens, plus space-separated sequences of 5-6 (7) tokens over the 8-token nano set {(, ), a, -, or, type:repo, type:filename, case:yes}, each parsed; each distinct parsed query (by String()) run through String, QToProto, index Search ×2 option sets, index List, directory Search, directory List; + every JSON body of the truncation/deletion/wrong-value grammar through POST /api/search and /api/list. non-trivial = distinct parsed query that is not a constant, or JSON body answered with status 200 (the search or list really ran)")
}
