//go:build verif

package query_test

import (
	"fmt"
	"regexp"
	"regexp/syntax"
	"sort"
	"strings"
	"sync"
	"sync/atomic"
	"testing"
	"unicode/utf8"

	re2 "github.com/wasilibs/go-re2"

	"github.com/sourcegraph/zoekt/internal/syntaxutil"
	"github.com/sourcegraph/zoekt/internal/verifshim/gen"
	"github.com/sourcegraph/zoekt/internal/verifshim/mc"
	"github.com/sourcegraph/zoekt/query"
)

// C27: regexp printing (internal/syntaxutil.RegexpString) and the query-layer optimiser
// (query.OptimizeRegexp = capture removal + Simplify) preserve the matched language.
//
// Enumerated space: every expression of the grammar c27Patterns (gen.RegexpPatterns plus an
// extension grammar for flags, classes, escapes, repeats, anchors, captures, non-printable and
// non-ASCII runes) x every subject string over a small alphabet up to length L.
//
// Semantics of a syntax tree = the program syntax.Compile(tree.Simplify()) run by c27Exec, a
// leftmost-first backtracking executor with the FindAll iteration rule of package regexp.
// (A tree cannot be handed to package regexp directly, and going through text would put the
// printer/parser under test into the reference.) The executor is validated on every enumerated
// (expression, subject) pair against regexp.MustCompile(expression).FindAllStringIndex.
//
// Oracle, for every expression p parsed with the query layer's flags into tree t and every
// subject s, the FindAll spans of t equal those of
//   print-perl     : Parse(RegexpString(t), syntax.Perl)   (how index/matchtree.go consumes the printout)
//   print-parse    : Parse(RegexpString(t), query flags)   (how query/regexp.go consumes the printout)
//   optimize       : o = OptimizeRegexp(t, query flags)
// and the spans of the optimised tree o equal those of
//   print-optimized: Parse(RegexpString(o), syntax.Perl)   (what a search really compiles)
// Each variant must parse and compile, and OptimizeRegexp must not modify its argument.
//
// Violation keys carry the failing expression and a cause tag: when the text that zoekt hands
// to syntax.Parse in the failing step still has the right spans under RE2 (independent parser)
// the discrepancy is attributed to the re-parse ("go-regexp/syntax-reparse"), otherwise to
// zoekt's printer/optimiser ("zoekt"). Only the 40 shortest failing expressions are reported
// (deterministic), the total is in the coverage key discrepancies_total.

// c27Extra is the extension of G-re: atoms that target every branch of writeRegexp/escape and
// of convertCapture/uncapture.
func c27ExtraAtoms() []string {
	return []string{
		// anchors and boundaries in every spelling
		`\A`, `\z`, `\B`, `(?m:^)`, `(?m:$)`, `(?-m:^)`, `(?-m:$)`,
		// classes: negation, '-' and ']' in every position, ranges touching 0 and MaxRune, empty and full classes
		`[^ab]`, `[^\n]`, `[-a]`, `[a-]`, `[\]a]`, `[]a]`, `[^-]`, `[^]]`, `[+--]`, `[--a]`, `[\x00-a]`, `[b-\x{10FFFF}]`,
		`[\x00-\x{10FFFF}]`, `[^\x00-\x{10FFFF}]`, `[^\x00-\x{10FFFE}]`, `[^\x01-\x{10FFFF}]`, `[\x00\x{10FFFF}]`, `[\x00-ac-\x{10FFFF}]`,
		`[a-cA]`, `[^a-cA\n]`, `[é-ë]`, `[^é]`, `[\^a]`, `[a^]`, `[\\a]`, `[.]`, `[$a]`, `[[a]`,
		`[[:alpha:]]`, `[[:^alpha:]]`, `[[:punct:]]`, `\d`, `\D`, `\s`, `\S`, `\w`, `\W`, `\pL`, `\PL`, `\p{Lu}`, `\pN`, `[\pL-]`, `[^\pL\n]`,
		// escapes: every control escape of escape(), \x.., \x{...}, meta characters, \Q..\E
		`\x01`, `\x7f`, `\x{80}`, `\x{ff}`, `\x{100}`, `\x{10FFFF}`, `\x{ad}`, `\x{2028}`, `\a`, `\f`, `\t`, `\r`, `\v`, `\n`, `\x00`,
		`\.`, `\\`, `\+`, `\*`, `\?`, `\(`, `\)`, `\|`, `\[`, `\]`, `\{`, `\}`, `\^`, `\$`, `\-`, `-`, `]`, `}`, `{`, `,`, `:`, `=`, `<`, `#`, ` `, `\Q.*\E`, `\Qa-b\E`, `\Q]\E`, `a\-b`, `{1}`, `a{,2}`, `a{1`,
		// literals, folding
		// cased runes that are not letters (Nl, So, Mn) or have three/four-member fold orbits
		`Ⅳ`, `(?i)Ⅳ`, `(?i:ⅳ)`, `(?i:Ⓐ)`, `(?i:ⓐ=)`, `(?i:=Ⓐ)`, `(?i:\x{345})`, `(?i:ǅ)`, `(?i:µ)`, `(?i:ς)`, `(?i:1)`, `(?i:Ⅳa)`,
		`A`, `É`, `(?i)a`, `(?i)A`, `(?i:é)`, `(?i:k)`, `(?i:s)`, `(?i:ab)`, `(?i:-)`, `(?i:a-b)`, `(?i)[a-c]`, `(?i)[^a]`, `(?i:a)b`, `a(?i:b)`, `(?i:a(?-i:b))`, `(?i)a(?-i)b`,
		// dots and flags
		`.`, `(?s).`, `(?s:.)`, `(?-s:.)`, `(?s:.)*`, `(?m)^`, `(?m)$`, `(?U)a+`, `(?U)a+?`, `(?U:a*)b`, `(?sm).$`, `(?i)(?s).`, `(?is:a.)`,
		// repeats
		`a*`, `a+`, `a?`, `a*?`, `a+?`, `a??`, `a{0}`, `a{0,0}`, `a{0,1}`, `a{1}`, `a{1,1}`, `a{2}`, `a{3}`, `a{2,3}`, `a{0,2}`, `a{2,}`, `a{0,}`, `a{1,}`, `a{2}?`, `a{1,2}?`, `a{2,}?`,
		`(?:ab)*`, `(?:ab){2}`, `ab*`, `ab{2}`, `(?:a|b)*`, `(?:a*)*`, `(?:a*)+`, `(?:a+)?`, `(?:a?){2}`, `(?:a{2}){2}`, `a**`, `a+*`, `(?:)`, `(?:)*`, `(?:)+`, `(?:|a)`, `(?:a|)`, `a||b`, `|`, `(?:|)*`,
		`\b*`, `\b+`, `^*`, `$+`, `(?:^)*a`, `(?:\b)?a`,
		// captures (convertCapture/uncapture): empty, named, nested, repeated, alternated, flagged
		`()`, `(a)`, `(?P<n>a)`, `(?P<n>)`, `((a))`, `((a)|b)`, `(a)|(b)`, `(a|b)`, `(a|ab)`, `(ab|a)`, `(a)(b)`, `(a)*`, `(a*)`, `(a*)*`, `(a)+?`, `(a|b)*c`, `(a){2}`, `(a{2})`, `(ab){1,2}`,
		`(?i:(a))`, `((?i)a)b`, `(?i)(a)b`, `(a(?i)b)c`, `(?s:(.))`, `(?U:(a+))`, `(a)|`, `(|a)`, `(^)`, `($)`, `(\b)`, `(^a|b$)`, `(a)\b(b)`, `(?:(a)|b)+`, `((a)|(b))+`, `(a|b|c)`, `(ab|ac)`, `(ab|ac|bc)`, `(a|ab|abc)`, `(é)`, `(\x01)`, `(-)`, `([a-])`, `([^a])`, `(.)`, `(.*)`, `(\pL)`, `(a)?`, `(a?)`, `(a)??`,
		// alternations whose branches start with the same rune under different case sensitivity
		`A.`, `Ab`, `A\b`, `Aa*`, `(A)b`, `(A.)`, `A{2}b`, `[aA]b`, `(?i:a)b`, `(?i:a).`, `(?i:ab)`, `A|(?i:a)`, `(?i:a)|A`,
		// alternation factoring and concatenation shapes
		`a|b`, `a|ab`, `ab|a`, `ab|ac`, `abc|abd`, `a|b|c`, `a|a`, `ab|ab`, `a|.`, `.|a`, `a|[ab]`, `[ab]|a`, `a|\n`, `^a|b$`, `a$|^b`, `(?:a|b)c`, `a(?:b|c)`, `(?:a|b)(?:a|b)`, `a(?:|b)`, `(?:a|)b`,
		`a.b`, `a.*b`, `a.+b`, `a(?s:.*)b`, `a\nb`, `a-b`, `aé`, `éa`, `a\x01`, `\ba`, `a\b`, `\Ba`, `a\B`, `^a`, `a$`, `^a$`, `\Aa`, `a\z`, `\Aa\z`, `^$`, `\A\z`, `\b\b`, `^^`, `$$`, `$^`, `\n^`, `$\n`,
	}
}

// c27Patterns builds the enumerated expression family: gen.RegexpPatterns(d) ∪ the extension
// atoms ∪ compositions of the extension atoms (unary operators on every atom, binary operators
// against a pivot set). quick: G-re(2) (71k expressions) and one composition level; thorough adds a
// second composition level over a deterministic stride (2500 expressions) of the first.
func c27Patterns(thorough bool) []string {
	seen := map[string]bool{}
	var out []string
	add := func(s string) bool {
		if seen[s] {
			return false
		}
		if _, err := syntax.Parse(s, gen.ReFlags); err != nil {
			return false
		}
		seen[s] = true
		out = append(out, s)
		return true
	}
	depth, keep := 1, 0
	if thorough {
		depth, keep = 2, 2500
	}
	for _, s := range gen.RegexpPatterns(2) {
		add(s)
	}
	var level []string
	for _, a := range c27ExtraAtoms() {
		if add(a) {
			level = append(level, a)
		}
	}
	pivots := []string{"a", "b", "é", "-", `\n`, ".", "^", "$", `\b`, "[ab]", "(a)", "(?i:a)", "a*", "ab"}
	unary := func(x string) []string {
		g := "(?:" + x + ")"
		return []string{
			g + "*", g + "+", g + "?", g + "*?", g + "+?", g + "??", g + "{2}", g + "{0,1}", g + "{1,2}", g + "{2,}", g + "{0}", g + "{1,2}?",
			"(" + x + ")", "(?P<n>" + x + ")", "(?i:" + x + ")", "(?s:" + x + ")", "(?U:" + x + ")", "(?m:" + x + ")", "(?-m:" + x + ")", "(?i)" + x,
			x + "*", x + "+", x + "?", x + "{2}", // unparenthesised: the operator binds to the last piece only
		}
	}
	for d := 1; d <= depth; d++ {
		var next []string
		for _, x := range level {
			next = append(next, unary(x)...)
		}
		for _, x := range level {
			for _, y := range pivots {
				next = append(next, x+y, y+x, x+"|"+y, y+"|"+x, "(?:"+x+")(?:"+y+")", "(?:"+x+")|(?:"+y+")", "("+x+")|("+y+")", "("+x+"|"+y+")", "("+x+")("+y+")")
			}
		}
		level = level[:0]
		for _, s := range next {
			if add(s) {
				level = append(level, s)
			}
		}
		if keep > 0 && len(level) > keep {
			var thin []string
			for i := 0; i < keep; i++ {
				thin = append(thin, level[i*len(level)/keep])
			}
			level = thin
		}
	}
	// hand-picked, not composed further
	for _, s := range []string{"A.|(?i:a)", "(?i:a)|A.", "(A.)|((?i:a))", "Ab|(?i:ab)", "(?i:a)b|Ac", "é.|(?i:É)", "(É.)|(?i:(é))", "(Ab|(?i:a)b)", "(A+|(?i:a))", "(A{2}b|(?i:a){2})", `(A\b|(?i:a)|a)`, `(A\b|[Aa])`, `(Ab|[Aa]c)`} {
		add(s)
	}
	return out
}

// ---- semantics of a tree: compiled program + backtracking executor ----

type c27Subject struct {
	s     string
	runes []rune
	offs  []int // offs[i] = byte offset of rune i, offs[len(runes)] = len(s)
}

func c27MakeSubject(s string) *c27Subject {
	sub := &c27Subject{s: s}
	for i, r := range s {
		sub.runes = append(sub.runes, r)
		sub.offs = append(sub.offs, i)
	}
	sub.offs = append(sub.offs, len(s))
	return sub
}

type c27Exec struct {
	prog    *syntax.Prog
	text    string // canonical program text: equal text = same behaviour
	visited []bool
	sub     *c27Subject
}

func c27Compile(tree *syntax.Regexp) (x *c27Exec, err error) {
	defer func() {
		if p := recover(); p != nil {
			err = fmt.Errorf("panic: %v", p)
		}
	}()
	prog, err := syntax.Compile(tree.Simplify())
	if err != nil {
		return nil, err
	}
	return &c27Exec{prog: prog, text: prog.String()}, nil
}

// try runs the program from (pc, pos) depth first in priority order; returns the end position
// (rune index) of the first match found or -1. visited makes it linear and cuts empty loops
// exactly like regexp's backtracker.
func (x *c27Exec) try(pc, pos int) int {
	n := len(x.sub.runes)
	for {
		idx := pc*(n+1) + pos
		if x.visited[idx] {
			return -1
		}
		x.visited[idx] = true
		in := &x.prog.Inst[pc]
		switch in.Op {
		case syntax.InstFail:
			return -1
		case syntax.InstMatch:
			return pos
		case syntax.InstAlt, syntax.InstAltMatch:
			if e := x.try(int(in.Out), pos); e >= 0 {
				return e
			}
			pc = int(in.Arg)
		case syntax.InstNop, syntax.InstCapture:
			pc = int(in.Out)
		case syntax.InstEmptyWidth:
			r1, r2 := rune(-1), rune(-1)
			if pos > 0 {
				r1 = x.sub.runes[pos-1]
			}
			if pos < n {
				r2 = x.sub.runes[pos]
			}
			if syntax.EmptyOp(in.Arg)&^syntax.EmptyOpContext(r1, r2) != 0 {
				return -1
			}
			pc = int(in.Out)
		case syntax.InstRune, syntax.InstRune1, syntax.InstRuneAny, syntax.InstRuneAnyNotNL:
			if pos >= n || !in.MatchRune(x.sub.runes[pos]) {
				return -1
			}
			pc = int(in.Out)
			pos++
		default:
			panic("c27: unknown instruction")
		}
	}
}

// findAll mirrors (*regexp.Regexp).allMatches: leftmost-first match from pos, empty matches
// adjacent to the previous match are dropped, an empty match advances by one rune.
func (x *c27Exec) findAll(sub *c27Subject, buf []int) []int {
	x.sub = sub
	n := len(sub.runes)
	need := len(x.prog.Inst) * (n + 1)
	if cap(x.visited) < need {
		x.visited = make([]bool, need)
	}
	x.visited = x.visited[:need]
	buf = buf[:0]
	prevEnd := -1
	for pos := 0; pos <= n; {
		for i := range x.visited {
			x.visited[i] = false
		}
		s, e := -1, -1
		for st := pos; st <= n; st++ {
			if e = x.try(x.prog.Start, st); e >= 0 {
				s = st
				break
			}
		}
		if s < 0 {
			break
		}
		accept := true
		if e == pos {
			if s == prevEnd {
				accept = false
			}
			pos++
		} else {
			pos = e
		}
		prevEnd = e
		if accept {
			buf = append(buf, sub.offs[s], sub.offs[e])
		}
	}
	return buf
}

func c27Same(a, b []int) bool {
	if len(a) != len(b) {
		return false
	}
	for i := range a {
		if a[i] != b[i] {
			return false
		}
	}
	return true
}

func c27Show(v []int) string {
	if len(v) == 0 {
		return "(no match)"
	}
	var sb strings.Builder
	for i := 0; i < len(v); i += 2 {
		fmt.Fprintf(&sb, "[%d,%d]", v[i], v[i+1])
	}
	return sb.String()
}

// c27Variant is one derived tree that must have the language of base.
type c27Variant struct {
	name  string
	base  *c27Exec // what it is compared with
	exec  *c27Exec // nil if err != ""
	shown string   // human readable derivation
	err   string   // derivation failed (parse error, panic)
	// last print step of the derivation, for attributing a discrepancy: the tree that was
	// printed (as executor) and the printout that was handed to syntax.Parse.
	printed func() (x *c27Exec, printout string, ok bool)
	// an earlier print -> parse step of the derivation (OptimizeRegexp has two): the tree that was
	// printed, the printout, and the tree syntax.Parse made of it
	earlier func() (x *c27Exec, printout string, parsed *c27Exec, ok bool)
}

// c27UncaptureZ is query.uncapture (captures become one-element concatenations, in place).
func c27UncaptureZ(r *syntax.Regexp) *syntax.Regexp {
	if r.Op == syntax.OpCapture {
		r.Op = syntax.OpConcat
		r.Cap = 0
		r.Name = ""
	}
	for i, s := range r.Sub {
		r.Sub[i] = c27UncaptureZ(s)
	}
	return r
}

func c27HasCapture(r *syntax.Regexp) bool {
	if r.Op == syntax.OpCapture {
		return true
	}
	for _, s := range r.Sub {
		if c27HasCapture(s) {
			return true
		}
	}
	return false
}

// c27RE2Spans evaluates a pattern text with RE2 (independent parser and engine).
func c27RE2Spans(pattern, s string) (flat []int, err error) {
	defer func() {
		if p := recover(); p != nil {
			err = fmt.Errorf("panic: %v", p)
		}
	}()
	re, err := re2.Compile(pattern)
	if err != nil {
		return nil, err
	}
	for _, m := range re.FindAllStringIndex(s, -1) {
		flat = append(flat, m[0], m[1])
	}
	return flat, nil
}

func c27Protect(f func() (*syntax.Regexp, string, error)) (tree *syntax.Regexp, shown string, err error) {
	defer func() {
		if p := recover(); p != nil {
			err = fmt.Errorf("panic: %v", p)
		}
	}()
	return f()
}

type c27Finding struct {
	pattern, key, detail string
}

func c27Subjects(thorough bool) (sigma []string, maxLen int, all []*c27Subject, nfixed int) {
	sigma = []string{"a", "b", "c", "A", "\n", "é", "-", "\x01"}
	maxLen = 3
	if thorough {
		maxLen = 4
	}
	strs := gen.AllStrings(sigma, maxLen)
	// fixed probes so that atoms outside the alphabet are not vacuous
	fixed := []string{"]", "É", "k", "K", "K", "s", "ſ", ".", "\\", "\x00", "\x7f", "\u0080", "­", "ÿ", "Ā", " ", "\U0010FFFF", " ", "a-b", ".*", "aa]", "^a", "a$",
		"{1}", "a{,2}", "a{1", "\t", "\r", "\v", "\f", "\a", "+", "*", "?", "(", ")", "|", "[", "{", "}", "^", "$", ",", ":", "=", "<", "#", "ë", "ê", "1", "_", "aaaa", "abab", "abcabd", "a b", "A-É", "éé\né", "aaaaa", "a\na\na",
		"Ⅳ", "ⅳ", "Ⓐ", "ⓐ", "ⓐ=", "=Ⓐ", "Ⓐ=", "\u0345", "ι", "Ι", "\u1fbe", "ǅ", "Ǆ", "ǆ", "µ", "μ", "Μ", "ς", "σ", "Σ", "ⅳa", "ⅣA", "Ⅳa"}
	seen := map[string]bool{}
	for _, s := range strs {
		seen[s] = true
	}
	for _, s := range fixed {
		if !seen[s] {
			seen[s] = true
			strs = append(strs, s)
			nfixed++
		}
	}
	for _, s := range strs {
		if !utf8.ValidString(s) {
			panic("c27: subjects must be valid UTF-8")
		}
		all = append(all, c27MakeSubject(s))
	}
	return
}

func TestVerifC27(t *testing.T) {
	r := mc.NewReport("C27")
	patterns := c27Patterns(r.Thorough())
	sigma, maxLen, subjects, nfixed := c27Subjects(r.Thorough())
	r.Set("patterns", len(patterns))
	r.Set("subjects", len(subjects))
	r.Set("bound", fmt.Sprintf("expressions: c27Patterns(thorough=%v); subjects: all strings over %q up to length %d plus %d fixed probes", r.Thorough(), sigma, maxLen, nfixed))

	var comparisons, sameProg, validated atomic.Int64
	var cut atomic.Bool
	var mu sync.Mutex
	var findings []c27Finding
	tags := map[string]int{}
	samples := 0
	report := func(p, key, tag, detail string) {
		mu.Lock()
		findings = append(findings, c27Finding{p, key, detail})
		tags[tag]++
		mu.Unlock()
	}

	mc.ParallelFor(len(patterns), func(i int) {
		p := patterns[i]
		caseID := fmt.Sprintf("re:%q", p)
		if !r.Want(caseID) {
			return
		}
		if r.Expired() {
			cut.Store(true)
			return
		}
		T, err := syntax.Parse(p, gen.ReFlags)
		if err != nil {
			report(p, "TOOL: "+caseID, "tool", fmt.Sprintf("pattern %q does not parse: %v", p, err))
			return
		}
		before := T.String()
		ref, err := c27Compile(T)
		if err != nil {
			report(p, "TOOL: "+caseID, "tool", fmt.Sprintf("pattern %q does not compile: %v", p, err))
			return
		}
		r.Eval(1)

		// executor self-validation against package regexp (expression parsed with syntax.Perl there)
		var std *regexp.Regexp
		var stdExec *c27Exec
		if tp, err := syntax.Parse(p, syntax.Perl); err == nil {
			if std, err = regexp.Compile(p); err == nil {
				stdExec, _ = c27Compile(tp)
			}
		}

		var vars []*c27Variant
		derive := func(name string, base *c27Exec, f func() (*syntax.Regexp, string, error), printed func() (*c27Exec, string, bool)) *c27Variant {
			v := &c27Variant{name: name, base: base, printed: printed}
			tree, shown, err := c27Protect(f)
			v.shown = shown
			if err == nil {
				v.exec, err = c27Compile(tree)
			}
			if err != nil {
				v.err = err.Error()
			}
			vars = append(vars, v)
			return v
		}
		printParse := func(name string, base *c27Exec, X *syntax.Regexp, flags syntax.Flags) *c27Variant {
			return derive(name, base, func() (*syntax.Regexp, string, error) {
				out := syntaxutil.RegexpString(X)
				t2, err := syntax.Parse(out, flags)
				if err != nil {
					return nil, fmt.Sprintf("RegexpString = %q", out), fmt.Errorf("printout %q does not parse: %v", out, err)
				}
				return t2, fmt.Sprintf("RegexpString = %q, parsed back as %q", out, t2.String()), nil
			}, func() (*c27Exec, string, bool) { return base, syntaxutil.RegexpString(X), true })
		}
		printParse("print-perl", ref, T, syntax.Perl)
		printParse("print-parse", ref, T, gen.ReFlags)
		var O *syntax.Regexp
		opt := derive("optimize", ref, func() (*syntax.Regexp, string, error) {
			O = query.OptimizeRegexp(T, gen.ReFlags)
			return O, fmt.Sprintf("OptimizeRegexp = %q", O.String()), nil
		}, func() (*c27Exec, string, bool) {
			// replay convertCapture step by step to find the text of its second Parse
			if !c27HasCapture(T) {
				return nil, "", false
			}
			r1, err := syntax.Parse(syntaxutil.RegexpString(T), gen.ReFlags)
			if err != nil {
				return nil, "", false
			}
			u := c27UncaptureZ(r1)
			p2 := syntaxutil.RegexpString(u)
			r2, err := syntax.Parse(p2, gen.ReFlags)
			if err != nil || r2.Simplify().String() != O.String() {
				return nil, "", false
			}
			ux, err := c27Compile(u)
			if err != nil {
				return nil, "", false
			}
			return ux, p2, true
		})
		opt.earlier = func() (*c27Exec, string, *c27Exec, bool) {
			// the first Parse of convertCapture: the printout of the unmodified tree
			if !c27HasCapture(T) {
				return nil, "", nil, false
			}
			p1 := syntaxutil.RegexpString(T)
			r1, err := syntax.Parse(p1, gen.ReFlags)
			if err != nil {
				return nil, "", nil, false
			}
			x1, err := c27Compile(r1)
			if err != nil {
				return nil, "", nil, false
			}
			return ref, p1, x1, true
		}
		if after := T.String(); after != before {
			report(p, fmt.Sprintf("optimize modifies its input: pattern=%q", p), "zoekt", fmt.Sprintf("pattern %q: tree printed %q before and %q after OptimizeRegexp", p, before, after))
		}
		if opt.exec != nil {
			printParse("print-optimized", opt.exec, O, syntax.Perl)
		}

		var live []*c27Variant
		for _, v := range vars {
			if v.err != "" {
				report(p, fmt.Sprintf("%s fails [zoekt]: pattern=%q", v.name, p), "zoekt", fmt.Sprintf("pattern %q (stdlib print %q): %s: %s\n%s", p, before, v.name, v.err, v.shown))
				continue
			}
			if v.exec.text == v.base.text {
				sameProg.Add(1)
				continue // identical program
			}
			live = append(live, v)
		}
		matched, unmatched := 0, 0
		done := map[string]bool{}
		var want, got, tmp, flat []int
		nvalid := 0
		bases := map[*c27Exec][]int{}
		for _, sub := range subjects {
			want = ref.findAll(sub, want)
			if len(want) == 0 {
				unmatched++
			} else {
				matched++
			}
			if std != nil && stdExec != nil {
				nvalid++
				tmp = stdExec.findAll(sub, tmp)
				flat = flat[:0]
				for _, m := range std.FindAllStringIndex(sub.s, -1) {
					flat = append(flat, m[0], m[1])
				}
				if !c27Same(tmp, flat) && !done["tool"] {
					done["tool"] = true
					report(p, "TOOL: executor disagrees with package regexp: "+caseID, "tool", fmt.Sprintf("pattern %q subject %q: regexp %s, c27Exec %s", p, sub.s, c27Show(flat), c27Show(tmp)))
				}
			}
			if len(live) == 0 {
				continue
			}
			bases[ref] = want
			for _, v := range live {
				if done[v.name] {
					continue
				}
				exp, ok := bases[v.base]
				if !ok || v.base != ref {
					tmp = v.base.findAll(sub, tmp)
					exp = tmp
				}
				got = v.exec.findAll(sub, got)
				if c27Same(got, exp) {
					continue
				}
				done[v.name] = true
				kind := "spans"
				if (len(got) == 0) != (len(exp) == 0) {
					kind = "language"
				}
				tag, why := "zoekt", ""
				if v.printed != nil {
					if px, printout, ok := v.printed(); ok {
						xs := px.findAll(sub, nil)
						rs, err := c27RE2Spans(printout, sub.s)
						if err == nil && c27Same(xs, exp) && c27Same(rs, xs) {
							tag = "go-regexp/syntax-reparse"
							why = fmt.Sprintf("\nattribution: the text handed to syntax.Parse in the last step is %q; the tree it was printed from has spans %s and RE2 (independent parser) gives %s for that text, but syntax.Parse of that text yields a tree with spans %s: the printout is faithful, its re-parse by regexp/syntax is not", printout, c27Show(xs), c27Show(rs), c27Show(got))
						}
					}
				}
				if tag == "zoekt" && v.earlier != nil {
					if px, printout, parsed, ok := v.earlier(); ok {
						xs := px.findAll(sub, nil)
						ps := parsed.findAll(sub, nil)
						rs, err := c27RE2Spans(printout, sub.s)
						if err == nil && c27Same(xs, exp) && c27Same(rs, xs) && !c27Same(ps, xs) {
							tag = "go-regexp/syntax-reparse"
							why = fmt.Sprintf("\nattribution: the text handed to syntax.Parse in the FIRST step of OptimizeRegexp is %q; the tree it was printed from has spans %s and RE2 (independent parser) gives %s for that text, but syntax.Parse of that text yields a tree with spans %s: the printout is faithful, its re-parse by regexp/syntax is not", printout, c27Show(xs), c27Show(rs), c27Show(ps))
						}
					}
				}
				baseName := "parsed tree"
				if v.base != ref {
					baseName = "optimised tree"
				}
				report(p, fmt.Sprintf("%s changes %s [%s]: pattern=%q", v.name, kind, tag, p), v.name+" "+tag,
					fmt.Sprintf("pattern %q parsed with the query flags (stdlib print %q)\n%s: %s\nsubject %q: %s spans %s, %s spans %s (%s)%s",
						p, before, v.name, v.shown, sub.s, baseName, c27Show(exp), v.name, c27Show(got),
						map[string]string{"language": "one matches, the other does not", "spans": "both match, different spans"}[kind], why))
			}
		}
		comparisons.Add(int64(len(live) * len(subjects)))
		validated.Add(int64(nvalid))
		if len(live) > 0 && matched > 0 && unmatched > 0 {
			r.Nontrivial(p)
			mu.Lock()
			if samples < 6 && i%211 == 7 {
				samples++
				d := map[string]string{}
				for _, v := range live {
					d[v.name] = v.shown
				}
				r.Sample(map[string]any{"pattern": p, "tree": before, "variants_with_different_program": d, "subjects_matched": matched, "subjects_unmatched": unmatched})
			}
			mu.Unlock()
		}
	})
	if cut.Load() {
		r.Incomplete("budget expired after %d of %d expressions", r.Evals(), len(patterns))
	}
	// deterministic selection of what is reported: shortest expressions first
	sort.Slice(findings, func(i, j int) bool {
		a, b := findings[i], findings[j]
		if len(a.pattern) != len(b.pattern) {
			return len(a.pattern) < len(b.pattern)
		}
		if a.pattern != b.pattern {
			return a.pattern < b.pattern
		}
		return a.key < b.key
	})
	for i, f := range findings {
		if i >= 40 {
			break
		}
		r.Violation(f.key, f.detail, map[string]any{"case": fmt.Sprintf("re:%q", f.pattern), "pattern": f.pattern})
	}
	r.Set("discrepancies_total", len(findings))
	var tl []string
	for k, n := range tags {
		tl = append(tl, fmt.Sprintf("%s:%d", k, n))
	}
	sort.Strings(tl)
	r.Set("discrepancies_by_variant_and_cause", strings.Join(tl, " "))
	r.Set("span_comparisons", comparisons.Load())
	r.Set("executor_validations_against_regexp", validated.Load())
	r.Set("variants_with_identical_program_skipped", sameProg.Load())
	ops := map[string]int{}
	for _, p := range patterns {
		if tr, err := syntax.Parse(p, gen.ReFlags); err == nil {
			c27Ops(tr, ops)
		}
	}
	var opl []string
	for k, n := range ops {
		opl = append(opl, fmt.Sprintf("%s:%d", k, n))
	}
	sort.Strings(opl)
	r.Set("ops_in_parsed_trees", strings.Join(opl, " "))
	r.Assume("regexp/syntax Parse, Simplify and Compile are trusted: the language of a tree is the behaviour of syntax.Compile(tree.Simplify()) under leftmost-first execution")
	r.Assume("c27Exec (backtracking executor + FindAll iteration) is validated in the same run against regexp.FindAllStringIndex on every enumerated (expression, subject)")
	r.Assume("expressions parsed with ClassNL|PerlX|UnicodeGroups (query/parse.go regexpFlags); subjects are valid UTF-8")
	r.Finish("case = one expression of c27Patterns (G-re plus extension grammar over flags/classes/escapes/repeats/captures/anchors), checked on every subject string over the alphabet up to the length bound; variants: printout re-parsed with Perl flags and with the query flags, OptimizeRegexp, printout of the optimised tree re-parsed (compared with the optimised tree); FindAll spans must be equal; non-trivial = at least one variant compiles to a program different from its base and the expression matches some but not all subjects")
}

func c27Ops(re *syntax.Regexp, m map[string]int) {
	m[re.Op.String()]++
	for _, s := range re.Sub {
		c27Ops(s, m)
	}
}
