//go:build verif

package search_test

import (
	"context"
	"fmt"
	"io"
	"log"
	"os"
	"path/filepath"
	"sort"
	"strconv"
	"strings"
	"sync"
	"sync/atomic"
	"testing"
	"time"

	"github.com/sourcegraph/zoekt"
	"github.com/sourcegraph/zoekt/index"
	"github.com/sourcegraph/zoekt/internal/verifshim/mc"
	"github.com/sourcegraph/zoekt/query"
	"github.com/sourcegraph/zoekt/search"
)

// C10: what a search finds does not depend on how the index was built.
//
// One corpus (repository alpha/one with 6 documents, beta/two with 2) is indexed with the real
// index.Builder under every combination of insertion order (all 720 permutations of alpha's
// documents; quick: 24 of them), ShardMax (1 byte = one shard per document, 40 and 100 bytes =
// order-dependent groups, 1 MiB = one shard), Parallelism (1, 2, 4, 16) and, for the one-shard
// builds, additionally merged into a compound shard with the real index.Merge. Every index is
// loaded with the real search.NewDirectorySearcher and asked a fixed list of queries in chunk and
// in line mode; the multiset of (repository, file, branches, content, match ranges) must equal the
// one of the reference build (default options, insertion order as listed, Parallelism 1).
//
// Case identifier: "order=<permutation index>|shardmax=<bytes>|par=<n>|compound=<0|1>".

func c10Repos() (a zoekt.Repository, b zoekt.Repository) {
	a = zoekt.Repository{Name: "alpha/one", ID: 1, URL: "https://example.com/alpha/one",
		Branches: []zoekt.RepositoryBranch{{Name: "main", Version: "v-main"}, {Name: "dev", Version: "v-dev"}}}
	b = zoekt.Repository{Name: "beta/two", ID: 2, URL: "https://example.com/beta/two",
		Branches: []zoekt.RepositoryBranch{{Name: "HEAD", Version: "v-head"}}}
	return
}

func c10Docs() (a, b []index.Document) {
	a = []index.Document{
		{Name: "a/x.go", Branches: []string{"main"}, Content: []byte("package x\nfunc Foo() {}\n"),
			Symbols: []index.DocumentSection{{Start: 15, End: 18}}, SymbolsMetaData: []*zoekt.Symbol{{Sym: "Foo", Kind: "function"}}},
		{Name: "a/x.go", Branches: []string{"dev"}, Content: []byte("package x\nfunc Foo() { bar }\n// héllo wörld\n"),
			Symbols: []index.DocumentSection{{Start: 15, End: 18}}, SymbolsMetaData: []*zoekt.Symbol{{Sym: "Foo", Kind: "function"}}},
		{Name: "b/y.txt", Branches: []string{"main", "dev"}, Content: []byte("foo bar baz\nfoo é bar\nwörld héllo\n")},
		{Name: "c/z.txt", Branches: []string{"main"}, Content: []byte("ab")}, // too small: stored as an explanation
		{Name: "é/ü.md", Branches: []string{"dev"}, Content: []byte("The Foo and the bar, foo. Héllo wörld\n")},
		{Name: "long.txt", Branches: []string{"main", "dev"}, Content: []byte(strings.Repeat("é", 101) + " foo bar\n" + strings.Repeat("xy ", 40) + "bar foo")},
	}
	b = []index.Document{
		{Name: "b/y.txt", Branches: []string{"HEAD"}, Content: []byte("foo bar from repo two\n")},
		{Name: "w.go", Branches: []string{"HEAD"}, Content: []byte("func Bar() {}\n// foo\n"),
			Symbols: []index.DocumentSection{{Start: 5, End: 8}}, SymbolsMetaData: []*zoekt.Symbol{{Sym: "Bar", Kind: "function"}}},
		// the last two documents are added in both orders (insertion orders 0 and 1 of this repository):
		// one that the builder rejects for having more than TrigramMax (20000) distinct trigrams and an
		// ordinary one that is long enough to be checked against that limit at all
		// ASCII content under a non-ASCII name: with a small ShardMax it sits in a shard of its own
		{Name: "héllo/needle.txt", Branches: []string{"HEAD"}, Content: []byte("plain ascii needle\n")},
		{Name: "noisy.txt", Branches: []string{"HEAD"}, Content: c10Noisy()},
		{Name: "plainlong.txt", Branches: []string{"HEAD"}, Content: []byte(strings.Repeat("foo plain text bar\n", 1200))},
	}
	return
}

// c10Noisy has more than 20000 distinct trigrams.
func c10Noisy() []byte {
	var sb strings.Builder
	for i := 0; i < 26000; i++ {
		sb.WriteByte(byte('a' + i%26))
		sb.WriteByte(byte('a' + (i/26)%26))
		sb.WriteByte(byte('a' + (i/676)%26))
		sb.WriteByte(byte('A' + i%7))
	}
	return []byte(sb.String())
}

var c10QueryStrings = []string{
	"foo", "Foo case:yes", "bar", "é", "\"foo bar\"", "ab", "package", "\"from repo two\"", "NOT-INDEXED",
	"fo+", "the|bar", "^func", "bar$", "f.o b.r", "é+ foo", "case:yes The",
	"f:x.go", "f:é", "f:y.txt foo", "f:\\.go$ func",
	"branch:dev foo", "branch:main", "branch:HEAD bar",
	"lang:go", "sym:Foo", "sym:bar",
	"needle", "f:needle", "f:needle.txt plain",
	"wörld", "héllo", "héllo wörld", "w.rld", "foo -bar", "(package or baz)", "r:two foo", "r:alpha -f:x.go bar", "type:file foo", "xy bar",
}

func c10Clone(d index.Document) index.Document {
	d.Symbols = append([]index.DocumentSection(nil), d.Symbols...)
	m := make([]*zoekt.Symbol, len(d.SymbolsMetaData))
	for i, s := range d.SymbolsMetaData {
		c := *s
		m[i] = &c
	}
	if len(m) == 0 {
		m = nil
	}
	d.SymbolsMetaData = m
	d.Branches = append([]string(nil), d.Branches...)
	d.Content = append([]byte(nil), d.Content...)
	return d
}

func c10Build(dir string, desc zoekt.Repository, docs []index.Document, order []int, shardMax, par int) (err error) {
	defer func() {
		if p := recover(); p != nil {
			err = fmt.Errorf("panic while building: %v", p)
		}
	}()
	opts := index.Options{IndexDir: dir, RepositoryDescription: desc, ShardMax: shardMax, Parallelism: par, DisableCTags: true}
	b, err := index.NewBuilder(opts)
	if err != nil {
		return fmt.Errorf("NewBuilder: %w", err)
	}
	for _, i := range order {
		if err := b.Add(c10Clone(docs[i])); err != nil {
			b.Finish()
			return fmt.Errorf("Add(%s): %w", docs[i].Name, err)
		}
	}
	if err := b.Finish(); err != nil {
		return fmt.Errorf("Finish: %w", err)
	}
	return nil
}

// c10Merge replaces the simple shards of dir by one compound shard.
func c10Merge(dir string) error {
	names, _ := filepath.Glob(filepath.Join(dir, "*.zoekt"))
	sort.Strings(names)
	var files []index.IndexFile
	for _, n := range names {
		f, err := os.Open(n)
		if err != nil {
			return err
		}
		inf, err := index.NewIndexFile(f)
		if err != nil {
			f.Close()
			return err
		}
		defer inf.Close()
		files = append(files, inf)
	}
	tmp, dst, err := index.Merge(dir, files...)
	if err != nil {
		return fmt.Errorf("Merge: %w", err)
	}
	if err := os.Rename(tmp, dst); err != nil {
		return err
	}
	for _, n := range names {
		if err := os.Remove(n); err != nil {
			return err
		}
	}
	return nil
}

// c10Perm returns the k-th permutation of 0..n-1 in lexicographic order.
func c10Perm(n, k int) []int {
	elems := make([]int, n)
	for i := range elems {
		elems[i] = i
	}
	fact := 1
	for i := 2; i < n; i++ {
		fact *= i
	}
	out := make([]int, 0, n)
	for i := n - 1; i >= 0; i-- {
		j := k / fact
		k %= fact
		out = append(out, elems[j])
		elems = append(elems[:j], elems[j+1:]...)
		if i > 0 {
			fact /= i
		}
	}
	return out
}

// c10Observe runs every query in both modes and returns, per (query, mode), the sorted tuples.
func c10Observe(dir string, qs []query.Q) (obs [][]string, nShards int, err error) {
	defer func() {
		if p := recover(); p != nil {
			err = fmt.Errorf("panic while searching: %v", p)
		}
	}()
	ss, err := search.NewDirectorySearcher(dir)
	if err != nil {
		return nil, 0, fmt.Errorf("NewDirectorySearcher: %w", err)
	}
	defer ss.Close()
	names, _ := filepath.Glob(filepath.Join(dir, "*.zoekt"))
	nShards = len(names)
	ctx := context.Background()
	for _, q := range qs {
		for _, chunk := range []bool{true, false} {
			opts := zoekt.SearchOptions{Whole: true, ChunkMatches: chunk, ShardMaxMatchCount: 1 << 30, TotalMaxMatchCount: 1 << 30, MaxDocDisplayCount: 1 << 30}
			res, err := ss.Search(ctx, q, &opts)
			if err != nil {
				return nil, nShards, fmt.Errorf("Search(%s): %w", q.String(), err)
			}
			var tuples []string
			for _, f := range res.Files {
				var rs []string
				for _, cm := range f.ChunkMatches {
					for _, rg := range cm.Ranges {
						rs = append(rs, fmt.Sprintf("%v:%d-%d@%d:%d", cm.FileName, rg.Start.ByteOffset, rg.End.ByteOffset, rg.Start.LineNumber, rg.Start.Column))
					}
				}
				for _, lm := range f.LineMatches {
					for _, fr := range lm.LineFragments {
						rs = append(rs, fmt.Sprintf("%v:L%d[%d,%d):%d+%d", lm.FileName, lm.LineNumber, lm.LineStart, lm.LineEnd, fr.LineOffset, fr.MatchLength))
					}
				}
				sort.Strings(rs)
				tuples = append(tuples, fmt.Sprintf("repo=%q file=%q branches=%v content=%q ranges=%v", f.Repository, f.FileName, f.Branches, f.Content, rs))
			}
			sort.Strings(tuples)
			obs = append(obs, tuples)
		}
	}
	return obs, nShards, nil
}

func c10Diff(got, want []string) string {
	g := map[string]int{}
	for _, t := range got {
		g[t]++
	}
	var sb strings.Builder
	for _, t := range want {
		if g[t] > 0 {
			g[t]--
		} else {
			fmt.Fprintf(&sb, "  missing: %.400s\n", t)
		}
	}
	var extra []string
	for t, n := range g {
		for i := 0; i < n; i++ {
			extra = append(extra, t)
		}
	}
	sort.Strings(extra)
	for _, t := range extra {
		fmt.Fprintf(&sb, "  extra:   %.400s\n", t)
	}
	return sb.String()
}

func TestVerifC10(t *testing.T) {
	r := mc.NewReport("C10")
	log.SetOutput(io.Discard)
	defer log.SetOutput(os.Stderr)
	base := os.Getenv("VERIF_SCRATCH")
	if base == "" {
		base = "/dev/shm"
		if st, err := os.Stat(base); err != nil || !st.IsDir() {
			base = os.TempDir()
		}
	}
	root, err := os.MkdirTemp(base, "verif-c10-")
	if err != nil {
		r.Violation("TOOL: scratch directory", err.Error(), nil)
		r.Finish("")
		return
	}
	defer os.RemoveAll(root)

	repoA, repoB := c10Repos()
	docsA, docsB := c10Docs()
	var qs []query.Q
	for _, s := range c10QueryStrings {
		q, err := query.Parse(s)
		if err != nil {
			r.Violation("TOOL: query does not parse: "+s, err.Error(), nil)
			r.Finish("")
			return
		}
		qs = append(qs, q)
	}
	identA := c10Perm(len(docsA), 0)
	identB := c10Perm(len(docsB), 0)

	// Every Builder allocates fresh 16 MB trigram tables (two per concurrently built shard plus two
	// at construction). Touching that much fresh memory from many goroutines at once is far slower
	// than doing it one after the other on the test machines, so builds are serialised; loading and
	// searching run in parallel.
	buildSlots := make(chan struct{}, 1)
	var dirSeq, buildNs, observeNs atomic.Int64
	buildAndObserve := func(orderA, orderB []int, shardMax, par int, compound bool) ([][]string, int, error) {
		dir := filepath.Join(root, "i"+strconv.FormatInt(dirSeq.Add(1), 10))
		if err := os.Mkdir(dir, 0o755); err != nil {
			return nil, 0, err
		}
		defer os.RemoveAll(dir)
		buildSlots <- struct{}{}
		tb := time.Now()
		err := c10Build(dir, repoA, docsA, orderA, shardMax, par)
		if err == nil {
			err = c10Build(dir, repoB, docsB, orderB, shardMax, par)
		}
		if err == nil && compound {
			err = c10Merge(dir)
		}
		<-buildSlots
		buildNs.Add(int64(time.Since(tb)))
		if err != nil {
			return nil, 0, err
		}
		to := time.Now()
		defer func() { observeNs.Add(int64(time.Since(to))) }()
		return c10Observe(dir, qs)
	}

	// ---- reference
	ref, _, err := buildAndObserve(identA, identB, 0, 1, false)
	if err != nil {
		r.Violation("TOOL: reference build fails", err.Error(), nil)
		r.Finish("")
		return
	}
	nonEmpty := 0
	for i, o := range ref {
		if len(o) > 0 && len(o) < len(docsA)+len(docsB) {
			nonEmpty++
		}
		if i%2 == 0 && len(o) == 0 {
			r.Note("query %q matches nothing in the reference index", c10QueryStrings[i/2])
		}
	}
	if nonEmpty < 20 {
		r.Violation("TOOL: reference index answers too few queries non-trivially", fmt.Sprint(nonEmpty), nil)
	}
	r.Sample(map[string]any{"query": c10QueryStrings[0], "mode": "chunk", "reference_tuples": ref[0]})
	r.Sample(map[string]any{"query": c10QueryStrings[24], "mode": "chunk", "reference_tuples": ref[48]})

	// ---- configurations
	type config struct {
		order, shardMax, par int
		compound             bool
	}
	// Space: (1) the full product ShardMax × Parallelism (+ compound) on a spread of insertion orders
	// (every 60th permutation in quick, every 30th in thorough); (2) thorough only: ALL 720 insertion
	// orders on three (ShardMax, Parallelism) pairs that make shard contents depend on the order.
	nOrders := 720
	step := 60
	if r.Thorough() {
		step = 30
	}
	var cfgs []config
	for k := 0; k < nOrders; k += step {
		for _, sm := range []int{1, 40, 100, 1 << 20} {
			for _, par := range []int{1, 2, 4, 16} {
				cfgs = append(cfgs, config{k, sm, par, false})
				if sm == 1<<20 {
					cfgs = append(cfgs, config{k, sm, par, true})
				}
			}
		}
	}
	if r.Thorough() {
		for k := 0; k < nOrders; k++ {
			if k%step == 0 {
				continue // already in (1)
			}
			cfgs = append(cfgs, config{k, 40, 1, false}, config{k, 100, 2, false}, config{k, 1, 4, false})
		}
	}
	var cut atomic.Bool
	var builds, shardsSeen atomic.Int64
	var mu sync.Mutex
	shardCounts := map[int]int{}
	mc.ParallelFor(len(cfgs), func(i int) {
		c := cfgs[i]
		id := fmt.Sprintf("order=%d|shardmax=%d|par=%d|compound=%d", c.order, c.shardMax, c.par, map[bool]int{false: 0, true: 1}[c.compound])
		if !r.Want(id) || cut.Load() {
			return
		}
		if r.Expired() {
			cut.Store(true)
			return
		}
		orderA := c10Perm(len(docsA), c.order)
		// both orders of beta's last two documents are used (c.order itself is a multiple of 30 or 60)
		orderB := c10Perm(len(docsB), (c.order/30+c.order/60+c.order)%2)
		obs, nShards, err := buildAndObserve(orderA, orderB, c.shardMax, c.par, c.compound)
		builds.Add(1)
		what := fmt.Sprintf("insertion order %v / %v, ShardMax=%d, Parallelism=%d, compound=%v", orderA, orderB, c.shardMax, c.par, c.compound)
		if err != nil {
			r.Violation("build or search fails: "+id, what+"\n"+err.Error(), map[string]any{"case": id})
			return
		}
		shardsSeen.Add(int64(nShards))
		mu.Lock()
		shardCounts[nShards]++
		mu.Unlock()
		r.Eval(len(obs))
		for k := range obs {
			if strings.Join(obs[k], "\n") != strings.Join(ref[k], "\n") {
				mode := "chunk"
				if k%2 == 1 {
					mode = "line"
				}
				r.Violation(fmt.Sprintf("results differ from the reference build: %s query=%q mode=%s", id, c10QueryStrings[k/2], mode),
					fmt.Sprintf("%s (%d shards)\nquery %s (%s matches)\n%s", what, nShards, c10QueryStrings[k/2], mode, c10Diff(obs[k], ref[k])), map[string]any{"case": id})
			} else if len(ref[k]) > 0 && len(ref[k]) < len(docsA)+len(docsB) {
				r.Nontrivial(id + "|" + strconv.Itoa(k))
			}
		}
	})
	if cut.Load() {
		r.Incomplete("budget exhausted after %d of %d configurations", builds.Load(), len(cfgs))
	}
	r.Note("time spent building %.1fs, loading+searching %.1fs (summed over workers)", float64(buildNs.Load())/1e9, float64(observeNs.Load())/1e9)
	r.Set("configurations", len(cfgs))
	r.Set("index_builds", builds.Load())
	r.Set("queries", len(qs))
	r.Set("shards_loaded", shardsSeen.Load())
	var sc []string
	for n, c := range shardCounts {
		sc = append(sc, fmt.Sprintf("%d shards: %d builds", n, c))
	}
	sort.Strings(sc)
	r.Set("builds_by_shard_count", sc)
	r.Assume("differential oracle: the reference is the same implementation with default options, Parallelism 1 and the listed insertion order; scores, ordering and statistics are not compared")
	r.Assume("ctags disabled; symbol sections are supplied by the caller")
	r.Finish("case = (build configuration, query, chunk|line mode): configurations are insertion order of alpha/one's 6 documents (all 720 permutations; quick every 30th) × ShardMax {1, 40, 100, 1 MiB} × Parallelism {1, 2, 4, 16}, the 1 MiB builds additionally merged into a compound shard; 32 queries (substring, regexp, case, file, branch, language, symbol, negation, or, repo, type) through search.NewDirectorySearcher; non-trivial = the reference answer is neither empty nor all documents")
}
