//go:build verif

package search

import (
	"bufio"
	"context"
	"fmt"
	"os"
	"os/exec"
	"path/filepath"
	"runtime/debug"
	"sort"
	"strconv"
	"strings"
	"sync"
	"sync/atomic"
	"testing"
	"time"

	"github.com/sourcegraph/zoekt"
	"github.com/sourcegraph/zoekt/internal/verifshim/gen"
	"github.com/sourcegraph/zoekt/internal/verifshim/mc"
	"github.com/sourcegraph/zoekt/internal/verifshim/ref"
	"github.com/sourcegraph/zoekt/query"
)

// C11: every truncation / bit flip / byte substitution of a shard file is placed beside a
// healthy shard, loaded through the real loader (loader.load -> loadShard) into a real
// shardedSearcher and searched. Variants run in guarded child processes (address-space limit,
// per-variant watchdog); a child death or stall is attributed to the variant in flight and
// re-run alone before it is reported.

type c11Base struct {
	name string
	data []byte
}

func c11Bases() []c11Base {
	var out []c11Base
	small := &ref.Repo{Name: "victim/simple", ID: 41, Branches: []string{"HEAD", "dev"}}
	for i, s := range []string{"abc def", "héllo wörld\nabc", "xyz"} {
		small.Docs = append(small.Docs, &ref.Doc{Name: fmt.Sprintf("v/f%d.go", i), Content: []byte(s), Branches: []string{"HEAD"}, Language: "Go"})
	}
	b, err := gen.BuildSimple(small)
	if err != nil {
		panic(err)
	}
	out = append(out, c11Base{"simple", b})
	symr := gen.SymbolCorpus()
	symr.Name = "victim/symbols"
	b, err = gen.BuildSimple(symr)
	if err != nil {
		panic(err)
	}
	out = append(out, c11Base{"symbols", b})
	dir, clean := gen.Scratch("c11base")
	defer clean()
	cc := gen.CompoundCorpus()
	for _, r := range cc {
		r.Name = "victim/" + r.Name
		r.ID += 50
	}
	p, err := gen.WriteCompound(dir, cc...)
	if err != nil {
		panic(err)
	}
	b, err = os.ReadFile(p)
	if err != nil {
		panic(err)
	}
	out = append(out, c11Base{"compound", b})
	return out
}

// c11Variant materialises variant i of a base shard. Order: truncations (len+1 of them incl.
// the empty file... 0..len-1), then bit flips (8 per byte), then byte substitutions (4 per byte).
func c11NumVariants(n int, subst bool) int {
	v := n + 8*n
	if subst {
		v += 4*n + len(c11Windows)*n
	}
	return v
}

// c11Windows are five-byte patterns written over every offset: varints that decode to values next
// to 2^32 (arithmetic on offsets and positions must not wrap), and a run of continuation bytes.
var c11Windows = [][]byte{{0xff, 0xff, 0xff, 0xff, 0x0f}, {0xf0, 0xff, 0xff, 0xff, 0x0f}, {0x80, 0x80, 0x80, 0x80, 0x80}}

func c11Variant(data []byte, i int) ([]byte, string) {
	n := len(data)
	if i < n {
		return append([]byte{}, data[:i]...), fmt.Sprintf("truncate@%d", i)
	}
	i -= n
	if i < 8*n {
		out := append([]byte{}, data...)
		out[i/8] ^= 1 << uint(i%8)
		return out, fmt.Sprintf("bitflip@%d.%d", i/8, i%8)
	}
	i -= 8 * n
	vals := []byte{0x00, 0x7f, 0x80, 0xff}
	out := append([]byte{}, data...)
	if i < 4*n {
		out[i/4] = vals[i%4]
		return out, fmt.Sprintf("byte@%d=%02x", i/4, vals[i%4])
	}
	i -= 4 * n
	w := c11Windows[i%len(c11Windows)]
	at := i / len(c11Windows)
	copy(out[at:], w) // cut at the end of the file
	return out, fmt.Sprintf("window@%d=%x", at, w)
}

func c11Queries() []query.Q {
	re, _ := gen.Regexp("a.c|w.rld", true, false, true)
	return []query.Q{
		&query.Substring{Pattern: "abc"},
		re,
		&query.Symbol{Expr: &query.Substring{Pattern: "abc", Content: true}},
		&query.Branch{Pattern: "dev"},
		&query.Const{Value: true},
		&query.Substring{Pattern: "HÉLLO", CaseSensitive: false, Content: true},
	}
}

func c11Healthy() *ref.Repo {
	r := &ref.Repo{Name: "healthy/repo", ID: 40, Branches: []string{"HEAD", "dev"}}
	for i, s := range []string{"abc healthy", "héllo healthy wörld", "func abc()", "nothing"} {
		d := &ref.Doc{Name: fmt.Sprintf("h/f%d.go", i), Content: []byte(s), Branches: []string{"HEAD", "dev"}[:1+i%2], Language: "Go"}
		if i == 2 {
			d.Symbols = [][2]int{{5, 8}}
		}
		r.Docs = append(r.Docs, d)
	}
	return r
}

// c11Exercise loads healthy+variant through the real loader and runs all searches; returns the
// canonical results of the healthy repository.
func c11Exercise(healthyPath, variantPath string) (string, error) {
	ss := newShardedSearcher(2)
	tl := &loader{ss: ss}
	tl.load(healthyPath, variantPath)
	defer ss.Close()
	var sb strings.Builder
	ctx := context.Background()
	for qi, q := range c11Queries() {
		for _, whole := range []bool{false, true} {
			o := zoekt.SearchOptions{ShardMaxMatchCount: 1 << 30, TotalMaxMatchCount: 1 << 30, Whole: whole, ChunkMatches: whole}
			res, err := ss.Search(ctx, q, &o)
			if err != nil {
				return "", fmt.Errorf("search %v: %w", q, err)
			}
			var fs []string
			for i := range res.Files {
				if res.Files[i].Repository == "healthy/repo" {
					fs = append(fs, gen.CanonFile(&res.Files[i]))
				}
			}
			sort.Strings(fs)
			fmt.Fprintf(&sb, "q%d/%v:%s\n", qi, whole, strings.Join(fs, ";"))
		}
		rl, err := ss.List(ctx, q, nil)
		if err != nil {
			return "", fmt.Errorf("list %v: %w", q, err)
		}
		for _, e := range rl.Repos {
			if e.Repository.Name == "healthy/repo" {
				fmt.Fprintf(&sb, "q%d/list:%d docs\n", qi, e.Stats.Documents)
			}
		}
	}
	return sb.String(), nil
}

// TestVerifC11Child runs a range of variants; protocol on stdout (one line per event):
//
//	START <i>            about to run variant i
//	BAD <i> <message>    oracle violation for variant i
//	END                  range finished
func TestVerifC11Child(t *testing.T) {
	spec := os.Getenv("VERIF_C11_RANGE") // base:start:end:subst
	if spec == "" {
		t.Skip("child only")
	}
	debug.SetMaxStack(64 << 20)
	p := strings.Split(spec, ":")
	start, _ := strconv.Atoi(p[1])
	end, _ := strconv.Atoi(p[2])
	var base *c11Base
	if p[0] == "batch" {
		out := bufio.NewWriter(os.Stdout)
		cur := make(chan int, 1)
		go c11Watchdog(cur)
		if err := c11BatchChild(start, end, out, cur); err != nil {
			t.Fatal(err)
		}
		fmt.Fprintf(out, "END\n")
		out.Flush()
		return
	}
	if p[0] == "page" {
		base = &c11Base{name: "page", data: c11PageBase()}
	}
	for _, b := range c11Bases() {
		if b.name == p[0] {
			bb := b
			base = &bb
		}
	}
	dir, clean := gen.Scratch("c11child")
	defer clean()
	hp, err := gen.WriteSimple(dir, c11Healthy())
	if err != nil {
		t.Fatal(err)
	}
	vp := filepath.Join(dir, "victim_v16.00000.zoekt")
	if base.name == "compound" {
		vp = filepath.Join(dir, "compound-victim_v17.00000.zoekt")
	}
	os.WriteFile(vp, base.data, 0o644)
	want, err := c11Exercise(hp, vp)
	if err != nil {
		t.Fatal(err)
	}
	out := bufio.NewWriter(os.Stdout)
	cur := make(chan int, 1)
	go c11Watchdog(cur)
	for i := start; i < end; i++ {
		fmt.Fprintf(out, "START %d\n", i)
		out.Flush()
		cur <- i
		data, _ := c11Variant(base.data, i)
		if base.name == "page" {
			data = c11PageVariant(base.data, i)
		}
		if err := os.WriteFile(vp, data, 0o644); err != nil {
			t.Fatal(err)
		}
		got, err := c11Exercise(hp, vp)
		if err != nil {
			fmt.Fprintf(out, "BAD %d search or list returned an error: %s\n", i, strings.ReplaceAll(err.Error(), "\n", " "))
		} else if got != want {
			fmt.Fprintf(out, "BAD %d results of the healthy repository changed\n", i)
		}
	}
	fmt.Fprintf(out, "END\n")
	out.Flush()
}

// c11Watchdog: a variant that takes longer than 60 s is a hang
func c11Watchdog(cur <-chan int) {
	last, since := -1, time.Now()
	for {
		select {
		case i := <-cur:
			last, since = i, time.Now()
		case <-time.After(5 * time.Second):
			if last >= 0 && time.Since(since) > 60*time.Second {
				fmt.Fprintf(os.Stdout, "\nHANG %d\n", last)
				os.Exit(3)
			}
		}
	}
}

type c11Outcome struct {
	bad   map[int]string
	died  map[int]string
	count int
	cut   bool
}

// c11RunRange runs [start,end) in children, restarting after the variant that killed a child.
func c11RunRange(base string, start, end int, expired func() bool) c11Outcome {
	oc := c11Outcome{bad: map[int]string{}, died: map[int]string{}}
	for start < end {
		if expired != nil && expired() {
			oc.cut = true
			return oc
		}
		cmd := exec.Command("sh", "-c", "ulimit -v 8000000; exec \"$0\" -test.run='^TestVerifC11Child$' -test.timeout=0", os.Args[0])
		cmd.Env = append(os.Environ(), fmt.Sprintf("VERIF_C11_RANGE=%s:%d:%d", base, start, end), "GOMAXPROCS=2")
		outb, err := cmd.CombinedOutput()
		last := -1
		finished := false
		tail := ""
		for _, line := range strings.Split(string(outb), "\n") {
			switch {
			case strings.HasPrefix(line, "START "):
				last, _ = strconv.Atoi(strings.TrimPrefix(line, "START "))
			case strings.HasPrefix(line, "BAD "):
				f := strings.SplitN(line, " ", 3)
				i, _ := strconv.Atoi(f[1])
				oc.bad[i] = f[2]
			case line == "END":
				finished = true
			case strings.HasPrefix(line, "panic:") || strings.HasPrefix(line, "fatal error:") || strings.HasPrefix(line, "HANG"):
				if tail == "" {
					tail = line
				}
			}
		}
		if finished && err == nil {
			oc.count += end - start
			return oc
		}
		if last < 0 {
			oc.died[start] = "child failed before the first variant: " + lastLines(string(outb), 5)
			return oc
		}
		// the child died in variant `last`
		if tail == "" {
			tail = lastLines(string(outb), 3)
		}
		oc.died[last] = tail
		oc.count += last - start + 1
		start = last + 1
	}
	return oc
}

func lastLines(s string, n int) string {
	ls := strings.Split(strings.TrimSpace(s), "\n")
	if len(ls) > n {
		ls = ls[len(ls)-n:]
	}
	return strings.Join(ls, " | ")
}

func TestVerifC11(t *testing.T) {
	r := mc.NewReport("C11")
	bases := c11Bases()
	var mu sync.Mutex
	for _, b := range bases {
		subst := r.Thorough() || b.name == "simple"
		total := c11NumVariants(len(b.data), subst)
		if !r.Thorough() && b.name != "simple" {
			// quick tier: truncations + bit flips of the other shapes only in the table of contents and
			// metadata at the end of the file (last 600 bytes) plus every truncation
			total = len(b.data) + 8*len(b.data)
		}
		r.Set("variants_"+b.name, total)
		const chunk = 4000
		var ranges [][2]int
		for s := 0; s < total; s += chunk {
			e := s + chunk
			if e > total {
				e = total
			}
			ranges = append(ranges, [2]int{s, e})
		}
		mc.ParallelFor(len(ranges), func(i int) {
			if r.Expired() {
				r.Incomplete("budget exhausted in base %s", b.name)
				return
			}
			rg := ranges[i]
			if !r.Thorough() && b.name != "simple" && rg[0] >= len(b.data) {
				// restrict bit flips to the tail region in the quick tier
				lo := len(b.data) + 8*(len(b.data)-600)
				if rg[1] <= lo {
					return
				}
				if rg[0] < lo {
					rg[0] = lo
				}
			}
			oc := c11RunRange(b.name, rg[0], rg[1], r.Expired)
			r.Eval(oc.count)
			if oc.cut {
				r.Incomplete("budget exhausted inside range %v of base %s", rg, b.name)
			}
			mu.Lock()
			defer mu.Unlock()
			for vi, msg := range oc.bad {
				_, desc := c11Variant(b.data, vi)
				key := fmt.Sprintf("%s %s: %s", b.name, desc, msg)
				if strings.Contains(msg, "returned an error") && strings.Contains(msg, "out of bounds") {
					// one key per base shard for this symptom: the corrupt shard's read error is
					// returned as the error of the whole sharded search
					key = fmt.Sprintf("%s: a read beyond the corrupt shard's bounds makes the whole sharded search return an error (healthy shard's results lost)", b.name)
				}
				r.Violation(key, fmt.Sprintf("base shard %s (%d bytes), variant %s: %s", b.name, len(b.data), desc, msg), map[string]any{"case": fmt.Sprintf("%s:%d", b.name, vi)})
			}
			for vi, msg := range oc.died {
				_, desc := c11Variant(b.data, vi)
				// re-run alone before believing it
				again := c11RunRange(b.name, vi, vi+1, nil)
				if len(again.died) == 0 {
					r.Note("variant %s %s killed a child once but not when re-run alone: %s", b.name, desc, msg)
					continue
				}
				short := msg
				if j := strings.Index(short, " ["); j > 0 {
					short = short[:j]
				}
				if len(short) > 90 {
					short = short[:90]
				}
				r.Violation(fmt.Sprintf("%s %s: serving process dies: %s", b.name, desc, short), fmt.Sprintf("base shard %s (%d bytes), variant %s: the process that loads/searches it died: %s", b.name, len(b.data), desc, msg), map[string]any{"case": fmt.Sprintf("%s:%d", b.name, vi)})
			}
			r.Nontrivial(fmt.Sprintf("%s:%d", b.name, rg[0]))
			if i == 0 {
				_, d := c11Variant(b.data, rg[0])
				r.Sample(map[string]any{"base": b.name, "bytes": len(b.data), "first_variant": d, "range": rg})
			}
		})
	}
	// family "batch": several unreadable shards in one load call (see c11batch_test.go)
	{
		total := c11BatchTotal()
		r.Set("variants_batch", total)
		const chunk = 500
		var ranges [][2]int
		for s := 0; s < total; s += chunk {
			ranges = append(ranges, [2]int{s, min(s+chunk, total)})
		}
		var hangs atomic.Int64
		mc.ParallelFor(len(ranges), func(i int) {
			if r.Expired() {
				r.Incomplete("budget exhausted in family batch")
				return
			}
			if hangs.Load() >= 6 {
				r.Incomplete("family batch: stopped after 6 confirmed dying/hanging batches (each costs two 60 s watchdog periods)")
				return
			}
			rg := ranges[i]
			oc := c11RunRange("batch", rg[0], rg[1], func() bool { return r.Expired() || hangs.Load() >= 6 })
			r.Eval(oc.count)
			if oc.cut {
				r.Incomplete("budget exhausted inside range %v of family batch", rg)
			}
			mu.Lock()
			defer mu.Unlock()
			for vi, msg := range oc.bad {
				r.Violation(fmt.Sprintf("batch %s: %s", c11BatchDesc(vi), msg), fmt.Sprintf("one loader.load call with keys %s (GOMAXPROCS=2): %s", c11BatchDesc(vi), msg), map[string]any{"case": fmt.Sprintf("batch:%d", vi)})
			}
			for vi, msg := range oc.died {
				again := c11RunRange("batch", vi, vi+1, nil)
				if len(again.died) == 0 {
					r.Note("batch %s killed a child once but not when re-run alone: %s", c11BatchDesc(vi), msg)
					continue
				}
				short := msg
				if len(short) > 90 {
					short = short[:90]
				}
				hangs.Add(1)
				r.Violation(fmt.Sprintf("batch %s: serving process dies or hangs: %s", c11BatchDesc(vi), short), fmt.Sprintf("one loader.load call with keys %s (GOMAXPROCS=2): the process died or did not return within 60 s: %s", c11BatchDesc(vi), msg), map[string]any{"case": fmt.Sprintf("batch:%d", vi)})
			}
			r.Nontrivial(fmt.Sprintf("batch:%d", rg[0]))
		})
	}
	// family "page": see c11batch_test.go
	{
		total := c11PageTotal()
		r.Set("variants_page", total)
		oc := c11RunRange("page", 0, total, r.Expired)
		r.Eval(oc.count)
		if oc.cut {
			r.Incomplete("budget exhausted inside family page")
		}
		for vi, msg := range oc.bad {
			r.Violation(fmt.Sprintf("page: %s: %s", c11PageDesc(vi), msg), fmt.Sprintf("%s beside a healthy shard: %s", c11PageDesc(vi), msg), map[string]any{"case": fmt.Sprintf("page:%d", vi)})
		}
		for vi, msg := range oc.died {
			again := c11RunRange("page", vi, vi+1, nil)
			if len(again.died) == 0 {
				r.Note("page variant %s killed a child once but not when re-run alone: %s", c11PageDesc(vi), msg)
				continue
			}
			short := msg
			if len(short) > 90 {
				short = short[:90]
			}
			r.Violation(fmt.Sprintf("page: %s: serving process dies: %s", c11PageDesc(vi), short), fmt.Sprintf("%s beside a healthy shard: the process that loads/searches it died: %s", c11PageDesc(vi), msg), map[string]any{"case": fmt.Sprintf("page:%d", vi)})
		}
		r.Nontrivial("page")
	}
	r.Assume("files are not modified after being loaded; a variant that keeps a child busy for 60 s is counted as a hang (µs-scale work otherwise)")
	r.Finish("case = (base shard simple|symbols|compound, variant): every truncation, every single-bit flip, every byte set to 00/7f/80/ff and every 5-byte window overwritten with varints next to 2^32 / continuation bytes (quick: substitutions for the simple shard only, bit flips of the other shards only in their last 600 bytes: TOC and metadata); each variant is loaded beside a healthy shard through loader.load and 6 queries × 2 modes + List run on the shardedSearcher; oracle: process survives, calls return, healthy repository's results unchanged; family batch: every sequence of <= 5 keys over {healthy, truncated, empty, garbage, cut TOC} in one load call with GOMAXPROCS=2: load returns and exactly the healthy shards are served; family page: a 12 KB shard cut to 1-3 pages exactly (and one byte less) with trailers pointing at / behind the end of the file")
}
