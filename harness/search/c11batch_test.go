//go:build verif

package search

// C11 (family "batch"): several unreadable shards in ONE loader.load call. Every sequence of up to
// 5 keys over {healthy shard, shard truncated in the middle, empty file, garbage bytes, shard with a
// cut table of contents} is loaded into a fresh shardedSearcher by a child process that runs with
// GOMAXPROCS=2 (the loader bounds its parallelism by GOMAXPROCS, so two failing shards already fill
// it). Oracle: load returns, List(TRUE) shows exactly the healthy repositories of the sequence and a
// search returns all their documents.

import (
	"bufio"
	"context"
	"fmt"
	"os"
	"path/filepath"
	"sort"
	"strings"

	"github.com/sourcegraph/zoekt"
	"github.com/sourcegraph/zoekt/internal/verifshim/gen"
	"github.com/sourcegraph/zoekt/internal/verifshim/ref"
	"github.com/sourcegraph/zoekt/query"
)

const (
	c11BatchKinds  = 5 // H T E G C
	c11BatchMaxLen = 5
)

var c11BatchKindNames = []string{"healthy", "truncated-half", "empty", "garbage", "cut-toc"}

// c11BatchSeq decodes index i into a kind sequence (lengths 1..c11BatchMaxLen, shortest first).
func c11BatchSeq(i int) []int {
	n := c11BatchKinds
	for l := 1; l <= c11BatchMaxLen; l++ {
		if i < n {
			seq := make([]int, l)
			for p := l - 1; p >= 0; p-- {
				seq[p] = i % c11BatchKinds
				i /= c11BatchKinds
			}
			return seq
		}
		i -= n
		n *= c11BatchKinds
	}
	return nil
}

func c11BatchTotal() int {
	t, n := 0, c11BatchKinds
	for l := 1; l <= c11BatchMaxLen; l++ {
		t += n
		n *= c11BatchKinds
	}
	return t
}

func c11BatchDesc(i int) string {
	var ks []string
	for _, k := range c11BatchSeq(i) {
		ks = append(ks, c11BatchKindNames[k])
	}
	return "load(" + strings.Join(ks, ", ") + ")"
}

func c11BatchChild(start, end int, out *bufio.Writer, cur chan<- int) error {
	dir, clean := gen.Scratch("c11batch")
	defer clean()
	// one healthy shard per position (distinct repositories) and its damaged forms
	var healthy [][]byte
	for p := 0; p < c11BatchMaxLen; p++ {
		r := &ref.Repo{Name: fmt.Sprintf("batch/h%d", p), ID: uint32(60 + p), Branches: []string{"HEAD"}}
		for j := 0; j < 2; j++ {
			r.Docs = append(r.Docs, &ref.Doc{Name: fmt.Sprintf("f%d.txt", j), Content: []byte(fmt.Sprintf("abc batch %d %d", p, j)), Branches: []string{"HEAD"}, Language: "Text"})
		}
		data, err := gen.BuildSimple(r)
		if err != nil {
			return err
		}
		healthy = append(healthy, data)
	}
	ctx := context.Background()
	for i := start; i < end; i++ {
		fmt.Fprintf(out, "START %d\n", i)
		out.Flush()
		cur <- i
		seq := c11BatchSeq(i)
		sub := filepath.Join(dir, fmt.Sprint(i))
		os.MkdirAll(sub, 0o755)
		var keys, want []string
		for p, k := range seq {
			data := healthy[p]
			switch k {
			case 0:
				want = append(want, fmt.Sprintf("batch/h%d", p))
			case 1:
				data = data[:len(data)/2]
			case 2:
				data = nil
			case 3:
				data = []byte("this is not a zoekt shard, just some text that is long enough to be read as a table of contents\n")
			case 4:
				data = data[:len(data)-9]
			}
			key := filepath.Join(sub, fmt.Sprintf("k%d_v16.00000.zoekt", p))
			if err := os.WriteFile(key, data, 0o644); err != nil {
				return err
			}
			keys = append(keys, key)
		}
		ss := newShardedSearcher(2)
		tl := &loader{ss: ss}
		tl.load(keys...)
		rl, err := ss.List(ctx, &query.Const{Value: true}, nil)
		var got []string
		if err == nil {
			for _, e := range rl.Repos {
				got = append(got, e.Repository.Name)
			}
		}
		sort.Strings(got)
		sort.Strings(want)
		switch {
		case err != nil:
			fmt.Fprintf(out, "BAD %d List returned an error: %s\n", i, strings.ReplaceAll(err.Error(), "\n", " "))
		case strings.Join(got, ",") != strings.Join(want, ","):
			fmt.Fprintf(out, "BAD %d served repositories [%s], healthy shards in the batch [%s]\n", i, strings.Join(got, ","), strings.Join(want, ","))
		default:
			res, err := ss.Search(ctx, &query.Substring{Pattern: "abc batch"}, &zoekt.SearchOptions{ShardMaxMatchCount: 1 << 30, TotalMaxMatchCount: 1 << 30})
			if err != nil {
				fmt.Fprintf(out, "BAD %d Search returned an error: %s\n", i, strings.ReplaceAll(err.Error(), "\n", " "))
			} else if len(res.Files) != 2*len(want) {
				fmt.Fprintf(out, "BAD %d search returns %d files, the healthy shards hold %d\n", i, len(res.Files), 2*len(want))
			}
		}
		ss.Close()
		os.RemoveAll(sub)
	}
	return nil
}

// ---- family "page": files whose size is an exact multiple of the page size -------------------
//
// The loader maps shard files; a file cut at a page boundary whose trailer (the last 8 bytes: offset
// and size of the table of contents) points at or beyond the end of the file must be rejected like
// every other damaged shard - a read that the bounds check lets through into a page behind the end
// of the file kills the process with SIGBUS, which no recover() contains.

var (
	c11PageOffs = []int64{0, -8, -1, 0x7fffffff, 0xffffffff} // relative to the file size, except the two large absolute values
	c11PageSzs  = []uint32{0, 8, 64, 4096, 0xffffffff}
)

func c11PageTotal() int { return 3 * len(c11PageOffs) * len(c11PageSzs) * 2 }

func c11PageDecode(i int) (pages int, off int64, sz uint32, rel bool, exact bool) {
	exact = i%2 == 0 // exactly pages*4096 bytes, or one byte less (control)
	i /= 2
	sz = c11PageSzs[i%len(c11PageSzs)]
	i /= len(c11PageSzs)
	off = c11PageOffs[i%len(c11PageOffs)]
	rel = off <= 0
	i /= len(c11PageOffs)
	pages = 1 + i
	return
}

func c11PageDesc(i int) string {
	pages, off, sz, rel, exact := c11PageDecode(i)
	size := pages * 4096
	if !exact {
		size--
	}
	o := fmt.Sprintf("%d", off)
	if rel {
		o = fmt.Sprintf("size%+d", off)
	}
	return fmt.Sprintf("file of %d bytes whose trailer says TOC offset=%s size=%d", size, o, sz)
}

func c11PageBase() []byte {
	r := &ref.Repo{Name: "victim/paged", ID: 43, Branches: []string{"HEAD"}}
	for i := 0; i < 6; i++ {
		r.Docs = append(r.Docs, &ref.Doc{Name: fmt.Sprintf("p/f%d.txt", i), Content: []byte(strings.Repeat(fmt.Sprintf("abc line %d of a larger file\n", i), 120)), Branches: []string{"HEAD"}, Language: "Text"})
	}
	b, err := gen.BuildSimple(r)
	if err != nil {
		panic(err)
	}
	if len(b) < 3*4096+16 {
		panic(fmt.Sprintf("c11: paged base shard too small: %d bytes", len(b)))
	}
	return b
}

func c11PageVariant(base []byte, i int) []byte {
	pages, off, sz, rel, exact := c11PageDecode(i)
	size := pages * 4096
	if !exact {
		size--
	}
	out := append([]byte{}, base[:size]...)
	o := uint32(off)
	if rel {
		o = uint32(int64(size) + off)
	}
	// trailer layout: big-endian uint32 offset, uint32 size of the TOC section
	out[size-8], out[size-7], out[size-6], out[size-5] = byte(o>>24), byte(o>>16), byte(o>>8), byte(o)
	out[size-4], out[size-3], out[size-2], out[size-1] = byte(sz>>24), byte(sz>>16), byte(sz>>8), byte(sz)
	return out
}
