//go:build verif

package search_test

import (
	"context"
	"fmt"
	"os"
	"path/filepath"
	"sort"
	"strings"
	"testing"

	"github.com/RoaringBitmap/roaring/v2"
	"github.com/grafana/regexp"

	"github.com/sourcegraph/zoekt"
	"github.com/sourcegraph/zoekt/index"
	"github.com/sourcegraph/zoekt/internal/verifshim/gen"
	"github.com/sourcegraph/zoekt/internal/verifshim/mc"
	"github.com/sourcegraph/zoekt/internal/verifshim/ref"
	"github.com/sourcegraph/zoekt/query"
	"github.com/sourcegraph/zoekt/search"
)

// C18: the directory searcher over a set of shards must return the union of what each shard
// returns on its own for the ORIGINAL query (type:repo pre-evaluated over all shards).

type c18Set struct {
	name   string
	dir    string
	ds     zoekt.Streamer
	shards []zoekt.Searcher
}

func c18Repos() []*ref.Repo {
	c := gen.CompoundCorpus()
	four := &ref.Repo{Name: "gamma/four", ID: 4, Branches: []string{"HEAD"}, Metadata: map[string]string{"team": "red"}}
	for i, s := range []string{"abc four", "nothing here", "abd four"} {
		four.Docs = append(four.Docs, &ref.Doc{Name: fmt.Sprintf("g/f%d.go", i), Content: []byte(s), Branches: []string{"HEAD"}, Language: "Go"})
	}
	return append(c, four)
}

func c18Build(root string, name string, layout func(dir string) error) (*c18Set, error) {
	dir := filepath.Join(root, name)
	os.MkdirAll(dir, 0o755)
	if err := layout(dir); err != nil {
		return nil, err
	}
	ds, err := search.NewDirectorySearcher(dir)
	if err != nil {
		return nil, err
	}
	set := &c18Set{name: name, dir: dir, ds: ds}
	files, _ := filepath.Glob(filepath.Join(dir, "*.zoekt"))
	sort.Strings(files)
	for _, f := range files {
		s, err := gen.Open(f)
		if err != nil {
			return nil, err
		}
		set.shards = append(set.shards, s)
	}
	return set, nil
}

func TestVerifC18(t *testing.T) {
	r := mc.NewReport("C18")
	root, clean := gen.Scratch("c18")
	defer clean()
	simple := func(dir string, rs ...*ref.Repo) error {
		for _, rp := range rs {
			if _, err := gen.WriteSimple(dir, rp); err != nil {
				return err
			}
		}
		return nil
	}
	var sets []*c18Set
	add := func(name string, layout func(dir string) error) {
		s, err := c18Build(root, name, layout)
		if err != nil {
			t.Fatal(err)
		}
		sets = append(sets, s)
	}
	add("3simple", func(d string) error { c := c18Repos(); return simple(d, c[0], c[1], c[2]) })
	add("compound12+simple3", func(d string) error {
		c := c18Repos()
		if _, err := gen.WriteCompound(d, c[0], c[1]); err != nil {
			return err
		}
		return simple(d, c[2])
	})
	add("compound123+simple4", func(d string) error {
		c := c18Repos()
		if _, err := gen.WriteCompound(d, c[0], c[1], c[2]); err != nil {
			return err
		}
		return simple(d, c[3])
	})
	add("multishard5+simple1", func(d string) error {
		// one repository spread over three shards by the real Builder
		opts := index.Options{IndexDir: d, ShardMax: 10, Parallelism: 1, DisableCTags: true,
			RepositoryDescription: zoekt.Repository{Name: "delta/five", ID: 5, Branches: []zoekt.RepositoryBranch{{Name: "HEAD", Version: "v5"}, {Name: "dev", Version: "v5d"}}, Metadata: map[string]string{"team": "blue"}}}
		opts.SetDefaults()
		b, err := index.NewBuilder(opts)
		if err != nil {
			return err
		}
		for i, s := range []string{"abc five zero", "abd five one", "xyz five two"} {
			br := []string{"HEAD"}
			if i == 1 {
				br = []string{"HEAD", "dev"}
			}
			if err := b.Add(index.Document{Name: fmt.Sprintf("five/f%d.go", i), Content: []byte(s), Branches: br}); err != nil {
				return err
			}
		}
		if err := b.Finish(); err != nil {
			return err
		}
		return simple(d, c18Repos()[0])
	})
	defer func() {
		for _, s := range sets {
			s.ds.Close()
			for _, sh := range s.shards {
				sh.Close()
			}
		}
	}()

	names := []string{"alpha/one", "beta/two", "alpha/three", "gamma/four", "delta/five"}
	var filters []query.Q
	for m := 0; m < 1<<5; m++ {
		var ns []string
		var ids []uint32
		for i, n := range names {
			if m&(1<<i) != 0 {
				ns = append(ns, n)
				ids = append(ids, uint32(i+1))
			}
		}
		filters = append(filters, query.NewRepoSet(ns...), query.NewRepoIDs(ids...))
		for _, b := range []string{"HEAD", "dev", "main"} {
			filters = append(filters, query.NewSingleBranchesRepos(b, ids...))
		}
	}
	filters = append(filters,
		&query.BranchesRepos{List: []query.BranchRepos{{Branch: "HEAD", Repos: roaring.BitmapOf(1, 4)}, {Branch: "dev", Repos: roaring.BitmapOf(3, 5)}}},
		&query.BranchesRepos{List: []query.BranchRepos{{Branch: "main", Repos: roaring.BitmapOf(2)}, {Branch: "HEAD", Repos: roaring.BitmapOf(2, 3)}}},
		&query.Repo{Regexp: regexp.MustCompile("alpha")}, &query.Repo{Regexp: regexp.MustCompile("one|five")}, &query.Repo{Regexp: regexp.MustCompile(".")}, &query.Repo{Regexp: regexp.MustCompile("zzz")},
		&query.RepoRegexp{Regexp: regexp.MustCompile("two$")},
		&query.Meta{Field: "team", Value: regexp.MustCompile("red")}, &query.Meta{Field: "team", Value: regexp.MustCompile(".")}, &query.Meta{Field: "tier", Value: regexp.MustCompile("1")}, &query.Meta{Field: "zzz", Value: regexp.MustCompile("")},
	)
	content := []query.Q{&query.Substring{Pattern: "abc", Content: true}, &query.Substring{Pattern: "f1"}, &query.Const{Value: true}}
	var qs []query.Q
	for _, f := range filters {
		qs = append(qs, f)
		for _, c := range content {
			qs = append(qs, &query.And{Children: []query.Q{f, c}}, &query.And{Children: []query.Q{c, f}})
		}
		qs = append(qs, &query.Not{Child: f}, &query.Or{Children: []query.Q{f, content[0]}}, &query.And{Children: []query.Q{&query.Not{Child: f}, content[0]}},
			&query.Type{Type: query.TypeRepo, Child: f}, &query.And{Children: []query.Q{&query.Type{Type: query.TypeRepo, Child: content[0]}, f}},
			&query.And{Children: []query.Q{f, &query.Branch{Pattern: "dev"}}})
	}
	for _, c := range content {
		qs = append(qs, &query.Type{Type: query.TypeRepo, Child: c}, &query.And{Children: []query.Q{&query.Type{Type: query.TypeRepo, Child: c}, &query.Substring{Pattern: "abd"}}})
	}
	// type:repo below Or / Not / nested And, including sub-queries that select no repository at all
	// (an empty selection must only empty its own branch of the query)
	trChildren := []query.Q{content[0], content[1], &query.Substring{Pattern: "zzzabsent"}, &query.Substring{Pattern: "xyz", Content: true},
		query.NewRepoSet(), query.NewRepoSet("alpha/one"), &query.Repo{Regexp: regexp.MustCompile("zzz")}, &query.Repo{Regexp: regexp.MustCompile("alpha")},
		&query.And{Children: []query.Q{&query.Substring{Pattern: "abc"}, &query.Substring{Pattern: "zzzabsent"}}}}
	var trs []query.Q
	for _, c := range trChildren {
		trs = append(trs, &query.Type{Type: query.TypeRepo, Child: c})
	}
	for i, t := range trs {
		qs = append(qs, &query.Not{Child: t}, &query.Or{Children: []query.Q{t, content[0]}}, &query.Or{Children: []query.Q{content[1], t}},
			&query.Or{Children: []query.Q{&query.And{Children: []query.Q{t, content[0]}}, &query.Substring{Pattern: "xyz"}}},
			&query.And{Children: []query.Q{&query.Not{Child: t}, content[0]}}, &query.And{Children: []query.Q{t, &query.Not{Child: content[1]}}},
			&query.Or{Children: []query.Q{t, trs[(i+1)%len(trs)]}}, &query.And{Children: []query.Q{t, trs[(i+3)%len(trs)], content[0]}},
			&query.And{Children: []query.Q{&query.Or{Children: []query.Q{t, &query.Repo{Regexp: regexp.MustCompile("two")}}}, content[0]}})
	}
	// two set filters in one conjunction
	for i := 0; i < len(filters); i += 7 {
		for j := 3; j < len(filters); j += 11 {
			qs = append(qs, &query.And{Children: []query.Q{filters[i], filters[j], content[0]}})
		}
	}
	ctx := context.Background()
	// model of type:repo over a shard set: repositories with >= 1 matching document in any shard
	preEval := func(set *c18Set, q query.Q) (query.Q, error) {
		var err error
		q2 := query.Map(q, func(x query.Q) query.Q {
			t, ok := x.(*query.Type)
			if !ok || t.Type != query.TypeRepo {
				return x
			}
			rs := query.NewRepoSet()
			if c, ok := t.Child.(*query.Const); ok && c.Value {
				// type:repo TRUE selects every repository, also one without documents
				for _, sh := range set.shards {
					rl, e := sh.List(ctx, &query.Const{Value: true}, nil)
					if e != nil {
						err = e
						continue
					}
					for _, e := range rl.Repos {
						rs.Set[e.Repository.Name] = true
					}
				}
				return rs
			}
			for _, sh := range set.shards {
				o := zoekt.SearchOptions{ShardMaxMatchCount: 1 << 30, TotalMaxMatchCount: 1 << 30}
				res, e := sh.Search(ctx, t.Child, &o)
				if e != nil {
					err = e
					continue
				}
				for _, f := range res.Files {
					rs.Set[f.Repository] = true
				}
			}
			return rs
		})
		return q2, err
	}
	for _, set := range sets {
		set := set
		mc.ParallelFor(len(qs), func(i int) {
			q := qs[i]
			if r.Expired() {
				r.Incomplete("budget exhausted in %s", set.name)
				return
			}
			for _, chunk := range []bool{false, true} {
				caseID := fmt.Sprintf("%s|search chunk=%v|%s", set.name, chunk, gen.Key(q))
				if !r.Want(caseID) {
					continue
				}
				o := zoekt.SearchOptions{ShardMaxMatchCount: 1 << 30, TotalMaxMatchCount: 1 << 30, ChunkMatches: chunk}
				var got *zoekt.SearchResult
				var err error
				func() {
					defer func() {
						if p := recover(); p != nil {
							err = fmt.Errorf("panic: %v", p)
						}
					}()
					got, err = set.ds.Search(ctx, q, &o)
				}()
				r.Eval(1)
				if err != nil {
					r.Violation("sharded search failed: "+caseID, err.Error(), map[string]any{"case": caseID})
					continue
				}
				pq, err := preEval(set, q)
				if err != nil {
					r.Violation("per-shard search failed: "+caseID, err.Error(), map[string]any{"case": caseID})
					continue
				}
				var want []string
				for _, sh := range set.shards {
					res, err := sh.Search(ctx, pq, &o)
					if err != nil {
						r.Violation("per-shard search failed: "+caseID, err.Error(), map[string]any{"case": caseID})
						continue
					}
					want = append(want, c18Canon(res)...)
				}
				sort.Strings(want)
				g := c18Canon(got)
				if strings.Join(g, "\n") != strings.Join(want, "\n") {
					r.Violation("union: "+caseID, fmt.Sprintf("%s\nquery %s\nper-shard union (%d files):\n%s\nsharded searcher (%d files):\n%s", caseID, q, len(want), strings.Join(want, "\n"), len(g), strings.Join(g, "\n")), map[string]any{"case": caseID})
				}
				if len(want) > 0 {
					r.Nontrivial(caseID)
				}
				if i%211 == 0 && !chunk {
					r.Sample(map[string]any{"case": caseID, "files": len(want)})
				}
			}
			// List
			for _, field := range []zoekt.RepoListField{zoekt.RepoListFieldRepos, zoekt.RepoListFieldReposMap} {
				caseID := fmt.Sprintf("%s|list field=%d|%s", set.name, field, gen.Key(q))
				if !r.Want(caseID) {
					continue
				}
				var got *zoekt.RepoList
				var err error
				func() {
					defer func() {
						if p := recover(); p != nil {
							err = fmt.Errorf("panic: %v", p)
						}
					}()
					got, err = set.ds.List(ctx, q, &zoekt.ListOptions{Field: field})
				}()
				r.Eval(1)
				if err != nil {
					r.Violation("sharded list failed: "+caseID, err.Error(), map[string]any{"case": caseID})
					continue
				}
				pq, _ := preEval(set, q)
				type agg struct {
					shards int
					stats  zoekt.RepoStats
				}
				want := map[string]*agg{}
				for _, sh := range set.shards {
					rl, err := sh.List(ctx, pq, &zoekt.ListOptions{Field: zoekt.RepoListFieldRepos})
					if err != nil {
						r.Violation("per-shard list failed: "+caseID, err.Error(), map[string]any{"case": caseID})
						continue
					}
					for _, e := range rl.Repos {
						k := fmt.Sprintf("%d:%s", e.Repository.ID, e.Repository.Name)
						if field == zoekt.RepoListFieldReposMap {
							k = fmt.Sprintf("%d", e.Repository.ID)
						}
						a := want[k]
						if a == nil {
							a = &agg{}
							want[k] = a
						}
						a.shards++
						a.stats.Add(&e.Stats)
					}
				}
				gotm := map[string]string{}
				dup := ""
				for _, e := range got.Repos {
					k := fmt.Sprintf("%d:%s", e.Repository.ID, e.Repository.Name)
					if _, ok := gotm[k]; ok {
						dup = k
					}
					gotm[k] = fmt.Sprintf("docs=%d content=%d shards=%d", e.Stats.Documents, e.Stats.ContentBytes, e.Stats.Shards)
				}
				for id := range got.ReposMap {
					gotm[fmt.Sprintf("%d", id)] = "map"
				}
				wantm := map[string]string{}
				for k, a := range want {
					if field == zoekt.RepoListFieldReposMap {
						wantm[k] = "map"
					} else {
						wantm[k] = fmt.Sprintf("docs=%d content=%d shards=%d", a.stats.Documents, a.stats.ContentBytes, a.stats.Shards)
					}
				}
				if dup != "" || fmt.Sprint(gotm) != fmt.Sprint(wantm) {
					r.Violation("list: "+caseID, fmt.Sprintf("%s\nquery %s\nduplicate=%q\nper-shard aggregation: %v\nsharded list:          %v", caseID, q, dup, wantm, gotm), map[string]any{"case": caseID})
				}
			}
		})
	}
	r.Assume("per-shard answers come from index.NewSearcher over each shard file with the original query; type:repo(child) is pre-evaluated by the model as the set of repositories with a matching document in any shard (type:repo TRUE: every listed repository)")
	r.Finish("case = (shard set of 4 layouts: simple, compound+simple, 3-compound+simple, one repository over 3 shards) × (Search line/chunk | List repos/map) × queries whose top level is a repository filter (all 32 subsets of RepoSet/RepoIDs/BranchesRepos×{HEAD,dev,main}, two-entry BranchesRepos, Repo/RepoRegexp, Meta, type:repo) alone, And-ed (both orders) with content atoms, under Not/Or, two filters in one conjunction; oracle: sharded result == union of per-shard results; lists: each repository once, stats summed; non-trivial = non-empty union")
}

// c18Canon compares files and matches; the reported branch list is not part of the property
// (a rewritten branch filter legitimately narrows the reported branches to the selected ones).
func c18Canon(res *zoekt.SearchResult) []string {
	var out []string
	for i := range res.Files {
		f := res.Files[i]
		f.Branches = nil
		out = append(out, gen.CanonFile(&f))
	}
	sort.Strings(out)
	return out
}
