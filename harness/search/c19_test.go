//go:build verif

package search

import (
	"testing"

	"github.com/sourcegraph/zoekt/internal/verifshim/mc"
)

func TestVerifC19(t *testing.T) {
	r := mc.NewReport("C19")
	depth := 4
	if r.Thorough() {
		depth = 5
	}
	s, tr := c19Convergence(r, depth)
	r.Add("states", s)
	r.Add("transitions", tr)
	r.Add("traces_validated_against_impl", tr)
	r.Nontrivial("convergence")
	s2, tr2 := c19Replace(r)
	r.Add("states", s2)
	r.Add("transitions", tr2)
	r.Add("traces_validated_against_impl", tr2)
	r.Set("convergence_depth", depth)
	r.Assume("the watch() channel plumbing and fsnotify are not explored; a scan is assumed to run after the last change")
	r.Assume("data races are outside a controlled exploration; a free-running -race stress is auxiliary")
	r.Finish("(a) BFS over directory event histories (write/replace/delete shard of 4 names incl. a newer and an unknown format version, write/delete sidecar, temp file, clock tick, scan) to the stated depth through the real DirectoryWatcher.scan with a recording loader; after a final scan the loaded set must equal the newest-format files on disk with their current sidecars; " +
		"(b) every placement of one or two environment actions {replace shard 1, replace shard 2, drop shard 1, GC+finalizers} at every hook point (start/end of each shard's Search/List, every Send) of one Search / StreamSearch / List on a real shardedSearcher over instrumented index files; oracle: no read after Close, no panic or crash count, file contents intact after further collections, one shard version per repository; non-trivial (b) = a replaced shard was actually closed during the run")
}
