//go:build verif

package search

import (
	"fmt"
	"os"
	"path/filepath"
	"sort"
	"strings"
	"time"

	"github.com/sourcegraph/zoekt/internal/verifshim/gen"
	"github.com/sourcegraph/zoekt/internal/verifshim/mc"
)

// C19(a): convergence of the directory watcher. The real DirectoryWatcher.scan() runs over a
// real directory; the loader is a fake that records which file contents it read. Events are
// explored breadth-first; after a final scan the loaded set must equal the newest-format
// *.zoekt files on disk together with their current sidecars.

type c19Loader struct {
	dir    string
	loaded map[string][2]string // key -> (shard content id, sidecar content id or "")
	stamp  map[string]time.Time // key -> the mtime stamp a scan could see when the key was loaded
	log    []string
}

// c19Stamp is the only thing scan() looks at: the shard's mtime, or the sidecar's if that is later.
func c19Stamp(k string) time.Time {
	fi, err := os.Lstat(k)
	if err != nil {
		return time.Time{}
	}
	t := fi.ModTime()
	if fm, err := os.Lstat(k + ".meta"); err == nil && fm.ModTime().After(t) {
		t = fm.ModTime()
	}
	return t
}

func c19Read(p string) string {
	b, err := os.ReadFile(p)
	if err != nil {
		return ""
	}
	return string(b)
}

func (l *c19Loader) load(keys ...string) {
	sort.Strings(keys)
	for _, k := range keys {
		l.loaded[k] = [2]string{c19Read(k), c19Read(k + ".meta")}
		l.stamp[k] = c19Stamp(k)
		l.log = append(l.log, "load "+filepath.Base(k))
	}
}

func (l *c19Loader) drop(keys ...string) {
	sort.Strings(keys)
	for _, k := range keys {
		delete(l.loaded, k)
		l.log = append(l.log, "drop "+filepath.Base(k))
	}
}

type c19Event struct {
	kind string // tick | shard | rmshard | meta | rmmeta | tmp | scan
	file string
}

func (e c19Event) String() string { return e.kind + ":" + e.file }

type c19World struct {
	dir    string
	w      *DirectoryWatcher
	l      *c19Loader
	clock  int
	nextID int
	equalMtimeReplacements int
}

var c19Base = time.Unix(1_700_000_000, 0)

func newC19World(dir string) *c19World {
	l := &c19Loader{dir: dir, loaded: map[string][2]string{}, stamp: map[string]time.Time{}}
	// the real constructor (a struct literal would miss fields a refactor adds); dir is empty, so its
	// initial scan loads nothing; Stop ends the fsnotify goroutines: from here on only the harness calls scan()
	dw, err := newDirectoryWatcher(dir, l)
	if err == nil {
		err = dw.WaitUntilReady()
	}
	if err != nil {
		panic("TOOL: cannot construct DirectoryWatcher: " + err.Error())
	}
	dw.Stop()
	if len(l.loaded) != 0 {
		panic("TOOL: watcher on an empty directory loaded something")
	}
	return &c19World{dir: dir, l: l, w: dw}
}

func (w *c19World) write(name string) { w.writeAt(name, w.clock) }

// writeAt replaces a file by rename with the modification time of the given clock value (an
// earlier value than the current one: a roll-back that preserves timestamps, rsync -t, a restore).
func (w *c19World) writeAt(name string, clock int) {
	saved := w.clock
	w.clock = clock
	defer func() { w.clock = saved }()
	p := filepath.Join(w.dir, name)
	if st, err := os.Lstat(p); err == nil && st.ModTime().Equal(c19Base.Add(time.Duration(w.clock)*time.Second)) {
		w.equalMtimeReplacements++
	}
	w.nextID++
	// replace by rename, as the indexer does
	tmp := p + ".writing"
	if err := os.WriteFile(tmp, []byte(fmt.Sprintf("content-%d", w.nextID)), 0o644); err != nil {
		panic(err)
	}
	mt := c19Base.Add(time.Duration(w.clock) * time.Second)
	if err := os.Chtimes(tmp, mt, mt); err != nil {
		panic(err)
	}
	if err := os.Rename(tmp, p); err != nil {
		panic(err)
	}
}

func (w *c19World) apply(e c19Event) {
	switch e.kind {
	case "tick":
		w.clock++
	case "shard":
		w.write(e.file)
	case "oldshard":
		w.writeAt(e.file, w.clock-1)
	case "oldmeta":
		w.writeAt(e.file+".meta", w.clock-1)
	case "rmshard":
		os.Remove(filepath.Join(w.dir, e.file))
	case "meta":
		w.write(e.file + ".meta")
	case "rmmeta":
		os.Remove(filepath.Join(w.dir, e.file+".meta"))
	case "tmp":
		os.WriteFile(filepath.Join(w.dir, e.file+".123.tmp"), []byte("partial"), 0o644)
	case "scan":
		if err := w.w.scan(); err != nil {
			panic(err)
		}
	}
}

// expected: newest supported format per name, with current sidecar content.
func (w *c19World) expected() map[string][2]string {
	files, _ := filepath.Glob(filepath.Join(w.dir, "*.zoekt"))
	best := map[string]int{}
	for _, f := range files {
		n, v := c19NameVersion(f)
		if v > 17 {
			continue // unknown future format
		}
		if v > best[n] {
			best[n] = v
		}
	}
	out := map[string][2]string{}
	for _, f := range files {
		n, v := c19NameVersion(f)
		if v <= 17 && best[n] == v {
			out[f] = [2]string{c19Read(f), c19Read(f + ".meta")}
		}
	}
	return out
}

func c19NameVersion(p string) (string, int) {
	b := filepath.Base(p)
	i := strings.LastIndex(b, "_v")
	var v int
	fmt.Sscanf(b[i+2:], "%d", &v)
	return b[:i], v
}

// canon abstracts content ids to the equalities that determine all futures.
func (w *c19World) canon() string {
	var sb strings.Builder
	fmt.Fprintf(&sb, "clock=%d|", w.clock)
	ents, _ := os.ReadDir(w.dir)
	for _, e := range ents {
		if strings.HasSuffix(e.Name(), ".tmp") {
			continue
		}
		fi, _ := e.Info()
		fmt.Fprintf(&sb, "%s@%d,", e.Name(), int(fi.ModTime().Sub(c19Base)/time.Second))
	}
	sb.WriteString("|ts:")
	var ks []string
	for k, t := range w.w.timestamps {
		ks = append(ks, fmt.Sprintf("%s@%d", filepath.Base(k), int(t.Sub(c19Base)/time.Second)))
	}
	sort.Strings(ks)
	sb.WriteString(strings.Join(ks, ","))
	sb.WriteString("|loaded:")
	ks = nil
	for k, v := range w.l.loaded {
		ks = append(ks, fmt.Sprintf("%s:%v:%v", filepath.Base(k), v[0] == c19Read(k), v[1] == c19Read(k+".meta")))
	}
	sort.Strings(ks)
	sb.WriteString(strings.Join(ks, ","))
	return sb.String()
}

func c19Convergence(r *mc.Report, depth int) (states, transitions int) {
	root, clean := gen.Scratch("c19a")
	defer clean()
	files := []string{"a_v16.00000.zoekt", "a_v17.00000.zoekt", "b_v16.00000.zoekt", "a_v99.00000.zoekt"}
	var events []c19Event
	events = append(events, c19Event{"scan", ""}, c19Event{"tick", ""})
	for _, f := range files {
		events = append(events, c19Event{"shard", f}, c19Event{"rmshard", f})
	}
	for _, f := range files[:3] {
		events = append(events, c19Event{"meta", f}, c19Event{"rmmeta", f})
	}
	events = append(events, c19Event{"tmp", "a_v16.00000.zoekt"})
	// replacements whose modification time lies BEFORE the current clock (enabled after the first tick)
	events = append(events, c19Event{"oldshard", files[0]}, c19Event{"oldmeta", files[0]})
	n := 0
	build := func(path []c19Event) *c19World {
		n++
		dir := filepath.Join(root, fmt.Sprintf("w%d", n))
		os.MkdirAll(dir, 0o755)
		w := newC19World(dir)
		for _, e := range path {
			w.apply(e)
		}
		return w
	}
	type node struct{ path []c19Event }
	seen := map[string]bool{}
	w0 := build(nil)
	seen[w0.canon()] = true
	os.RemoveAll(w0.dir)
	frontier := []node{{}}
	states = 1
	for d := 0; d < depth && len(frontier) > 0; d++ {
		var next []node
		for _, nd := range frontier {
			if r.Expired() {
				r.Incomplete("C19(a): budget exhausted at depth %d", d)
				return
			}
			for _, e := range events {
				w := build(nd.path)
				if (e.kind == "tick" && w.clock >= 2) || (strings.HasPrefix(e.kind, "old") && w.clock < 1) {
					os.RemoveAll(w.dir)
					continue
				}
				w.apply(e)
				transitions++
				r.Eval(1)
				path := append(append([]c19Event{}, nd.path...), e)
				// convergence check: quiesce with one more scan ("the directory stops changing")
				c := w.canon()
				w.apply(c19Event{"scan", ""})
				exp := w.expected()
				if fmt.Sprint(exp) != fmt.Sprint(w.l.loaded) {
					kind := "C19a: loaded set differs from disk after the directory stopped changing"
					var diff []string
					invisible := true
					for k, v := range exp {
						if lv, ok := w.l.loaded[k]; !ok {
							diff = append(diff, "not loaded: "+filepath.Base(k))
							invisible = false
						} else if lv != v {
							diff = append(diff, fmt.Sprintf("stale %s: loaded %v, disk %v", filepath.Base(k), lv, v))
							if !c19Stamp(k).Equal(w.l.stamp[k]) {
								invisible = false
							}
						}
					}
					for k := range w.l.loaded {
						if _, ok := exp[k]; !ok {
							invisible = false
						}
					}
					if invisible {
						// every stale entry was changed on disk in a way that left the mtime stamp scan()
						// compares untouched (replacement or new sidecar within one timestamp granule)
						r.Violation("C19a: change invisible to the watcher's mtime comparison (file replaced, or sidecar written, with an mtime not later than the one already loaded)",
							fmt.Sprintf("history %v then scan\n%s\nloader log: %v", path, strings.Join(diff, "\n"), w.l.log), map[string]any{"case": "C19a"})
						os.RemoveAll(w.dir)
						if !seen[c] {
							seen[c] = true
							states++
							next = append(next, node{path})
						}
						continue
					}
					for k := range w.l.loaded {
						if _, ok := exp[k]; !ok {
							diff = append(diff, "still loaded: "+filepath.Base(k))
						}
					}
					sort.Strings(diff)
					r.Violation(kind+": "+c19Generic(diff), fmt.Sprintf("history %v then scan\n%s\nloader log: %v", path, strings.Join(diff, "\n"), w.l.log), map[string]any{"case": "C19a"})
				}
				os.RemoveAll(w.dir)
				if !seen[c] {
					seen[c] = true
					states++
					next = append(next, node{path})
					if states%500 == 1 {
						r.Sample(map[string]any{"history": fmt.Sprint(path), "state": c})
					}
				}
			}
		}
		frontier = next
	}
	return
}

func c19Generic(diff []string) string {
	if len(diff) == 0 {
		return ""
	}
	s := diff[0]
	if i := strings.Index(s, ": loaded"); i > 0 {
		s = s[:i]
	}
	return s
}
