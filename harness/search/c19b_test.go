//go:build verif

package search

import (
	"context"
	"fmt"
	"runtime"
	"sort"
	"strings"
	"sync"
	"sync/atomic"
	"time"

	"github.com/sourcegraph/zoekt"
	"github.com/sourcegraph/zoekt/index"
	"github.com/sourcegraph/zoekt/internal/verifshim/gen"
	"github.com/sourcegraph/zoekt/internal/verifshim/mc"
	"github.com/sourcegraph/zoekt/internal/verifshim/ref"
	"github.com/sourcegraph/zoekt/query"
)

// C19(b): one search / stream search / list on a real shardedSearcher whose shards are real
// indexData values over an instrumented in-memory index file. At every hook point (start and
// end of each shard's Search/List, every Send) the explorer injects environment actions:
// replace a shard by a new version, drop it, or "GC now" (which runs the finalizers that close
// replaced shards). Closing poisons the file bytes and later reads are counted.

type c19File struct {
	data   []byte
	nm     string
	closed atomic.Bool
	world  *c19bWorld
}

func (f *c19File) Read(off, sz uint32) ([]byte, error) {
	if f.closed.Load() {
		f.world.readsAfterClose.Add(1)
		return nil, fmt.Errorf("read after close of %s", f.nm)
	}
	if uint64(off)+uint64(sz) > uint64(len(f.data)) {
		return nil, fmt.Errorf("out of bounds")
	}
	return f.data[off : off+sz], nil
}
func (f *c19File) Size() (uint32, error) { return uint32(len(f.data)), nil }
func (f *c19File) Name() string          { return f.nm }
func (f *c19File) Close() {
	if f.closed.CompareAndSwap(false, true) {
		f.world.closes.Add(1)
		for i := range f.data { // what munmap does to anybody still holding a slice
			f.data[i] = 0xEE
		}
	}
}

type c19bWorld struct {
	ss              *shardedSearcher
	readsAfterClose atomic.Int64
	closes          atomic.Int64
	hookCount       atomic.Int64
	inAction        atomic.Bool
	setup           atomic.Bool
	schedule        map[int64][]string // hook index -> actions
	log             []string
	mu              sync.Mutex
	images          map[string][]byte // "repo/version" -> shard bytes
}

type c19Shard struct {
	zoekt.Searcher
	key string
	w   *c19bWorld
}

func (s *c19Shard) Search(ctx context.Context, q query.Q, opts *zoekt.SearchOptions) (*zoekt.SearchResult, error) {
	s.w.hook("search:pre:" + s.key)
	res, err := s.Searcher.Search(ctx, q, opts)
	s.w.hook("search:post:" + s.key)
	return res, err
}

func (s *c19Shard) List(ctx context.Context, q query.Q, opts *zoekt.ListOptions) (*zoekt.RepoList, error) {
	s.w.hook("list:pre:" + s.key)
	res, err := s.Searcher.List(ctx, q, opts)
	s.w.hook("list:post:" + s.key)
	return res, err
}

func c19GCNow() {
	for i := 0; i < 2; i++ {
		done := make(chan struct{})
		func() {
			s := new([64]byte)
			runtime.SetFinalizer(s, func(*[64]byte) { close(done) })
		}()
		runtime.GC()
		select {
		case <-done:
		case <-time.After(10 * time.Second):
		}
	}
}

func (w *c19bWorld) newShard(key, repo, version string) zoekt.Searcher {
	img := w.images[repo+"/"+version]
	f := &c19File{data: append([]byte{}, img...), nm: key + "@" + version, world: w}
	s, err := index.NewSearcher(f)
	if err != nil {
		panic(err)
	}
	return &c19Shard{Searcher: s, key: key, w: w}
}

func (w *c19bWorld) act(a string) {
	w.inAction.Store(true)
	defer w.inAction.Store(false)
	w.mu.Lock()
	w.log = append(w.log, a)
	w.mu.Unlock()
	switch a {
	case "replace:k1":
		w.ss.replace(map[string]zoekt.Searcher{"k1": w.newShard("k1", "r1", "V2")})
	case "replace:k2":
		w.ss.replace(map[string]zoekt.Searcher{"k2": w.newShard("k2", "r2", "V2")})
	case "drop:k1":
		w.ss.replace(map[string]zoekt.Searcher{"k1": nil})
	case "gc":
		c19GCNow()
	}
}

func (w *c19bWorld) hook(name string) {
	if w.inAction.Load() || w.setup.Load() {
		return // List calls made by replace() itself while ranking a new shard are not hook points
	}
	n := w.hookCount.Add(1)
	for _, a := range w.schedule[n] {
		w.mu.Lock()
		w.log = append(w.log, fmt.Sprintf("@%d(%s)", n, name))
		w.mu.Unlock()
		w.act(a)
	}
}

func c19bContent(repo, version string, i int) string {
	return fmt.Sprintf("document %d of %s version=%s %s", i, repo, version, strings.Repeat(version, 20))
}

func c19Replace(r *mc.Report) (states, transitions int) {
	images := map[string][]byte{}
	for _, repo := range []string{"r1", "r2"} {
		for _, v := range []string{"V1", "V2"} {
			rp := &ref.Repo{Name: repo, ID: uint32(len(images) + 1), Branches: []string{"HEAD"}, Versions: []string{v}}
			for i := 0; i < 3; i++ {
				rp.Docs = append(rp.Docs, &ref.Doc{Name: fmt.Sprintf("f%d.txt", i), Content: []byte(c19bContent(repo, v, i)), Branches: []string{"HEAD"}, Language: "Text"})
			}
			b, err := gen.BuildSimple(rp)
			if err != nil {
				panic(err)
			}
			images[repo+"/"+v] = b
		}
	}
	oldProcs := runtime.GOMAXPROCS(1)
	defer runtime.GOMAXPROCS(oldProcs)
	actions := []string{"replace:k1", "replace:k2", "drop:k1", "gc"}
	// "/chunks" and "/lines": the same calls returning chunk / line matches instead of whole files
	// (every byte slice of a result must have been copied out of the shard's mapping)
	apis := []string{"Search", "StreamSearch", "List", "Search/chunks", "StreamSearch/chunks", "Search/lines"}
	run := func(api string, schedule map[int64][]string) (w *c19bWorld, problems []string) {
		w = &c19bWorld{schedule: schedule, images: images}
		w.ss = newShardedSearcher(4)
		w.setup.Store(true)
		w.ss.replace(map[string]zoekt.Searcher{"k1": w.newShard("k1", "r1", "V1"), "k2": w.newShard("k2", "r2", "V1")})
		w.ss.markReady()
		w.setup.Store(false)
		w.hookCount.Store(0)
		VerifHook = w.hook
		defer func() { VerifHook = nil }()
		ctx := context.Background()
		opts := zoekt.SearchOptions{Whole: true, ShardMaxMatchCount: 1 << 30, TotalMaxMatchCount: 1 << 30}
		api, mode, _ := strings.Cut(api, "/")
		switch mode {
		case "chunks":
			opts.Whole, opts.ChunkMatches = false, true
		case "lines":
			opts.Whole = false
		}
		var files []zoekt.FileMatch
		var crashes int
		var listed []string
		func() {
			defer func() {
				if p := recover(); p != nil {
					problems = append(problems, fmt.Sprintf("panic: %v", p))
				}
			}()
			switch api {
			case "Search":
				res, err := w.ss.Search(ctx, &query.Substring{Pattern: "document"}, &opts)
				if err != nil {
					problems = append(problems, "error: "+err.Error())
					return
				}
				files, crashes = res.Files, res.Stats.Crashes
			case "StreamSearch":
				err := w.ss.StreamSearch(ctx, &query.Substring{Pattern: "document"}, &opts, zoekt.SenderFunc(func(ev *zoekt.SearchResult) {
					w.hook("send")
					files = append(files, ev.Files...)
					crashes += ev.Stats.Crashes
				}))
				if err != nil {
					problems = append(problems, "error: "+err.Error())
				}
			case "List":
				rl, err := w.ss.List(ctx, &query.Const{Value: true}, nil)
				if err != nil {
					problems = append(problems, "error: "+err.Error())
					return
				}
				crashes = rl.Crashes
				for _, e := range rl.Repos {
					listed = append(listed, fmt.Sprintf("%s@%s", e.Repository.Name, e.Repository.Branches[0].Version))
				}
			}
		}()
		// the caller keeps using the result after the call returned and after more collections
		w.setup.Store(true)
		c19GCNow()
		w.ss.replace(map[string]zoekt.Searcher{"k1": nil, "k2": nil})
		c19GCNow()
		if n := w.readsAfterClose.Load(); n > 0 {
			problems = append(problems, fmt.Sprintf("%d reads of a shard file after it was closed", n))
		}
		if crashes > 0 {
			problems = append(problems, fmt.Sprintf("result reports %d crashed shard(s)", crashes))
		}
		perRepo := map[string]map[string]bool{}
		for fi := range files {
			// the text of the (single-line) document as this result mode carries it
			switch mode {
			case "chunks":
				var b []byte
				for _, cm := range files[fi].ChunkMatches {
					b = append(b, cm.Content...)
				}
				files[fi].Content = b
			case "lines":
				var b []byte
				for _, lm := range files[fi].LineMatches {
					b = append(b, lm.Line...)
				}
				files[fi].Content = b
			}
		}
		for _, f := range files {
			ok := false
			for _, v := range []string{"V1", "V2"} {
				for i := 0; i < 3; i++ {
					if f.FileName == fmt.Sprintf("f%d.txt", i) && string(f.Content) == c19bContent(f.Repository, v, i) {
						ok = true
						if perRepo[f.Repository] == nil {
							perRepo[f.Repository] = map[string]bool{}
						}
						perRepo[f.Repository][v] = true
						if f.Version != v {
							problems = append(problems, fmt.Sprintf("%s/%s has content of %s but reports version %s", f.Repository, f.FileName, v, f.Version))
						}
					}
				}
			}
			if !ok {
				c := f.Content
				if len(c) > 40 {
					c = c[:40]
				}
				problems = append(problems, fmt.Sprintf("%s/%s: content is not that of any version (freed memory?): %q", f.Repository, f.FileName, c))
			}
		}
		// every file at most once; without a drop action every repository must be there completely
		seenFile := map[string]int{}
		for _, f := range files {
			seenFile[f.Repository+"/"+f.FileName]++
		}
		for k, n := range seenFile {
			if n > 1 {
				problems = append(problems, fmt.Sprintf("%s returned %d times in one result", k, n))
			}
		}
		dropped := false
		for _, as := range schedule {
			for _, a := range as {
				if strings.HasPrefix(a, "drop") {
					dropped = true
				}
			}
		}
		if api != "List" && !dropped && len(problems) == 0 {
			for _, repo := range []string{"r1", "r2"} {
				for i := 0; i < 3; i++ {
					if seenFile[fmt.Sprintf("%s/f%d.txt", repo, i)] != 1 {
						problems = append(problems, fmt.Sprintf("%s/f%d.txt missing although its repository was loaded during the whole search", repo, i))
					}
				}
			}
		}
		for repo, vs := range perRepo {
			if len(vs) > 1 {
				problems = append(problems, fmt.Sprintf("repository %s: files from two versions of its shard in one result", repo))
			}
		}
		sort.Strings(listed)
		for i := 1; i < len(listed); i++ {
			if strings.Split(listed[i], "@")[0] == strings.Split(listed[i-1], "@")[0] {
				problems = append(problems, "repository listed twice: "+listed[i])
			}
		}
		return w, problems
	}
	for _, api := range apis {
		w0, p0 := run(api, nil)
		if len(p0) > 0 {
			r.Violation("C19b: undisturbed "+api+" misbehaves", strings.Join(p0, "\n"), map[string]any{"case": "C19b"})
			continue
		}
		nh := w0.hookCount.Load()
		type step struct {
			h int64
			a string
		}
		var singles []step
		for h := int64(1); h <= nh; h++ {
			for _, a := range actions {
				singles = append(singles, step{h, a})
			}
		}
		var scheds [][]step
		for _, s := range singles {
			scheds = append(scheds, []step{s})
		}
		for i, s1 := range singles {
			for _, s2 := range singles[i:] {
				if s1.h == s2.h && s1.a == s2.a {
					continue
				}
				scheds = append(scheds, []step{s1, s2})
			}
		}
		for _, sc := range scheds {
			if r.Expired() {
				r.Incomplete("C19(b): budget exhausted in %s", api)
				return
			}
			m := map[int64][]string{}
			for _, s := range sc {
				m[s.h] = append(m[s.h], s.a)
			}
			w, problems := run(api, m)
			transitions++
			states++
			r.Eval(1)
			if len(problems) > 0 {
				sort.Strings(problems)
				r.Violation(fmt.Sprintf("C19b: %s with environment actions %v: %s", api, sc, c19bGeneric(problems[0])),
					fmt.Sprintf("%s, schedule %v\nevent log: %v\n%s", api, sc, w.log, strings.Join(problems, "\n")), map[string]any{"case": "C19b"})
			}
			if w.closes.Load() > 0 {
				r.Nontrivial(fmt.Sprintf("%s %v", api, sc))
			}
			if transitions%397 == 0 {
				r.Sample(map[string]any{"api": api, "schedule": fmt.Sprint(sc), "event_log": w.log, "shard_closes": w.closes.Load()})
			}
		}
	}
	return
}

func c19bGeneric(s string) string {
	if i := strings.Index(s, ":"); i > 0 && strings.HasPrefix(s, "r") {
		return s[i:]
	}
	return s
}
