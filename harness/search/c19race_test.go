//go:build verif

package search

import (
	"context"
	"fmt"
	"sync"
	"testing"

	"github.com/sourcegraph/zoekt"
	"github.com/sourcegraph/zoekt/internal/verifshim/gen"
	"github.com/sourcegraph/zoekt/internal/verifshim/ref"
	"github.com/sourcegraph/zoekt/query"
)

// TestVerifC19Race: free-running replace / drop / Search / StreamSearch / List / GC on one
// shardedSearcher, for `go test -race` (auxiliary evidence for the data-race clause).
func TestVerifC19Race(t *testing.T) {
	w := &c19bWorld{images: map[string][]byte{}}
	for _, repo := range []string{"r1", "r2"} {
		for _, v := range []string{"V1", "V2"} {
			rp := &ref.Repo{Name: repo, ID: uint32(len(w.images) + 1), Branches: []string{"HEAD"}, Versions: []string{v}}
			for i := 0; i < 3; i++ {
				rp.Docs = append(rp.Docs, &ref.Doc{Name: fmt.Sprintf("f%d.txt", i), Content: []byte(c19bContent(repo, v, i)), Branches: []string{"HEAD"}, Language: "Text"})
			}
			b, err := gen.BuildSimple(rp)
			if err != nil {
				t.Fatal(err)
			}
			w.images[repo+"/"+v] = b
		}
	}
	w.setup.Store(true) // no scheduled hooks
	w.ss = newShardedSearcher(4)
	w.ss.replace(map[string]zoekt.Searcher{"k1": w.newShard("k1", "r1", "V1"), "k2": w.newShard("k2", "r2", "V1")})
	w.ss.markReady()
	var wg sync.WaitGroup
	ctx := context.Background()
	for g := 0; g < 4; g++ {
		wg.Add(1)
		go func(g int) {
			defer wg.Done()
			for i := 0; i < 150; i++ {
				o := zoekt.SearchOptions{Whole: true}
				switch (i + g) % 3 {
				case 0:
					if res, err := w.ss.Search(ctx, &query.Substring{Pattern: "document"}, &o); err == nil {
						for _, f := range res.Files {
							_ = len(f.Content)
						}
					}
				case 1:
					_ = w.ss.StreamSearch(ctx, &query.Substring{Pattern: "document"}, &o, zoekt.SenderFunc(func(*zoekt.SearchResult) {}))
				case 2:
					_, _ = w.ss.List(ctx, &query.Const{Value: true}, nil)
				}
			}
		}(g)
	}
	wg.Add(1)
	go func() {
		defer wg.Done()
		for i := 0; i < 60; i++ {
			v := []string{"V1", "V2"}[i%2]
			w.ss.replace(map[string]zoekt.Searcher{"k1": w.newShard("k1", "r1", v)})
			if i%7 == 0 {
				w.ss.replace(map[string]zoekt.Searcher{"k2": nil})
				w.ss.replace(map[string]zoekt.Searcher{"k2": w.newShard("k2", "r2", v)})
			}
			if i%5 == 0 {
				c19GCNow()
			}
		}
	}()
	wg.Wait()
	if n := w.readsAfterClose.Load(); n > 0 {
		t.Errorf("%d reads after close", n)
	}
	w.ss.Close()
}
