//go:build verif

package search

import (
	"context"
	"fmt"
	"strings"
	"testing"

	"github.com/sourcegraph/zoekt/internal/verifshim/mc"
)

// C20: the real multiScheduler / semaphoreScheduler (sched.go with semaphore ->
// vsema and time -> vtime) driven by 2-3 controlled search threads, one
// timer-expiry event per process and one cancel event per cancellable context.

type c20thread struct {
	yields    int
	canCancel bool
	// dynamic
	stage     string // "", "acq", "run", "yielding", "released", "failed"
	ctx       context.Context
	cancel    context.CancelFunc
	proc      *process
	yielded   int
	batch     bool
}

type c20scen struct {
	sched    string // "multi" | "sema"
	capacity int64
	threads  []c20thread
}

func (s c20scen) name() string {
	var p []string
	for _, t := range s.threads {
		c := ""
		if t.canCancel {
			c = "c"
		}
		p = append(p, fmt.Sprintf("y%d%s", t.yields, c))
	}
	return fmt.Sprintf("%s cap=%d [%s]", s.sched, s.capacity, strings.Join(p, " "))
}

func c20Config(sc c20scen) *mc.SchedConfig {
	var ths []*c20thread
	var ms *multiScheduler
	var ss *semaphoreScheduler
	cfg := &mc.SchedConfig{Name: sc.name(), Bound: -1, Horizon: 600}
	invariant := func(e *mc.Exec) {
		if ms == nil {
			return
		}
		inter, batch := 0, 0
		for _, t := range ths {
			if t.stage == "run" {
				if t.batch {
					batch++
				} else {
					inter++
				}
			}
		}
		isz, _, _ := ms.semInteractive.sem.Snapshot()
		bsz, _, _ := ms.semBatch.sem.Snapshot()
		if int64(inter) > isz {
			e.Fail("%d searches run in the interactive stage, capacity %d", inter, isz)
		}
		if int64(batch) > bsz {
			e.Fail("%d searches run in the batch stage, capacity %d", batch, bsz)
		}
	}
	cfg.Setup = func(e *mc.Exec) {
		ths = nil
		ms, ss = nil, nil
		var s scheduler
		if sc.sched == "multi" {
			ms = newMultiScheduler(sc.capacity)
			s = ms
		} else {
			ss = newScheduler2(sc.capacity)
			s = ss
		}
		for i := range sc.threads {
			t := sc.threads[i]
			tp := &t
			ths = append(ths, tp)
			tp.ctx, tp.cancel = context.WithCancel(context.Background())
			e.Go(fmt.Sprintf("search%d", i), func() {
				tp.stage = "acq"
				// the scheduler sees the context through a wrapper whose Err/Done are scheduling points: a
				// cancellation can land between any two observations of the context (e.g. after the
				// semaphore granted a slot and before a later ctx.Err() check)
				octx := &c20Ctx{Context: tp.ctx, e: e, name: fmt.Sprintf("ctx%d", i)}
				proc, err := s.Acquire(octx)
				if err != nil {
					if tp.ctx.Err() == nil {
						e.Fail("Acquire failed (%v) although its context is not done", err)
					}
					if proc != nil {
						e.Fail("Acquire returned both a process and an error")
					}
					tp.stage = "failed"
					return
				}
				tp.proc = proc
				tp.stage = "run"
				invariant(e)
				for k := 0; k < tp.yields; k++ {
					e.Point("work", fmt.Sprintf("search%d", i), nil)
					tp.stage = "yielding"
					wasTimer := proc.yieldTimer != nil
					err := proc.Yield(octx)
					if err != nil {
						if tp.ctx.Err() == nil {
							e.Fail("Yield failed (%v) although its context is not done", err)
						}
						break // contract: stop running and call Release
					}
					if wasTimer && proc.yieldTimer == nil {
						tp.batch = true
					}
					tp.stage = "run"
					tp.yielded++
					invariant(e)
				}
				tp.stage = "releasing"
				proc.Release()
				tp.stage = "released"
			})
			if tp.canCancel {
				e.GoWhen(fmt.Sprintf("cancel%d", i), func() bool { return tp.stage != "released" && tp.stage != "failed" && tp.ctx.Err() == nil }, func() {
					tp.cancel()
				})
			}
		}
	}
	cfg.StateKey = func(e *mc.Exec) string {
		var sb strings.Builder
		for _, t := range ths {
			fmt.Fprintf(&sb, "%s,%v,%d,%v,%v;", t.stage, t.batch, t.yielded, t.ctx.Err() != nil, t.proc != nil && t.proc.yieldTimer != nil)
		}
		fmt.Fprintf(&sb, "v%d", len(e.Violations()))
		return sb.String()
	}
	cfg.Check = func(e *mc.Exec) {
		for i, t := range ths {
			if t.stage != "released" && t.stage != "failed" {
				e.Fail("search%d ended in stage %q", i, t.stage)
			}
			t.cancel()
		}
		check := func(name string, sz, cur int64, waiters, acq, rel int) {
			if cur != 0 || waiters != 0 {
				e.Fail("%s semaphore not idle at quiescence: %d/%d held, %d waiters (slot leak)", name, cur, sz, waiters)
			}
			if acq != rel {
				e.Fail("%s semaphore: %d acquisitions but %d releases", name, acq, rel)
			}
		}
		if ms != nil {
			for _, x := range []*sema{ms.semInteractive, ms.semBatch} {
				sz, c, w := x.sem.Snapshot()
				if x.sem.MaxCur > sz {
					e.Fail("semaphore over capacity: %d > %d", x.sem.MaxCur, sz)
				}
				n := "interactive"
				if x == ms.semBatch {
					n = "batch"
				}
				check(n, sz, c, w, x.sem.Acquired, x.sem.Released)
			}
		} else {
			sz, c, w := ss.throttle.Snapshot()
			check("throttle", sz, c, w, ss.throttle.Acquired, ss.throttle.Released)
		}
	}
	return cfg
}

// c20Ctx makes every observation of a context by the code under test a scheduling point.
type c20Ctx struct {
	context.Context
	e    *mc.Exec
	name string
}

func (c *c20Ctx) Err() error {
	c.e.Point("ctx.Err", c.name, nil)
	return c.Context.Err()
}

func (c *c20Ctx) Done() <-chan struct{} {
	c.e.Point("ctx.Done", c.name, nil)
	return c.Context.Done()
}

func newScheduler2(capacity int64) *semaphoreScheduler {
	old := zoektSched
	zoektSched = map[string]int{"disable": 1}
	defer func() { zoektSched = old }()
	return newScheduler(capacity).(*semaphoreScheduler)
}

func TestVerifC20(t *testing.T) {
	r := mc.NewReport("C20")
	var scens []c20scen
	add := func(sched string, cap int64, n int, yields []int, maxCancel int) {
		// all assignments of yields and cancel flags to n threads (as multisets)
		type tv struct {
			y int
			c bool
		}
		var vals []tv
		for _, y := range yields {
			vals = append(vals, tv{y, false}, tv{y, true})
		}
		var rec func(start int, cur []tv)
		rec = func(start int, cur []tv) {
			if len(cur) == n {
				nc := 0
				sc := c20scen{sched: sched, capacity: cap}
				for _, v := range cur {
					if v.c {
						nc++
					}
					sc.threads = append(sc.threads, c20thread{yields: v.y, canCancel: v.c})
				}
				if nc <= maxCancel {
					scens = append(scens, sc)
				}
				return
			}
			for i := start; i < len(vals); i++ {
				rec(i, append(cur, vals[i]))
			}
		}
		rec(0, nil)
	}
	for _, cap := range []int64{1, 2} {
		add("multi", cap, 2, []int{0, 1, 2}, 2)
		add("multi", cap, 3, []int{1}, 1)
		add("sema", cap, 3, []int{0}, 2)
	}
	if r.Thorough() {
		for _, cap := range []int64{1, 2} {
			add("multi", cap, 3, []int{1, 2}, 3)
		}
		add("multi", 8, 3, []int{1, 2}, 1) // batch capacity 2
		add("multi", 4, 4, []int{1}, 1)
	}
	for _, sc := range scens {
		name := sc.name()
		if !r.Want(name) {
			continue
		}
		if r.Expired() {
			r.Incomplete("budget exhausted before scenario %s", name)
			break
		}
		cfg := c20Config(sc)
		cfg.Stop = r.Expired
		res := mc.Explore(cfg)
		r.SchedReport(name, res)
		r.Nontrivial(name)
		r.Sample(map[string]any{"scenario": name, "executions": res.Execs, "states": res.States, "max_points": res.MaxPoints})
	}
	r.Set("bound", "unbounded preemptions, visited-state pruning")
	r.Assume("golang.org/x/sync/semaphore.Weighted meets its contract as modelled by vsema (FIFO, done context wins, cancel-safe)")
	r.Assume("scheduling points: every semaphore Acquire/wake/Release, every timer expiry, every cancel, one point between Yields")
	r.Finish("one case = one scenario (scheduler kind, capacity, per-thread number of Yields and cancellability); all interleavings incl. timer expiry and cancel events explored")
}
