//go:build verif

package search

import (
	"context"
	"errors"
	"fmt"
	"strings"
	"testing"

	"github.com/sourcegraph/zoekt"
	"github.com/sourcegraph/zoekt/internal/verifshim/mc"
	"github.com/sourcegraph/zoekt/query"
)

// C20 (second part): "every acquired slot is released exactly once, whether the search
// finishes ..." also concerns the three places that acquire a slot for a request:
// shardedSearcher.Search, StreamSearch and List. Every history of <= depth requests over
// {Search, StreamSearch, List} x {shards answer, one shard fails, one shard panics, a sender
// that panics is not used; context already cancelled, context cancelled by the shard while it
// runs} runs on the real shardedSearcher with a capacity-1 scheduler (multi and semaphore
// kinds); after every request both semaphores must be idle and acquisitions == releases.

type c20Shard struct {
	name string
	mode *string // shared: "ok" | "err" | "panic" | "cancel"
	fail bool    // this shard is the one that misbehaves
	cancel *context.CancelFunc
}

var errC20Shard = errors.New("c20: shard cannot evaluate this query")

func (s *c20Shard) behave() error {
	if !s.fail {
		return nil
	}
	switch *s.mode {
	case "err":
		return errC20Shard
	case "panic":
		panic("c20: shard panics")
	case "cancel":
		if *s.cancel != nil {
			(*s.cancel)()
		}
	}
	return nil
}

func (s *c20Shard) Search(ctx context.Context, q query.Q, opts *zoekt.SearchOptions) (*zoekt.SearchResult, error) {
	if err := s.behave(); err != nil {
		return nil, err
	}
	if err := ctx.Err(); err != nil {
		return nil, err
	}
	return &zoekt.SearchResult{Files: []zoekt.FileMatch{{FileName: s.name + ".txt", Repository: s.name}}, Stats: zoekt.Stats{FilesConsidered: 1, ShardsScanned: 1}}, nil
}

func (s *c20Shard) List(ctx context.Context, q query.Q, opts *zoekt.ListOptions) (*zoekt.RepoList, error) {
	if err := s.behave(); err != nil {
		return nil, err
	}
	if err := ctx.Err(); err != nil {
		return nil, err
	}
	return &zoekt.RepoList{Repos: []*zoekt.RepoListEntry{{Repository: zoekt.Repository{Name: s.name, ID: 7}}}}, nil
}

func (s *c20Shard) Close()         {}
func (s *c20Shard) String() string { return "c20shard(" + s.name + ")" }

func c20Idle(s scheduler) string {
	var msgs []string
	chk := func(name string, sz, cur int64, waiters, acq, rel int) {
		if cur != 0 || waiters != 0 {
			msgs = append(msgs, fmt.Sprintf("%s semaphore not idle after the request returned: %d/%d held, %d waiters (slot leak)", name, cur, sz, waiters))
		}
		if acq != rel {
			msgs = append(msgs, fmt.Sprintf("%s semaphore: %d acquisitions but %d releases", name, acq, rel))
		}
	}
	switch x := s.(type) {
	case *multiScheduler:
		sz, c, w := x.semInteractive.sem.Snapshot()
		chk("interactive", sz, c, w, x.semInteractive.sem.Acquired, x.semInteractive.sem.Released)
		sz, c, w = x.semBatch.sem.Snapshot()
		chk("batch", sz, c, w, x.semBatch.sem.Acquired, x.semBatch.sem.Released)
	case *semaphoreScheduler:
		sz, c, w := x.throttle.Snapshot()
		chk("throttle", sz, c, w, x.throttle.Acquired, x.throttle.Released)
	}
	return strings.Join(msgs, "; ")
}

func TestVerifC20Callers(t *testing.T) {
	r := mc.NewReport("C20")
	ops := []string{"Search", "StreamSearch", "List"}
	modes := []string{"ok", "err", "panic", "cancel", "precancelled"}
	type step struct{ op, mode string }
	var alphabet []step
	for _, o := range ops {
		for _, m := range modes {
			alphabet = append(alphabet, step{o, m})
		}
	}
	depth := 2
	if r.Thorough() {
		depth = 3
	}
	q := &query.Substring{Pattern: "needle"}
	outcomes := map[string]bool{}
	run := func(kind string, nshards int, hist []step) {
		name := fmt.Sprintf("callers %s shards=%d ", kind, nshards)
		for _, s := range hist {
			name += s.op + ":" + s.mode + " "
		}
		name = strings.TrimSpace(name)
		if !r.Want(name) {
			return
		}
		r.Eval(1)
		mode := "ok"
		var cancel context.CancelFunc
		ss := &shardedSearcher{shards: make(map[string]*rankedShard)}
		if kind == "multi" {
			ss.sched = newMultiScheduler(1)
		} else {
			ss.sched = newScheduler2(1)
		}
		m := map[string]zoekt.Searcher{}
		for i := 0; i < nshards; i++ {
			m[fmt.Sprintf("shard%d", i)] = &c20Shard{name: fmt.Sprintf("r%d", i), mode: &mode, fail: i == nshards-1, cancel: &cancel}
		}
		ss.replace(m)
		ss.markReady()
		defer ss.Close()
		for k, s := range hist {
			ctx, cf := context.WithCancel(context.Background())
			cancel = cf
			mode = s.mode
			if s.mode == "precancelled" {
				cf()
				mode = "ok"
			}
			var err error
			func() {
				defer func() {
					if p := recover(); p != nil {
						err = fmt.Errorf("panic: %v", p)
					}
				}()
				switch s.op {
				case "Search":
					_, err = ss.Search(ctx, q, &zoekt.SearchOptions{})
				case "StreamSearch":
					err = ss.StreamSearch(ctx, q, &zoekt.SearchOptions{}, zoekt.SenderFunc(func(*zoekt.SearchResult) {}))
				case "List":
					_, err = ss.List(ctx, q, nil)
				}
			}()
			cf()
			mode = "ok"
			outcomes[fmt.Sprintf("%s:%s:err=%v", s.op, s.mode, err != nil)] = true
			if msg := c20Idle(ss.sched); msg != "" {
				r.Violation(name, fmt.Sprintf("after request %d (%s, shard behaviour %s, returned err=%v): %s", k+1, s.op, s.mode, err, msg), map[string]any{"case": name})
				return // the next request would wait for the leaked slot forever
			}
		}
		r.Nontrivial(name)
	}
	var rec func(kind string, nshards int, hist []step)
	rec = func(kind string, nshards int, hist []step) {
		if len(hist) > 0 {
			run(kind, nshards, hist)
		}
		if len(hist) == depth || r.Expired() {
			return
		}
		for _, a := range alphabet {
			rec(kind, nshards, append(append([]step{}, hist...), a))
		}
	}
	for _, kind := range []string{"multi", "sema"} {
		for _, n := range []int{1, 2} {
			rec(kind, n, nil)
		}
	}
	if r.Expired() {
		r.Incomplete("budget exhausted")
	}
	r.Set("distinct_outcomes", len(outcomes))
	r.Set("depth", depth)
	r.Finish(fmt.Sprintf("every history of <= %d requests over {Search, StreamSearch, List} x {ok, shard error, shard panic, cancel while the shard runs, context already cancelled} on the real shardedSearcher (1 and 2 shards, multi and semaphore scheduler of capacity 1); after every request all semaphores idle and acquisitions == releases", depth))
}
