//go:build verif

package search

import (
	"context"
	"fmt"
	"os"
	"path/filepath"
	"runtime"
	"sort"
	"strings"
	"sync"
	"sync/atomic"
	"testing"

	"github.com/sourcegraph/zoekt"
	"github.com/sourcegraph/zoekt/internal/verifshim/gen"
	"github.com/sourcegraph/zoekt/internal/verifshim/mc"
	"github.com/sourcegraph/zoekt/internal/verifshim/ref"
	"github.com/sourcegraph/zoekt/query"
)

// C21: limits and cancellation only remove whole files.

// c21PollCtx reports cancellation from its k-th Done() poll on (k<=0: never) and counts polls.
type c21PollCtx struct {
	context.Context
	polls    atomic.Int64
	cancelAt int64
	closed   chan struct{}
}

func newC21PollCtx(k int64) *c21PollCtx {
	c := &c21PollCtx{Context: context.Background(), cancelAt: k, closed: make(chan struct{})}
	close(c.closed)
	return c
}

func (c *c21PollCtx) Done() <-chan struct{} {
	n := c.polls.Add(1)
	if c.cancelAt > 0 && n >= c.cancelAt {
		return c.closed
	}
	return nil
}

func (c *c21PollCtx) Err() error {
	if c.cancelAt > 0 && c.polls.Load() >= c.cancelAt {
		return context.Canceled
	}
	return nil
}

// c21Hook wraps a shard searcher; before is called at the start of every Search.
type c21Hook struct {
	zoekt.Searcher
	before func(ctx context.Context)
	after  func(res *zoekt.SearchResult)
}

func (h *c21Hook) Search(ctx context.Context, q query.Q, opts *zoekt.SearchOptions) (*zoekt.SearchResult, error) {
	if h.before != nil {
		h.before(ctx)
	}
	res, err := h.Searcher.Search(ctx, q, opts)
	if err == nil && h.after != nil {
		h.after(res)
	}
	return res, err
}

func c21Files(res *zoekt.SearchResult) map[string]string {
	out := map[string]string{}
	for i := range res.Files {
		f := &res.Files[i]
		k := f.Repository + "\x00" + f.FileName
		if _, dup := out[k]; dup {
			// a file returned twice: surfaces as a "new file" in the subset check
			out["DUP:"+k] = gen.CanonFile(f)
		}
		out[k] = gen.CanonFile(f)
	}
	return out
}

func c21Queries() []query.Q {
	text := gen.SubstringAtoms([]string{"ab", "abc", "f1", "a"}, [][2]bool{{false, true}, {false, false}})
	res := gen.RegexpAtoms([]string{"ab.", "a|b", "^a"}, [][2]bool{{false, true}})
	var qs []query.Q
	qs = append(qs, &query.Const{Value: true})
	qs = append(qs, text...)
	qs = append(qs, res...)
	for _, f := range []query.Q{&query.Branch{Pattern: "dev"}, query.NewRepoIDs(1, 3), &query.Language{Language: "Go"}, query.NewSingleBranchesRepos("HEAD", 1, 3)} {
		qs = append(qs, f, &query.And{Children: []query.Q{f, text[0]}}, &query.Or{Children: []query.Q{f, text[2]}}, &query.And{Children: []query.Q{&query.Not{Child: f}, text[6]}})
	}
	// match trees that do not advance by themselves (negation at the root, or below Or/And without an
	// advancing sibling): document iteration is driven by the search loop alone
	nots := []query.Q{&query.Not{Child: text[1]}, &query.Not{Child: text[5]}, &query.Not{Child: &query.Language{Language: "Go"}}, &query.Not{Child: res[0]}}
	for i, n := range nots {
		qs = append(qs, n, &query.Or{Children: []query.Q{n, text[2]}}, &query.And{Children: []query.Q{n, nots[(i+1)%len(nots)]}},
			&query.Or{Children: []query.Q{&query.Branch{Pattern: "dev"}, n}}, &query.And{Children: []query.Q{n, &query.Branch{Pattern: "HEAD"}}})
	}
	return qs
}

func TestVerifC21(t *testing.T) {
	r := mc.NewReport("C21")
	root, clean := gen.Scratch("c21")
	defer clean()
	corpus := gen.CompoundCorpus()
	cdir := filepath.Join(root, "c")
	os.MkdirAll(cdir, 0o755)
	cpath, err := gen.WriteCompound(cdir, corpus...)
	if err != nil {
		t.Fatal(err)
	}
	compound, err := gen.Open(cpath)
	if err != nil {
		t.Fatal(err)
	}
	defer compound.Close()
	qs := c21Queries()
	unlimited := zoekt.SearchOptions{ShardMaxMatchCount: 1 << 30, TotalMaxMatchCount: 1 << 30}
	states, transitions := 0, 0
	var mu sync.Mutex
	subsetCheck := func(caseID string, q query.Q, base, got map[string]string) {
		for k, v := range got {
			bv, ok := base[k]
			if !ok {
				r.Violation("new file under limit/cancel: "+caseID, fmt.Sprintf("%s\nquery %s\nfile %q is returned only with the limit/cancellation", caseID, q, strings.ReplaceAll(k, "\x00", ":")), map[string]any{"case": caseID})
			} else if bv != v {
				r.Violation("file altered under limit/cancel: "+caseID, fmt.Sprintf("%s\nquery %s\nwithout: %s\nwith:    %s", caseID, q, bv, v), map[string]any{"case": caseID})
			}
		}
	}

	// ---- (1) index level: limits ----
	mc.ParallelFor(len(qs), func(qi int) {
		q := qs[qi]
		for _, chunk := range []bool{false, true} {
			bo := unlimited
			bo.ChunkMatches = chunk
			baseRes, err := compound.Search(context.Background(), q, &bo)
			if err != nil {
				r.Violation("baseline search failed "+gen.Key(q), err.Error(), nil)
				return
			}
			base := c21Files(baseRes)
			for _, sm := range []int{0, 1, 2, 1000} {
				for _, srm := range []int{0, 1, 2} {
					caseID := fmt.Sprintf("index limits shardmax=%d repomax=%d chunk=%v|%s", sm, srm, chunk, gen.Key(q))
					if !r.Want(caseID) {
						continue
					}
					o := zoekt.SearchOptions{ShardMaxMatchCount: sm, ShardRepoMaxMatchCount: srm, ChunkMatches: chunk}
					res, err := compound.Search(context.Background(), q, &o)
					r.Eval(1)
					if err != nil {
						r.Violation("limited search failed: "+caseID, err.Error(), map[string]any{"case": caseID})
						continue
					}
					got := c21Files(res)
					subsetCheck(caseID, q, base, got)
					if len(got) < len(base) {
						r.Nontrivial(caseID)
					}
				}
			}
			// ---- (2) index level: cancellation at every poll ----
			cnt := newC21PollCtx(0)
			if _, err := compound.Search(cnt, q, &bo); err != nil {
				continue
			}
			polls := cnt.polls.Load()
			for k := int64(1); k <= polls+1; k++ {
				caseID := fmt.Sprintf("index cancel@poll%d chunk=%v|%s", k, chunk, gen.Key(q))
				if !r.Want(caseID) {
					continue
				}
				c := newC21PollCtx(k)
				var res *zoekt.SearchResult
				var err error
				func() {
					defer func() {
						if p := recover(); p != nil {
							err = fmt.Errorf("panic: %v", p)
						}
					}()
					res, err = compound.Search(c, q, &bo)
				}()
				r.Eval(1)
				mu.Lock()
				transitions++
				states++
				mu.Unlock()
				if err != nil {
					if err != context.Canceled {
						r.Violation("cancelled search failed: "+caseID, err.Error(), map[string]any{"case": caseID})
					}
					continue
				}
				got := c21Files(res)
				subsetCheck(caseID, q, base, got)
				// promptness in steps: the k-th poll reports cancellation; polls 2..k-1 each admitted at most one document
				if int64(res.Stats.FilesConsidered) > k-1 {
					r.Violation("cancellation not prompt: "+caseID, fmt.Sprintf("%s: cancelled at poll %d but %d documents were evaluated", caseID, k, res.Stats.FilesConsidered), map[string]any{"case": caseID})
				}
				if c.polls.Load() > k+1 {
					r.Violation("cancellation not prompt: polls continue: "+caseID, fmt.Sprintf("%s: %d polls after cancellation at %d", caseID, c.polls.Load(), k), map[string]any{"case": caseID})
				}
				if k <= polls && len(got) < len(base) {
					r.Nontrivial(caseID)
				}
			}
		}
	})

	// ---- (3) directory level: limits incl. TotalMaxMatchCount, cancellation at every shard / send hook ----
	oldProcs := runtime.GOMAXPROCS(1)
	defer runtime.GOMAXPROCS(oldProcs)
	sdir := filepath.Join(root, "s")
	os.MkdirAll(sdir, 0o755)
	var shardPaths []string
	four := &ref.Repo{Name: "gamma/four", ID: 4, Branches: []string{"HEAD"}, RawConfig: map[string]string{"priority": "5"}}
	for i, s := range []string{"abc four", "ab ab ab\nab", "abd four f1"} {
		four.Docs = append(four.Docs, &ref.Doc{Name: fmt.Sprintf("g/f%d.go", i), Content: []byte(s), Branches: []string{"HEAD"}, Language: "Go"})
	}
	for _, rp := range []*ref.Repo{corpus[0], four} {
		p, err := gen.WriteSimple(sdir, rp)
		if err != nil {
			t.Fatal(err)
		}
		shardPaths = append(shardPaths, p)
	}
	p23, err := gen.WriteCompound(sdir, gen.CompoundCorpus()[1:]...)
	if err != nil {
		t.Fatal(err)
	}
	shardPaths = append(shardPaths, p23)
	type hooks struct {
		searchCalls atomic.Int64
		sendCalls   atomic.Int64
		cancelAtSearch, cancelAtSend int64
		cancel      context.CancelFunc
		cancelled   atomic.Bool
		lateWork    atomic.Int64 // documents evaluated by shard searches that started after the cancel
	}
	mkSharded := func(h *hooks) *shardedSearcher {
		ss := newShardedSearcher(2)
		m := map[string]zoekt.Searcher{}
		for _, p := range shardPaths {
			s, err := gen.Open(p)
			if err != nil {
				t.Fatal(err)
			}
			var startedAfter bool
			hk := &c21Hook{Searcher: s}
			hk.before = func(ctx context.Context) {
				n := h.searchCalls.Add(1)
				startedAfter = h.cancelled.Load()
				if h.cancelAtSearch > 0 && n == h.cancelAtSearch {
					h.cancelled.Store(true)
					h.cancel()
					startedAfter = true
				}
			}
			hk.after = func(res *zoekt.SearchResult) {
				if startedAfter {
					h.lateWork.Add(int64(res.Stats.FilesConsidered))
				}
			}
			m[p] = hk
		}
		ss.replace(m)
		ss.markReady()
		return ss
	}
	runDir := func(h *hooks, q query.Q, o zoekt.SearchOptions, stream bool) (map[string]string, error) {
		ss := mkSharded(h)
		defer ss.Close()
		ctx, cancel := context.WithCancel(context.Background())
		defer cancel()
		h.cancel = cancel
		if !stream {
			res, err := ss.Search(ctx, q, &o)
			if err != nil {
				return nil, err
			}
			return c21Files(res), nil
		}
		out := map[string]string{}
		var smu sync.Mutex
		err := ss.StreamSearch(ctx, q, &o, zoekt.SenderFunc(func(ev *zoekt.SearchResult) {
			n := h.sendCalls.Add(1)
			if h.cancelAtSend > 0 && n == h.cancelAtSend {
				h.cancelled.Store(true)
				h.cancel()
			}
			smu.Lock()
			for k, v := range c21Files(ev) {
				if _, dup := out[k]; dup {
					out["DUP:"+k] = v
				}
				out[k] = v
			}
			smu.Unlock()
		}))
		return out, err
	}
	for qi, q := range qs {
		if r.Expired() {
			r.Incomplete("budget exhausted at directory level query %d of %d", qi, len(qs))
			break
		}
		for _, stream := range []bool{false, true} {
			h0 := &hooks{}
			base, err := runDir(h0, q, unlimited, stream)
			if err != nil {
				r.Violation("baseline sharded search failed "+gen.Key(q), err.Error(), nil)
				continue
			}
			nSearch, nSend := h0.searchCalls.Load(), h0.sendCalls.Load()
			for _, sm := range []int{0, 1, 2} {
				for _, srm := range []int{0, 1} {
					for _, tm := range []int{0, 1, 3} {
						caseID := fmt.Sprintf("dir limits shardmax=%d repomax=%d totalmax=%d stream=%v|%s", sm, srm, tm, stream, gen.Key(q))
						if !r.Want(caseID) {
							continue
						}
						got, err := runDir(&hooks{}, q, zoekt.SearchOptions{ShardMaxMatchCount: sm, ShardRepoMaxMatchCount: srm, TotalMaxMatchCount: tm}, stream)
						r.Eval(1)
						if err != nil {
							r.Violation("limited sharded search failed: "+caseID, err.Error(), map[string]any{"case": caseID})
							continue
						}
						subsetCheck(caseID, q, base, got)
						if len(got) < len(base) {
							r.Nontrivial(caseID)
						}
					}
				}
			}
			type cp struct {
				kind string
				k    int64
			}
			var cps []cp
			for k := int64(1); k <= nSearch; k++ {
				cps = append(cps, cp{"search", k})
			}
			if stream {
				for k := int64(1); k <= nSend; k++ {
					cps = append(cps, cp{"send", k})
				}
			}
			for _, c := range cps {
				caseID := fmt.Sprintf("dir cancel@%s%d stream=%v|%s", c.kind, c.k, stream, gen.Key(q))
				if !r.Want(caseID) {
					continue
				}
				h := &hooks{}
				if c.kind == "search" {
					h.cancelAtSearch = c.k
				} else {
					h.cancelAtSend = c.k
				}
				var got map[string]string
				var err error
				func() {
					defer func() {
						if p := recover(); p != nil {
							err = fmt.Errorf("panic: %v", p)
						}
					}()
					got, err = runDir(h, q, unlimited, stream)
				}()
				r.Eval(1)
				transitions++
				states++
				if err != nil {
					if err != context.Canceled {
						r.Violation("cancelled sharded search failed: "+caseID, err.Error(), map[string]any{"case": caseID})
					}
					continue
				}
				subsetCheck(caseID, q, base, got)
				if h.lateWork.Load() > 0 {
					r.Violation("cancellation not prompt: "+caseID, fmt.Sprintf("%s: shard searches started after the cancellation evaluated %d documents", caseID, h.lateWork.Load()), map[string]any{"case": caseID})
				}
				if len(got) < len(base) {
					r.Nontrivial(caseID)
				}
				if qi == 1 && c.k == 1 {
					var ks []string
					for k := range got {
						ks = append(ks, strings.ReplaceAll(k, "\x00", ":"))
					}
					sort.Strings(ks)
					r.Sample(map[string]any{"case": caseID, "files_unlimited": len(base), "files_after_cancel": ks})
				}
			}
		}
	}
	r.Add("states", states)
	r.Add("transitions", transitions)
	r.Add("traces_validated_against_impl", int(r.Evals()))
	r.Assume("'promptly' is measured in steps: after the poll/hook that reports cancellation no further document (index level) and no further shard (directory level, GOMAXPROCS=1) is evaluated; no wall-clock oracle; deadlines are cancellation at a hook")
	r.Finish("index level: 55 queries (incl. negations at the root and under Or/And) × line/chunk × ShardMaxMatchCount {0,1,2,1000} × ShardRepoMaxMatchCount {0,1,2} and cancellation at EVERY context poll of the unlimited run; directory level (3 shards incl. a compound one, instrumented shard wrappers): ShardMax {0,1,2} × RepoMax {0,1} × TotalMax {0,1,3} × Search/StreamSearch and cancellation at every shard-search start and every Send; oracle: returned files ⊆ unlimited files and each kept file identical (matches, branches); non-trivial = files were actually removed")
}
