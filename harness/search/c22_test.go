//go:build verif

package search

import (
	"bytes"
	"context"
	"fmt"
	"os"
	"reflect"
	"runtime"
	"sort"
	"strings"
	"sync"
	"testing"
	"time"

	"github.com/sourcegraph/zoekt"
	"github.com/sourcegraph/zoekt/index"
	"github.com/sourcegraph/zoekt/internal/verifshim/gen"
	"github.com/sourcegraph/zoekt/internal/verifshim/mc"
	"github.com/sourcegraph/zoekt/internal/verifshim/ref"
	"github.com/sourcegraph/zoekt/query"
)

// C22: display limits return the beginning of the unlimited ranked result.
//
// Part A (inputs): every document over a token alphabet, searched on a real
// shard; every match limit is applied to every returned file with the real
// truncator; the cut chunk is recomputed from the document.
// Part B (histories): BFS over sequences of result events (disjoint subsets
// of a pool of real FileMatches with distinct scores and three extensions)
// fed into the REAL collectSender (the Search path), the REAL
// newFlushCollectSender+limitSender wiring of StreamSearch (pass-through and
// collected), and collectSender -> limitSender with a timer flush at every
// position; every (mode, doc limit, match limit); a fresh pipeline is built
// and the whole history replayed for every successor, and the same history
// without limits gives "its unlimited ranked result".
// Part C (end to end): Search and StreamSearch of a real directory searcher
// over three shards with GOMAXPROCS=1.
//
// The reference truncation is c22Env.trunc.

// ---------- line table and reference truncation ----------

type c22Env struct {
	docs  map[string][]byte // repository/name -> content
	ctx   int
	chunk bool
}

func c22Key(f *zoekt.FileMatch) string { return f.Repository + "/" + f.FileName }

// c22LineStart returns the offset of the first byte of 1-based line n, clamped to len(doc).
func c22LineStart(doc []byte, n int) int {
	if n <= 1 {
		return 0
	}
	line := 1
	for i, b := range doc {
		if b == '\n' {
			line++
			if line == n {
				return i + 1
			}
		}
	}
	return len(doc)
}

func c22NumMatches(f *zoekt.FileMatch, chunk bool) int {
	n := 0
	if chunk {
		for i := range f.ChunkMatches {
			n += len(f.ChunkMatches[i].Ranges)
		}
	} else {
		for i := range f.LineMatches {
			n += len(f.LineMatches[i].LineFragments)
		}
	}
	return n
}

// c22Copy copies everything the truncation code writes to (slice headers inside
// the match structs); byte and range arrays are only ever re-sliced.
func c22Copy(f zoekt.FileMatch) zoekt.FileMatch {
	f.ChunkMatches = append([]zoekt.ChunkMatch(nil), f.ChunkMatches...)
	f.LineMatches = append([]zoekt.LineMatch(nil), f.LineMatches...)
	return f
}

func c22CopyAll(fs []zoekt.FileMatch) []zoekt.FileMatch {
	out := make([]zoekt.FileMatch, len(fs))
	for i := range fs {
		out[i] = c22Copy(fs[i])
	}
	return out
}

type c22CutInfo struct {
	file, chunk int // index of the file / chunk shortened by the match limit, -1 if none
	hadNL       bool
	clipped     int // requested trailing context lines the original chunk did not have (end of file)
}

// trunc is the reference: first d files, first m matches, last file cut at
// the limit; a cut chunk keeps its first ranges and consists of the lines
// from its unchanged first line to the end line of its last remaining range
// plus ctx lines (or end of file). ranked must be a private deep copy.
func (e *c22Env) trunc(ranked []zoekt.FileMatch, d, m int) ([]zoekt.FileMatch, c22CutInfo) {
	cut := c22CutInfo{file: -1, chunk: -1}
	files := ranked
	if d > 0 && len(files) > d {
		files = files[:d]
	}
	if m <= 0 {
		return files, cut
	}
	rem := m
	for i := range files {
		f := &files[i]
		n := c22NumMatches(f, e.chunk)
		if n < rem {
			rem -= n
			continue
		}
		// this file reaches the limit
		if e.chunk {
			for j := range f.ChunkMatches {
				cm := &f.ChunkMatches[j]
				if len(cm.Ranges) < rem {
					rem -= len(cm.Ranges)
					continue
				}
				if len(cm.Ranges) > rem {
					cut.file, cut.chunk = i, j
					cut.hadNL = bytes.HasSuffix(cm.Content, []byte("\n"))
					oldLast := int(cm.Ranges[len(cm.Ranges)-1].End.LineNumber)
					cm.Ranges = cm.Ranges[:rem]
					if cm.SymbolInfo != nil {
						cm.SymbolInfo = cm.SymbolInfo[:rem]
					}
					if !cm.FileName {
						doc, ok := e.docs[c22Key(f)]
						if !ok {
							panic("C22 harness: no document for " + c22Key(f))
						}
						first := int(cm.ContentStart.LineNumber)
						last := int(cm.Ranges[len(cm.Ranges)-1].End.LineNumber) + e.ctx
						// how many of the requested trailing context lines did the original chunk lack?
						origEnd := int(cm.ContentStart.ByteOffset) + len(cm.Content)
						cut.clipped = 0
						for k := 1; k <= e.ctx; k++ {
							if c22LineStart(doc, oldLast+k) >= len(doc) || c22LineStart(doc, oldLast+k) >= origEnd {
								cut.clipped++
							}
						}
						cm.Content = doc[c22LineStart(doc, first):c22LineStart(doc, last+1)]
					}
				}
				f.ChunkMatches = f.ChunkMatches[:j+1]
				break
			}
		} else {
			for j := range f.LineMatches {
				lm := &f.LineMatches[j]
				if len(lm.LineFragments) < rem {
					rem -= len(lm.LineFragments)
					continue
				}
				if len(lm.LineFragments) > rem {
					cut.file, cut.chunk = i, j
					lm.LineFragments = lm.LineFragments[:rem]
				}
				f.LineMatches = f.LineMatches[:j+1]
				break
			}
		}
		files = files[:i+1]
		break
	}
	return files, cut
}

type c22Diff struct {
	class  string // stable class of the disagreement ("" = equal)
	detail string
	// content is true when the only disagreement is the text of the one chunk
	// shortened by the match limit (files, order, ranges all agree)
	content bool
}

func c22Names(fs []zoekt.FileMatch, chunk bool) string {
	var p []string
	for i := range fs {
		p = append(p, fmt.Sprintf("%s(%g,%d)", fs[i].FileName, fs[i].Score, c22NumMatches(&fs[i], chunk)))
		if len(p) >= 14 {
			p = append(p, "…")
			break
		}
	}
	return "[" + strings.Join(p, " ") + "]"
}

func c22TrimNL(b []byte) []byte { return bytes.TrimSuffix(b, []byte("\n")) }

// c22SameLines: equal, or equal up to one final line terminator ("a\n" may be
// line "a" with its terminator or line "a" followed by an unterminated empty line).
func c22SameLines(a, b []byte) bool {
	if bytes.Equal(a, b) {
		return true
	}
	if len(a)+1 == len(b) {
		a, b = b, a
	}
	return len(a) == len(b)+1 && a[len(a)-1] == '\n' && bytes.Equal(a[:len(a)-1], b)
}

func c22CountLines(b []byte) int {
	if len(b) == 0 {
		return 0
	}
	return bytes.Count(c22TrimNL(b), []byte("\n")) + 1
}

// diff compares a limited result with the reference truncation.
func (e *c22Env) diff(got, want []zoekt.FileMatch, cut c22CutInfo, d, m int) c22Diff {
	var contentDiff c22Diff
	total := 0
	for i := range got {
		total += c22NumMatches(&got[i], e.chunk)
	}
	if d > 0 && len(got) > d {
		return c22Diff{class: "returns more files than the file limit", detail: fmt.Sprintf("limit %d, got %s", d, c22Names(got, e.chunk))}
	}
	if m > 0 && total > m {
		return c22Diff{class: "returns more matches than the match limit", detail: fmt.Sprintf("limit %d, got %d matches: %s", m, total, c22Names(got, e.chunk))}
	}
	for i := 0; i < len(got) && i < len(want); i++ {
		g, w := &got[i], &want[i]
		if c22Key(g) != c22Key(w) || g.Score != w.Score {
			return c22Diff{class: fmt.Sprintf("ranked prefix differs at position %d", i),
				detail: fmt.Sprintf("got %s\nwant %s", c22Names(got, e.chunk), c22Names(want, e.chunk))}
		}
	}
	if len(got) != len(want) {
		return c22Diff{class: fmt.Sprintf("number of files differs from the reference by %+d", len(got)-len(want)),
			detail: fmt.Sprintf("got %s\nwant %s", c22Names(got, e.chunk), c22Names(want, e.chunk))}
	}
	for i := range got {
		g, w := got[i], want[i]
		if gn, wn := c22NumMatches(&g, e.chunk), c22NumMatches(&w, e.chunk); gn != wn {
			return c22Diff{class: fmt.Sprintf("match count of file at position %d differs by %+d", i, gn-wn),
				detail: fmt.Sprintf("file %s: %d matches, reference %d\ngot %s\nwant %s", g.FileName, gn, wn, c22Names(got, e.chunk), c22Names(want, e.chunk))}
		}
		if len(g.ChunkMatches) != len(w.ChunkMatches) || len(g.LineMatches) != len(w.LineMatches) {
			return c22Diff{class: "number of chunk/line matches of a file differs", detail: fmt.Sprintf("file %s: %d/%d chunk/line matches, reference %d/%d", g.FileName, len(g.ChunkMatches), len(g.LineMatches), len(w.ChunkMatches), len(w.LineMatches))}
		}
		for j := range g.ChunkMatches {
			gc, wc := g.ChunkMatches[j], w.ChunkMatches[j]
			isCut := i == cut.file && j == cut.chunk
			if !reflect.DeepEqual(gc.Ranges, wc.Ranges) {
				return c22Diff{class: "ranges of a chunk differ from the leading ranges of the unlimited chunk", detail: fmt.Sprintf("file %s chunk %d: ranges %v, reference %v", g.FileName, j, gc.Ranges, wc.Ranges)}
			}
			if len(gc.SymbolInfo) != len(wc.SymbolInfo) {
				return c22Diff{class: "SymbolInfo length differs", detail: fmt.Sprintf("file %s chunk %d", g.FileName, j)}
			}
			if gc.ContentStart != wc.ContentStart {
				return c22Diff{class: "ContentStart of a chunk changed", detail: fmt.Sprintf("file %s chunk %d: %+v, reference %+v", g.FileName, j, gc.ContentStart, wc.ContentStart)}
			}
			same := bytes.Equal(gc.Content, wc.Content)
			if !same && isCut {
				// a missing or extra final line terminator is not judged
				same = c22SameLines(gc.Content, wc.Content)
			}
			if !same {
				if !isCut {
					return c22Diff{class: "content of a chunk that was not shortened changed", detail: fmt.Sprintf("file %s chunk %d: %q, reference %q", g.FileName, j, gc.Content, wc.Content)}
				}
				gl, wl := c22CountLines(gc.Content), c22CountLines(wc.Content)
				class := fmt.Sprintf("shortened chunk has %+d lines relative to remaining ranges + context (unlimited chunk newline-terminated=%v, cut short by end of file=%v)", gl-wl, cut.hadNL, cut.clipped > 0)
				if gl == wl || !bytes.HasPrefix(gc.Content, c22TrimNL(wc.Content)) && !bytes.HasPrefix(wc.Content, c22TrimNL(gc.Content)) {
					class = "shortened chunk content is not a line prefix of the unlimited chunk"
				}
				contentDiff = c22Diff{class: class, content: true, detail: fmt.Sprintf("file %s (%d context lines) chunk %d keeps %d ranges, last one ends on line %d; the unlimited chunk ended with a newline: %v, trailing context lines it lacked at end of file: %d\ncontent   %q\nreference %q",
					g.FileName, e.ctx, j, len(gc.Ranges), gc.Ranges[len(gc.Ranges)-1].End.LineNumber, cut.hadNL, cut.clipped, gc.Content, wc.Content)}
			}
			gc.Content, wc.Content, gc.Ranges, wc.Ranges, gc.SymbolInfo, wc.SymbolInfo = nil, nil, nil, nil, nil, nil
			if !reflect.DeepEqual(gc, wc) {
				return c22Diff{class: "other fields of a chunk changed", detail: fmt.Sprintf("file %s chunk %d: %+v, reference %+v", g.FileName, j, gc, wc)}
			}
		}
		if !reflect.DeepEqual(g.LineMatches, w.LineMatches) {
			return c22Diff{class: "line matches differ from the leading matches of the unlimited file", detail: fmt.Sprintf("file %s", g.FileName)}
		}
		g.ChunkMatches, w.ChunkMatches, g.LineMatches, w.LineMatches = nil, nil, nil, nil
		if !reflect.DeepEqual(g, w) {
			return c22Diff{class: "other fields of a file changed", detail: fmt.Sprintf("file %s: %+v, reference %+v", g.FileName, g, w)}
		}
	}
	return contentDiff
}

// ---------- reporting with one key per class ----------

type c22Reporter struct {
	r      *mc.Report
	mu     sync.Mutex
	counts map[string]int
}

func (rp *c22Reporter) violation(part, class, detail, caseID string) {
	key := "C22 " + part + ": " + class
	if strings.HasPrefix(class, "shortened chunk") {
		// the text of a shortened chunk is produced by one function whatever the path: one key for all parts
		key = "C22 " + class
		detail = "seen in part " + part + "\n" + detail
	}
	rp.mu.Lock()
	defer rp.mu.Unlock()
	rp.counts[key]++
	if rp.counts[key] == 1 {
		rp.r.Violation(key, "first (smallest) case of this class: "+caseID+"\n"+detail, map[string]any{"case": caseID})
	}
}

// ---------- shard helpers ----------

func c22Search(s zoekt.Searcher, q query.Q, opts zoekt.SearchOptions) (*zoekt.SearchResult, error) {
	o := opts
	return s.Search(context.Background(), q, &o)
}

// ---------- part A ----------

func c22PartA(r *mc.Report, rp *c22Reporter) {
	maxTok := 6
	if r.Thorough() {
		maxTok = 8
	}
	toks := gen.AllStrings([]string{"abc", "x", "\n"}, maxTok)
	// plus every sequence of up to four larger units, so that ranges of different height share a chunk
	for _, u := range gen.AllStrings([]string{"abc", "x\nabc", "x\n\nabc", "\n", "x\n"}, 4) {
		if strings.Count(u, "abc")+strings.Count(u, "x")+strings.Count(u, "\n") > maxTok {
			toks = append(toks, u)
		}
	}
	repo := &ref.Repo{Name: "ra", ID: 1, Branches: []string{"HEAD"}, Versions: []string{"v"}}
	docs := map[string][]byte{}
	for i, s := range toks {
		if !strings.Contains(s, "abc") {
			continue
		}
		name := fmt.Sprintf("d%05d.txt", i)
		repo.Docs = append(repo.Docs, &ref.Doc{Name: name, Content: []byte(s), Branches: []string{"HEAD"}})
		docs["ra/"+name] = []byte(s)
	}
	data, err := gen.BuildSimple(repo)
	if err != nil {
		r.Violation("C22 TOOL: build shard A", err.Error(), nil)
		return
	}
	s, err := index.NewSearcher(&gen.MemFile{Data: data, Nm: "c22a"})
	if err != nil {
		r.Violation("C22 TOOL: open shard A", err.Error(), nil)
		return
	}
	defer s.Close()
	r.Set("partA_documents", len(repo.Docs))
	queries := []query.Q{
		&query.Substring{Pattern: "abc", Content: true, CaseSensitive: true},
		&query.Substring{Pattern: "c\na", Content: true, CaseSensitive: true}, // ranges spanning two lines
	}
	if re, err := gen.Regexp("x\n+abc", true, false, true); err == nil {
		queries = append(queries, re) // ranges spanning two or more lines
	} else {
		r.Violation("C22 TOOL: regexp", err.Error(), nil)
	}
	type job struct {
		q     query.Q
		ctx   int
		chunk bool
	}
	var jobs []job
	for _, q := range queries {
		for ctx := 0; ctx <= 3; ctx++ {
			jobs = append(jobs, job{q, ctx, true})
		}
		jobs = append(jobs, job{q, 1, false})
	}
	for _, jb := range jobs {
		if r.Expired() {
			r.Incomplete("part A cut at %v", jb)
			return
		}
		env := &c22Env{docs: docs, ctx: jb.ctx, chunk: jb.chunk}
		res, err := c22Search(s, jb.q, zoekt.SearchOptions{ChunkMatches: jb.chunk, NumContextLines: jb.ctx})
		if err != nil {
			r.Violation("C22 TOOL: search A", err.Error(), nil)
			return
		}
		files := res.Files
		type aviol struct{ class, detail, caseID string }
		perFile := make([][]aviol, len(files))
		mc.ParallelFor(len(files), func(fi int) {
			orig := files[fi]
			total := c22NumMatches(&orig, jb.chunk)
			for m := 1; m <= total; m++ {
				caseID := fmt.Sprintf("A|%s|ctx=%d|chunk=%v|%s|m=%d", jb.q.String(), jb.ctx, jb.chunk, orig.FileName, m)
				if !r.Want(caseID) {
					continue
				}
				r.Eval(1)
				opts := &zoekt.SearchOptions{ChunkMatches: jb.chunk, NumContextLines: jb.ctx, MaxMatchDisplayCount: m}
				var got []zoekt.FileMatch
				func() {
					defer func() {
						if p := recover(); p != nil {
							perFile[fi] = append(perFile[fi], aviol{fmt.Sprintf("panic in the truncator: %v", p), fmt.Sprintf("document %q", docs[c22Key(&orig)]), caseID})
						}
					}()
					tr, _ := index.NewDisplayTruncator(opts)
					got, _ = tr([]zoekt.FileMatch{c22Copy(orig)})
				}()
				if got == nil {
					continue
				}
				want, cut := env.trunc([]zoekt.FileMatch{c22Copy(orig)}, 0, m)
				if cut.file >= 0 {
					r.Nontrivial(caseID)
				}
				if df := env.diff(got, want, cut, 0, m); df.class != "" {
					perFile[fi] = append(perFile[fi], aviol{df.class, fmt.Sprintf("document %q, query %s, match limit %d\n%s", docs[c22Key(&orig)], jb.q.String(), m, df.detail), caseID})
				}
			}
		})
		// fold in document order: the first case reported per class is the same in every run
		order := make([]int, len(files))
		for i := range order {
			order[i] = i
		}
		sort.Slice(order, func(a, b int) bool { return files[order[a]].FileName < files[order[b]].FileName })
		for _, fi := range order {
			for _, v := range perFile[fi] {
				rp.violation("A single file", v.class, v.detail, v.caseID)
			}
		}
		if len(files) > 3 {
			f := files[len(files)/2]
			r.Sample(map[string]any{"part": "A", "query": jb.q.String(), "context": jb.ctx, "chunk": jb.chunk, "files": len(files),
				"example_document": string(docs[c22Key(&f)]), "example_matches": c22NumMatches(&f, jb.chunk)})
		}
	}
}

// ---------- part B ----------

type c22PoolFile struct {
	name  string
	score float64
	shape int
}

var c22Shapes = []string{
	"head\nneedle one\ntail\n",                                  // 1 match
	"needle one\nmid\nneedle two\ntail1\ntail2\n",              // 2 matches, one chunk with 1 context line
	"needle\nneedle\nf1\nf2\nf3\nf4\nneedle end",                // 3 matches, two chunks, no final newline
	"a\nb\nneedle needle\nc\nneedle\nd",                        // 3 matches (two on one line), clipped context at EOF
}

func c22Pool(thorough bool) []c22PoolFile {
	p := []c22PoolFile{
		{"a.go", 100, 1},
		{"b.go", 85, 0},
		{"c.go", 80, 2},
		{"d.py", 79, 1},
		{"x.rb", 78, 0},
		{"e.py", 200, 3},
		{"g.go", 40, 2},
	}
	if thorough {
		p = append(p, c22PoolFile{"h.rb", 300, 1}, c22PoolFile{"i.py", 77, 3})
	}
	return p
}

// c22RealPool searches a real shard holding the pool documents and returns the
// FileMatches (index = pool id) with the pool's scores.
func c22RealPool(pool []c22PoolFile, chunk bool, ctx int) ([]zoekt.FileMatch, map[string][]byte, error) {
	repo := &ref.Repo{Name: "rb", ID: 2, Branches: []string{"HEAD"}, Versions: []string{"v"}}
	docs := map[string][]byte{}
	for _, pf := range pool {
		repo.Docs = append(repo.Docs, &ref.Doc{Name: pf.name, Content: []byte(c22Shapes[pf.shape]), Branches: []string{"HEAD"}})
		docs["rb/"+pf.name] = []byte(c22Shapes[pf.shape])
	}
	data, err := gen.BuildSimple(repo)
	if err != nil {
		return nil, nil, err
	}
	s, err := index.NewSearcher(&gen.MemFile{Data: data, Nm: "c22b"})
	if err != nil {
		return nil, nil, err
	}
	defer s.Close()
	res, err := c22Search(s, &query.Substring{Pattern: "needle", Content: true}, zoekt.SearchOptions{ChunkMatches: chunk, NumContextLines: ctx})
	if err != nil {
		return nil, nil, err
	}
	out := make([]zoekt.FileMatch, len(pool))
	for i, pf := range pool {
		found := false
		for _, f := range res.Files {
			if f.FileName == pf.name {
				f.Score = pf.score
				// detach from the shard's memory
				for k := range f.ChunkMatches {
					f.ChunkMatches[k].Content = append([]byte(nil), f.ChunkMatches[k].Content...)
				}
				out[i] = c22Copy(f)
				found = true
			}
		}
		if !found {
			return nil, nil, fmt.Errorf("pool file %s not returned by the search", pf.name)
		}
	}
	return out, docs, nil
}

// c22Event is a set of pool ids (bitmask). timer flush is the op -1.
const c22Timer = -1

type c22Pipe int

const (
	c22Collect       c22Pipe = iota // collectSender.Send*, Done: the Search path
	c22StreamDirect                 // newFlushCollectSender(FlushWallTime 0) + limitSender: StreamSearch pass-through
	c22StreamCollect                // newFlushCollectSender(FlushWallTime 1h) + limitSender, final flush
	c22StreamTimer                  // collectSender until the timer op, then Done -> limitSender, later events direct
)

func (p c22Pipe) String() string {
	return [...]string{"collectSender (Search)", "stream pass-through", "stream collected until final flush", "stream with timer flush"}[p]
}

type c22Rec struct{ files []zoekt.FileMatch }

func (c *c22Rec) Send(r *zoekt.SearchResult) { c.files = append(c.files, c22CopyAll(r.Files)...) }

func c22MkEvent(pool []zoekt.FileMatch, mask int, n int) *zoekt.SearchResult {
	var fs []zoekt.FileMatch
	for i := range pool {
		if mask&(1<<i) != 0 {
			fs = append(fs, c22Copy(pool[i]))
		}
	}
	index.SortFiles(fs) // sendByRepository ranks every event before sending it
	return &zoekt.SearchResult{Files: fs, Stats: zoekt.Stats{FileCount: len(fs)}, Progress: zoekt.Progress{Priority: float64(100 - n), MaxPendingPriority: float64(99 - n)},
		RepoURLs: map[string]string{"rb": ""}, LineFragments: map[string]string{"rb": ""}}
}

// c22RunPipe builds a fresh pipeline, replays the history and returns the files
// a caller of Search / a stream client ends up with, plus a projection of the
// pipeline state before the final Done/flush (for deduplication).
func c22RunPipe(pipe c22Pipe, pool []zoekt.FileMatch, hist []int, opts zoekt.SearchOptions, chunk bool) (out []zoekt.FileMatch, proj string) {
	o := opts
	project := func(fs []zoekt.FileMatch) string {
		var sb strings.Builder
		for i := range fs {
			fmt.Fprintf(&sb, "%s:%d ", fs[i].FileName, c22NumMatches(&fs[i], chunk))
		}
		return sb.String()
	}
	switch pipe {
	case c22Collect:
		cs := newCollectSender(&o)
		for n, ev := range hist {
			cs.Send(c22MkEvent(pool, ev, n))
		}
		if cs.aggregate != nil {
			proj = project(cs.aggregate.Files)
		}
		agg, ok := cs.Done()
		if ok {
			out = agg.Files
		}
		return out, proj
	case c22StreamDirect, c22StreamCollect:
		if pipe == c22StreamCollect {
			o.FlushWallTime = time.Hour
		} else {
			o.FlushWallTime = 0
		}
		rec := &c22Rec{}
		var sender zoekt.Sender = rec
		_, cancel := context.WithCancel(context.Background())
		defer cancel()
		if tr, has := index.NewDisplayTruncator(&o); has {
			sender = limitSender(cancel, sender, tr)
		}
		sender, flush := newFlushCollectSender(&o, sender)
		for n, ev := range hist {
			sender.Send(c22MkEvent(pool, ev, n))
		}
		proj = project(rec.files)
		flush()
		return rec.files, proj
	case c22StreamTimer:
		rec := &c22Rec{}
		var sender zoekt.Sender = rec
		_, cancel := context.WithCancel(context.Background())
		defer cancel()
		if tr, has := index.NewDisplayTruncator(&o); has {
			sender = limitSender(cancel, sender, tr)
		}
		cs := newCollectSender(&o)
		stop := func(reason zoekt.FlushReason) { // = stopCollectingAndFlush of newFlushCollectSender
			if cs == nil {
				return
			}
			if agg, ok := cs.Done(); ok {
				agg.FlushReason = reason
				sender.Send(agg)
			}
			cs = nil
		}
		for n, ev := range hist {
			switch {
			case ev == c22Timer:
				stop(zoekt.FlushReasonTimerExpired)
			case cs != nil:
				cs.Send(c22MkEvent(pool, ev, n))
			default:
				sender.Send(c22MkEvent(pool, ev, n))
			}
		}
		proj = "emitted " + project(rec.files)
		if cs != nil {
			proj = "collecting "
			if cs.aggregate != nil {
				proj += project(cs.aggregate.Files)
			}
		}
		stop(zoekt.FlushReasonFinalFlush)
		return rec.files, proj
	}
	return nil, ""
}

func c22HistName(pool []c22PoolFile, hist []int) string {
	var parts []string
	for _, ev := range hist {
		if ev == c22Timer {
			parts = append(parts, "TIMER")
			continue
		}
		var n []string
		for i := range pool {
			if ev&(1<<i) != 0 {
				n = append(n, pool[i].name)
			}
		}
		parts = append(parts, "{"+strings.Join(n, ",")+"}")
	}
	return strings.Join(parts, " ")
}

type c22Config struct {
	chunk bool
	d, m  int
}

func c22PartB(r *mc.Report, rp *c22Reporter) (states, transitions, traces int) {
	pool := c22Pool(r.Thorough())
	const ctx = 1
	maxEv := 2 // files per event
	if r.Thorough() {
		maxEv = 3
	}
	var events []int
	for mask := 1; mask < 1<<len(pool); mask++ {
		n := 0
		for b := mask; b != 0; b &= b - 1 {
			n++
		}
		if n <= maxEv {
			events = append(events, mask)
		}
	}
	r.Set("partB_pool_files", len(pool))
	r.Set("partB_event_alphabet", len(events)+1)
	var configs []c22Config
	for _, chunk := range []bool{true, false} {
		for d := 0; d <= 4; d++ {
			for m := 0; m <= 5; m++ {
				if d == 0 && m == 0 {
					continue
				}
				configs = append(configs, c22Config{chunk, d, m})
			}
		}
	}
	type poolData struct {
		files []zoekt.FileMatch
		env   *c22Env
	}
	pools := map[bool]poolData{}
	for _, chunk := range []bool{true, false} {
		fs, docs, err := c22RealPool(pool, chunk, ctx)
		if err != nil {
			r.Violation("C22 TOOL: pool", err.Error(), nil)
			return
		}
		pools[chunk] = poolData{fs, &c22Env{docs: docs, ctx: ctx, chunk: chunk}}
	}
	type task struct {
		pipe  c22Pipe
		cfg   c22Config
		depth int
	}
	depthCollect, depthTimer, depthWired := 4, 3, 2
	if r.Thorough() {
		depthCollect, depthTimer, depthWired = 5, 4, 2
	}
	var tasks []task
	for _, cfg := range configs {
		tasks = append(tasks, task{c22Collect, cfg, depthCollect}, task{c22StreamTimer, cfg, depthTimer},
			task{c22StreamDirect, cfg, depthWired}, task{c22StreamCollect, cfg, depthWired})
	}
	type tres struct {
		states, transitions, traces int
		cut                         bool
		viol                        []struct{ class, detail, caseID string }
		nontrivial                  []string
		sample                      map[string]any
	}
	results := make([]tres, len(tasks))
	mc.ParallelFor(len(tasks), func(ti int) {
		tk := tasks[ti]
		pd := pools[tk.cfg.chunk]
		tr := &results[ti]
		opts := zoekt.SearchOptions{ChunkMatches: tk.cfg.chunk, NumContextLines: ctx, MaxDocDisplayCount: tk.cfg.d, MaxMatchDisplayCount: tk.cfg.m}
		unl := zoekt.SearchOptions{ChunkMatches: tk.cfg.chunk, NumContextLines: ctx}
		seenViol := map[string]bool{}
		seen := map[string]bool{"": true}
		frontier := [][]int{nil}
		tr.states = 1
		for d := 1; d <= tk.depth && len(frontier) > 0; d++ {
			var next [][]int
			for _, h := range frontier {
				if r.Expired() {
					tr.cut = true
					return
				}
				used, timerUsed := 0, false
				for _, ev := range h {
					if ev == c22Timer {
						timerUsed = true
					} else {
						used |= ev
					}
				}
				ops := events
				if tk.pipe == c22StreamTimer && !timerUsed {
					ops = append([]int{c22Timer}, events...)
				}
				for _, ev := range ops {
					if ev != c22Timer && ev&used != 0 {
						continue
					}
					nh := append(append(make([]int, 0, len(h)+1), h...), ev)
					caseID := fmt.Sprintf("B|%d|%v|%d|%d|%s", tk.pipe, tk.cfg.chunk, tk.cfg.d, tk.cfg.m, c22HistName(pool, nh))
					if !r.Want(caseID) {
						continue
					}
					var got, ranked []zoekt.FileMatch
					var proj string
					var panicked any
					func() {
						defer func() { panicked = recover() }()
						got, proj = c22RunPipe(tk.pipe, pd.files, nh, opts, tk.cfg.chunk)
						ranked, _ = c22RunPipe(tk.pipe, pd.files, nh, unl, tk.cfg.chunk)
					}()
					tr.transitions++
					tr.traces += 2
					if panicked != nil {
						tr.viol = append(tr.viol, struct{ class, detail, caseID string }{fmt.Sprintf("panic: %v", panicked), "", caseID})
						continue
					}
					want, cut := pd.env.trunc(c22CopyAll(ranked), tk.cfg.d, tk.cfg.m)
					df := pd.env.diff(got, want, cut, tk.cfg.d, tk.cfg.m)
					if df.class != "" {
						if !seenViol[df.class] {
							seenViol[df.class] = true
							tr.viol = append(tr.viol, struct{ class, detail, caseID string }{df.class,
								fmt.Sprintf("pipeline: %s; %s mode, 1 context line, file limit %d, match limit %d\nevents: %s\nunlimited ranked result: %s\n%s",
									tk.pipe, map[bool]string{true: "chunk", false: "line"}[tk.cfg.chunk], tk.cfg.d, tk.cfg.m, c22HistName(pool, nh), c22Names(ranked, tk.cfg.chunk), df.detail), caseID})
						}
						if !df.content {
							continue // do not expand a state whose files/order/counts already disagree
						}
					}
					key := fmt.Sprintf("%x|%v|%s", used|max(ev, 0), timerUsed || ev == c22Timer, proj)
					if tk.pipe == c22StreamDirect || tk.pipe == c22StreamCollect {
						// the collecting sender lives inside a closure: no projection, no merging of histories
						key = c22HistName(pool, nh)
					}
					if len(got) < len(ranked) || cut.file >= 0 {
						tr.nontrivial = append(tr.nontrivial, fmt.Sprintf("%d|%v|%d|%d|%s", tk.pipe, tk.cfg.chunk, tk.cfg.d, tk.cfg.m, key))
					}
					if !seen[key] {
						seen[key] = true
						tr.states++
						next = append(next, nh)
						if tr.sample == nil && len(nh) == 3 && cut.file >= 0 {
							tr.sample = map[string]any{"part": "B", "pipeline": tk.pipe.String(), "chunk": tk.cfg.chunk, "file_limit": tk.cfg.d, "match_limit": tk.cfg.m,
								"events": c22HistName(pool, nh), "unlimited": c22Names(ranked, tk.cfg.chunk), "limited": c22Names(got, tk.cfg.chunk)}
						}
					}
				}
			}
			frontier = next
		}
	})
	cutAny := false
	for ti, tr := range results {
		states += tr.states
		transitions += tr.transitions
		traces += tr.traces
		r.Eval(tr.transitions)
		cutAny = cutAny || tr.cut
		for _, v := range tr.viol {
			rp.violation("B "+tasks[ti].pipe.String(), v.class, v.detail, v.caseID)
		}
		for _, k := range tr.nontrivial {
			r.Nontrivial(k)
		}
		if tr.sample != nil && ti%37 == 5 {
			r.Sample(tr.sample)
		}
	}
	if cutAny {
		r.Incomplete("part B: budget exhausted before every (pipeline, limits) search finished")
	}
	r.Set("partB_depth", map[string]int{"collectSender": depthCollect, "timer": depthTimer, "real_stream_wiring": depthWired})
	return states, transitions, traces
}

// c22ReplayB re-runs exactly one part B case: "B|pipe|chunk|d|m|events".
func c22ReplayB(r *mc.Report, rp *c22Reporter, caseID string) {
	f := strings.SplitN(caseID, "|", 6)
	if len(f) != 6 {
		r.Violation("C22 TOOL: bad replay case", caseID, nil)
		return
	}
	var pipe, d, m int
	fmt.Sscan(f[1], &pipe)
	fmt.Sscan(f[3], &d)
	fmt.Sscan(f[4], &m)
	chunk := f[2] == "true"
	pool := c22Pool(true)
	var hist []int
	for _, tok := range strings.Fields(f[5]) {
		if tok == "TIMER" {
			hist = append(hist, c22Timer)
			continue
		}
		mask := 0
		for _, n := range strings.Split(strings.Trim(tok, "{}"), ",") {
			for i := range pool {
				if pool[i].name == n {
					mask |= 1 << i
				}
			}
		}
		hist = append(hist, mask)
	}
	files, docs, err := c22RealPool(pool, chunk, 1)
	if err != nil {
		r.Violation("C22 TOOL: pool", err.Error(), nil)
		return
	}
	env := &c22Env{docs: docs, ctx: 1, chunk: chunk}
	opts := zoekt.SearchOptions{ChunkMatches: chunk, NumContextLines: 1, MaxDocDisplayCount: d, MaxMatchDisplayCount: m}
	got, _ := c22RunPipe(c22Pipe(pipe), files, hist, opts, chunk)
	ranked, _ := c22RunPipe(c22Pipe(pipe), files, hist, zoekt.SearchOptions{ChunkMatches: chunk, NumContextLines: 1}, chunk)
	r.Eval(1)
	want, cut := env.trunc(c22CopyAll(ranked), d, m)
	if df := env.diff(got, want, cut, d, m); df.class != "" {
		rp.violation("B "+c22Pipe(pipe).String(), df.class, fmt.Sprintf("events: %s\nunlimited ranked result: %s\n%s", c22HistName(pool, hist), c22Names(ranked, chunk), df.detail), caseID)
	}
}

// ---------- tie family ----------

func c22Ties(r *mc.Report, rp *c22Reporter) (runs int) {
	// five files, same extension, same document shape; three of them tie.
	pool := []c22PoolFile{{"t1.go", 100, 1}, {"t2.go", 90, 1}, {"t3.go", 90, 1}, {"t4.go", 90, 1}, {"t5.go", 50, 1}}
	for _, chunk := range []bool{true, false} {
		files, docs, err := c22RealPool(pool, chunk, 1)
		if err != nil {
			r.Violation("C22 TOOL: tie pool", err.Error(), nil)
			return
		}
		env := &c22Env{docs: docs, ctx: 1, chunk: chunk}
		// every ordered partition of the five files into at most three events (3^5 assignments)
		for assign := 0; assign < 243; assign++ {
			ev := [3]int{}
			a := assign
			for i := 0; i < 5; i++ {
				ev[a%3] |= 1 << i
				a /= 3
			}
			var hist []int
			for _, e := range ev {
				if e != 0 {
					hist = append(hist, e)
				}
			}
			for d := 0; d <= 4; d++ {
				for m := 0; m <= 5; m++ {
					if d == 0 && m == 0 {
						continue
					}
					for _, pipe := range []c22Pipe{c22Collect, c22StreamDirect, c22StreamCollect} {
						caseID := fmt.Sprintf("T|%d|%v|%d|%d|%s", pipe, chunk, d, m, c22HistName(pool, hist))
						if !r.Want(caseID) {
							continue
						}
						runs++
						r.Eval(1)
						opts := zoekt.SearchOptions{ChunkMatches: chunk, NumContextLines: 1, MaxDocDisplayCount: d, MaxMatchDisplayCount: m}
						got, _ := c22RunPipe(pipe, files, hist, opts, chunk)
						ranked, _ := c22RunPipe(pipe, files, hist, zoekt.SearchOptions{ChunkMatches: chunk, NumContextLines: 1}, chunk)
						want, _ := env.trunc(c22CopyAll(ranked), d, m)
						// tied files are exchangeable: compare (score, matches) sequences and membership
						shape := func(fs []zoekt.FileMatch) string {
							var sb strings.Builder
							for i := range fs {
								fmt.Fprintf(&sb, "%g/%d ", fs[i].Score, c22NumMatches(&fs[i], chunk))
							}
							return sb.String()
						}
						seenName := map[string]bool{}
						dup := false
						for i := range got {
							dup = dup || seenName[got[i].FileName]
							seenName[got[i].FileName] = true
						}
						if shape(got) != shape(want) || dup {
							rp.violation("tie family "+pipe.String(), "score/match-count sequence differs from the reference (ties exchangeable)",
								fmt.Sprintf("events %s, file limit %d, match limit %d, chunk=%v\ngot %s\nwant %s", c22HistName(pool, hist), d, m, chunk, c22Names(got, chunk), c22Names(want, chunk)), caseID)
						}
					}
				}
			}
		}
	}
	return runs
}

// ---------- part C ----------

type c22StreamRec struct{ files []zoekt.FileMatch }

func (c *c22StreamRec) Send(r *zoekt.SearchResult) { c.files = append(c.files, r.Files...) }

func c22PartC(r *mc.Report, rp *c22Reporter) (runs int) {
	prev := runtime.GOMAXPROCS(1) // one worker: shards are searched and delivered in rank order
	defer runtime.GOMAXPROCS(prev)
	dir, clean := gen.Scratch("c22")
	defer clean()
	docs := map[string][]byte{}
	exts := []string{".go", ".py", ".rb", ".txt"}
	toks := gen.AllStrings([]string{"abc", "x", "\n"}, 5)
	for ri := 0; ri < 3; ri++ {
		// distinct repository ranks: no two files of the corpus score the same
		repo := &ref.Repo{Name: fmt.Sprintf("rc%d", ri), ID: uint32(10 + ri), Branches: []string{"HEAD"}, Versions: []string{"v"},
			RawConfig: map[string]string{"priority": fmt.Sprint(100 * (ri + 1))}}
		n := 0
		for i, s := range toks {
			if !strings.Contains(s, "abc") || (i+ri)%3 != 0 {
				continue
			}
			content := s + strings.Repeat("\npad", ri)
			name := fmt.Sprintf("f%04d%s", i, exts[(i/3+ri)%len(exts)])
			repo.Docs = append(repo.Docs, &ref.Doc{Name: name, Content: []byte(content), Branches: []string{"HEAD"}})
			docs[repo.Name+"/"+name] = []byte(content)
			n++
		}
		if _, err := gen.WriteSimple(dir, repo); err != nil {
			r.Violation("C22 TOOL: write shard C", err.Error(), nil)
			return
		}
	}
	ss, err := NewDirectorySearcher(dir)
	if err != nil {
		r.Violation("C22 TOOL: open directory searcher", err.Error(), nil)
		return
	}
	defer ss.Close()
	r.Set("partC_documents", len(docs))
	queries := []query.Q{
		&query.Substring{Pattern: "abc", Content: true, CaseSensitive: true},
		&query.Substring{Pattern: "c\na", Content: true, CaseSensitive: true},
		&query.And{Children: []query.Q{&query.Substring{Pattern: "abc", Content: true, CaseSensitive: true}, &query.Substring{Pattern: ".py", FileName: true}}},
	}
	limits := [][2]int{{1, 0}, {2, 0}, {3, 0}, {5, 0}, {0, 1}, {0, 2}, {0, 3}, {0, 4}, {0, 5}, {0, 7}, {0, 20}, {3, 4}, {4, 3}, {2, 50}, {40, 45}}
	if r.Thorough() {
		for d := 0; d <= 6; d++ {
			for m := 0; m <= 12; m++ {
				if d+m > 0 {
					limits = append(limits, [2]int{d, m})
				}
			}
		}
	}
	apis := []string{"Search", "StreamSearch flush=0", "StreamSearch flush=1h"}
	run := func(api string, q query.Q, o zoekt.SearchOptions) ([]zoekt.FileMatch, error) {
		switch api {
		case "Search":
			res, err := ss.Search(context.Background(), q, &o)
			if err != nil {
				return nil, err
			}
			return res.Files, nil
		default:
			if strings.HasSuffix(api, "1h") {
				o.FlushWallTime = time.Hour
			}
			rec := &c22StreamRec{}
			err := ss.StreamSearch(context.Background(), q, &o, rec)
			return rec.files, err
		}
	}
	for _, q := range queries {
		for _, chunk := range []bool{true, false} {
			for ctx := 0; ctx <= 2; ctx++ {
				env := &c22Env{docs: docs, ctx: ctx, chunk: chunk}
				for _, api := range apis {
					if r.Expired() {
						r.Incomplete("part C cut at query %s", q.String())
						return runs
					}
					base := zoekt.SearchOptions{ChunkMatches: chunk, NumContextLines: ctx}
					ranked, err := run(api, q, base)
					runs++
					if err != nil {
						r.Violation("C22 TOOL: e2e search", err.Error(), nil)
						return runs
					}
					distinct := true
					sc := map[float64]bool{}
					for i := range ranked {
						if sc[ranked[i].Score] {
							distinct = false
						}
						sc[ranked[i].Score] = true
					}
					if !distinct {
						r.Note("part C: %s %s chunk=%v ctx=%d has tied scores; order-sensitive comparison skipped for it", api, q.String(), chunk, ctx)
						continue
					}
					for _, lim := range limits {
						caseID := fmt.Sprintf("C|%s|%s|%v|%d|%d|%d", api, q.String(), chunk, ctx, lim[0], lim[1])
						if !r.Want(caseID) {
							continue
						}
						o := base
						o.MaxDocDisplayCount, o.MaxMatchDisplayCount = lim[0], lim[1]
						got, err := run(api, q, o)
						runs++
						r.Eval(1)
						if err != nil {
							rp.violation("C "+api, "search with display limits returned an error", err.Error(), caseID)
							continue
						}
						want, cut := env.trunc(c22CopyAll(ranked), lim[0], lim[1])
						if len(want) < len(ranked) {
							r.Nontrivial(caseID)
						}
						if df := env.diff(got, want, cut, lim[0], lim[1]); df.class != "" {
							rp.violation("C "+api, df.class, fmt.Sprintf("query %s, chunk=%v, %d context lines, file limit %d, match limit %d, %d files unlimited\n%s", q.String(), chunk, ctx, lim[0], lim[1], len(ranked), df.detail), caseID)
						}
						if runs%211 == 7 {
							r.Sample(map[string]any{"part": "C", "api": api, "query": q.String(), "chunk": chunk, "context": ctx, "file_limit": lim[0], "match_limit": lim[1],
								"unlimited_files": len(ranked), "limited": c22Names(got, chunk)})
						}
					}
				}
			}
		}
	}
	return runs
}

func TestVerifC22(t *testing.T) {
	r := mc.NewReport("C22")
	rp := &c22Reporter{r: r, counts: map[string]int{}}
	part := ""
	if r.Replaying() {
		part = strings.SplitN(os.Getenv("VERIF_REPLAY_CASE"), "|", 2)[0]
	}
	states, transitions, traces := 0, 0, 0
	if part == "" || part == "A" {
		c22PartA(r, rp)
	}
	if part == "B" {
		c22ReplayB(r, rp, os.Getenv("VERIF_REPLAY_CASE"))
	}
	if part == "" {
		states, transitions, traces = c22PartB(r, rp)
	}
	if part == "" || part == "T" {
		n := c22Ties(r, rp)
		traces += 2 * n
		r.Set("tie_family_runs", n)
	}
	if part == "" || part == "C" {
		n := c22PartC(r, rp)
		traces += n
		r.Set("end_to_end_searches", n)
	}
	r.Set("states", states)
	r.Set("transitions", transitions)
	r.Set("traces_validated_against_impl", traces)
	var classes []string
	for k, n := range rp.counts {
		classes = append(classes, fmt.Sprintf("%s (%d cases)", k, n))
	}
	sort.Strings(classes)
	if len(classes) > 0 {
		r.Set("violating_cases_per_class", classes)
	}
	r.Assume("the unlimited ranked result is what the same pipeline returns for the same events / the same search without display limits")
	r.Assume("a shortened chunk is compared with the document lines [first line of the chunk, end line of the last remaining range + context] ; a missing or extra final line terminator is not judged")
	r.Assume("scores are pairwise distinct in parts A-C; ties are judged separately with exchangeable tied files")
	r.Assume("the timer of newFlushCollectSender is not fired inside the real closure (FlushWallTime 0 and 1h are); the timer flush at every position is replayed with the same steps on the real collectSender and limitSender")
	r.Finish("A: every document over tokens {abc,x,newline} x 2 queries x context 0-3 x every match limit on the real truncator; B: BFS over event histories (events = subsets of a pool of real FileMatches, optional timer flush) for every pipeline x mode x file limit 0-4 x match limit 0-5, each history replayed on a fresh pipeline with and without limits; C: Search/StreamSearch on a real 3-shard directory searcher; non-trivial = the limit removed files or shortened a chunk/line match")
}
