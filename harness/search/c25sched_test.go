//go:build verif

package search

// C25 (second part): the flush of collected results against concurrent arrivals and the final flush.
//
// newFlushCollectSender collects shard results until FlushWallTime and then switches to
// pass-through; the switch (stopCollectingAndFlush) runs on a timer goroutine while shard results
// keep arriving and while the search may end (final flush). search/aggregate.go is compiled
// against the vsync shim, so its mutex operations are scheduling points; the downstream stream has
// scheduling points inside Send. The timer is played by a second controlled thread that calls the
// returned flush function (the same stopCollectingAndFlush closure the timer goroutine calls, with
// another reason label; the real timer is set to one hour and never fires).
//
// Explored: producer sends n in {0,1,2,3} events and then does the final flush; the timer thread
// flushes at any moment; all interleavings (unbounded preemptions, visited-state pruning).
// Oracle: Send calls on the downstream stream never overlap (a gRPC stream is not safe for
// concurrent sends); when the producer's final flush has returned every file it sent has been
// delivered completely (after that the RPC ends and later sends are lost); at the end every file
// was delivered exactly once and the statistics add up.

import (
	"fmt"
	"sort"
	"strings"
	"testing"
	"time"

	"github.com/sourcegraph/zoekt"
	"github.com/sourcegraph/zoekt/internal/verifshim/mc"
)

type c25Down struct {
	e        *mc.Exec
	inSend   int
	files    []string
	stats    zoekt.Stats
	sends    int
	overlap  bool
	complete map[string]bool
}

func (d *c25Down) Send(r *zoekt.SearchResult) {
	d.inSend++
	if d.inSend > 1 && !d.overlap {
		d.overlap = true
		d.e.Fail("two Send calls on the downstream stream overlap")
	}
	d.e.Point("stream.Send:begin", "down", nil)
	for _, f := range r.Files {
		d.files = append(d.files, f.FileName)
	}
	d.stats.Add(r.Stats)
	d.sends++
	d.e.Point("stream.Send:end", "down", nil)
	for _, f := range r.Files {
		d.complete[f.FileName] = true
	}
	d.inSend--
}

func TestVerifC25Sched(t *testing.T) {
	r := mc.NewReport("C25")
	outcomes := map[string]bool{}
	for n := 0; n <= 3; n++ {
		for _, timers := range []int{1, 2} {
			n, timers := n, timers
			name := fmt.Sprintf("flush: producer sends %d events then final flush || %d timer flush(es)", n, timers)
			if !r.Want(name) {
				continue
			}
			var d *c25Down
			var sent []string
			cfg := &mc.SchedConfig{Name: name, Bound: -1, Horizon: 400}
			cfg.Setup = func(e *mc.Exec) {
				d = &c25Down{e: e, complete: map[string]bool{}}
				sent = nil
				opts := &zoekt.SearchOptions{FlushWallTime: time.Hour}
				fs, flush := newFlushCollectSender(opts, d)
				e.Go("producer", func() {
					for i := 0; i < n; i++ {
						fn := fmt.Sprintf("f%d", i)
						sent = append(sent, fn)
						fs.Send(&zoekt.SearchResult{
							Files: []zoekt.FileMatch{{FileName: fn, Repository: "r", Score: float64(10 - i)}},
							Stats: zoekt.Stats{FileCount: 1, MatchCount: i + 1, FilesConsidered: 2},
						})
					}
					flush()
					for _, fn := range sent {
						if !d.complete[fn] {
							e.Fail("the final flush returned before %s was delivered (the stream ends now; the collected results are lost)", fn)
							break
						}
					}
				})
				for k := 0; k < timers; k++ {
					e.Go(fmt.Sprintf("timer%d", k), func() { flush() })
				}
			}
			cfg.StateKey = func(e *mc.Exec) string {
				return fmt.Sprintf("%v|%d|%d|%v|%d", d.files, d.inSend, d.sends, len(d.complete), len(e.Violations()))
			}
			cfg.Check = func(e *mc.Exec) {
				got := append([]string{}, d.files...)
				sort.Strings(got)
				want := append([]string{}, sent...)
				sort.Strings(want)
				if strings.Join(got, ",") != strings.Join(want, ",") {
					e.Fail("files delivered %v, files sent %v", d.files, sent)
				}
				wantMatches := 0
				for i := range sent {
					wantMatches += i + 1
				}
				if d.stats.FileCount != len(sent) || d.stats.MatchCount != wantMatches || d.stats.FilesConsidered != 2*len(sent) {
					e.Fail("statistics delivered %+v do not add up to the %d events sent", d.stats, len(sent))
				}
			}
			cfg.OnExec = func(e *mc.Exec) {
				outcomes[fmt.Sprintf("%s|%v|sends=%d", name, d.files, d.sends)] = true
			}
			cfg.Stop = r.Expired
			res := mc.Explore(cfg)
			r.SchedReport(name, res)
			r.Nontrivial(name)
			r.Sample(map[string]any{"scenario": name, "executions": res.Execs, "states": res.States, "max_points": res.MaxPoints})
		}
	}
	r.Set("distinct_delivery_orders_observed", len(outcomes))
	r.Assume("the timer goroutine is represented by a controlled thread that calls the same flush closure (reason label differs); the real timer (1 h) never fires")
	r.Assume("a downstream stream must not see overlapping Send calls (grpc.ServerStream.SendMsg is not safe for concurrent use)")
	r.Finish("all interleavings (unbounded preemptions, visited-state pruning) of a producer (n <= 3 events, then final flush) with 1-2 timer flushes over the real newFlushCollectSender with its mutex under the controlled scheduler; oracle: no overlapping downstream Send, nothing undelivered when the final flush returns, every file once, statistics conserved")
}
