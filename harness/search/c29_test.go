//go:build verif

package search_test

import (
	"context"
	"fmt"
	"math"
	"os"
	"path"
	"path/filepath"
	"strings"
	"testing"

	"github.com/sourcegraph/zoekt"
	"github.com/sourcegraph/zoekt/internal/verifshim/gen"
	"github.com/sourcegraph/zoekt/internal/verifshim/mc"
	"github.com/sourcegraph/zoekt/internal/verifshim/ref"
	"github.com/sourcegraph/zoekt/query"
	"github.com/sourcegraph/zoekt/search"
)

// C29: ranking is deterministic, finite and ordered.

func c29Corpus() []*ref.Repo {
	var out []*ref.Repo
	exts := []string{"go", "py", "md", "go", "txt", "go", "js", "py"}
	for ri, name := range []string{"rank/high", "rank/mid", "rank/low"} {
		r := &ref.Repo{Name: name, ID: uint32(ri + 1), Branches: []string{"HEAD"}, RawConfig: map[string]string{"priority": fmt.Sprint(30 - 10*ri)}}
		for i := 0; i < 8; i++ {
			n := fmt.Sprintf("src/file%d.%s", i, exts[i])
			switch i {
			case 3:
				n = "src/file3_test.go"
			case 5:
				n = "vendor/lib/file5.go"
			}
			words := []string{"foo", "bar", "baz", "foo bar", "foo\nfoo baz", "func foo() bar", "foofoo barbar", "baz baz baz foo"}
			content := fmt.Sprintf("package p%d\n%s\n// filler %s\n%s\n", i, words[i], strings.Repeat("x ", i+ri), words[(i+ri)%8])
			d := &ref.Doc{Name: n, Content: []byte(content), Branches: []string{"HEAD"}}
			if idx := strings.Index(content, "foo"); idx >= 0 && i%2 == 1 {
				d.Symbols = [][2]int{{idx, idx + 3}}
			}
			r.Docs = append(r.Docs, d)
		}
		out = append(out, r)
	}
	return out
}

func TestVerifC29(t *testing.T) {
	r := mc.NewReport("C29")
	root, clean := gen.Scratch("c29")
	defer clean()
	type set struct {
		name string
		ds   zoekt.Streamer
	}
	var sets []set
	mk := func(name string, layout func(dir string) error) {
		dir := filepath.Join(root, name)
		os.MkdirAll(dir, 0o755)
		if err := layout(dir); err != nil {
			t.Fatal(err)
		}
		ds, err := search.NewDirectorySearcher(dir)
		if err != nil {
			t.Fatal(err)
		}
		sets = append(sets, set{name, ds})
	}
	mk("one-shard", func(d string) error { _, err := gen.WriteSimple(d, c29Corpus()[0]); return err })
	mk("three-shards", func(d string) error {
		for _, rp := range c29Corpus() {
			if _, err := gen.WriteSimple(d, rp); err != nil {
				return err
			}
		}
		return nil
	})
	mk("compound+simple", func(d string) error {
		c := c29Corpus()
		if _, err := gen.WriteCompound(d, c[0], c[1]); err != nil {
			return err
		}
		_, err := gen.WriteSimple(d, c[2])
		return err
	})
	// degenerate shards: every document empty (average length 0), a single document, empty and
	// non-empty mixed, identical documents (ties everywhere), one very long document with thousands
	// of occurrences beside tiny ones (extreme length ratios and term frequencies)
	deg := func(name string, contents ...string) *ref.Repo {
		rp := &ref.Repo{Name: "deg/" + name, ID: 50, Branches: []string{"HEAD"}}
		for i, c := range contents {
			rp.Docs = append(rp.Docs, &ref.Doc{Name: fmt.Sprintf("foo/bar%d_file.go", i), Content: []byte(c), Branches: []string{"HEAD"}})
		}
		return rp
	}
	for _, rp := range []*ref.Repo{
		deg("all-empty", "", "", "", "", ""),
		deg("one-empty", ""),
		deg("one-doc", "package p\nfoo bar baz\n"),
		deg("mixed-empty", "", "foo bar", "", "package baz foo\nfoo", ""),
		deg("ties", "foo bar baz\n", "foo bar baz\n", "foo bar baz\n", "foo bar baz\n", "foo bar baz\n", "foo bar baz\n"),
		deg("long", strings.Repeat("foo bar\n", 20000), "foo", "bar baz", "package p\nfunc foo() {}\n", ""),
		// one line matching five query terms with different frequencies (a per-line score is a sum over terms)
		deg("manyterms", "foo foo foo bar baz baz func package package package package\nfoo bar\n", "package func baz baz baz baz baz foo\n", "bar bar foo func func func\n", "nothing\n"),
	} {
		rp := rp
		mk(strings.TrimPrefix(rp.Name, "deg/"), func(d string) error { _, err := gen.WriteSimple(d, rp); return err })
	}
	defer func() {
		for _, s := range sets {
			s.ds.Close()
		}
	}()
	sub := func(p string) query.Q { return &query.Substring{Pattern: p} }
	csub := func(p string) query.Q { return &query.Substring{Pattern: p, Content: true} }
	re := func(p string) query.Q {
		x, err := gen.Regexp(p, true, false, true)
		if err != nil {
			panic(err)
		}
		return x
	}
	qs := []query.Q{
		sub("foo"), sub("bar"), csub("baz"), sub("file"), csub("package"), re("fo+"), re(`\bfoo\b`), re("ba[rz]"),
		&query.Or{Children: []query.Q{csub("foo"), csub("bar"), csub("baz")}},
		&query.Or{Children: []query.Q{csub("foo"), csub("bar"), csub("baz"), csub("func"), csub("package")}},
		&query.And{Children: []query.Q{csub("foo"), csub("bar")}},
		&query.And{Children: []query.Q{csub("foo"), &query.Not{Child: csub("baz")}}},
		&query.Or{Children: []query.Q{&query.Boost{Boost: 3, Child: csub("bar")}, csub("foo")}},
		&query.Boost{Boost: 0.1, Child: csub("foo")},
		&query.Symbol{Expr: csub("foo")},
		&query.Or{Children: []query.Q{&query.Symbol{Expr: csub("foo")}, csub("baz")}},
		&query.And{Children: []query.Q{sub("foo"), &query.Language{Language: "Go"}}},
		&query.Const{Value: true},
		&query.Type{Type: query.TypeFileName, Child: csub("foo")},
	}
	ctx := context.Background()
	for _, s := range sets {
		s := s
		mc.ParallelFor(len(qs), func(qi int) {
			q := qs[qi]
			for _, bm25 := range []bool{false, true} {
				for _, chunk := range []bool{false, true} {
					// display limit: none / configured but never reached (collectSender's ranking must not depend
					// on whether truncation was needed). A limit that is reached is C22's subject: which file
					// ends up third then depends on shard arrival order (known finding of C22).
					for _, disp := range []int{0, 1000} {
						caseID := fmt.Sprintf("%s|bm25=%v chunk=%v|%s", s.name, bm25, chunk, gen.Key(q))
						if disp != 0 {
							caseID = fmt.Sprintf("%s|bm25=%v chunk=%v maxdocs=%d|%s", s.name, bm25, chunk, disp, gen.Key(q))
						}
						if !r.Want(caseID) {
							continue
						}
						bad := func(kind, format string, a ...any) {
							r.Violation(kind+": "+caseID, fmt.Sprintf("%s\nquery %s\n%s", caseID, q, fmt.Sprintf(format, a...)), map[string]any{"case": caseID})
						}
						run := func(debug bool) *zoekt.SearchResult {
							o := zoekt.SearchOptions{ShardMaxMatchCount: 1 << 30, TotalMaxMatchCount: 1 << 30, UseBM25Scoring: bm25, ChunkMatches: chunk, DebugScore: debug, MaxDocDisplayCount: disp}
							res, err := s.ds.Search(ctx, q, &o)
							r.Eval(1)
							if err != nil {
								bad("search failed", "%v", err)
								return nil
							}
							return res
						}
						seq := func(res *zoekt.SearchResult) (scores []float64, byFile map[string]string) {
							byFile = map[string]string{}
							for _, f := range res.Files {
								scores = append(scores, f.Score)
								var ms []string
								for _, m := range f.LineMatches {
									ms = append(ms, fmt.Sprintf("L%d=%v", m.LineNumber, m.Score))
								}
								for _, m := range f.ChunkMatches {
									ms = append(ms, fmt.Sprintf("C%d=%v", m.ContentStart.ByteOffset, m.Score))
								}
								byFile[f.Repository+"/"+f.FileName] = fmt.Sprintf("%v %v", f.Score, ms)
							}
							return
						}
						base := run(false)
						if base == nil {
							continue
						}
						bs, bf := seq(base)
						// finite, ordered
						for i, f := range base.Files {
							if math.IsNaN(f.Score) || math.IsInf(f.Score, 0) {
								bad("non-finite score", "file %s score %v", f.FileName, f.Score)
							}
							prev := math.Inf(1)
							for _, m := range f.LineMatches {
								if math.IsNaN(m.Score) || math.IsInf(m.Score, 0) {
									bad("non-finite score", "file %s line %d score %v", f.FileName, m.LineNumber, m.Score)
								}
								if m.Score > prev {
									bad("matches not ordered by score", "file %s: line match score %v after %v", f.FileName, m.Score, prev)
								}
								prev = m.Score
							}
							prev = math.Inf(1)
							for _, m := range f.ChunkMatches {
								if math.IsNaN(m.Score) || math.IsInf(m.Score, 0) {
									bad("non-finite score", "file %s chunk score %v", f.FileName, m.Score)
								}
								if m.Score > prev {
									bad("matches not ordered by score", "file %s: chunk score %v after %v", f.FileName, m.Score, prev)
								}
								prev = m.Score
							}
							_ = i
						}
						// files non-increasing except the documented promotion into third place
						rest := append([]zoekt.FileMatch{}, base.Files...)
						if len(rest) > 3 && rest[2].Score < rest[3].Score {
							p := rest[2]
							e := path.Ext(p.FileName)
							if e == path.Ext(rest[0].FileName) || e == path.Ext(rest[1].FileName) {
								bad("promotion without novel extension", "third file %s (score %v) precedes %s (score %v) but its extension is already in the top two", p.FileName, p.Score, rest[3].FileName, rest[3].Score)
							}
							if p.Score < 0.9*rest[3].Score {
								bad("promotion of a much lower score", "third file %s score %v < 0.9 × %v", p.FileName, p.Score, rest[3].Score)
							}
							rest = append(rest[:2:2], rest[3:]...)
						}
						for i := 1; i < len(rest); i++ {
							if rest[i].Score > rest[i-1].Score {
								bad("files not ordered by score", "file %s (score %v) after %s (score %v)", rest[i].FileName, rest[i].Score, rest[i-1].FileName, rest[i-1].Score)
								break
							}
						}
						// debug on == off
						if dbg := run(true); dbg != nil {
							ds, df := seq(dbg)
							if fmt.Sprint(ds) != fmt.Sprint(bs) || fmt.Sprint(df) != fmt.Sprint(bf) {
								bad("debug scoring changes scores or order", "scores without debug %v\nwith debug          %v", bs, ds)
							}
						}
						// repetition (witness search over runtime map order)
						reps := 6
						if bm25 {
							reps = 24 // BM25 sums per-term contributions: more chances for an order-dependent sum to show
						}
						for rep := 0; rep < reps; rep++ {
							again := run(false)
							if again == nil {
								break
							}
							as, af := seq(again)
							if fmt.Sprint(as) != fmt.Sprint(bs) || fmt.Sprint(af) != fmt.Sprint(bf) {
								bad("ranking not deterministic", "run 1 scores %v\nrun %d scores %v\nfiles1 %v\nfiles%d %v", bs, rep+2, as, bf, rep+2, af)
								break
							}
						}
						if len(base.Files) > 3 {
							r.Nontrivial(caseID)
						}
						if qi == 0 {
							r.Sample(map[string]any{"case": caseID, "scores": bs})
						}
					}
				}
			}
		})
	}
	r.Assume("repeat-run determinism is a witness search over runtime map iteration order (8 runs per case), not an enumeration")
	r.Finish("case = (1 shard | 3 shards | compound+simple) × 19 queries (single/multi atom, boosts, symbols, regexps, filters) × {default, BM25} × {line, chunk} × MaxDocDisplayCount {none, 1000 (never reached)}; per case: scores finite, matches non-increasing, files non-increasing except the documented third-place promotion (novel extension, >= 0.9 of the displaced score), debug on == off, 7 repetitions identical; non-trivial = more than 3 files returned")
}
