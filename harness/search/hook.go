//go:build verif

package search

// VerifHook, when set by a harness, is called at the points where check.py inserted
// verifHook(...) lines into search/shards.go (between the end of shard streaming and the
// copying of results, where no callback of the public API runs).
var VerifHook func(point string)

func verifHook(point string) {
	if h := VerifHook; h != nil {
		h(point)
	}
}
